//! C06 — correspondence cases for the Lean model `Rooc/Pre/Expand.lean`: the aggregation folds of
//! `into_exp` (through small programs whose data is literal), `range`, `enumerate`, `zip`, the set
//! functions (through the names of quantified constraints), `flatten_compound_variable` and
//! `IterableKind::read` (direct calls).
use crate::case::Case;
use crate::rng::Rng;
use crate::sx;
use indexmap::IndexMap;
use rooc::model_transformer::TransformerContext;
use rooc::{GraphNode, IterableKind, Primitive, RoocParser};
use std::panic::{catch_unwind, AssertUnwindSafe};

fn compile(src: &str) -> Result<rooc::model_transformer::Model, String> {
    match catch_unwind(AssertUnwindSafe(|| RoocParser::new(src.to_string()).parse_and_transform(vec![], &IndexMap::new()))) {
        Ok(r) => r,
        Err(_) => Err("panic".into()),
    }
}
fn mk(req: String, imp: String, tags: &[&str], show: String) -> Case {
    let mut c = Case::default();
    c.nontrivial = imp.starts_with("(ok");
    c.tags = tags.iter().map(|s| s.to_string()).collect();
    c.tags.push("stream:expand-model".into());
    c.show = format!("{}\n=> {}", show, imp);
    c.req = req;
    c.imp = imp;
    c
}
fn err_class(e: &str) -> String {
    // parse_and_transform renders the error: `[Variant] …`
    match (e.find('['), e.find(']')) { (Some(a), Some(b)) if a < b => format!("(err {})", &e[a + 1..b]), _ => "(err ?)".into() }
}

fn fold_case(kind: &str, n: usize, scoped: bool) -> Case { fold_case_styled(kind, n, scoped, 0) }

/// `style` 0: leaves `x_i`; 1: `x_i * (i + 1)` / `not b_i`; 2: `x_i + x_{i + 1}` / `b_i and b_{i + 1}`.
/// The leaves of the request are the implementation's own transformation of each leaf on its own.
fn fold_case_styled(kind: &str, n: usize, scoped: bool, style: u8) -> Case {
    let logic = matches!(kind, "all" | "any" | "xor");
    let leaf = |i: &str| -> String {
        match (logic, style) {
            (false, 0) => format!("x_{}", i), (false, 1) => format!("x_{} * ({} + 1)", i, i), (false, _) => format!("(x_{} + x_{{{} + 1}})", i, i),
            (true, 0) => format!("b_{}", i), (true, 1) => format!("not b_{}", i), (true, _) => format!("(b_{} and b_{{{} + 1}})", i, i),
        }
    };
    let agg = if scoped { format!("{}(i in 0..{}) {{ {} }}", kind, n, leaf("i")) } else { format!("{}{{ {} }}", kind, (0..n).map(|i| leaf(&i.to_string())).collect::<Vec<_>>().join(", ")) };
    let decl = "define\n    x_i as Real(0, 9) for i in 0..9\n    b_i as Boolean for i in 0..9\n";
    let src = format!("min 1\ns.t.\n    {}{}\n{}", agg, if logic { "" } else { " <= 1" }, decl);
    let leaves = if style == 0 {
        (0..n).map(|i| format!("(var \"{}_{}\")", if logic { "b" } else { "x" }, i)).collect::<Vec<_>>().join(" ")
    } else {
        let lsrc = format!("min 1\ns.t.\n    x_0 >= 0\n{}{}", (0..n).map(|i| format!("    {}{}\n", leaf(&i.to_string()), if logic { "" } else { " <= 1" })).collect::<String>(), decl);
        match compile(&lsrc) { Ok(m) => m.constraints().iter().skip(1).map(|c| sx::exp(c.lhs())).collect::<Vec<_>>().join(" "), Err(_) => "(leaf-error)".into() }
    };
    let req = format!("fold {} ({})", kind, leaves).replace("( ", "(");
    let imp = match compile(&src) {
        Ok(m) => format!("(ok {})", sx::exp(m.constraints()[0].lhs())),
        Err(e) => err_class(&e),
    };
    let oracle = if imp.starts_with("(ok") { format!("fold-value {} ({}) {}", kind, leaves, imp) } else { String::new() };
    let mut c = mk(req, imp, &[&format!("fold:{}", kind), &format!("fold-size:{}", n.min(4)), if scoped { "fold-form:scoped" } else { "fold-form:block" }, &format!("fold-leaf-style:{}", style)], src);
    c.oracle = oracle;
    c
}

fn names_of(m: &rooc::model_transformer::Model) -> Vec<String> { m.constraints().iter().map(|c| c.name().to_string()).collect() }
fn lit(i: i64) -> String { if i < 0 { format!("(0 - {})", -i) } else { i.to_string() } }
fn arr(xs: &[i64]) -> String { format!("[{}]", xs.iter().map(|x| x.to_string()).collect::<Vec<_>>().join(", ")) }
fn farr(xs: &[f64]) -> String { format!("[{}]", xs.iter().map(|x| crate::pre_gen::fmt_f64(*x)).collect::<Vec<_>>().join(", ")) }
fn list_sx(xs: &[i64]) -> String { format!("({})", xs.iter().map(|x| x.to_string()).collect::<Vec<_>>().join(" ")) }

/// the values a quantified constraint iterates over are read back from the constraint names `c_<v>…`
fn iter_case(tag: &str, req: String, iter_src: &str, vars: &str, name_ix: &str, consts: &str) -> Case {
    let src = format!("min 1\ns.t.\n    z >= 0\n    c{}: z >= 0 for {} in {}\n{}define\n    z as Real\n", name_ix, vars, iter_src, if consts.is_empty() { String::new() } else { format!("where\n{}", consts) });
    let imp = match compile(&src) {
        Ok(m) => { let rows: Vec<String> = names_of(&m).into_iter().skip(1).map(|n| format!("({})", n.split('_').skip(1).collect::<Vec<_>>().join(" "))).collect(); format!("(ok {})", rows.join(" ")).replace("(ok )", "(ok)") }
        Err(e) => err_class(&e),
    };
    mk(req, imp, &[tag], src)
}

fn prim_ix(p: &Primitive) -> String {
    match p {
        Primitive::Number(x) => format!("(numtext {})", sx::q(&x.to_string())),
        Primitive::Integer(i) => format!("(int {})", i),
        Primitive::PositiveInteger(u) => format!("(pint {})", u),
        Primitive::Boolean(b) => format!("(bool {})", b),
        Primitive::String(s) => format!("(str {})", sx::q(s)),
        Primitive::GraphNode(n) => format!("(node {})", sx::q(n.name())),
        other => format!("(other {})", crate::pre_reflect::kind_sx(&other.get_type())),
    }
}

#[derive(Clone)]
enum T { Leaf(i64), Node(Vec<T>) }
fn gen_tree(r: &mut Rng, depth: u32) -> T {
    // homogeneous levels only: `IterableKind` cannot mix scalars and iterables
    let n = r.below(4);
    if depth == 0 { T::Node((0..n).map(|_| T::Leaf(r.range(0, 9))).collect()) } else { T::Node((0..n).map(|_| gen_tree(r, depth - 1)).collect()) }
}
fn tree_sx(t: &T) -> String { match t { T::Leaf(v) => format!("(leaf {})", v), T::Node(cs) => format!("(node{})", cs.iter().map(|c| format!(" {}", tree_sx(c))).collect::<String>()) } }
fn tree_iter(t: &T) -> IterableKind {
    match t {
        T::Node(cs) => {
            if cs.iter().all(|c| matches!(c, T::Leaf(_))) { IterableKind::Integers(cs.iter().map(|c| if let T::Leaf(v) = c { *v } else { 0 }).collect()) }
            else { IterableKind::Iterables(cs.iter().map(tree_iter).collect()) }
        }
        T::Leaf(v) => IterableKind::Integers(vec![*v]),
    }
}
fn prim_tree(p: &Primitive) -> String {
    fn it(i: &IterableKind) -> String {
        match i {
            IterableKind::Integers(v) => format!("(node{})", v.iter().map(|x| format!(" (leaf {})", x)).collect::<String>()),
            IterableKind::Iterables(v) => format!("(node{})", v.iter().map(|x| format!(" {}", it(x))).collect::<String>()),
            _ => "(unsupported)".into(),
        }
    }
    match p { Primitive::Undefined => "undefined".into(), Primitive::Integer(v) => format!("(leaf {})", v), Primitive::Iterable(i) => it(i), _ => "(unsupported)".into() }
}

pub fn model_cases(r: &mut Rng, n: usize) -> Vec<Case> {
    let mut out = vec![];
    // ---- folds: every kind × sizes 0..6, scoped and block forms
    for kind in ["sum", "prod", "avg", "min", "max", "all", "any", "xor"] {
        for k in 0..7 { out.push(fold_case(kind, k, true)); if k > 0 && kind != "sum" && kind != "prod" { out.push(fold_case(kind, k, false)); } }
    }
    for kind in ["min", "max", "avg", "abs", "all", "any", "xor"] { out.push(fold_case(kind, 1, false)); }
    out.push(fold_case("abs", 2, false));
    out.push(fold_case("abs", 0, false));
    // composite leaves (arithmetic on the iteration variable, computed compound indexes, logic operators)
    for style in [1u8, 2] {
        for kind in ["sum", "prod", "avg", "min", "max", "all", "any", "xor"] {
            for k in 0..5 { out.push(fold_case_styled(kind, k, true, style)); if k > 0 && kind != "sum" && kind != "prod" { out.push(fold_case_styled(kind, k, false, style)); } }
        }
        out.push(fold_case_styled("abs", 1, false, style));
    }
    // ---- ranges (boundary pairs exhaustively, then random)
    let mut pairs: Vec<(i64, i64)> = vec![];
    for lo in -3..=3 { for hi in -3..=4 { pairs.push((lo, hi)); } }
    for _ in 0..n / 8 { pairs.push((r.range(-20, 20), r.range(-20, 25))); }
    for (lo, hi) in pairs {
        for inc in [false, true] {
            out.push(iter_case(if inc { "range:inclusive" } else { "range:exclusive" }, format!("range {} {} {}", lo, hi, inc),
                &format!("{}{}{}", lit(lo), if inc { "..=" } else { ".." }, lit(hi)), "i", "_i", ""));
        }
    }
    // ---- ranges above MAX_RANGE_SIZE (10^7 elements): TooLarge on both sides (the cap itself would need 10^7 constraints)
    for (lo, hi, inc) in [(0i64, 10_000_001i64, false), (0, 10_000_000, true), (-5_000_000, 5_000_001, false), (1, 10_000_002, false), (0, 100_000_000_000, false), (-9_000_000_000, 9_000_000_000, true)] {
        let mut c = iter_case("range:above-cap", format!("range {} {} {}", lo, hi, inc), &format!("{}{}{}", lit(lo), if inc { "..=" } else { ".." }, lit(hi)), "i", "_i", "");
        c.nontrivial = true;
        out.push(c);
    }
    // ---- enumerate / zip / set functions over literal arrays
    for _ in 0..n / 8 {
        let a: Vec<i64> = (0..r.below(5)).map(|_| r.range(0, 9)).collect();
        let b: Vec<i64> = (0..r.below(5)).map(|_| r.range(0, 9)).collect();
        let c: Vec<i64> = (0..r.below(4)).map(|_| r.range(0, 9)).collect();
        if !a.is_empty() { out.push(iter_case("enumerate", format!("enumerate {}", list_sx(&a)), "enumerate(A)", "(v, i)", "_v_i", &format!("    let A = {}\n", arr(&a)))); }
        if !a.is_empty() && !b.is_empty() {
            out.push(iter_case("zip:2", format!("zip {} {}", list_sx(&a), list_sx(&b)), "zip(A, B)", "(v, w)", "_v_w", &format!("    let A = {}\n    let B = {}\n", arr(&a), arr(&b))));
            if !c.is_empty() { out.push(iter_case("zip:3", format!("zip {} {} {}", list_sx(&a), list_sx(&b), list_sx(&c)), "zip(A, B, C)", "(v, w, u)", "_v_w_u", &format!("    let A = {}\n    let B = {}\n    let C = {}\n", arr(&a), arr(&b), arr(&c)))); }
            for f in ["union", "intersection", "difference"] {
                out.push(iter_case(&format!("setfn:{}", f), format!("setfn {} {} {}", f, list_sx(&a), list_sx(&b)), &format!("{}(A, B)", f), "v", "_v", &format!("    let A = {}\n    let B = {}\n", arr(&a), arr(&b))));
            }
            // numbers compared by value across kinds: an integer array against a float array
            let fb: Vec<f64> = b.iter().map(|x| *x as f64 + if r.chance(1, 4) { 0.5 } else { 0.0 }).collect();
            let req = format!("setfn-mixed intersection {} ({})", list_sx(&a), fb.iter().map(|x| sx::num(*x)).collect::<Vec<_>>().join(" "));
            out.push(iter_case("setfn:mixed-kinds", req, "intersection(A, B)", "v", "_v", &format!("    let A = {}\n    let B = {}\n", arr(&a), farr(&fb))));
        }
    }
    // ---- flatten_compound_variable (direct)
    let ctx = TransformerContext::default();
    let frag_pool: Vec<Primitive> = vec![Primitive::Integer(0), Primitive::Integer(-7), Primitive::Integer(12), Primitive::Integer(3), Primitive::PositiveInteger(23), Primitive::PositiveInteger(1),
        Primitive::Number(1.0), Primitive::Number(2.5), Primitive::Number(-0.0), Primitive::Number(1e21), Primitive::Number(1e-7), Primitive::Number(f64::NAN), Primitive::Number(f64::INFINITY),
        Primitive::Boolean(true), Primitive::Boolean(false), Primitive::String("a".into()), Primitive::String("a_b".into()), Primitive::String("".into()), Primitive::String("1".into()), Primitive::String("T".into()),
        Primitive::GraphNode(GraphNode::new("A".into(), vec![])), Primitive::Undefined, Primitive::Iterable(IterableKind::Integers(vec![1])), Primitive::Tuple(rooc::Tuple::new(vec![]))];
    for i in 0..n / 2 {
        let k = if i < 30 { i % 4 } else { 1 + r.below(3) };
        let frags: Vec<Primitive> = (0..k).map(|_| r.pick(&frag_pool).clone()).collect();
        let name = r.pick(&["x", "y_1", "", "$abs"]).to_string();
        let imp = match ctx.flatten_compound_variable(&name, &frags) {
            Ok(s) => format!("(ok {})", sx::q(&s)),
            Err(e) => { let d = format!("{:?}", e.base_error()); format!("(err {})", d.split(|c: char| !c.is_alphanumeric()).next().unwrap_or("")) }
        };
        let req = format!("flatten {} ({})", sx::q(&name), frags.iter().map(prim_ix).collect::<Vec<_>>().join(" "));
        out.push(mk(req.clone(), imp, &["flatten"], req));
    }
    // ---- IterableKind::read (direct)
    for _ in 0..n / 2 {
        let dd = r.below(3) as u32; let t = gen_tree(r, dd);
        let k = r.below(4);
        // two thirds of the paths stay inside the tree as long as they can
        let idx: Vec<usize> = if r.chance(2, 3) {
            let mut cur = &t; let mut path = vec![];
            for _ in 0..k { match cur { T::Node(cs) if !cs.is_empty() => { let i = r.below(cs.len()); path.push(i); cur = &cs[i]; } _ => { path.push(r.below(2)); break; } } }
            path
        } else { (0..k).map(|_| r.below(4)).collect() };
        let imp = match catch_unwind(AssertUnwindSafe(|| tree_iter(&t).read(idx.clone()))) {
            Ok(Ok(p)) => format!("(ok {})", prim_tree(&p)),
            Ok(Err(e)) => { let d = format!("{:?}", e.base_error()); format!("(err {})", d.split(|c: char| !c.is_alphanumeric()).next().unwrap_or("")) }
            Err(_) => "(panic)".into(),
        };
        let req = format!("read {} ({})", tree_sx(&t), idx.iter().map(|x| x.to_string()).collect::<Vec<_>>().join(" "));
        out.push(mk(req.clone(), imp, &["read", &format!("read-depth:{}", k)], req));
    }
    out
}

// ------------------------------------------------------------------------------------------------
// the iteration fragment of `Rooc/Pre/Iter.lean`: random expressions, expanded by the Rust and by the model;
// the model's hand-unrolled TEXT is compiled by the Rust again and compared with the Rust's own expansion
// ------------------------------------------------------------------------------------------------
#[derive(Clone)]
enum Ce { Lit(i64), Var(String), Add(Box<Ce>, Box<Ce>), Sub(Box<Ce>, Box<Ce>), Mul(Box<Ce>, Box<Ce>) }
#[derive(Clone)]
enum SrcG { Range(Ce, Ce, bool), Arr(Vec<i64>), Enum(Vec<i64>), Zip(Vec<i64>, Vec<i64>) }
#[derive(Clone)]
struct ItG { vars: Vec<String>, src: SrcG }
#[derive(Clone)]
enum Me { Lit(i64), Var(String), Cvar(String, Vec<Ce>), Bin(&'static str, Box<Me>, Box<Me>), Blk(&'static str, Vec<Me>), Agg(&'static str, Vec<ItG>, Box<Me>) }

fn ce_sx(c: &Ce) -> String {
    match c { Ce::Lit(i) => format!("(lit {})", i), Ce::Var(n) => format!("(var {})", sx::q(n)),
        Ce::Add(a, b) => format!("(add {} {})", ce_sx(a), ce_sx(b)), Ce::Sub(a, b) => format!("(sub {} {})", ce_sx(a), ce_sx(b)), Ce::Mul(a, b) => format!("(mul {} {})", ce_sx(a), ce_sx(b)) }
}
fn ce_txt(c: &Ce) -> String {
    match c { Ce::Lit(i) => if *i < 0 { format!("(0 - {})", -i) } else { i.to_string() }, Ce::Var(n) => n.clone(),
        Ce::Add(a, b) => format!("({} + {})", ce_txt(a), ce_txt(b)), Ce::Sub(a, b) => format!("({} - {})", ce_txt(a), ce_txt(b)), Ce::Mul(a, b) => format!("({} * {})", ce_txt(a), ce_txt(b)) }
}
fn ints_sx(v: &[i64]) -> String { v.iter().map(|x| x.to_string()).collect::<Vec<_>>().join(" ") }
fn src_sx(s: &SrcG) -> String {
    match s { SrcG::Range(a, b, i) => format!("(range {} {} {})", ce_sx(a), ce_sx(b), i), SrcG::Arr(v) => format!("(arr {})", ints_sx(v)).replace("(arr )", "(arr)"),
        SrcG::Enum(v) => format!("(enum {})", ints_sx(v)).replace("(enum )", "(enum)"), SrcG::Zip(a, b) => format!("(zip ({}) ({}))", ints_sx(a), ints_sx(b)) }
}
fn src_txt(s: &SrcG) -> String {
    match s { SrcG::Range(a, b, i) => format!("{}{}{}", ce_txt(a), if *i { "..=" } else { ".." }, ce_txt(b)), SrcG::Arr(v) => arr(v),
        SrcG::Enum(v) => format!("enumerate({})", arr(v)), SrcG::Zip(a, b) => format!("zip({}, {})", arr(a), arr(b)) }
}
fn it_sx(i: &ItG) -> String { format!("(it ({}) {})", i.vars.iter().map(|v| sx::q(v)).collect::<Vec<_>>().join(" "), src_sx(&i.src)) }
fn it_txt(i: &ItG) -> String {
    let tuple = matches!(i.src, SrcG::Enum(_) | SrcG::Zip(..));
    if tuple { format!("({}) in {}", i.vars.join(", "), src_txt(&i.src)) } else { format!("{} in {}", i.vars[0], src_txt(&i.src)) }
}
fn me_sx(e: &Me) -> String {
    match e {
        Me::Lit(i) => format!("(lit {})", i), Me::Var(n) => format!("(var {})", sx::q(n)),
        Me::Cvar(b, ix) => format!("(cvar {}{})", sx::q(b), ix.iter().map(|c| format!(" {}", ce_sx(c))).collect::<String>()),
        Me::Bin(op, a, b) => format!("(bin {} {} {})", op, me_sx(a), me_sx(b)),
        Me::Blk(k, es) => format!("(blk {}{})", k, es.iter().map(|x| format!(" {}", me_sx(x))).collect::<String>()),
        Me::Agg(k, its, body) => format!("(agg {} ({}) {})", k, its.iter().map(it_sx).collect::<Vec<_>>().join(" "), me_sx(body)),
    }
}
fn op_txt(op: &str) -> &'static str { match op { "add" => "+", "sub" => "-", "mul" => "*", "div" => "/", "and" => "and", "or" => "or", "xor" => "xor", "implies" => "implies", _ => "iff" } }
fn me_txt(e: &Me) -> String {
    match e {
        Me::Lit(i) => i.to_string(), Me::Var(n) => n.clone(),
        Me::Cvar(b, ix) => format!("{}{}", b, ix.iter().map(|c| match c { Ce::Lit(i) if *i >= 0 => format!("_{}", i), Ce::Var(n) => format!("_{}", n), c => format!("_{{{}}}", ce_txt(c)) }).collect::<String>()),
        Me::Bin(op, a, b) => { let side = |x: &Me| if matches!(x, Me::Bin(..)) { format!("({})", me_txt(x)) } else { me_txt(x) }; format!("{} {} {}", side(a), op_txt(op), side(b)) }
        Me::Blk(k, es) => format!("{}{{ {} }}", k, es.iter().map(me_txt).collect::<Vec<_>>().join(", ")),
        Me::Agg(k, its, body) => format!("{}({}) {{ {} }}", k, its.iter().map(it_txt).collect::<Vec<_>>().join(", "), me_txt(body)),
    }
}

struct FragGen<'a> { r: &'a mut Rng, fresh: usize, logic: bool }
impl<'a> FragGen<'a> {
    fn leaf(&mut self, bound: &[String]) -> Ce {
        if !bound.is_empty() && self.r.chance(2, 3) { Ce::Var(self.r.pick(bound).clone()) } else { Ce::Lit(self.r.range(0, 3)) }
    }
    /// small integer expressions (values stay inside the declared index ranges)
    fn ce(&mut self, bound: &[String], d: u32) -> Ce {
        if d == 0 || self.r.chance(1, 2) { return self.leaf(bound); }
        // now and then at the i64 limits: checked arithmetic is the Overflow error, not a wrapped index
        if self.r.chance(1, 40) {
            // (a literal operand: an enumerate index is a Number at run time, its sums are float arithmetic and do not overflow)
            let l = Box::new(Ce::Lit(self.r.range(0, 3)));
            return match self.r.below(4) {
                0 => Ce::Add(l, Box::new(Ce::Lit(i64::MAX))),
                1 => Ce::Mul(Box::new(Ce::Lit(i64::MAX / 2 + 1)), Box::new(Ce::Lit(2))),
                2 => Ce::Sub(Box::new(Ce::Lit(-i64::MAX)), Box::new(Ce::Add(l, Box::new(Ce::Lit(2))))),
                _ => Ce::Sub(Box::new(Ce::Add(l, Box::new(Ce::Lit(i64::MAX - 1)))), Box::new(Ce::Lit(i64::MAX - 1))),
            };
        }
        let a = Box::new(self.leaf(bound));
        match self.r.below(3) { 0 => Ce::Add(a, Box::new(self.leaf(bound))), 1 => Ce::Sub(a, Box::new(self.leaf(bound))), _ => Ce::Mul(a, Box::new(Ce::Lit(self.r.range(0, 2)))) }
    }
    fn ints(&mut self) -> Vec<i64> { (0..self.r.below(4)).map(|_| self.r.range(0, 5)).collect() }
    fn iter(&mut self, bound: &mut Vec<String>) -> ItG {
        let mut name = |g: &mut Self| { g.fresh += 1; format!("v{}", g.fresh) };
        let k = if self.r.chance(1, 25) { 9 } else { self.r.below(9) };
        let it = match k {
            0 | 1 | 2 => { let lo = if self.r.chance(1, 2) { Ce::Lit(self.r.range(-2, 2)) } else { self.leaf(bound) };
                let hi = if self.r.chance(1, 2) { self.leaf(bound) } else { Ce::Add(Box::new(self.leaf(bound)), Box::new(Ce::Lit(self.r.range(0, 3)))) };
                ItG { vars: vec![name(self)], src: SrcG::Range(lo, hi, self.r.chance(1, 2)) } }
            3 | 4 => ItG { vars: vec![name(self)], src: SrcG::Arr(self.ints()) },
            5 | 6 => { let n = 1 + self.r.below(2); let mut vs: Vec<String> = (0..n).map(|_| name(self)).collect(); if self.r.chance(1, 6) { vs[0] = "_".into(); } if self.r.chance(1, 5) { vs.push(name(self)); } ItG { vars: vs, src: SrcG::Enum(self.ints()) } }
            7 | 8 => { let n = 1 + self.r.below(2); let vs: Vec<String> = (0..n).map(|_| name(self)).collect(); ItG { vars: vs, src: SrcG::Zip(self.ints(), self.ints()) } }
            // scoping errors: a name that is already bound
            _ => { let v = if !bound.is_empty() && self.r.chance(1, 2) { self.r.pick(bound).clone() } else { name(self) }; ItG { vars: vec![v], src: SrcG::Arr(self.ints()) } }
        };
        for v in &it.vars { if v != "_" && !bound.contains(v) { bound.push(v.clone()); } }
        it
    }
    fn me(&mut self, bound: &[String], d: u32) -> Me {
        if d == 0 || self.r.chance(1, 4) {
            return match self.r.below(6) {
                0 => Me::Lit(self.r.range(0, 5)),
                1 if !bound.is_empty() => Me::Var(self.r.pick(bound).clone()),
                2 => Me::Var(if self.logic { "bz".into() } else { "z".into() }),
                3 if !bound.is_empty() && self.r.chance(1, 8) => Me::Cvar("x".into(), vec![Ce::Var("q".into())]), // unbound identifier = name fragment
                3 if self.r.chance(1, 6) => Me::Cvar("x".into(), vec![Ce::Add(Box::new(Ce::Var("q".into())), Box::new(Ce::Lit(1)))]), // unbound identifier inside arithmetic: an error
                _ => { let n = 1 + self.r.below(2); let ix = (0..n).map(|_| self.ce(bound, 1)).collect(); Me::Cvar(if self.logic { "b".into() } else { "x".into() }, ix) }
            };
        }
        match self.r.below(7) {
            0 | 1 => { let ops: &[&'static str] = if self.logic { &["and", "or", "xor", "implies", "iff"] } else { &["add", "sub", "mul", "div"] }; let op = *self.r.pick(ops); Me::Bin(op, Box::new(self.me(bound, d - 1)), Box::new(self.me(bound, d - 1))) }
            2 => { let ks: &[&'static str] = if self.logic { &["all", "any", "xor"] } else { &["min", "max", "avg", "abs"] }; let k = *self.r.pick(ks); let n = if k == "abs" { if self.r.chance(1, 6) { 2 } else { 1 } } else { 1 + self.r.below(3) }; Me::Blk(k, (0..n).map(|_| self.me(bound, d - 1)).collect()) }
            _ => {
                let ks: &[&'static str] = if self.logic { &["all", "any", "xor"] } else { &["sum", "sum", "prod", "avg", "min", "max"] };
                let k = *self.r.pick(ks);
                let mut b = bound.to_vec();
                let n = 1 + self.r.below(2);
                let its: Vec<ItG> = (0..n).map(|_| self.iter(&mut b)).collect();
                Me::Agg(k, its, Box::new(self.me(&b, d - 1)))
            }
        }
    }
}

const FRAG_DECLS: &str = "define\n    z as Real(0, 9)\n    bz as Boolean\n    x_q as Real(0, 9)\n    x_a as Real(0, 9) for a in (0 - 8)..=30\n    x_a_c as Real(0, 9) for a in (0 - 8)..=30, c in (0 - 8)..=30\n    b_a as Boolean for a in (0 - 8)..=30\n    b_a_c as Boolean for a in (0 - 8)..=30, c in (0 - 8)..=30\n";

fn rust_lhs(text: &str, logic: bool) -> String {
    if std::env::var("PRE_DEBUG").is_ok() { eprintln!("=== fragment {}", text); }
    // in-process compile: texts whose parenthesis depth would hit the exponential parse time (C18 finding) are not compiled
    if crate::props::c18::depths(text).0 >= 9 { return "(skip)".into(); }
    let src = format!("min 1\ns.t.\n    {}{}\n{}", text, if logic { "" } else { " <= 1" }, FRAG_DECLS);
    match compile(&src) { Ok(m) => format!("(ok {})", sx::exp(m.constraints()[0].lhs())), Err(e) => if e.contains("UndeclaredVariableDomain") { "(skip)".into() } else { "(err)".into() } }
}

/// answers of the compiled Lean driver for a batch of request lines (None: driver not built)
fn ask_driver(lines: &[String]) -> Option<Vec<String>> {
    use std::io::Write;
    let exe = std::path::Path::new("lean/.lake/build/bin/roocdrv");
    if !exe.exists() { return None; }
    let mut child = std::process::Command::new(exe).stdin(std::process::Stdio::piped()).stdout(std::process::Stdio::piped()).spawn().ok()?;
    // the requests are written from a second thread: writing them all before reading deadlocks on full pipes
    let mut si = child.stdin.take()?;
    let owned: Vec<String> = lines.to_vec();
    let writer = std::thread::spawn(move || { for l in owned { if writeln!(si, "{}", l).is_err() { break; } } });
    let out = child.wait_with_output().ok()?;
    let _ = writer.join();
    let ans: Vec<String> = String::from_utf8_lossy(&out.stdout).lines().map(|s| s.to_string()).collect();
    if ans.len() == lines.len() { Some(ans) } else { None }
}

pub fn fragment_cases(r: &mut Rng, n: usize) -> Vec<Case> {
    let mut out = vec![];
    let mut pending: Vec<(String, bool, String, String)> = vec![]; // (request, logic, rust expansion, source text)
    for i in 0..n {
        let logic = i % 4 == 3;
        let mut g = FragGen { r, fresh: 0, logic };
        let d = 1 + g.r.below(3) as u32;
        let e = g.me(&[], d);
        let text = me_txt(&e);
        let imp = rust_lhs(&text, logic);
        if imp == "(skip)" { continue; } // an index left the declared family: not a statement about expansion
        let mut c = mk(format!("expandme {}", me_sx(&e)), imp.clone(), &["fragment:expand", if logic { "fragment:logic" } else { "fragment:arith" }], text.clone());
        c.tags.push(if imp == "(err)" { "fragment-outcome:error".into() } else { "fragment-outcome:expanded".into() });
        c.nontrivial = text.contains(" in ");
        out.push(c);
        pending.push((format!("C06 float unrolltext {}", me_sx(&e)), logic, imp, text));
    }
    // the model's hand-unrolled TEXT, compiled by the real front end, against the real expansion
    let lines: Vec<String> = pending.iter().map(|p| p.0.clone()).collect();
    match ask_driver(&lines) {
        None => { let mut c = Case::default(); c.tags = vec!["fragment:unroll-text".into(), "driver-missing".into()]; c.show = "lean driver not built".into(); out.push(c); }
        Some(answers) => {
            for ((_, logic, imp, text), ans) in pending.iter().zip(answers) {
                let mut c = Case::default();
                c.tags = vec!["stream:expand-model".into(), "fragment:unroll-text".into()];
                c.show = format!("{}\n--- unrolled by the model ---\n{}", text, ans);
                c.imp = imp.clone();
                c.nontrivial = imp != "(err)";
                if let Err(why) = check_unrolled_text(imp, *logic, &ans) {
                    c.impl_violation = Some(why);
                    c.sig = Some("expansion-differs-from-model-unrolled-text".into());
                }
                out.push(c);
            }
        }
    }
    out
}

/// second pass for the `unrolltext` cases: `model_answer` is the text Lean printed for `unroll p`
pub fn check_unrolled_text(orig_imp: &str, logic: bool, model_answer: &str) -> Result<(), String> {
    if let Some(t) = model_answer.strip_prefix("(ok \"").and_then(|s| s.strip_suffix("\")")) {
        let t = t.replace("\\\"", "\"");
        if t.contains("{  }") { return Ok(()); } // `min{}` of nothing has no source text
        if crate::props::c18::depths(&t).0 >= 9 { return Ok(()); }
        let again = rust_lhs(&t, logic);
        let (a, b) = (crate::pre_sx::normalise_str(orig_imp), crate::pre_sx::normalise_str(&again));
        if a != b { return Err(format!("expansion {} differs from the compiled hand-unrolled text `{}` = {}", a, t, b)); }
        Ok(())
    } else if model_answer == "(err)" {
        if orig_imp == "(err)" { Ok(()) } else { Err(format!("the reference rejects the program, the compiler expands it to {}", orig_imp)) }
    } else { Err(format!("unexpected model answer {}", model_answer)) }
}

// ------------------------------------------------------------------------------------------------
// graph builtins (nodes / edges / neigh_edges / neigh_edges_of) and set functions on values of any kind
// ------------------------------------------------------------------------------------------------
struct GN { name: String, edges: Vec<(String, Option<f64>)> }
fn graph_txt(g: &[GN]) -> String {
    let nodes: Vec<String> = g.iter().map(|n| if n.edges.is_empty() { n.name.clone() } else {
        format!("{} -> [{}]", n.name, n.edges.iter().map(|(d, w)| match w { Some(w) => format!("{}: {}", d, if *w < 0.0 { format!("-{}", crate::pre_gen::fmt_f64(-*w)) } else { crate::pre_gen::fmt_f64(*w) }), None => d.clone() }).collect::<Vec<_>>().join(", ")) }).collect();
    format!("Graph {{ {} }}", nodes.join(", "))
}
fn graph_sx(g: &[GN]) -> String {
    format!("(graph{})", g.iter().map(|n| format!(" (node {}{})", sx::q(&n.name), n.edges.iter().map(|(d, w)| format!(" (edge {} {})", sx::q(d), match w { Some(w) => sx::num(*w), None => "none".into() })).collect::<String>())).collect::<String>())
}
fn gen_graph(r: &mut Rng) -> Vec<GN> {
    // declaration order, numeric order and byte order of the names all differ; adjacency lists in random order
    let names = ["S", "n2", "B", "n10", "a"];
    let n = 1 + r.below(5);
    let mut g: Vec<GN> = (0..n).map(|i| GN { name: names[i].to_string(), edges: vec![] }).collect();
    for i in 0..n { for j in 0..n { if r.chance(2, 5) { let w = match r.below(4) { 0 => None, 1 => Some(r.range(-4, 9) as f64 / 2.0), 2 => Some(0.0), _ => Some(r.range(1, 5) as f64) }; g[i].edges.push((names[j].to_string(), w)); } } }
    // now and then an edge to a node that has no entry of its own: it is a destination, not one of nodes(G)
    if r.chance(1, 3) { let i = r.below(n); let w = if r.chance(1, 2) { None } else { Some(2.5) }; g[i].edges.push((r.pick(&["Zed", "n3"]).to_string(), w)); }
    for i in 0..n { for k in (1..g[i].edges.len()).rev() { let j = r.below(k + 1); g[i].edges.swap(k, j); } }
    // `Graph { P, Q }` without any edge list is read as a block function: keep one edge
    if g.iter().all(|x| x.edges.is_empty()) { let d = g[n - 1].name.clone(); g[0].edges.push((d, None)); }
    g
}
/// rows `(name fragments…, coefficient)` read back from `c_<names>: w * z >= 0 for …`
fn graph_rows(src: &str, with_weight: bool) -> String {
    match compile(src) {
        Ok(m) => {
            let rows: Vec<String> = m.constraints().iter().skip(1).map(|c| {
                let names: Vec<String> = c.name().split('_').skip(1).map(|s| sx::q(s)).collect();
                let w = if with_weight { match c.lhs() { rooc::model_transformer::Exp::BinOp(_, a, _) => match &**a { rooc::model_transformer::Exp::Number(x) => format!(" {}", sx::num(*x)), _ => " ?".into() }, _ => " ?".into() } } else { String::new() };
                if names.len() == 1 && !with_weight { names[0].clone() } else { format!("({}{})", names.join(" "), w) }
            }).collect();
            format!("(ok {})", rows.join(" ")).replace("(ok )", "(ok)")
        }
        Err(e) => err_class(&e),
    }
}

pub fn graph_cases(r: &mut Rng, n: usize) -> Vec<Case> {
    let mut out = vec![];
    for _ in 0..n {
        let g = gen_graph(r);
        let (gt, gs) = (graph_txt(&g), graph_sx(&g));
        let decl = format!("where\n    let G = {}\ndefine\n    z as Real\n", gt);
        for f in ["edges", "E"] {
            let src = format!("min 1\ns.t.\n    z >= 0\n    c_u_v: w * z >= 0 for (u, v, w) in {}(G)\n{}", f, decl);
            out.push(mk(format!("graph edges {}", gs), graph_rows(&src, true), &["graph:edges"], src));
        }
        for f in ["nodes", "V"] {
            let src = format!("min 1\ns.t.\n    z >= 0\n    c_u: z >= 0 for u in {}(G)\n{}", f, decl);
            out.push(mk(format!("graph nodes {}", gs), graph_rows(&src, false), &["graph:nodes"], src));
        }
        for f in ["neigh_edges", "N"] {
            let src = format!("min 1\ns.t.\n    z >= 0\n    c_u_v: w * z >= 0 for u in nodes(G), (_, v, w) in {}(u)\n{}", f, decl);
            out.push(mk(format!("graph neighall {}", gs), graph_rows(&src, true), &["graph:neigh_edges"], src));
        }
        for f in ["neigh_edges_of", "N_of"] {
            let name = if r.chance(1, 5) { "Z9".to_string() } else { g[r.below(g.len())].name.clone() };
            let src = format!("min 1\ns.t.\n    z >= 0\n    c_v: w * z >= 0 for (_, v, w) in {}(\"{}\", G)\n{}", f, name, decl);
            out.push(mk(format!("graph neighof {} {}", gs, sx::q(&name)), graph_rows(&src, true), &["graph:neigh_edges_of"], src));
        }
    }
    out
}

/// set functions over arrays of numbers (integers, halves), strings, booleans and mixtures, read back from the
/// names `c_<element>` of a quantified constraint
pub fn svset_cases(r: &mut Rng, n: usize) -> Vec<Case> {
    #[derive(Clone)]
    enum SV { I(i64), F(f64), S(String), B(bool) }
    fn txt(v: &SV) -> String { match v { SV::I(i) => i.to_string(), SV::F(x) => crate::pre_gen::fmt_f64(*x), SV::S(s) => format!("\"{}\"", s), SV::B(b) => b.to_string() } }
    fn sxv(v: &SV) -> String { match v { SV::I(i) => format!("(num {})", sx::num(*i as f64)), SV::F(x) => format!("(num {})", sx::num(*x)), SV::S(s) => format!("(str {})", sx::q(s)), SV::B(b) => format!("(bool {})", b) } }
    let mut out = vec![];
    for i in 0..n {
        let mode = i % 5;
        let mut mk_arr = |r: &mut Rng| -> Vec<SV> {
            let len = r.below(5);
            (0..len).map(|_| match mode {
                0 => SV::I(r.range(0, 5)),
                1 => if r.chance(1, 2) { SV::F(r.range(0, 10) as f64 / 2.0) } else { SV::I(r.range(0, 5)) },
                2 => SV::S(r.pick(&["a", "b", "c1", "1"]).to_string()),
                3 => match r.below(3) { 0 => SV::S(r.pick(&["a", "1", "T"]).to_string()), 1 => SV::I(r.range(0, 2)), _ => SV::F(r.range(0, 4) as f64 / 2.0) },
                _ => if r.chance(1, 2) { SV::B(r.chance(1, 2)) } else { SV::I(r.range(0, 2)) },
            }).collect()
        };
        let (a, b) = (mk_arr(r), mk_arr(r));
        if a.is_empty() || b.is_empty() { continue; }
        for f in ["union", "intersection", "difference"] {
            let src = format!("min 1\ns.t.\n    z >= 0\n    c_v: z >= 0 for v in {}(A, B)\nwhere\n    let A = [{}]\n    let B = [{}]\ndefine\n    z as Real\n", f,
                a.iter().map(txt).collect::<Vec<_>>().join(", "), b.iter().map(txt).collect::<Vec<_>>().join(", "));
            // the type checker is not involved (parse_and_transform); arrays of different kinds are fine at run time
            let imp = graph_rows(&src, false);
            let req = format!("svset {} ({}) ({})", f, a.iter().map(sxv).collect::<Vec<_>>().join(" "), b.iter().map(sxv).collect::<Vec<_>>().join(" "));
            out.push(mk(req, imp, &[&format!("svset:{}", f), &format!("svset-mode:{}", ["ints", "ints+halves", "strings", "mixed", "bools+ints"][mode])], src));
        }
    }
    out
}

// ------------------------------------------------------------------------------------------------
// whole programs of the iteration fragment (`Rooc/Pre/Program.lean`): `where` constants, declarations with
// iterations and bounds, named / quantified constraints, objective — full `Model` incl. usage counts
// ------------------------------------------------------------------------------------------------
enum NameG { Plain(String), Cv(String, Vec<Ce>) }
enum TyG { Bool, Real(Option<(Ce, Ce)>), NnReal(Option<(Ce, Ce)>), Int(Ce, Ce) }
struct DeclG { vars: Vec<NameG>, ty: TyG, its: Vec<ItG> }
struct ConsG { name: Option<NameG>, lhs: Me, rel: Option<(&'static str, Me)>, its: Vec<ItG> }

fn idx_txt(c: &Ce) -> String { match c { Ce::Lit(i) if *i >= 0 => format!("_{}", i), Ce::Var(n) => format!("_{}", n), c => format!("_{{{}}}", ce_txt(c)) } }
fn name_txt(n: &NameG) -> String { match n { NameG::Plain(s) => s.clone(), NameG::Cv(b, ix) => format!("{}{}", b, ix.iter().map(idx_txt).collect::<String>()) } }
fn name_sx(n: &NameG) -> String { match n { NameG::Plain(s) => format!("(plain {})", sx::q(s)), NameG::Cv(b, ix) => format!("(cv {}{})", sx::q(b), ix.iter().map(|c| format!(" {}", ce_sx(c))).collect::<String>()) } }
fn ty_txt(t: &TyG) -> String {
    match t { TyG::Bool => "Boolean".into(), TyG::Real(None) => "Real".into(), TyG::NnReal(None) => "NonNegativeReal".into(),
        TyG::Real(Some((a, b))) => format!("Real({}, {})", ce_txt(a), ce_txt(b)), TyG::NnReal(Some((a, b))) => format!("NonNegativeReal({}, {})", ce_txt(a), ce_txt(b)),
        TyG::Int(a, b) => format!("IntegerRange({}, {})", ce_txt(a), ce_txt(b)) }
}
fn ty_sx(t: &TyG) -> String {
    match t { TyG::Bool => "bool".into(), TyG::Real(None) => "(real)".into(), TyG::NnReal(None) => "(nnreal)".into(),
        TyG::Real(Some((a, b))) => format!("(real {} {})", ce_sx(a), ce_sx(b)), TyG::NnReal(Some((a, b))) => format!("(nnreal {} {})", ce_sx(a), ce_sx(b)),
        TyG::Int(a, b) => format!("(int {} {})", ce_sx(a), ce_sx(b)) }
}
fn its_txt(its: &[ItG]) -> String { if its.is_empty() { String::new() } else { format!(" for {}", its.iter().map(it_txt).collect::<Vec<_>>().join(", ")) } }
fn its_sx(its: &[ItG]) -> String { format!("({})", its.iter().map(it_sx).collect::<Vec<_>>().join(" ")) }
fn cmp_name(c: &str) -> &'static str { match c { "<=" => "le", ">=" => "ge", "=" => "eq", "<" => "lt", _ => "gt" } }

fn wide_decls(logic: bool) -> Vec<DeclG> {
    let r = |v: &str| ItG { vars: vec![v.to_string()], src: SrcG::Range(Ce::Lit(-8), Ce::Lit(30), true) };
    let b = if logic { "b" } else { "x" };
    let ty = || if logic { TyG::Bool } else { TyG::Real(Some((Ce::Lit(0), Ce::Lit(9)))) };
    vec![
        DeclG { vars: vec![NameG::Plain(if logic { "bz".into() } else { "z".into() })], ty: ty(), its: vec![] },
        DeclG { vars: vec![NameG::Cv(b.into(), vec![Ce::Var("q".into())])], ty: ty(), its: vec![] },
        DeclG { vars: vec![NameG::Cv(b.into(), vec![Ce::Var("a".into())])], ty: ty(), its: vec![r("a")] },
        DeclG { vars: vec![NameG::Cv(b.into(), vec![Ce::Var("a".into()), Ce::Var("c".into())])], ty: ty(), its: vec![r("a"), r("c")] },
    ]
}

pub fn program_cases(r: &mut Rng, n: usize) -> Vec<Case> {
    let mut out = vec![];
    let mut pending: Vec<(String, String, String)> = vec![];
    for i in 0..n {
        let logic = i % 4 == 3;
        let mut g = FragGen { r, fresh: 0, logic };
        // ---- where constants (integers; later ones may use earlier ones)
        let mut consts: Vec<(String, Ce)> = vec![];
        let mut bound: Vec<String> = vec![];
        for k in 0..g.r.below(4) {
            let name = if g.r.chance(1, 12) && !bound.is_empty() { bound[0].clone() } else { format!("k{}", k) }; // a duplicate `let` is an error
            let c = g.ce(&bound, 1);
            if !bound.contains(&name) { bound.push(name.clone()); }
            consts.push((name, c));
        }
        // ---- declarations: the wide families every expression can refer to, plus a few varied ones
        let mut decls = wide_decls(logic);
        for k in 0..g.r.below(3) {
            let mut b2 = bound.clone();
            let its: Vec<ItG> = (0..g.r.below(3)).map(|_| g.iter(&mut b2)).collect();
            let idx: Vec<Ce> = if its.is_empty() { vec![Ce::Lit(g.r.range(0, 3))] } else { its.iter().filter(|it| it.vars[0] != "_").take(2).map(|it| Ce::Var(it.vars[0].clone())).collect() };
            let base = if g.r.chance(1, 8) { if logic { "b".to_string() } else { "x".to_string() } } else { format!("y{}", k) }; // re-declaring x_…: same type is fine, another type is an error
            let ty = match g.r.below(7) {
                0 => TyG::Bool, 1 => TyG::Real(None), 2 => TyG::NnReal(None),
                // mostly well-formed bounds (lo <= hi, non-negative lower bound), sometimes arbitrary ones
                3 => { let a = g.ce(&b2, 1); if g.r.chance(1, 6) { TyG::Real(Some((a, g.ce(&b2, 1)))) } else { let d = g.r.range(0, 3); TyG::Real(Some((a.clone(), Ce::Add(Box::new(a), Box::new(Ce::Lit(d)))))) } }
                4 => { let m = if g.r.chance(1, 8) { -1 } else { 0 }; let lo = g.r.range(m, 2); TyG::NnReal(Some((Ce::Lit(lo), Ce::Add(Box::new(Ce::Lit(lo)), Box::new(g.ce(&[], 0)))))) }
                5 => { let a = g.ce(&b2, 1); let m = if g.r.chance(1, 8) { -1 } else { 0 }; let d = g.r.range(m, 4); TyG::Int(a.clone(), Ce::Add(Box::new(a), Box::new(Ce::Lit(d)))) }
                _ => TyG::Real(Some((Ce::Lit(0), Ce::Lit(9)))),
            };
            let mut vars = vec![if idx.is_empty() { NameG::Plain(format!("w{}", k)) } else { NameG::Cv(base, idx) }];
            if g.r.chance(1, 4) { vars.push(NameG::Plain(format!("w{}", k + 5))); }
            decls.push(DeclG { vars, ty, its });
        }
        // ---- objective and constraints
        let obj = match g.r.below(4) { 0 => None, 1 => Some(("max", g.me(&bound, 2))), _ => Some(("min", g.me(&bound, 1))) };
        let obj = if logic { None } else { obj };
        let mut cons: Vec<ConsG> = vec![ConsG { name: None, lhs: Me::Var(if logic { "bz".into() } else { "z".into() }), rel: if logic { None } else { Some((">=", Me::Lit(0))) }, its: vec![] }];
        for k in 0..1 + g.r.below(3) {
            let mut b2 = bound.clone();
            let its: Vec<ItG> = (0..g.r.below(3)).map(|_| g.iter(&mut b2)).collect();
            let dl = 1 + g.r.below(2) as u32; let lhs = g.me(&b2, dl);
            let rel = if logic { None } else { Some((*g.r.pick(&["<=", ">=", "=", "<", ">"]), g.me(&b2, 1))) };
            let vars_in_scope: Vec<String> = its.iter().flat_map(|it| it.vars.clone()).filter(|v| v != "_").collect();
            let name = match g.r.below(4) {
                0 => None,
                1 => Some(NameG::Plain(format!("row{}", k))),
                _ => if vars_in_scope.is_empty() { Some(NameG::Cv(format!("c{}", k), vec![Ce::Lit(g.r.range(0, 2))])) } else { Some(NameG::Cv(format!("c{}", k), vars_in_scope.iter().take(2).map(|v| if g.r.chance(1, 5) { Ce::Add(Box::new(Ce::Var(v.clone())), Box::new(Ce::Lit(1))) } else { Ce::Var(v.clone()) }).collect())) },
            };
            cons.push(ConsG { name, lhs, rel, its });
        }
        // ---- text and protocol form
        let mut text = match &obj { Some((s, e)) => format!("{} {}\n", s, me_txt(e)), None => "solve\n".to_string() };
        text.push_str("s.t.\n");
        for c in &cons {
            text.push_str(&format!("    {}{}{}{}\n", match &c.name { Some(n) => format!("{}: ", name_txt(n)), None => String::new() }, me_txt(&c.lhs),
                match &c.rel { Some((k, r)) => format!(" {} {}", k, me_txt(r)), None => String::new() }, its_txt(&c.its)));
        }
        if !consts.is_empty() { text.push_str("where\n"); for (n, c) in &consts { text.push_str(&format!("    let {} = {}\n", n, ce_txt(c))); } }
        text.push_str("define\n");
        for d in &decls { text.push_str(&format!("    {} as {}{}\n", d.vars.iter().map(name_txt).collect::<Vec<_>>().join(", "), ty_txt(&d.ty), its_txt(&d.its))); }
        let sxp = format!("(prog (consts{}) {} (cons{}) (decls{}))",
            consts.iter().map(|(n, c)| format!(" ({} {})", sx::q(n), ce_sx(c))).collect::<String>(),
            match &obj { Some((s, e)) => format!("({} {})", s, me_sx(e)), None => "solve".into() },
            cons.iter().map(|c| format!(" (con {} {} {} {})", match &c.name { Some(n) => name_sx(n), None => "none".into() }, me_sx(&c.lhs),
                match &c.rel { Some((k, r)) => format!("({} {})", cmp_name(k), me_sx(r)), None => "none".into() }, its_sx(&c.its))).collect::<String>(),
            decls.iter().map(|d| format!(" (decl ({}) {} {})", d.vars.iter().map(name_sx).collect::<Vec<_>>().join(" "), ty_sx(&d.ty), its_sx(&d.its))).collect::<String>());
        if std::env::var("PRE_DEBUG").is_ok() { eprintln!("=== fragment program\n{}", text); }
        if crate::props::c18::depths(&text).0 >= 9 { continue; }
        let mut eclass = String::new();
        let imp = match compile(&text) { Ok(m) => format!("(ok {})", sx::model(&m)), Err(e) => { eclass = err_class(&e); "(err)".into() } };
        let mut c = mk(format!("transformprog {}", sxp), imp.clone(), &["fragment:program", if logic { "fragment:logic" } else { "fragment:arith" }], text.clone());
        if !eclass.is_empty() { c.tags.push(format!("program-error:{}", eclass)); }
        c.tags.push(if imp == "(err)" { "program-outcome:error".into() } else { "program-outcome:model".into() });
        c.tags.push(format!("program-consts:{}", consts.len()));
        c.nontrivial = imp != "(err)";
        out.push(c);
        pending.push((format!("C06 float unrollprogtext {}", sxp), imp, text));
    }
    // the model's hand-unrolled PROGRAM text, compiled by the real front end, against the real model
    let lines: Vec<String> = pending.iter().map(|p| p.0.clone()).collect();
    if let Some(answers) = ask_driver(&lines) {
        for ((_, imp, text), ans) in pending.iter().zip(answers) {
            let mut c = Case::default();
            c.tags = vec!["stream:expand-model".into(), "fragment:program-unroll-text".into()];
            c.imp = if imp.len() > 400 { format!("{}…", &imp[..400]) } else { imp.clone() };
            c.nontrivial = imp != "(err)";
            let verdict: Result<(), String> = if let Some(t) = ans.strip_prefix("(ok \"").and_then(|s| s.strip_suffix("\")")) {
                let t = t.replace("\\n", "\n").replace("\\\"", "\"");
                c.show = format!("{}\n--- unrolled by the model ---\n{}", text, t);
                if t.contains("{  }") || crate::props::c18::depths(&t).0 >= 9 { Ok(()) } else {
                    let again = match compile(&t) { Ok(m) => format!("(ok {})", sx::model(&m)), Err(e) => format!("(err) {}", e.chars().take(200).collect::<String>()) };
                    let (a, b) = (crate::pre_sx::normalise_str(imp), crate::pre_sx::normalise_str(&again));
                    if a == b || (imp == "(err)" && again.starts_with("(err)")) { Ok(()) } else { Err(format!("model of the program differs from the model of its hand-unrolled text:\n  program:  {}\n  unrolled: {}", a.chars().take(600).collect::<String>(), b.chars().take(600).collect::<String>())) }
                }
            } else if ans == "(err)" { c.show = text.clone(); if imp == "(err)" { Ok(()) } else { Err("the reference rejects the program, the compiler accepts it".into()) } }
            else { Err(format!("unexpected model answer {}", ans.chars().take(200).collect::<String>())) };
            if let Err(why) = verdict { c.impl_violation = Some(why); c.sig = Some("program-differs-from-model-unrolled-text".into()); }
            out.push(c);
        }
    }
    out
}
