//! Generators for small `LinearModel`s (solver properties C04, C05, C15, C20) and the S-expression encodings of
//! solver outcomes shared with `lean/Rooc/WireSolve.lean`.
use crate::child::{Outcome, Sol, Val};
use crate::rng::Rng;
use crate::sx;
use rooc::{Comparison, LinearModel, OptimizationType, VariableType};

#[derive(Clone, Copy, PartialEq, Eq, Debug)]
pub enum Doms {
    /// any mix of Boolean / IntegerRange / Real / NonNegativeReal, free and bounded
    Mixed,
    /// continuous only (free, half-bounded, boxed, non-negative)
    Continuous,
    /// mostly free reals (unbounded optimal faces, objective-flat directions)
    MostlyFree,
    /// integer / boolean only
    Integer,
    /// non-negative reals only (standard-form friendly)
    NonNeg,
}

#[derive(Clone, Debug)]
pub struct LpCfg {
    pub max_vars: usize,
    pub max_rows: usize,
    pub doms: Doms,
    /// allow fractional data (dyadic and decimal)
    pub fractional: bool,
    /// probability (percent) that the right-hand sides are derived from a random point of the box (feasible by construction)
    pub feasible_pct: u32,
    /// row names: 0 = all unnamed, 1 = all named distinct, 2 = mixture incl. duplicates and "__" names
    pub naming: u8,
    pub allow_satisfy: bool,
    pub eq_pct: u32,
}

impl Default for LpCfg {
    fn default() -> Self {
        LpCfg { max_vars: 4, max_rows: 5, doms: Doms::Mixed, fractional: false, feasible_pct: 60, naming: 2, allow_satisfy: true, eq_pct: 25 }
    }
}

fn coef(r: &mut Rng, frac: bool) -> f64 {
    if frac && r.chance(1, 4) {
        if r.chance(1, 2) { r.range(-12, 12) as f64 / 4.0 } else { r.range(-30, 30) as f64 / 10.0 }
    } else {
        match r.below(10) { 0 | 1 | 2 => 0.0, 3 => 1.0, 4 => -1.0, _ => r.range(-3, 3) as f64 }
    }
}

pub fn domain(r: &mut Rng, d: Doms) -> VariableType {
    let free = VariableType::Real(f64::NEG_INFINITY, f64::INFINITY);
    let cont = |r: &mut Rng| match r.below(6) {
        0 => VariableType::Real(f64::NEG_INFINITY, f64::INFINITY),
        1 => VariableType::NonNegativeReal(0.0, f64::INFINITY),
        2 => { let lo = r.range(-3, 2) as f64; VariableType::Real(lo, lo + r.range(0, 5) as f64) }
        3 => VariableType::Real(r.range(-3, 3) as f64, f64::INFINITY),
        4 => VariableType::Real(f64::NEG_INFINITY, r.range(-3, 3) as f64),
        _ => { let lo = r.range(0, 2) as f64; VariableType::NonNegativeReal(lo, lo + r.range(0, 4) as f64) }
    };
    let int = |r: &mut Rng| if r.chance(1, 2) { VariableType::Boolean } else {
        let lo = r.range(-2, 1) as i32;
        VariableType::IntegerRange(lo, lo + r.range(0, 3) as i32)
    };
    match d {
        Doms::Mixed => if r.chance(1, 2) { cont(r) } else { int(r) },
        Doms::Continuous => cont(r),
        Doms::MostlyFree => if r.chance(3, 4) { free } else { cont(r) },
        Doms::Integer => int(r),
        Doms::NonNeg => VariableType::NonNegativeReal(0.0, f64::INFINITY),
    }
}

/// a point inside the domain (integral for integer kinds)
fn point_in(r: &mut Rng, t: &VariableType, frac: bool) -> f64 {
    match t {
        VariableType::Boolean => r.below(2) as f64,
        VariableType::IntegerRange(a, b) => r.range(*a as i64, *b as i64) as f64,
        VariableType::Real(a, b) | VariableType::NonNegativeReal(a, b) => {
            let lo = if a.is_finite() { *a } else if b.is_finite() { *b - 4.0 } else { -3.0 };
            let hi = if b.is_finite() { *b } else { lo + 4.0 };
            let steps = ((hi - lo) * if frac { 2.0 } else { 1.0 }).floor() as usize;
            lo + r.below(steps + 1) as f64 / if frac { 2.0 } else { 1.0 }
        }
    }
}

pub fn cmp3(r: &mut Rng, eq_pct: u32) -> Comparison {
    if r.chance(eq_pct, 100) { Comparison::Equal } else if r.chance(1, 2) { Comparison::LessOrEqual } else { Comparison::GreaterOrEqual }
}

/// one random model; returns the model and its distribution tags
pub fn model(r: &mut Rng, cfg: &LpCfg) -> (LinearModel, Vec<String>) {
    let mut tags = vec![];
    let nv = 1 + r.below(cfg.max_vars);
    let nr = r.below(cfg.max_rows + 1);
    let mut m = LinearModel::new();
    let mut doms = vec![];
    for i in 0..nv {
        let t = domain(r, cfg.doms);
        m.add_variable(&format!("v{}", i), t.clone());
        doms.push(t);
    }
    let opt = match r.below(if cfg.allow_satisfy { 5 } else { 4 }) { 0 | 1 => OptimizationType::Min, 2 | 3 => OptimizationType::Max, _ => OptimizationType::Satisfy };
    let obj: Vec<f64> = (0..nv).map(|_| if matches!(opt, OptimizationType::Satisfy) && r.chance(2, 3) { 0.0 } else { coef(r, cfg.fractional) }).collect();
    let from_point = r.chance(cfg.feasible_pct, 100);
    tags.push(if from_point { "rhs-from-point".into() } else { "rhs-random".into() });
    let x0: Vec<f64> = doms.iter().map(|t| point_in(r, t, cfg.fractional)).collect();
    let mut rows: Vec<(Vec<f64>, Comparison, f64)> = vec![];
    for k in 0..nr {
        // duplicate of an earlier row
        if k > 0 && r.chance(1, 10) {
            let j = r.below(rows.len());
            rows.push(rows[j].clone());
            tags.push("duplicate-row".into());
            continue;
        }
        let empty = r.chance(1, 14);
        let cs: Vec<f64> = (0..nv).map(|_| if empty { 0.0 } else { coef(r, cfg.fractional) }).collect();
        let c = cmp3(r, cfg.eq_pct);
        let act: f64 = cs.iter().zip(&x0).map(|(a, b)| a * b).sum();
        let rhs = if from_point {
            match c {
                Comparison::LessOrEqual => act + r.below(3) as f64,
                Comparison::GreaterOrEqual => act - r.below(3) as f64,
                _ => act,
            }
        } else if empty { r.range(-1, 1) as f64 } else { r.range(-4, 6) as f64 };
        if cs.iter().all(|c| *c == 0.0) { tags.push(if rhs == 0.0 { "empty-row".into() } else { "empty-row-nonzero-rhs".into() }); }
        rows.push((cs, c, rhs));
    }
    for (k, (cs, c, rhs)) in rows.into_iter().enumerate() {
        let name = match cfg.naming {
            0 => String::new(),
            1 => format!("r{}", k),
            _ => match r.below(9) { 0 | 1 => String::new(), 2 => "dup".to_string(), 3 => format!("__aux{}", k), 4 => format!("need__{}", k + 2), _ => format!("r{}", k) },
        };
        m.add_named_constraint(cs, c, rhs, &name);
    }
    m.set_objective(obj, opt);
    let mut m = m;
    if r.chance(1, 3) {
        // a constant offset: rebuild through new_from_parts (the only public way to set it)
        let (objective, opt, _, cons, vars, dom) = m.into_parts();
        let off = if cfg.fractional && r.chance(1, 3) { r.range(-30, 30) as f64 / 10.0 } else { r.range(-5, 5) as f64 };
        m = LinearModel::new_from_parts(objective, opt, off, cons, vars, dom);
        tags.push("offset".into());
    }
    for t in &doms {
        tags.push(match t {
            VariableType::Boolean => "dom-bool".into(),
            VariableType::IntegerRange(_, _) => "dom-int".into(),
            VariableType::Real(a, b) if a.is_infinite() && b.is_infinite() => "dom-free".into(),
            VariableType::Real(a, b) if a.is_finite() && b.is_finite() => "dom-boxed".into(),
            VariableType::Real(_, _) => "dom-half-bounded".into(),
            VariableType::NonNegativeReal(_, b) if b.is_infinite() => "dom-nonneg".into(),
            VariableType::NonNegativeReal(_, _) => "dom-nonneg-boxed".into(),
        });
    }
    tags.push(format!("sense-{}", sx::opt_type(m.optimization_type())));
    tags.sort();
    tags.dedup();
    (m, tags)
}

// ------------------------------------------------------------------------------------------- variants of the code under test

/// Which of the proposed repairs does the code under test contain?  Each repair has its own Lean model variant; the
/// harness asks for the variant that matches the behaviour observed on one fixed probe input, so that the correspondence
/// check keeps working before and after a `fixes/*.diff` is applied.  (A third behaviour matches neither variant and is
/// reported as a correspondence mismatch; the known-finding entry of a repaired defect is switched to `fixed` by the
/// integrator, so a regression to the old behaviour is reported by the oracle.)
#[derive(Clone, Copy, Debug)]
pub struct Variants {
    /// fixes/C15-milp-status.diff
    pub milp_reads_status: bool,
    /// fixes/C05-clarabel-empty-model.diff
    pub clarabel_empty_handled: bool,
    /// fixes/C05-clarabel-dual-infeasible.diff
    pub clarabel_primal_check: bool,
    /// fixes/C05-microlp-unused-free-column.diff
    pub microlp_pins_unused_free: bool,
}

pub fn primal_dual_infeasible_probe() -> LinearModel {
    let mut m = LinearModel::new();
    m.add_variable("v0", VariableType::NonNegativeReal(0.0, f64::INFINITY));
    m.add_variable("v1", VariableType::Real(f64::NEG_INFINITY, f64::INFINITY));
    m.add_constraint(vec![1.0, 0.0], Comparison::LessOrEqual, 1.0);
    m.add_constraint(vec![1.0, 0.0], Comparison::GreaterOrEqual, 2.0);
    m.set_objective(vec![0.0, 1.0], OptimizationType::Min);
    m
}

pub fn detect_variants() -> Variants {
    use crate::child::{solve, Opts, SolverKind};
    let t = std::time::Duration::from_secs(5);
    // 5-item knapsack under a 0 ns limit
    let mut k = LinearModel::new();
    for i in 0..5 { k.add_variable(&format!("b{}", i), VariableType::Boolean); }
    k.add_named_constraint(vec![2.0, 3.0, 1.0, 4.0, 3.0], Comparison::LessOrEqual, 7.0, "cap");
    k.set_objective(vec![5.0, 4.0, 3.0, 7.0, 6.0], OptimizationType::Max);
    let milp_reads_status = match solve(SolverKind::Milp, &k, &Opts::default().limit_ns(0), t) {
        Outcome::Solution(s) => s.status != "optimal",
        Outcome::Err { variant, .. } => variant == "LimitReached",
        _ => false,
    };
    let clarabel_empty_handled = !matches!(solve(SolverKind::Clarabel, &LinearModel::new(), &Opts::default(), t), Outcome::Panic(_));
    let clarabel_primal_check = matches!(solve(SolverKind::Clarabel, &primal_dual_infeasible_probe(), &Opts::default(), t),
        Outcome::Err { variant, .. } if variant == "Infeasible");
    // `min k; 2k >= 3; k integer 0..3; u Real free and unused`: microlp fails inside branch and bound unless u is pinned
    let mut u = LinearModel::new();
    u.add_variable("k", VariableType::IntegerRange(0, 3));
    u.add_variable("u", VariableType::Real(f64::NEG_INFINITY, f64::INFINITY));
    u.add_constraint(vec![2.0, 0.0], Comparison::GreaterOrEqual, 3.0);
    u.set_objective(vec![1.0, 0.0], OptimizationType::Min);
    let microlp_pins_unused_free = matches!(solve(SolverKind::Milp, &u, &Opts::default(), t), Outcome::Solution(_));
    crate::child::MIRROR_PINS_UNUSED_FREE.store(microlp_pins_unused_free, std::sync::atomic::Ordering::Relaxed);
    Variants { milp_reads_status, clarabel_empty_handled, clarabel_primal_check, microlp_pins_unused_free }
}

impl Variants {
    pub fn tags(&self) -> Vec<String> {
        vec![
            format!("variant-milp-{}", if self.milp_reads_status { "reads-status" } else { "ignores-status" }),
            format!("variant-clarabel-empty-model-{}", if self.clarabel_empty_handled { "handled" } else { "unhandled" }),
            format!("variant-clarabel-dual-infeasible-{}", if self.clarabel_primal_check { "primal-check" } else { "unchecked" }),
            format!("variant-microlp-unused-free-{}", if self.microlp_pins_unused_free { "pinned" } else { "passed-through" }),
        ]
    }
}

/// the model request for the Clarabel wrapper: raw answer of the mirror, plus (for a dual-infeasible status) the raw
/// answer of the zero-objective problem the repaired wrapper solves
pub fn clarabel_req(lm: &LinearModel, lms: &str, v: &Variants, timeout: std::time::Duration) -> Option<String> {
    use crate::child::{solve, Opts, SolverKind};
    let raw = solve(SolverKind::RawClarabel, lm, &Opts::default(), timeout);
    let out = clarabel(&raw)?;
    let dual_inf = matches!(&raw, Outcome::Solution(s) if s.status == "DualInfeasible" || s.status == "AlmostDualInfeasible");
    let feas = if dual_inf && v.clarabel_primal_check {
        let f = LinearModel::new_from_parts(vec![0.0; lm.variables().len()], OptimizationType::Satisfy, 0.0,
            lm.constraints().clone(), lm.variables().clone(), lm.domain().clone());
        clarabel(&solve(SolverKind::RawClarabel, &f, &Opts::default(), timeout))?
    } else { "(cerr unused)".to_string() };
    Some(format!("clarabel-wrap-v {} {} {} {} {}", v.clarabel_empty_handled as u8, v.clarabel_primal_check as u8, lms, out, feas))
}

/// the external solver's own status inside a wrapper request built by `clarabel_req` / `mlp` (`(cok Solved …)`,
/// `(mok optimal …)`); `none` when the raw call did not return a solution
pub fn raw_status_of_req(req: &str) -> String {
    for head in ["(cok ", "(mok "] {
        if let Some(i) = req.find(head) {
            return req[i + head.len()..].split(|c: char| c == ' ' || c == ')').next().unwrap_or("none").to_string();
        }
    }
    "none".into()
}

/// integer models with LARGE objective coefficients (~1e4) that differ in the last digits and two knapsack-like rows
/// over a small box: many nearly tied integer points, so a relative MIP gap of 1e-4 (or any early stop) returns a value
/// that is wrong at the property's 1e-6 relative tolerance
pub fn near_tied(r: &mut Rng) -> LinearModel {
    let max = r.chance(3, 4);
    let mut m = LinearModel::new();
    let mut obj = vec![];
    let n;
    if r.chance(1, 2) {
        // (a) every coefficient ~1e4, differing in the last digit; rows with weights 3..7
        n = 3 + r.below(3);
        let base = 9000.0 + r.below(1000) as f64;
        for i in 0..n {
            let hi = 1 + r.below(3) as i32;
            m.add_variable(&format!("k{}", i), VariableType::IntegerRange(0, hi));
            obj.push(base + r.below(4) as f64);
        }
    } else {
        // (b) one large fixed term next to small integer decisions
        n = 3 + r.below(2);
        m.add_variable("open", VariableType::Boolean);
        obj.push(if max { 100000.0 } else { -100000.0 });
        for i in 1..n {
            m.add_variable(&format!("k{}", i), VariableType::IntegerRange(0, 3));
            obj.push(1.0 + r.below(5) as f64);
        }
    }
    for _ in 0..2 {
        let w: Vec<f64> = (0..n).map(|i| if obj[i].abs() >= 100000.0 { 0.0 } else { 2.0 + r.below(6) as f64 }).collect();
        let wsum: f64 = w.iter().sum();
        let rhs = (wsum * (0.8 + 0.2 * r.below(4) as f64)).floor() + 0.5 * r.below(2) as f64;
        m.add_constraint(w, if max { Comparison::LessOrEqual } else { Comparison::GreaterOrEqual }, rhs);
    }
    m.set_objective(obj, if max { OptimizationType::Max } else { OptimizationType::Min });
    m
}

/// A model whose `domain()` map is in a DIFFERENT order than `variables()` (what every Linearizer output looks like:
/// columns sorted by name, domain in `define` order) with differently bounded variables and an objective that pushes
/// every variable against a bound: reading the bounds by position instead of by name changes the answer.
pub fn permuted_domain(r: &mut Rng, continuous_only: bool) -> LinearModel {
    let n = 2 + r.below(3);
    let names: Vec<String> = (0..n).map(|i| format!("v{}", i)).collect();
    let mut types = vec![];
    for i in 0..n {
        let lo = (3 * i) as f64 - 4.0 + r.below(2) as f64;      // distinct, non-overlapping-ish boxes
        let t = if !continuous_only && r.chance(1, 3) { VariableType::IntegerRange(lo as i32, lo as i32 + 1 + r.below(2) as i32) }
                else if lo >= 0.0 && r.chance(1, 2) { VariableType::NonNegativeReal(lo, lo + 1.0 + r.below(2) as f64) }
                else { VariableType::Real(lo, lo + 1.0 + r.below(2) as f64) };
        types.push(t);
    }
    // permute the domain map: rotate or reverse (never the identity for n >= 2)
    let mut order: Vec<usize> = (0..n).collect();
    if r.chance(1, 2) { order.reverse(); } else { order.rotate_left(1 + r.below(n - 1)); }
    let mut domain = indexmap::IndexMap::new();
    for &i in &order {
        domain.insert(names[i].clone(), rooc::model_transformer::DomainVariable::new(types[i].clone(), Default::default()));
    }
    let obj: Vec<f64> = (0..n).map(|_| if r.chance(1, 2) { 1.0 + r.below(3) as f64 } else { -1.0 - r.below(3) as f64 }).collect();
    let mut rows = vec![];
    for _ in 0..r.below(3) {
        // loose rows (never active): the bounds decide
        let cs: Vec<f64> = (0..n).map(|_| r.range(-1, 1) as f64).collect();
        rows.push(rooc::LinearConstraint::new(cs, Comparison::LessOrEqual, 60.0));
    }
    let opt = if r.chance(1, 2) { OptimizationType::Min } else { OptimizationType::Max };
    LinearModel::new_from_parts(obj, opt, r.range(-2, 2) as f64, rows, names, domain)
}

/// The same situation through the text pipeline: `define` order is not alphabetical, the Linearizer sorts the columns.
pub fn from_text(r: &mut Rng) -> Option<(LinearModel, String)> {
    let pool = ["zeta", "alpha", "mid", "beta", "omega"];
    let n = 2 + r.below(3);
    let mut names: Vec<&str> = pool[..n].to_vec();
    if r.chance(1, 2) { names.reverse(); }
    let mut src = String::new();
    let sense = if r.chance(1, 2) { "min" } else { "max" };
    let terms: Vec<String> = names.iter().map(|v| format!("{}{}*{}", if r.chance(1, 2) { "+ " } else { "- " }, 1 + r.below(3), v)).collect();
    src.push_str(&format!("{} 0 {}\ns.t.\n", sense, terms.join(" ")));
    src.push_str(&format!("    {} <= 50\n", names.join(" + ")));
    src.push_str("define\n");
    for (i, v) in names.iter().enumerate() {
        let lo = 3 * i as i64 - 4 + r.below(2) as i64;
        let hi = lo + 1 + r.below(2) as i64;
        let ty = if r.chance(1, 4) { format!("IntegerRange({}, {})", lo, hi) } else { format!("Real({}, {})", lo, hi) };
        src.push_str(&format!("    {} as {}\n", v, ty));
    }
    let p = rooc::RoocParser::new(src.clone());
    let model = std::panic::catch_unwind(|| p.parse_and_transform(vec![], &indexmap::IndexMap::new()).ok()).ok().flatten()?;
    let lin = std::panic::catch_unwind(|| rooc::Linearizer::linearize(model).ok()).ok().flatten()?;
    Some((lin, src))
}

/// Every public accessor must tell the same story as the inherent ones of `LpSolution`: the status through the
/// `SolveStatus` trait and `BuilderSolution::status`, the objective, and — for every row name, the empty name and an
/// unknown name — shadow price and activity through the traits / the builder wrapper (`None` where the map has no entry:
/// unnamed rows report no price through ANY door).  Returns the first disagreement.
pub fn accessor_disagreement(s: &Sol) -> Option<String> {
    let get = |k: &str| s.accessors.iter().find(|(n, _)| n == k).map(|(_, v)| v.clone());
    for (k, v) in &s.accessors {
        let (what, door_name) = match k.split_once('.') { Some(x) => x, None => continue };
        let (door, name) = match door_name.split_once(':') { Some((d, n)) => (d, format!(":{}", n)), None => (door_name, String::new()) };
        if door == "inherent" { continue; }
        if let Some(base) = get(&format!("{}.inherent{}", what, name)) {
            if &base != v { return Some(format!("{}{} reads {} through `{}` but {} through the inherent accessor", what, name, v, door, base)); }
        }
    }
    None
}

/// Continuous models that force the two-phase start of the tableau simplex and leave, after phase 1, an artificial that
/// is still basic at level 0 in a row whose structural entries are all NEGATIVE (rows `a·x >= 0` / `a·x = 0` with
/// `a <= 0`, right-hand side 0, also duplicated / scaled), with an objective that pushes the variables up and rows that
/// bound them: dropping such a row as "redundant" solves a relaxation (too-good optimum, or Unbounded).
/// `k` selects the hand-written members first (k < 6), then random ones.
pub fn two_phase_zero_rows(r: &mut Rng, k: usize) -> LinearModel {
    let nn = || VariableType::NonNegativeReal(0.0, f64::INFINITY);
    let mut m = LinearModel::new();
    let fixed: Option<(usize, Vec<(Vec<f64>, Comparison, f64)>, Vec<f64>)> = match k {
        0 => Some((2, vec![(vec![-1.0, -1.0], Comparison::GreaterOrEqual, 0.0), (vec![1.0, 1.0], Comparison::LessOrEqual, 4.0)], vec![1.0, 1.0])),
        1 => Some((2, vec![(vec![-2.0, -1.0], Comparison::Equal, 0.0), (vec![1.0, 1.0], Comparison::LessOrEqual, 4.0)], vec![1.0, 2.0])),
        2 => Some((2, vec![(vec![1.0, 1.0], Comparison::LessOrEqual, 4.0), (vec![-1.0, -1.0], Comparison::GreaterOrEqual, 0.0)], vec![3.0, 1.0])),
        3 => Some((3, vec![(vec![1.0, 0.0, 2.0], Comparison::Equal, 1.0), (vec![1.0, 1.0, 1.0], Comparison::LessOrEqual, 1.0), (vec![1.0, -1.0, 0.0], Comparison::GreaterOrEqual, 1.0)], vec![1.0, 1.0, 1.0])),
        4 => Some((2, vec![(vec![-1.0, -2.0], Comparison::Equal, 0.0), (vec![-2.0, -4.0], Comparison::Equal, 0.0), (vec![1.0, 1.0], Comparison::LessOrEqual, 5.0)], vec![1.0, 1.0])),
        5 => Some((3, vec![(vec![-1.0, 0.0, -3.0], Comparison::GreaterOrEqual, 0.0), (vec![0.0, -1.0, 0.0], Comparison::Equal, 0.0), (vec![1.0, 1.0, 1.0], Comparison::LessOrEqual, 6.0)], vec![2.0, 1.0, 1.0])),
        _ => None,
    };
    if let Some((n, rows, obj)) = fixed {
        for i in 0..n { m.add_variable(&format!("x{}", i), nn()); }
        for (c, rel, b) in rows { m.add_constraint(c, rel, b); }
        m.set_objective(obj, OptimizationType::Max);
        return m;
    }
    let n = 2 + r.below(2);
    for i in 0..n { m.add_variable(&format!("x{}", i), nn()); }
    let mut rows: Vec<(Vec<f64>, Comparison, f64)> = vec![];
    for _ in 0..1 + r.below(2) {
        // non-positive coefficients, not all zero, right-hand side 0
        let mut c: Vec<f64> = (0..n).map(|_| -(r.below(4) as f64)).collect();
        if c.iter().all(|v| *v == 0.0) { let j = r.below(n); c[j] = -1.0; }
        let rel = if r.chance(1, 2) { Comparison::GreaterOrEqual } else { Comparison::Equal };
        rows.push((c.clone(), rel, 0.0));
        if r.chance(1, 3) { let f = 2.0 + r.below(2) as f64; rows.push((c.iter().map(|v| v * f).collect(), rel, 0.0)); }
    }
    // bounding rows
    rows.push(((0..n).map(|_| 1.0 + r.below(2) as f64).collect(), Comparison::LessOrEqual, 3.0 + r.below(4) as f64));
    if r.chance(1, 3) { rows.push(((0..n).map(|_| r.below(3) as f64).collect(), Comparison::GreaterOrEqual, 0.0)); }
    // random order of the rows (the position of the zero rows changes the pivot path)
    for i in (1..rows.len()).rev() { let j = r.below(i + 1); rows.swap(i, j); }
    for (c, rel, b) in rows { m.add_constraint(c, rel, b); }
    let obj: Vec<f64> = (0..n).map(|_| 1.0 + r.below(3) as f64).collect();
    if r.chance(4, 5) { m.set_objective(obj, OptimizationType::Max); } else { m.set_objective(obj.iter().map(|c| -c).collect(), OptimizationType::Min); }
    m
}

/// The textbook cycling / degenerate instances as `LinearModel`s (`min c·x`, rows `a·x <= b`, `x >= 0`): Dantzig's rule
/// with the usual tie-breaks cycles on them forever unless an anti-cycling rule (the stall counter + Bland fallback of
/// `Tableau::solve_avoiding`) takes over.  Each also as the mirrored `max −c·x`, and with `extra` non-binding rows.
pub fn cycling_classics(r: &mut Rng) -> Vec<(&'static str, LinearModel)> {
    let data: Vec<(&'static str, Vec<f64>, Vec<(Vec<f64>, f64)>)> = vec![
        ("classic-chvatal-cycle", vec![-10.0, 57.0, 9.0, 24.0],
            vec![(vec![0.5, -5.5, -2.5, 9.0], 0.0), (vec![0.5, -1.5, -0.5, 1.0], 0.0), (vec![1.0, 0.0, 0.0, 0.0], 1.0)]),
        ("classic-beale-cycle", vec![-0.75, 150.0, -0.02, 6.0],
            vec![(vec![0.25, -60.0, -0.04, 9.0], 0.0), (vec![0.5, -90.0, -0.02, 3.0], 0.0), (vec![0.0, 0.0, 1.0, 0.0], 1.0)]),
        ("classic-marshall-suurballe", vec![-2.3, -2.15, 13.55, 0.4],
            vec![(vec![0.4, 0.2, -1.4, -0.2], 0.0), (vec![-7.8, -1.4, 7.8, 0.4], 0.0)]),
        ("classic-kuhn-cycle", vec![-2.0, -3.0, 1.0, 12.0],
            vec![(vec![-2.0, -9.0, 1.0, 9.0], 0.0), (vec![1.0 / 3.0, 1.0, -1.0 / 3.0, -2.0], 0.0)]),
        ("classic-klee-minty-3", vec![-100.0, -10.0, -1.0],
            vec![(vec![1.0, 0.0, 0.0], 1.0), (vec![20.0, 1.0, 0.0], 100.0), (vec![200.0, 20.0, 1.0], 10000.0)]),
        ("classic-degenerate-2d", vec![-1.0, -1.0],
            vec![(vec![1.0, 0.0], 1.0), (vec![0.0, 1.0], 1.0), (vec![1.0, 1.0], 2.0), (vec![1.0, 2.0], 3.0)]),
    ];
    let mut out = vec![];
    for (name, obj, rows) in data {
        for variant in 0..3 {
            let n = obj.len();
            let mut m = LinearModel::new();
            for i in 0..n { m.add_variable(&format!("x{}", i + 1), VariableType::NonNegativeReal(0.0, f64::INFINITY)); }
            for (c, b) in &rows { m.add_constraint(c.clone(), Comparison::LessOrEqual, *b); }
            if variant == 2 {
                // extra rows that never bind (the cycle survives, sizes change)
                for _ in 0..1 + r.below(2) {
                    let c: Vec<f64> = (0..n).map(|_| r.below(3) as f64).collect();
                    m.add_constraint(c, Comparison::LessOrEqual, 1000.0 + r.below(5) as f64);
                }
            }
            if variant == 1 { m.set_objective(obj.iter().map(|c| -c).collect(), OptimizationType::Max); }
            else { m.set_objective(obj.clone(), OptimizationType::Min); }
            out.push((name, m));
        }
    }
    out
}

pub fn is_continuous(m: &LinearModel) -> bool {
    m.domain().values().all(|d| matches!(d.get_type(), VariableType::Real(_, _) | VariableType::NonNegativeReal(_, _)))
}

// ------------------------------------------------------------------------------------------- encodings

/// like `sx::num`, with NaN canonicalised (sign / payload of a NaN are not behaviour; Lean's `Float.toBits` canonicalises too)
pub fn num(v: f64) -> String { if v.is_nan() { "#x7ff8000000000000".into() } else { sx::num(v) } }

pub fn val(v: &Val) -> String {
    match v { Val::Real(x) => format!("(real {})", num(*x)), Val::Int(i) => format!("(int {})", i), Val::Bool(b) => format!("(bool {})", b) }
}
fn pairs(l: &[(String, crate::child::F)]) -> String {
    l.iter().map(|(n, v)| format!(" ({} {})", sx::q(n), num(v.0))).collect::<String>()
}
pub fn solution(s: &Sol) -> String {
    let mut o = format!("(ok (status {}) (value {}) (assign", s.status, num(s.value));
    for (n, v) in &s.assignment { o.push_str(&format!(" ({} {})", sx::q(n), val(v))); }
    o.push_str(") (byname");
    for (n, v) in &s.by_name { o.push_str(&format!(" ({} {})", sx::q(n), v.as_ref().map(val).unwrap_or_else(|| "none".into()))); }
    o.push_str(&format!(") (rows{}) (duals{}))", pairs(&s.constraints), pairs(&s.duals)));
    o
}
/// an entry point's answer in the canonical vocabulary (errors by variant name only)
pub fn result(o: &Outcome) -> String {
    match o {
        Outcome::Solution(s) => solution(s),
        Outcome::Err { variant, .. } => format!("(err {})", variant),
        Outcome::Panic(_) => "(panic)".into(),
        Outcome::Hang => "(hang)".into(),
    }
}
pub fn err_msg(o: &Outcome) -> String { match o { Outcome::Err { msg, .. } => msg.chars().take(40).collect(), _ => String::new() } }

/// microlp's raw answer (mirror kinds) as the wrapper model's input; `None` = no usable raw answer (hang)
pub fn mlp(o: &Outcome) -> Option<String> {
    match o {
        Outcome::Solution(s) => Some(format!("(mok {} {} ({}))", s.status, num(s.value),
            s.assignment.iter().map(|(_, v)| num(v.as_f64())).collect::<Vec<_>>().join(" "))),
        Outcome::Err { variant, .. } if variant.starts_with("pre:") => Some("(merr pre)".into()),
        Outcome::Err { variant, .. } => Some(format!("(merr {})", variant)),
        // a panic inside the dependency propagates through the wrapper; a `pre:` panic is the mirror's own pre-check
        Outcome::Panic(m) => Some(if m.starts_with("pre:") { "(merr pre)".into() } else { "(merr panic)".into() }),
        Outcome::Hang => None,
    }
}
pub fn clarabel(o: &Outcome) -> Option<String> {
    match o {
        Outcome::Solution(s) => Some(format!("(cok {} ({}) ({}))", s.status,
            s.assignment.iter().map(|(_, v)| num(v.as_f64())).collect::<Vec<_>>().join(" "), pairs(&s.duals).trim_start())),
        Outcome::Err { variant, .. } if variant.starts_with("pre:") => Some("(cerr pre)".into()),
        Outcome::Err { variant, .. } => Some(format!("(cerr {})", variant)),
        Outcome::Panic(m) => Some(if m.starts_with("pre:") { "(cerr pre)".into() } else { "(cerr panic)".into() }),
        Outcome::Hang => None,
    }
}
