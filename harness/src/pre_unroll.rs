//! C06 — the independent reference unroller.
//!
//! Written from the language definition (docs: iteration order = order of the iterable, first
//! iterator outermost; `sum`/`prod`/`avg` nest to the right, `xor` folds from the left, empty
//! `sum` = 0, empty `prod` = 1; ranges `a..b` exclusive / `a..=b` inclusive; `enumerate` pairs each
//! element with its 0-based position; `zip` stops at the shortest; set functions compare numbers by
//! value; an edge destructures into (from, to, weight-or-1); compound names join the index values
//! with `_`).  It does NOT call into rooc.  It evaluates the data section itself and prints a program
//! text without any iteration / aggregation construct, without `where` section and without function
//! calls: every iteration value is substituted as a literal.
use crate::pre_gen::*;

#[derive(Debug, Clone)]
pub enum UErr {
    /// the reference semantics says: this program must be rejected (data-dependent or scoping error)
    Reject(String),
    /// the unrolled form has no source text (e.g. `min{}` of nothing)
    NoText(String),
}
type R<T> = Result<T, UErr>;
fn rej<T>(s: impl Into<String>) -> R<T> { Err(UErr::Reject(s.into())) }

pub const RESERVED: [&str; 40] = ["min", "max", "s.t.", "where", "in", "for", "as", "if", "else", "solve", "true", "false", "Graph",
    "avg", "abs", "all", "any", "xor", "sum", "prod", "edges", "E", "len", "nodes", "V", "neigh_edges", "N", "neigh_edges_of", "N_of",
    "enumerate", "enum", "range", "zip", "difference", "union", "intersection", "Infinity", "MinusInfinity", "PI", "define"];

#[derive(Default)]
pub struct Env { frames: Vec<Vec<(String, V)>> }
impl Env {
    pub fn new() -> Self { Env { frames: vec![vec![]] } }
    pub fn get(&self, n: &str) -> Option<&V> {
        for f in self.frames.iter().rev() { for (k, v) in f.iter().rev() { if k == n { return Some(v); } } }
        None
    }
    fn declare(&mut self, n: &str, v: V) -> R<()> {
        if n == "_" { return Ok(()); }
        if self.get(n).is_some() { return rej(format!("name {} already declared", n)); }
        if ["Infinity", "MinusInfinity", "PI"].contains(&n) { return rej(format!("name {} already declared", n)); }
        if RESERVED.contains(&n) { return rej(format!("name {} is reserved", n)); }
        self.frames.last_mut().unwrap().push((n.to_string(), v));
        Ok(())
    }
    fn set(&mut self, n: &str, v: V) {
        if n == "_" { return; }
        for f in self.frames.iter_mut().rev() { for (k, x) in f.iter_mut().rev() { if k == n { *x = v; return; } } }
    }
}

// ------------------------------------------------------------------ compile-time arithmetic
fn as_f(v: &V) -> Option<f64> { match v { V::Int(i) => Some(*i as f64), V::Num(x) => Some(*x), V::Bool(b) => Some(*b as u8 as f64), _ => None } }
fn arith(op: Op, a: &V, b: &V) -> R<V> {
    use V::*;
    if op.is_logic() {
        return match (a, b) {
            (Bool(x), Bool(y)) => Ok(Bool(match op { Op::And => *x && *y, Op::Or => *x || *y, Op::Xor => x != y, Op::Implies => !*x || *y, _ => x == y })),
            _ => rej("logic operator on non-booleans"),
        };
    }
    if let (Str(x), Str(y)) = (a, b) { if op == Op::Add { return Ok(Str(format!("{}{}", x, y))); } }
    let (fa, fb) = match (as_f(a), as_f(b)) { (Some(x), Some(y)) => (x, y), _ => return rej("arithmetic on non-numbers") };
    if op == Op::Div { return if fb == 0.0 { rej("division by zero") } else { Ok(Num(fa / fb)) }; }
    // integers stay integers (checked); a boolean on the left behaves as a number
    let ints = match (a, b) { (Int(x), Int(y)) => Some((*x, *y)), (Int(x), Bool(y)) => Some((*x, *y as i64)), _ => None };
    if let Some((x, y)) = ints {
        let r = match op { Op::Add => x.checked_add(y), Op::Sub => x.checked_sub(y), _ => x.checked_mul(y) };
        return match r { Some(v) => Ok(Int(v)), None => rej("integer overflow") };
    }
    Ok(Num(match op { Op::Add => fa + fb, Op::Sub => fa - fb, _ => fa * fb }))
}
fn as_index(v: &V) -> R<usize> {
    match v {
        V::Int(i) if *i >= 0 => Ok(*i as usize),
        V::Num(x) if x.fract() == 0.0 && *x >= 0.0 => Ok(*x as usize),
        V::Bool(b) => Ok(*b as usize),
        _ => rej("bad array index"),
    }
}
fn as_int(v: &V) -> R<i64> {
    match v { V::Int(i) => Ok(*i), V::Num(x) if x.fract() == 0.0 => Ok(*x as i64), V::Bool(b) => Ok(*b as i64), _ => rej("not an integer") }
}
fn elements(v: V) -> R<Vec<V>> { match v { V::Arr(vs) => Ok(vs), _ => rej("not iterable") } }
fn num_eq(a: &V, b: &V) -> bool { match (as_f(a), as_f(b)) { (Some(x), Some(y)) => x == y, _ => a == b } }

pub fn eval(e: &E, env: &Env) -> R<V> {
    match e {
        E::Lit(v) => Ok(v.clone()),
        E::Id(s) => match env.get(s) { Some(v) => Ok(v.clone()), None => rej(format!("{} has no compile-time value", s)) },
        E::Cv(..) => rej("compound variable has no compile-time value"),
        E::Acc(n, ixs) => {
            let mut cur = match env.get(n) { Some(v) => v.clone(), None => return rej("undeclared array") };
            if ixs.is_empty() { return rej("empty access"); }
            for i in ixs {
                let k = as_index(&eval(i, env)?)?;
                cur = match cur { V::Arr(vs) => match vs.get(k) { Some(x) => x.clone(), None => return rej("index out of range") }, _ => return rej("index into a non-array") };
            }
            Ok(cur)
        }
        E::Range(a, b, inc) => {
            let (lo, hi) = (as_int(&eval(a, env)?)?, as_int(&eval(b, env)?)?);
            let hi = if *inc { hi } else { hi - 1 };
            if hi - lo > 1_000_000 { return rej("range too large for the reference"); }
            Ok(V::Arr((lo..=hi).map(V::Int).collect()))
        }
        E::Call(f, args) => {
            let a: Vec<V> = args.iter().map(|x| eval(x, env)).collect::<R<_>>()?;
            match (f.as_str(), a.as_slice()) {
                ("len", [V::Arr(v)]) => Ok(V::Int(v.len() as i64)),
                ("enumerate" | "enum", [V::Arr(v)]) => Ok(V::Arr(v.iter().enumerate().map(|(i, x)| V::Tup(vec![x.clone(), V::Num(i as f64)])).collect())),
                ("zip", vs) if !vs.is_empty() => {
                    let lists: Vec<Vec<V>> = vs.iter().map(|x| elements(x.clone())).collect::<R<_>>()?;
                    let n = lists.iter().map(|l| l.len()).min().unwrap();
                    Ok(V::Arr((0..n).map(|i| V::Tup(lists.iter().map(|l| l[i].clone()).collect())).collect()))
                }
                ("zip", []) => Ok(V::Arr(vec![])),
                ("range", [a, b, V::Bool(inc)]) => eval(&E::Range(Box::new(E::Lit(a.clone())), Box::new(E::Lit(b.clone())), *inc), env),
                ("union", [V::Arr(x), V::Arr(y)]) => { let mut out: Vec<V> = vec![]; for v in x.iter().chain(y) { if !out.iter().any(|o| num_eq(o, v)) { out.push(v.clone()); } } Ok(V::Arr(out)) }
                ("intersection", [V::Arr(x), V::Arr(y)]) => Ok(V::Arr(x.iter().filter(|v| y.iter().any(|o| num_eq(o, v))).cloned().collect())),
                ("difference", [V::Arr(x), V::Arr(y)]) => Ok(V::Arr(x.iter().filter(|v| !y.iter().any(|o| num_eq(o, v))).cloned().collect())),
                ("nodes" | "V", [V::Graph(ns)]) => Ok(V::Arr(ns.iter().map(|n| V::Node(n.clone())).collect())),
                ("edges" | "E", [V::Graph(ns)]) => Ok(V::Arr(ns.iter().flat_map(|n| n.edges.iter().map(|e| V::Edge(e.clone()))).collect())),
                ("neigh_edges" | "N", [V::Node(n)]) => Ok(V::Arr(n.edges.iter().map(|e| V::Edge(e.clone())).collect())),
                ("neigh_edges_of" | "N_of", [V::Str(s), V::Graph(ns)]) => match ns.iter().find(|n| &n.name == s) {
                    Some(n) => Ok(V::Arr(n.edges.iter().map(|e| V::Edge(e.clone())).collect())), None => rej("no such node") },
                _ => rej(format!("bad call {}", f)),
            }
        }
        E::Bin(op, a, b) => arith(*op, &eval(a, env)?, &eval(b, env)?),
        E::Un(UOp::Neg, a) => match eval(a, env)? {
            V::Int(i) => i.checked_neg().map(V::Int).ok_or(UErr::Reject("overflow".into())),
            V::Num(x) => Ok(V::Num(-x)), V::Bool(b) => Ok(V::Num(-(b as u8 as f64))), _ => rej("negation of a non-number") },
        E::Un(UOp::Not, a) => match eval(a, env)? { V::Bool(b) => Ok(V::Bool(!b)), _ => rej("not of a non-boolean") },
        E::Blk(..) | E::Scp(..) => rej("aggregate has no compile-time value"),
        E::Raw(_) => rej("raw text"),
    }
}

// ------------------------------------------------------------------ iteration
fn spread(v: V) -> R<Vec<V>> {
    match v {
        V::Tup(vs) | V::Arr(vs) => Ok(vs),
        V::Edge(e) => Ok(vec![V::Str(e.from), V::Str(e.to), V::Num(e.w.unwrap_or(1.0))]),
        _ => rej("value cannot be destructured"),
    }
}
pub fn iterate(its: &[It], env: &mut Env, leaf: &mut dyn FnMut(&mut Env) -> R<()>) -> R<()> {
    let it = &its[0];
    env.frames.push(vec![]);
    for v in &it.vars { env.declare(v, V::Undefined)?; }
    let vals = elements(eval(&it.over, env)?)?;
    for v in vals {
        if it.tuple {
            let parts = spread(v)?;
            if it.vars.len() > parts.len() { return rej("not enough components to destructure"); }
            for (n, p) in it.vars.iter().zip(parts) { env.set(n, p); }
        } else {
            env.set(&it.vars[0], v);
        }
        if its.len() == 1 { leaf(env)?; } else { iterate(&its[1..], env, leaf)?; }
    }
    env.frames.pop();
    Ok(())
}

// ------------------------------------------------------------------ names
fn fragment(v: &V) -> R<Ix> {
    Ok(match v {
        V::Int(i) => Ix::Lit(*i),
        V::Num(x) if x.fract() == 0.0 && x.abs() < 9e15 => Ix::Lit(*x as i64),
        V::Num(x) => Ix::Ex(num(*x)),
        V::Bool(b) => Ix::Id(if *b { "T".into() } else { "F".into() }),
        V::Str(s) => if ident_like(s) { Ix::Id(s.clone()) } else { Ix::Ex(E::Lit(V::Str(s.clone()))) },
        V::Node(n) => if ident_like(&n.name) { Ix::Id(n.name.clone()) } else { Ix::Ex(E::Lit(V::Str(n.name.clone()))) },
        _ => return rej("value cannot be part of a name"),
    })
}
fn unroll_ixs(ixs: &[Ix], env: &Env) -> R<Vec<Ix>> {
    ixs.iter().map(|ix| match ix {
        Ix::Lit(i) => Ok(Ix::Lit(*i)),
        Ix::Id(s) => match env.get(s) { Some(v) => fragment(v), None => Ok(Ix::Id(s.clone())) },
        Ix::Ex(E::Id(s)) if env.get(s).is_none() => Ok(Ix::Id(s.clone())),
        Ix::Ex(e) => fragment(&eval(e, env)?),
    }).collect()
}
fn numeric_lit(v: V) -> R<E> {
    match v {
        V::Int(i) => Ok(int(i)), V::Num(x) => Ok(num(x)), V::Bool(b) => Ok(E::Lit(V::Bool(b))),
        _ => rej("non-numeric value in a model expression"),
    }
}
fn left_fold(op: Op, xs: Vec<E>, empty: E) -> E {
    let mut it = xs.into_iter();
    match it.next() { None => empty, Some(first) => it.fold(first, |a, x| bin(op, a, x)) }
}
fn aggregate(kind: &str, xs: Vec<E>) -> R<E> {
    Ok(match kind {
        // written flat (`a + b + c`): the parser needs time exponential in the parenthesis depth, so a
        // right-nested text with more than ~12 terms cannot be compiled at all; the comparison flattens
        // chains of `+` / `*` on both sides (the ORDER of the terms is what is compared)
        "sum" => left_fold(Op::Add, xs, int(0)),
        "prod" => left_fold(Op::Mul, xs, int(1)),
        "avg" => { let n = xs.len() as i64; bin(Op::Div, left_fold(Op::Add, xs, int(0)), int(n)) }
        "xor" => left_fold(Op::Xor, xs, int(0)),
        "min" | "max" | "all" | "any" => { if xs.is_empty() { return Err(UErr::NoText(format!("empty {}", kind))); } E::Blk(kind.into(), xs) }
        "abs" => E::Blk(kind.into(), xs),
        _ => return rej("unknown aggregate"),
    })
}

pub fn unroll_e(e: &E, env: &mut Env) -> R<E> {
    match e {
        E::Lit(v) => numeric_lit(v.clone()),
        E::Id(s) => match env.get(s) { Some(v) => numeric_lit(v.clone()), None => Ok(E::Id(s.clone())) },
        E::Cv(n, ixs) => Ok(E::Cv(n.clone(), unroll_ixs(ixs, env)?)),
        E::Acc(..) | E::Call(..) => numeric_lit(eval(e, env)?),
        E::Range(..) => rej("range in a model expression"),
        E::Bin(op, a, b) => { let l = unroll_e(a, env)?; let r = unroll_e(b, env)?; Ok(bin(*op, l, r)) }
        E::Un(op, a) => Ok(E::Un(*op, Box::new(unroll_e(a, env)?))),
        E::Blk(k, es) => { let xs = es.iter().map(|x| unroll_e(x, env)).collect::<R<Vec<_>>>()?; aggregate(k, xs) }
        E::Scp(k, its, body) => {
            let mut xs = vec![];
            iterate(its, env, &mut |env| { xs.push(unroll_e(body, env)?); Ok(()) })?;
            aggregate(k, xs)
        }
        E::Raw(_) => rej("raw text"),
    }
}
fn unroll_name(n: &VarName, env: &Env) -> R<VarName> {
    Ok(match n { VarName::Simple(s) => VarName::Simple(s.clone()), VarName::Cv(b, ixs) => VarName::Cv(b.clone(), unroll_ixs(ixs, env)?) })
}
fn bound(e: &E, env: &Env, integer: bool) -> R<E> {
    let v = eval(e, env)?;
    if integer { Ok(int(as_int(&v)?)) } else { match as_f(&v) { Some(_) => numeric_lit(v), None => rej("non-numeric bound") } }
}

/// The hand-unrolled program.  `Err(Reject)`: the reference semantics rejects the program.
pub fn unroll(p: &Prog) -> R<Prog> {
    let mut env = Env::new();
    for (n, e) in &p.consts { let v = eval(e, &env)?; env.declare(n, v)?; }
    // declarations first (the compiler also expands them before objective and constraints)
    let mut decls = vec![];
    for d in &p.decls {
        let mut one = |env: &mut Env| -> R<()> {
            let vars = d.vars.iter().map(|v| unroll_name(v, env)).collect::<R<Vec<_>>>()?;
            let ty = match &d.ty {
                DomT::Boolean => DomT::Boolean,
                DomT::Real(None) => DomT::Real(None),
                DomT::NonNegativeReal(None) => DomT::NonNegativeReal(None),
                DomT::Real(Some((a, b))) => DomT::Real(Some((bound(a, env, false)?, bound(b, env, false)?))),
                DomT::NonNegativeReal(Some((a, b))) => DomT::NonNegativeReal(Some((bound(a, env, false)?, bound(b, env, false)?))),
                DomT::IntegerRange(a, b) => DomT::IntegerRange(bound(a, env, true)?, bound(b, env, true)?),
            };
            decls.push(Decl { vars, ty, iters: vec![] });
            Ok(())
        };
        if d.iters.is_empty() { one(&mut env)?; } else { iterate(&d.iters, &mut env, &mut one)?; }
    }
    let obj = if p.sense == "solve" { p.obj.clone() } else { unroll_e(&p.obj, &mut env)? };
    let mut cons = vec![];
    for c in &p.cons {
        let mut one = |env: &mut Env| -> R<()> {
            let lhs = unroll_e(&c.lhs, env)?;
            let rel = match &c.rel { Some((r, rhs)) => Some((r.clone(), unroll_e(rhs, env)?)), None => None };
            let name = match &c.name { Some(n) => Some(unroll_name(n, env)?), None => None };
            cons.push(Cons { name, lhs, rel, iters: vec![] });
            Ok(())
        };
        if c.iters.is_empty() { one(&mut env)?; } else { iterate(&c.iters, &mut env, &mut one)?; }
    }
    Ok(Prog { sense: p.sense.clone(), obj, cons, consts: vec![], decls })
}
