//! Hand-written models that exposed defects in the past (replayed first on every run).
use crate::gen_model::{build, VarDecl};
use rooc::model_transformer::{Constraint, Exp, Model};
use rooc::{BinOp, Comparison, OptimizationType, VariableType};

fn v(n: &str) -> Exp { Exp::Variable(n.into()) }
fn k(x: f64) -> Exp { Exp::Number(x) }
fn d(n: &str, ty: VariableType) -> VarDecl { VarDecl { name: n.into(), ty } }

pub fn models() -> Vec<Model> {
    vec![
        // C01: derived range [0,0.5] of a Boolean feeds operand pruning but is never enforced
        build(OptimizationType::Max, v("x"),
            vec![Constraint::new(Exp::Max(vec![v("x"), k(0.5)]), Comparison::LessOrEqual, k(0.5), "".into())],
            &[d("x", VariableType::Boolean)]),
        // C10: x and 1 collapses to x for a non-binary x
        build(OptimizationType::Max, v("y"),
            vec![Constraint::new(v("y"), Comparison::LessOrEqual, Exp::And(vec![v("x"), k(1.0)]), "".into()),
                 Constraint::new(v("x"), Comparison::LessOrEqual, k(-1.0), "".into())],
            &[d("x", VariableType::IntegerRange(-3, 5)), d("y", VariableType::Real(0.0, 10.0))]),
        // C08: Infinity literal
        build(OptimizationType::Min, v("x"),
            vec![Constraint::new(Exp::BinOp(BinOp::Mul, Box::new(k(f64::INFINITY)), Box::new(v("x"))), Comparison::GreaterOrEqual, k(1.0), "".into())],
            &[d("x", VariableType::NonNegativeReal(0.0, f64::INFINITY))]),
        // exact abs with big-M
        build(OptimizationType::Max, Exp::Abs(Box::new(v("x"))),
            vec![Constraint::new(v("x"), Comparison::LessOrEqual, k(2.0), "cap".into())],
            &[d("x", VariableType::Real(-3.0, 3.0))]),
        // duplicate names
        build(OptimizationType::Min, v("x"),
            vec![Constraint::new(v("x"), Comparison::GreaterOrEqual, k(1.0), "a".into()),
                 Constraint::new(v("x"), Comparison::GreaterOrEqual, k(0.0), "a".into()),
                 Constraint::new(v("x"), Comparison::LessOrEqual, k(5.0), "a__2".into()),
                 Constraint::new(v("x"), Comparison::LessOrEqual, k(6.0), "a".into())],
            &[d("x", VariableType::Real(-3.0, 30.0))]),
    ]
}
