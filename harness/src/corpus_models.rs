//! Hand-written models that exposed defects in the past (replayed first on every run).
use crate::gen_model::{build, VarDecl};
use rooc::model_transformer::{Constraint, Exp, Model};
use rooc::{BinOp, Comparison, OptimizationType, VariableType};

fn v(n: &str) -> Exp { Exp::Variable(n.into()) }
fn k(x: f64) -> Exp { Exp::Number(x) }
fn d(n: &str, ty: VariableType) -> VarDecl { VarDecl { name: n.into(), ty } }

fn bx(e: Exp) -> Box<Exp> { Box::new(e) }

/// C01 (fixed 46b0121): `min y s.t. y >= max{10, e}; x <= 1; x >= 0` where `e` is dominated by 10 and has no value
/// at any assignment — `linearize_extreme` used to prune `e` without lowering it, so its error was never reported.
/// Model and implementation must both reject these.
fn pruned_undefined(e: Exp) -> Model {
    let free = || VariableType::Real(f64::NEG_INFINITY, f64::INFINITY);
    build(OptimizationType::Min, v("y"),
        vec![Constraint::new(v("y"), Comparison::GreaterOrEqual, Exp::Max(vec![k(10.0), e]), "c".into()),
             Constraint::new(v("x"), Comparison::LessOrEqual, k(1.0), "u".into()),
             Constraint::new(v("x"), Comparison::GreaterOrEqual, k(0.0), "l".into())],
        &[d("x", free()), d("y", free())])
}

pub fn models() -> Vec<Model> {
    let xdiv0 = || Exp::BinOp(BinOp::Div, bx(v("x")), bx(k(0.0)));
    let mut out = models_base();
    out.push(pruned_undefined(Exp::Min(vec![v("x"), xdiv0()])));
    out.push(pruned_undefined(Exp::BinOp(BinOp::Mul, bx(k(0.0)), bx(xdiv0()))));
    out.push(pruned_undefined(Exp::Min(vec![v("x"), Exp::BinOp(BinOp::Div, bx(k(1.0)), bx(k(0.0)))])));
    out.push(pruned_undefined(Exp::BinOp(BinOp::Add, bx(Exp::BinOp(BinOp::Mul, bx(xdiv0()), bx(k(0.0)))), bx(v("x")))));
    // C01 (fixed ba14904): a logic value that has no value, compared with a literal that decides the comparison
    out.push(verdict_undefined(Exp::And(vec![v("b"), xdiv0()]), Comparison::LessOrEqual, k(1.0)));
    out.push(verdict_undefined(Exp::And(vec![v("b"), Exp::Max(vec![])]), Comparison::LessOrEqual, k(1.0)));
    out.push(verdict_undefined(k(5.0), Comparison::GreaterOrEqual, Exp::Or(vec![v("b"), xdiv0()])));
    out.push(verdict_undefined(Exp::And(vec![v("b"), xdiv0()]), Comparison::GreaterOrEqual, k(2.0)));
    out.extend(collapsing_singletons());
    out
}

/// C01 / C02 (fixed 81a4b76 + e35561f): an and/or node whose identity constants are dropped by `simplify` and whose
/// single remaining operand is not a 0/1 value (`x and 1` -> `x`). `Linearizer::linearize` now checks every such node
/// up front, on the declared domains, with the 0/1 test of the lowering. Model and implementation must both reject
/// these with NonBinaryLogicOperand. (The first input of the family, `max y s.t. y <= (x and 1); x <= -1`, is the
/// second entry of `models_base`.)
fn collapsing_singletons() -> Vec<Model> {
    let and = |a: Exp, b: Exp| Exp::And(vec![a, b]);
    vec![
        // C01-nary-singleton-nonbinary-let-in: min 3 * (x + 1) s.t. x and 1 = 3; x >= 0, x in Real(0, 4)
        build(OptimizationType::Min, Exp::BinOp(BinOp::Mul, bx(k(3.0)), bx(Exp::BinOp(BinOp::Add, bx(v("x")), bx(k(1.0))))),
            vec![Constraint::new(and(v("x"), k(1.0)), Comparison::Equal, k(3.0), "c".into()),
                 Constraint::new(v("x"), Comparison::GreaterOrEqual, k(0.0), "l".into())],
            &[d("x", VariableType::Real(0.0, 4.0))]),
        // C02-nary-singleton-nonbinary-better: min x_1 and 2 s.t. x_1 - 0 <= z / 1 + min{4, a}
        build(OptimizationType::Min, and(v("x_1"), k(2.0)),
            vec![Constraint::new(Exp::BinOp(BinOp::Sub, bx(v("x_1")), bx(k(0.0))), Comparison::LessOrEqual,
                    Exp::BinOp(BinOp::Add, bx(Exp::BinOp(BinOp::Div, bx(v("z")), bx(k(1.0)))), bx(Exp::Min(vec![k(4.0), v("a")]))), "c".into())],
            &[d("x_1", VariableType::Real(-2.5, 2.5)), d("a", VariableType::Real(-3.5, 2.5)),
              d("z", VariableType::NonNegativeReal(0.0, f64::INFINITY))]),
        // C02-nary-singleton-nonbinary-not-attained: min -(x and 1) s.t. z >= -1
        build(OptimizationType::Min, Exp::UnOp(rooc::UnOp::Neg, bx(and(v("x"), k(1.0)))),
            vec![Constraint::new(v("z"), Comparison::GreaterOrEqual, k(-1.0), "c".into())],
            &[d("x", VariableType::IntegerRange(-2, 1)), d("y", VariableType::IntegerRange(-1, 2)), d("z", VariableType::Real(-1.5, 2.5))]),
        // finding 5 (e35561f): the bounds inferred FROM the collapsed constraint (x in [1, 1] through y <= min{b, x},
        // y >= 1) made the in-loop check pass; the check now runs before bound inference, on the declared domains
        build(OptimizationType::Min, v("x"),
            vec![Constraint::new(v("y"), Comparison::LessOrEqual, and(Exp::Min(vec![v("b"), v("x")]), k(1.0)), "c1".into()),
                 Constraint::new(v("y"), Comparison::GreaterOrEqual, k(1.0), "c3".into()),
                 Constraint::new(v("x"), Comparison::GreaterOrEqual, k(0.5), "c4".into())],
            &[d("b", VariableType::Boolean), d("x", VariableType::Real(0.0, 5.0)), d("y", VariableType::Real(0.0, 10.0))]),
    ]
}

/// C01 (fixed ba14904): `min x s.t. c: <logic value> cmp <literal>; x >= 0` where the literal alone decides the
/// comparison (Tautology / Contradiction) and the logic value has no value at any assignment —
/// `try_normalize_logic_constraint` used to drop (or replace by `0 = 1`) the constraint without lowering the logic
/// value, so its error was never reported. Model and implementation must both reject these.
fn verdict_undefined(lhs: Exp, cmp: Comparison, rhs: Exp) -> Model {
    build(OptimizationType::Min, v("x"),
        vec![Constraint::new(lhs, cmp, rhs, "c".into()),
             Constraint::new(v("x"), Comparison::GreaterOrEqual, k(0.0), "l".into())],
        &[d("x", VariableType::Real(f64::NEG_INFINITY, f64::INFINITY)), d("b", VariableType::Boolean)])
}

fn models_base() -> Vec<Model> {
    vec![
        // C01: derived range [0,0.5] of a Boolean feeds operand pruning but is never enforced
        build(OptimizationType::Max, v("x"),
            vec![Constraint::new(Exp::Max(vec![v("x"), k(0.5)]), Comparison::LessOrEqual, k(0.5), "".into())],
            &[d("x", VariableType::Boolean)]),
        // C10: x and 1 collapses to x for a non-binary x
        build(OptimizationType::Max, v("y"),
            vec![Constraint::new(v("y"), Comparison::LessOrEqual, Exp::And(vec![v("x"), k(1.0)]), "".into()),
                 Constraint::new(v("x"), Comparison::LessOrEqual, k(-1.0), "".into())],
            &[d("x", VariableType::IntegerRange(-3, 5)), d("y", VariableType::Real(0.0, 10.0))]),
        // C08: Infinity literal
        build(OptimizationType::Min, v("x"),
            vec![Constraint::new(Exp::BinOp(BinOp::Mul, Box::new(k(f64::INFINITY)), Box::new(v("x"))), Comparison::GreaterOrEqual, k(1.0), "".into())],
            &[d("x", VariableType::NonNegativeReal(0.0, f64::INFINITY))]),
        // exact abs with big-M
        build(OptimizationType::Max, Exp::Abs(Box::new(v("x"))),
            vec![Constraint::new(v("x"), Comparison::LessOrEqual, k(2.0), "cap".into())],
            &[d("x", VariableType::Real(-3.0, 3.0))]),
        // C01 (fixed b9d407a): integer range rounded within the tolerance is wider than the box used for pruning
        build(OptimizationType::Max, v("n"),
            vec![Constraint::new(Exp::Max(vec![v("n"), k(4.9999999995)]), Comparison::LessOrEqual, k(4.9999999995), "".into())],
            &[d("n", VariableType::IntegerRange(0, 10))]),
        // C01 (fixed cce0e38): infeasible model, integer variable left without an integral point, frozen box used for pruning
        build(OptimizationType::Min, Exp::BinOp(BinOp::Add, Box::new(Exp::BinOp(BinOp::Add, Box::new(k(4.0)), Box::new(Exp::BinOp(BinOp::Div, Box::new(v("x")), Box::new(k(2.0)))))), Box::new(v("x"))),
            vec![Constraint::new(Exp::Max(vec![
                    Exp::BinOp(BinOp::Add, Box::new(Exp::BinOp(BinOp::Add, Box::new(Exp::BinOp(BinOp::Add, Box::new(k(-1.0)), Box::new(v("x")))), Box::new(v("x")))), Box::new(k(2.0))),
                    Exp::BinOp(BinOp::Div, Box::new(v("x")), Box::new(k(4.0)))]),
                Comparison::LessOrEqual, v("x"), "a".into())],
            &[d("x", VariableType::IntegerRange(-1, 3))]),
        // C10 (fixed de2e7f6): a coefficient written as a constant sum in front of a max
        build(OptimizationType::Min, v("x"),
            vec![Constraint::new(Exp::BinOp(BinOp::Mul, Box::new(Exp::BinOp(BinOp::Add, Box::new(k(-4.0)), Box::new(k(1.0)))), Box::new(Exp::Max(vec![Exp::BinOp(BinOp::Add, Box::new(v("x")), Box::new(v("x"))), v("x")]))),
                Comparison::GreaterOrEqual, k(0.0), "".into())],
            &[d("x", VariableType::Real(f64::NEG_INFINITY, f64::INFINITY))]),
        // C07 (fixed 4e5bd4b): a huge constant absorbing a small range
        build(OptimizationType::Max, v("x"),
            vec![Constraint::new(Exp::Max(vec![v("x"), v("y")]), Comparison::LessOrEqual, k(1e16), "".into())],
            &[d("x", VariableType::NonNegativeReal(0.0, 1.0)), d("y", VariableType::NonNegativeReal(0.0, 1.0))]),
        // C10 (fixed 9f62afd): division by zero below an absorbing constant
        build(OptimizationType::Min, v("x"),
            vec![Constraint::new(Exp::BinOp(BinOp::Add, Box::new(Exp::BinOp(BinOp::Mul, Box::new(k(0.0)), Box::new(Exp::BinOp(BinOp::Div, Box::new(v("x")), Box::new(k(0.0)))))), Box::new(v("x"))), Comparison::GreaterOrEqual, k(1.0), "".into())],
            &[d("x", VariableType::Real(0.0, 5.0))]),
        // duplicate names
        build(OptimizationType::Min, v("x"),
            vec![Constraint::new(v("x"), Comparison::GreaterOrEqual, k(1.0), "a".into()),
                 Constraint::new(v("x"), Comparison::GreaterOrEqual, k(0.0), "a".into()),
                 Constraint::new(v("x"), Comparison::LessOrEqual, k(5.0), "a__2".into()),
                 Constraint::new(v("x"), Comparison::LessOrEqual, k(6.0), "a".into())],
            &[d("x", VariableType::Real(-3.0, 30.0))]),
    ]
}

#[cfg(test)]
mod tests {
    /// the four inputs of finding C01-prune-undefined-operand (46b0121) and the four of
    /// C01-logic-verdict-undefined-operand (ba14904) are rejected by the implementation
    #[test]
    fn pruned_undefined_operands_are_rejected() {
        let all = super::models();
        let n = all.len();
        for m in &all[n - 12..n - 4] {
            assert!(rooc::Linearizer::linearize(m.clone()).is_err(), "compiled: {}", m);
        }
    }

    /// the inputs of the singleton-collapse findings (81a4b76 + e35561f) are rejected with NonBinaryLogicOperand,
    /// and the impl-side oracle `certain_collapse` sees every one of them but the finding-5 input (whose collapsed
    /// operand `min{b, x}` is not a bare variable)
    #[test]
    fn collapsing_singletons_are_rejected() {
        let all = super::models();
        let n = all.len();
        let mut ms: Vec<_> = all[n - 4..].to_vec();
        ms.push(all[1].clone());
        for m in &ms {
            match rooc::Linearizer::linearize(m.clone()) {
                Err(rooc::LinearizationError::NonBinaryLogicOperand(_)) => {}
                other => panic!("expected NonBinaryLogicOperand for {}: {:?}", m, other.map(|_| ())),
            }
        }
        let certain = ms.iter().filter(|m| crate::props::c01::certain_collapse(m)).count();
        assert_eq!(certain, 4);
    }
}
