//! Hand-written models that exposed defects in the past (replayed first on every run).
use crate::gen_model::{build, VarDecl};
use rooc::model_transformer::{Constraint, Exp, Model};
use rooc::{BinOp, Comparison, OptimizationType, VariableType};

fn v(n: &str) -> Exp { Exp::Variable(n.into()) }
fn k(x: f64) -> Exp { Exp::Number(x) }
fn d(n: &str, ty: VariableType) -> VarDecl { VarDecl { name: n.into(), ty } }

fn bx(e: Exp) -> Box<Exp> { Box::new(e) }

/// C01 (fixed 46b0121): `min y s.t. y >= max{10, e}; x <= 1; x >= 0` where `e` is dominated by 10 and has no value
/// at any assignment — `linearize_extreme` used to prune `e` without lowering it, so its error was never reported.
/// Model and implementation must both reject these.
fn pruned_undefined(e: Exp) -> Model {
    let free = || VariableType::Real(f64::NEG_INFINITY, f64::INFINITY);
    build(OptimizationType::Min, v("y"),
        vec![Constraint::new(v("y"), Comparison::GreaterOrEqual, Exp::Max(vec![k(10.0), e]), "c".into()),
             Constraint::new(v("x"), Comparison::LessOrEqual, k(1.0), "u".into()),
             Constraint::new(v("x"), Comparison::GreaterOrEqual, k(0.0), "l".into())],
        &[d("x", free()), d("y", free())])
}

pub fn models() -> Vec<Model> {
    let xdiv0 = || Exp::BinOp(BinOp::Div, bx(v("x")), bx(k(0.0)));
    let mut out = models_base();
    out.push(pruned_undefined(Exp::Min(vec![v("x"), xdiv0()])));
    out.push(pruned_undefined(Exp::BinOp(BinOp::Mul, bx(k(0.0)), bx(xdiv0()))));
    out.push(pruned_undefined(Exp::Min(vec![v("x"), Exp::BinOp(BinOp::Div, bx(k(1.0)), bx(k(0.0)))])));
    out.push(pruned_undefined(Exp::BinOp(BinOp::Add, bx(Exp::BinOp(BinOp::Mul, bx(xdiv0()), bx(k(0.0)))), bx(v("x")))));
    // C01 (fixed ba14904): a logic value that has no value, compared with a literal that decides the comparison
    out.push(verdict_undefined(Exp::And(vec![v("b"), xdiv0()]), Comparison::LessOrEqual, k(1.0)));
    out.push(verdict_undefined(Exp::And(vec![v("b"), Exp::Max(vec![])]), Comparison::LessOrEqual, k(1.0)));
    out.push(verdict_undefined(k(5.0), Comparison::GreaterOrEqual, Exp::Or(vec![v("b"), xdiv0()])));
    out.push(verdict_undefined(Exp::And(vec![v("b"), xdiv0()]), Comparison::GreaterOrEqual, k(2.0)));
    out
}

/// C01 (fixed ba14904): `min x s.t. c: <logic value> cmp <literal>; x >= 0` where the literal alone decides the
/// comparison (Tautology / Contradiction) and the logic value has no value at any assignment —
/// `try_normalize_logic_constraint` used to drop (or replace by `0 = 1`) the constraint without lowering the logic
/// value, so its error was never reported. Model and implementation must both reject these.
fn verdict_undefined(lhs: Exp, cmp: Comparison, rhs: Exp) -> Model {
    build(OptimizationType::Min, v("x"),
        vec![Constraint::new(lhs, cmp, rhs, "c".into()),
             Constraint::new(v("x"), Comparison::GreaterOrEqual, k(0.0), "l".into())],
        &[d("x", VariableType::Real(f64::NEG_INFINITY, f64::INFINITY)), d("b", VariableType::Boolean)])
}

fn models_base() -> Vec<Model> {
    vec![
        // C01: derived range [0,0.5] of a Boolean feeds operand pruning but is never enforced
        build(OptimizationType::Max, v("x"),
            vec![Constraint::new(Exp::Max(vec![v("x"), k(0.5)]), Comparison::LessOrEqual, k(0.5), "".into())],
            &[d("x", VariableType::Boolean)]),
        // C10: x and 1 collapses to x for a non-binary x
        build(OptimizationType::Max, v("y"),
            vec![Constraint::new(v("y"), Comparison::LessOrEqual, Exp::And(vec![v("x"), k(1.0)]), "".into()),
                 Constraint::new(v("x"), Comparison::LessOrEqual, k(-1.0), "".into())],
            &[d("x", VariableType::IntegerRange(-3, 5)), d("y", VariableType::Real(0.0, 10.0))]),
        // C08: Infinity literal
        build(OptimizationType::Min, v("x"),
            vec![Constraint::new(Exp::BinOp(BinOp::Mul, Box::new(k(f64::INFINITY)), Box::new(v("x"))), Comparison::GreaterOrEqual, k(1.0), "".into())],
            &[d("x", VariableType::NonNegativeReal(0.0, f64::INFINITY))]),
        // exact abs with big-M
        build(OptimizationType::Max, Exp::Abs(Box::new(v("x"))),
            vec![Constraint::new(v("x"), Comparison::LessOrEqual, k(2.0), "cap".into())],
            &[d("x", VariableType::Real(-3.0, 3.0))]),
        // C01 (fixed b9d407a): integer range rounded within the tolerance is wider than the box used for pruning
        build(OptimizationType::Max, v("n"),
            vec![Constraint::new(Exp::Max(vec![v("n"), k(4.9999999995)]), Comparison::LessOrEqual, k(4.9999999995), "".into())],
            &[d("n", VariableType::IntegerRange(0, 10))]),
        // C01 (fixed cce0e38): infeasible model, integer variable left without an integral point, frozen box used for pruning
        build(OptimizationType::Min, Exp::BinOp(BinOp::Add, Box::new(Exp::BinOp(BinOp::Add, Box::new(k(4.0)), Box::new(Exp::BinOp(BinOp::Div, Box::new(v("x")), Box::new(k(2.0)))))), Box::new(v("x"))),
            vec![Constraint::new(Exp::Max(vec![
                    Exp::BinOp(BinOp::Add, Box::new(Exp::BinOp(BinOp::Add, Box::new(Exp::BinOp(BinOp::Add, Box::new(k(-1.0)), Box::new(v("x")))), Box::new(v("x")))), Box::new(k(2.0))),
                    Exp::BinOp(BinOp::Div, Box::new(v("x")), Box::new(k(4.0)))]),
                Comparison::LessOrEqual, v("x"), "a".into())],
            &[d("x", VariableType::IntegerRange(-1, 3))]),
        // C10 (fixed de2e7f6): a coefficient written as a constant sum in front of a max
        build(OptimizationType::Min, v("x"),
            vec![Constraint::new(Exp::BinOp(BinOp::Mul, Box::new(Exp::BinOp(BinOp::Add, Box::new(k(-4.0)), Box::new(k(1.0)))), Box::new(Exp::Max(vec![Exp::BinOp(BinOp::Add, Box::new(v("x")), Box::new(v("x"))), v("x")]))),
                Comparison::GreaterOrEqual, k(0.0), "".into())],
            &[d("x", VariableType::Real(f64::NEG_INFINITY, f64::INFINITY))]),
        // C07 (fixed 4e5bd4b): a huge constant absorbing a small range
        build(OptimizationType::Max, v("x"),
            vec![Constraint::new(Exp::Max(vec![v("x"), v("y")]), Comparison::LessOrEqual, k(1e16), "".into())],
            &[d("x", VariableType::NonNegativeReal(0.0, 1.0)), d("y", VariableType::NonNegativeReal(0.0, 1.0))]),
        // C10 (fixed 9f62afd): division by zero below an absorbing constant
        build(OptimizationType::Min, v("x"),
            vec![Constraint::new(Exp::BinOp(BinOp::Add, Box::new(Exp::BinOp(BinOp::Mul, Box::new(k(0.0)), Box::new(Exp::BinOp(BinOp::Div, Box::new(v("x")), Box::new(k(0.0)))))), Box::new(v("x"))), Comparison::GreaterOrEqual, k(1.0), "".into())],
            &[d("x", VariableType::Real(0.0, 5.0))]),
        // duplicate names
        build(OptimizationType::Min, v("x"),
            vec![Constraint::new(v("x"), Comparison::GreaterOrEqual, k(1.0), "a".into()),
                 Constraint::new(v("x"), Comparison::GreaterOrEqual, k(0.0), "a".into()),
                 Constraint::new(v("x"), Comparison::LessOrEqual, k(5.0), "a__2".into()),
                 Constraint::new(v("x"), Comparison::LessOrEqual, k(6.0), "a".into())],
            &[d("x", VariableType::Real(-3.0, 30.0))]),
    ]
}

#[cfg(test)]
mod tests {
    /// the four inputs of finding C01-prune-undefined-operand (46b0121) and the four of
    /// C01-logic-verdict-undefined-operand (ba14904) are rejected by the implementation
    #[test]
    fn pruned_undefined_operands_are_rejected() {
        let all = super::models();
        let n = all.len();
        for m in &all[n - 8..] {
            assert!(rooc::Linearizer::linearize(m.clone()).is_err(), "compiled: {}", m);
        }
    }
}
