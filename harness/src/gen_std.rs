//! Generator of continuous `LinearModel`s shared by C13 (standard form) and C14 (simplex traces).
//! Every interleaving of free / non-negative / bounded variables and of <=, >=, = rows is enumerable
//! (`patterns`), data comes from several classes (small integers, dyadic and decimal fractions,
//! tolerance-boundary perturbations, extremes).
use crate::rng::Rng;
use rooc::{Comparison, LinearModel, OptimizationType, VariableType};

#[derive(Clone, Copy, Debug, PartialEq)]
pub enum VKind { Free, NonNeg, NnUb, NnLbUb, RealLb, RealUb, RealBoth }
pub const VKINDS4: [VKind; 4] = [VKind::Free, VKind::NonNeg, VKind::NnUb, VKind::RealBoth];
pub const VKINDS7: [VKind; 7] =
    [VKind::Free, VKind::NonNeg, VKind::NnUb, VKind::NnLbUb, VKind::RealLb, VKind::RealUb, VKind::RealBoth];
pub const RKINDS: [Comparison; 3] = [Comparison::LessOrEqual, Comparison::GreaterOrEqual, Comparison::Equal];

impl VKind {
    pub fn tag(&self) -> &'static str {
        match self {
            VKind::Free => "var:free", VKind::NonNeg => "var:nonneg", VKind::NnUb => "var:nn-ub",
            VKind::NnLbUb => "var:nn-lb-ub", VKind::RealLb => "var:real-lb", VKind::RealUb => "var:real-ub",
            VKind::RealBoth => "var:real-lb-ub",
        }
    }
}

#[derive(Clone, Copy, Debug, PartialEq)]
pub enum DataClass { SmallInt, Dyadic, Decimal, TolBoundary, Extreme, Large }
impl DataClass {
    pub fn tag(&self) -> &'static str {
        match self {
            DataClass::SmallInt => "data:small-int", DataClass::Dyadic => "data:dyadic", DataClass::Decimal => "data:decimal",
            DataClass::TolBoundary => "data:tol-boundary", DataClass::Extreme => "data:extreme", DataClass::Large => "data:large-magnitude",
        }
    }
}

#[derive(Clone, Debug)]
pub struct LpSpec {
    pub types: Vec<VariableType>,
    pub kinds: Vec<VKind>,
    pub rows: Vec<(Vec<f64>, Comparison, f64)>,
    pub obj: Vec<f64>,
    pub offset: f64,
    pub opt: OptimizationType,
    pub class: DataClass,
}

/// offsets between near-equal large values: below / around the absolute tolerance, and far above it but below a
/// RELATIVE 1e-5 at magnitude 1e7..1e8
pub const LARGE_DELTAS: [f64; 9] = [1e-6, 1e-5, 2e-5, 1e-4, 1e-3, 0.125, 1.0, 150.0, 1e3];
pub const PERTURB: [f64; 6] = [1e-10, 1e-9, 2e-9, 1e-6, 1e-5, 2e-5];

pub fn value(r: &mut Rng, class: DataClass, lo: i64, hi: i64) -> f64 {
    let k = r.range(lo, hi) as f64;
    match class {
        DataClass::SmallInt => k,
        DataClass::Dyadic => k + [0.0, 0.5, 0.25, -0.5, 0.125][r.below(5)],
        DataClass::Decimal => k + [0.0, 0.1, 0.2, -0.3, 0.7][r.below(5)],
        DataClass::TolBoundary => {
            if r.chance(1, 2) { k } else {
                let p = PERTURB[r.below(PERTURB.len())];
                let base = if r.chance(1, 2) { 0.0 } else { k };
                let s = if r.chance(1, 2) { p } else { -p };
                // also half a tolerance and the exact boundary
                match r.below(4) { 0 => base + s, 1 => base + s * 0.5, 2 => base + s * 0.999, _ => base + s * 1.001 }
            }
        }
        // large magnitudes (up to 1e8) with near-equal values: k*10^e, and such a value +- {1e-6 .. 1e3}
        DataClass::Large => {
            let base = (if k == 0.0 { 1.0 } else { k }) * [1e3, 1e5, 1e6, 2e7, 1e8][r.below(5)];
            match r.below(3) { 0 => k, 1 => base, _ => base + LARGE_DELTAS[r.below(LARGE_DELTAS.len())] * (if r.chance(1, 2) { 1.0 } else { -1.0 }) }
        }
        DataClass::Extreme => match r.below(8) {
            0 => 0.0, 1 => -0.0, 2 => 1e9, 3 => -1e9, 4 => 1e-9, 5 => k * 1e6, _ => k,
        },
    }
}

pub fn var_type(r: &mut Rng, kind: VKind, class: DataClass) -> VariableType {
    let lo = value(r, class, -2, 1);
    let w = [0.0, 1.0, 2.0, 3.0][r.below(4)];
    match kind {
        VKind::Free => VariableType::Real(f64::NEG_INFINITY, f64::INFINITY),
        VKind::NonNeg => VariableType::NonNegativeReal(if r.chance(1, 6) { -0.0 } else { 0.0 }, f64::INFINITY),
        VKind::NnUb => VariableType::NonNegativeReal(0.0, lo.abs() + w),
        VKind::NnLbUb => { let l = lo.abs() + if r.chance(1, 3) { 0.0 } else { 1.0 }; VariableType::NonNegativeReal(l, if r.chance(1, 4) { f64::INFINITY } else { l + w }) }
        VKind::RealLb => VariableType::Real(lo, f64::INFINITY),
        VKind::RealUb => VariableType::Real(f64::NEG_INFINITY, lo + w),
        VKind::RealBoth => VariableType::Real(lo, lo + w),
    }
}

/// one model with the given variable-kind and row-kind pattern
pub fn spec(r: &mut Rng, kinds: &[VKind], rkinds: &[Comparison], opt: OptimizationType, class: DataClass) -> LpSpec {
    let n = kinds.len();
    let types: Vec<VariableType> = kinds.iter().map(|k| var_type(r, *k, class)).collect();
    let zero_p = 1 + r.below(3) as u32; // 1/4 .. 3/4 zeros... (num of 4)
    let mut rows = vec![];
    for rk in rkinds {
        let mut coeffs: Vec<f64> = (0..n).map(|_| if r.chance(zero_p, 4) { 0.0 } else { value(r, class, -3, 3) }).collect();
        if r.chance(1, 10) { let m = r.below(n.max(1)); if m < n { coeffs.truncate(m); } } // short vector: add_constraint pads
        let rhs = value(r, class, -4, 6);
        rows.push((coeffs, *rk, rhs));
    }
    // plant a feasible witness on the oracle's sample grid (3 of 4 models): right-hand sides are chosen so
    // that the witness satisfies every row (with equality now and then => degenerate vertices)
    if r.chance(3, 4) {
        let grid = [0.0, 1.0, -1.0, 2.0, 0.5, -2.0, 3.0];
        let x0: Vec<f64> = types.iter().map(|t| {
            let (lo, hi) = match t { VariableType::Real(a, b) => (*a, *b), VariableType::NonNegativeReal(a, b) => (a.max(0.0), *b), _ => (0.0, 0.0) };
            let ok: Vec<f64> = grid.iter().cloned().filter(|g| *g >= lo && *g <= hi).collect();
            if !ok.is_empty() { ok[r.below(ok.len())] } else if lo.is_finite() { lo } else if hi.is_finite() { hi } else { 0.0 }
        }).collect();
        for (coeffs, k, rhs) in rows.iter_mut() {
            let v: f64 = coeffs.iter().zip(&x0).map(|(c, x)| c * x).sum();
            let room = [0.0, 0.0, 1.0, 2.0, 0.5][r.below(5)];
            *rhs = match k { Comparison::LessOrEqual => v + room, Comparison::GreaterOrEqual => v - room, _ => v };
        }
    }
    // redundant / duplicate rows and zero right-hand sides (degenerate vertices) now and then
    if rows.len() >= 2 && r.chance(1, 6) {
        let (a, b) = (r.below(rows.len()), r.below(rows.len()));
        if a != b { let src = rows[a].clone(); rows[b].0 = src.0; rows[b].2 = src.2; }
    }
    if !rows.is_empty() && r.chance(1, 8) { let i = r.below(rows.len()); rows[i].2 = 0.0; }
    let obj: Vec<f64> = (0..n).map(|_| if r.chance(1, 4) { 0.0 } else { value(r, class, -3, 3) }).collect();
    let offset = [0.0, 0.0, 2.5, -1.0, 7.0][r.below(5)];
    LpSpec { types, kinds: kinds.to_vec(), rows, obj, offset, opt, class }
}

pub fn var_name(i: usize) -> String { ["x", "y", "z", "w", "u", "v", "t", "s"][i % 8].to_string() + &(if i >= 8 { format!("{}", i / 8) } else { String::new() }) }

pub fn build(s: &LpSpec) -> LinearModel {
    let mut m = LinearModel::new();
    for (i, t) in s.types.iter().enumerate() { m.add_variable(&var_name(i), *t); }
    m.set_objective(s.obj.clone(), s.opt.clone());
    for (c, k, rhs) in &s.rows { m.add_constraint(c.clone(), *k, *rhs); }
    if s.offset != 0.0 {
        let (o, t, _off, c, v, d) = m.into_parts();
        m = LinearModel::new_from_parts(o, t, s.offset, c, v, d);
    }
    m
}

/// all sequences of length `len` over `alphabet`
pub fn patterns<T: Copy>(alphabet: &[T], len: usize) -> Vec<Vec<T>> {
    let mut out: Vec<Vec<T>> = vec![vec![]];
    for _ in 0..len {
        let mut next = vec![];
        for p in &out { for a in alphabet { let mut q = p.clone(); q.push(*a); next.push(q); } }
        out = next;
    }
    out
}

pub fn random_spec(r: &mut Rng, max_vars: usize, max_rows: usize, kinds: &[VKind], class: DataClass) -> LpSpec {
    let n = 1 + r.below(max_vars);
    let m = r.below(max_rows + 1);
    let ks: Vec<VKind> = (0..n).map(|_| *r.pick(kinds)).collect();
    let rk: Vec<Comparison> = (0..m).map(|_| *r.pick(&RKINDS)).collect();
    let opt = if r.chance(1, 2) { OptimizationType::Min } else { OptimizationType::Max };
    spec(r, &ks, &rk, opt, class)
}

/// the tolerance of `math_utils::float_eq` & co., measured on the real code: the least `d > 0` with
/// `float_lt(0, d)` (bisection over bit patterns; `float_lt(0,d) = d >= tol`).
pub fn measured_tolerance() -> f64 {
    let (mut lo, mut hi) = (0u64, 1.0f64.to_bits()); // lt(0, lo) false, lt(0, hi) true
    assert!(rooc::verif_hooks::float_lt_hook(0.0, 1.0));
    while hi - lo > 1 {
        let mid = lo + (hi - lo) / 2;
        if rooc::verif_hooks::float_lt_hook(0.0, f64::from_bits(mid)) { hi = mid } else { lo = mid }
    }
    f64::from_bits(hi)
}

/// float with NaN canonicalised the way Lean's `Float.toBits` does
pub fn num(v: f64) -> String {
    if v.is_nan() { "#x7ff8000000000000".to_string() } else { format!("#x{:016x}", v.to_bits()) }
}
pub fn nums(v: &[f64]) -> String { v.iter().map(|x| num(*x)).collect::<Vec<_>>().join(" ") }
