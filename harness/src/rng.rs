//! splitmix64: every random choice of a run derives from one seed.
#[derive(Clone)]
pub struct Rng(pub u64);
impl Rng {
    /// the seed is scrambled through the splitmix finalizer twice so that consecutive seeds give unrelated
    /// streams (a plain `seed * gamma` start would make seed s+1 the stream of seed s shifted by one draw)
    pub fn new(seed: u64) -> Self {
        let mut r = Rng(seed ^ 0xD1B54A32D192ED03);
        let a = r.next();
        let b = r.next();
        Rng(a ^ b.rotate_left(32) ^ seed.wrapping_mul(0xC2B2AE3D27D4EB4F))
    }
    pub fn next(&mut self) -> u64 {
        self.0 = self.0.wrapping_add(0x9E3779B97F4A7C15);
        let mut z = self.0;
        z = (z ^ (z >> 30)).wrapping_mul(0xBF58476D1CE4E5B9);
        z = (z ^ (z >> 27)).wrapping_mul(0x94D049BB133111EB);
        z ^ (z >> 31)
    }
    pub fn below(&mut self, n: usize) -> usize { if n == 0 { 0 } else { (self.next() % n as u64) as usize } }
    pub fn range(&mut self, lo: i64, hi: i64) -> i64 { lo + (self.next() % ((hi - lo + 1) as u64)) as i64 }
    pub fn chance(&mut self, num: u32, den: u32) -> bool { (self.next() % den as u64) < num as u64 }
    pub fn pick<'a, T>(&mut self, xs: &'a [T]) -> &'a T { &xs[self.below(xs.len())] }
    pub fn fork(&mut self) -> Rng { Rng(self.next()) }
}
