//! roocverif — generates cases, runs the real rooc code on them and writes, per case, the request for
//! the Lean model, the implementation's canonical answer and the exact-oracle request.
mod case;
mod child;
mod corpus_models;
mod explore;
mod gen_model;
mod gen_exp;
mod gen_lp;
mod gen_std;
mod props;
mod rng;
mod sx;
mod pre_expand;
mod pre_gen;
mod pre_reflect;
mod pre_sx;
mod pre_unroll;
mod pre_worker;
mod syntax;
mod text;

use std::io::Write;

fn arg(args: &[String], name: &str) -> Option<String> {
    args.iter().position(|a| a == name).and_then(|i| args.get(i + 1).cloned())
}

fn main() {
    let args: Vec<String> = std::env::args().collect();
    if args.len() >= 2 && args[1] == "solve-worker" {
        child::worker_main();
        return;
    }
    if pre_worker::dispatch(&args) { return; }
    if args.len() >= 3 && args[1] == "explore" {
        explore::explore(&std::fs::read_to_string(&args[2]).expect("read"));
        return;
    }
    if args.len() < 3 || args[1] != "gen" {
        eprintln!("usage: roocverif gen <Cnn> --seed S --n N --out FILE [--thorough]");
        std::process::exit(2);
    }
    let prop = args[2].clone();
    let seed: u64 = arg(&args, "--seed").and_then(|s| s.parse().ok()).unwrap_or(1);
    let n: usize = arg(&args, "--n").and_then(|s| s.parse().ok()).unwrap_or(300);
    let out = arg(&args, "--out").unwrap_or_else(|| "cases.jsonl".into());
    let _corpus = arg(&args, "--corpus");
    let thorough = args.iter().any(|a| a == "--thorough");
    // panics are caught per case by the property modules; keep the default hook quiet
    if std::env::var("VERIF_PANIC_TRACE").is_err() { std::panic::set_hook(Box::new(|_| {})); }
    let corpus = _corpus.as_deref();
    let cases = match prop.as_str() {
        "C01" => props::c01::generate(seed, n, thorough, corpus),
        "C02" => props::c02::generate(seed, n, thorough, corpus),
        "C03" => props::c03::generate(seed, n, thorough, corpus),
        "C04" => props::c04::generate(seed, n, thorough, corpus),
        "C05" => props::c05::generate(seed, n, thorough, corpus),
        "C06" => props::c06::generate(seed, n, thorough, corpus),
        "C07" => props::c07::generate(seed, n, thorough, corpus),
        "C08" => props::c08::generate(seed, n, thorough, corpus),
        "C09" => props::c09::generate(seed, n, thorough, corpus),
        "C10" => props::c10::generate(seed, n, thorough, corpus),
        "C11" => props::c11::generate(seed, n, thorough, corpus),
        "C12" => props::c12::generate(seed, n, thorough, corpus),
        "C13" => props::c13::generate(seed, n, thorough, corpus),
        "C14" => props::c14::generate(seed, n, thorough, corpus),
        "C15" => props::c15::generate(seed, n, thorough, corpus),
        "C16" => props::c16::generate(seed, n, thorough, corpus),
        "C17" => props::c17::generate(seed, n, thorough, corpus),
        "C18" => props::c18::generate(seed, n, thorough, corpus),
        "C19" => props::c19::generate(seed, n, thorough, corpus),
        "C20" => props::c20::generate(seed, n, thorough, corpus),
        _ => { eprintln!("unknown property {}", prop); std::process::exit(2); }
    };
    let f = std::fs::File::create(&out).expect("create out");
    let mut w = std::io::BufWriter::new(f);
    for c in &cases {
        serde_json::to_writer(&mut w, c).unwrap();
        w.write_all(b"\n").unwrap();
    }
    w.flush().unwrap();
    println!("{} cases -> {}", cases.len(), out);
}
