//! Canonical S-expression encoding shared with the Lean driver (DESIGN.md appendix B).
use rooc::model_transformer::Exp;
use rooc::{BinOp, UnOp};

/// bit pattern of an f64; every NaN is canonicalised (Lean's `Float.toBits` does the same, and the sign /
/// payload of a NaN is not observable through any rooc API)
pub fn num(v: f64) -> String { if v.is_nan() { "#x7ff8000000000000".to_string() } else { format!("#x{:016x}", v.to_bits()) } }
pub fn q(s: &str) -> String {
    let mut o = String::with_capacity(s.len() + 2);
    o.push('"');
    for c in s.chars() {
        match c { '"' => o.push_str("\\\""), '\\' => o.push_str("\\\\"), '\n' => o.push_str("\\n"), c => o.push(c) }
    }
    o.push('"');
    o
}
pub fn binop(op: BinOp) -> &'static str {
    match op {
        BinOp::Add => "add", BinOp::Sub => "sub", BinOp::Mul => "mul", BinOp::Div => "div", BinOp::And => "and",
        BinOp::Or => "or", BinOp::Xor => "xor", BinOp::Implies => "implies", BinOp::Iff => "iff",
    }
}
pub fn unop(op: UnOp) -> &'static str { match op { UnOp::Neg => "neg", UnOp::Not => "not" } }
fn list(head: &str, es: &[Exp]) -> String {
    let mut s = format!("({}", head);
    for e in es { s.push(' '); s.push_str(&exp(e)); }
    s.push(')');
    s
}
pub fn exp(e: &Exp) -> String {
    match e {
        Exp::Number(v) => format!("(num {})", num(*v)),
        Exp::Variable(n) => format!("(var {})", q(n)),
        Exp::Abs(e) => format!("(abs {})", exp(e)),
        Exp::Min(es) => list("min", es),
        Exp::Max(es) => list("max", es),
        Exp::And(es) => list("and", es),
        Exp::Or(es) => list("or", es),
        Exp::Not(e) => format!("(not {})", exp(e)),
        Exp::Xor(a, b) => format!("(xor {} {})", exp(a), exp(b)),
        Exp::Implies(a, b) => format!("(implies {} {})", exp(a), exp(b)),
        Exp::Iff(a, b) => format!("(iff {} {})", exp(a), exp(b)),
        Exp::BinOp(op, a, b) => format!("(bin {} {} {})", binop(*op), exp(a), exp(b)),
        Exp::UnOp(op, e) => format!("(un {} {})", unop(*op), exp(e)),
    }
}

// ---------------------------------------------------------------- Model / LinearModel
use indexmap::IndexMap;
use rooc::model_transformer::{Constraint, DomainVariable, Model};
use rooc::{Comparison, LinearModel, OptimizationType, VariableType};

pub fn cmp(c: Comparison) -> &'static str {
    match c {
        Comparison::LessOrEqual => "le", Comparison::GreaterOrEqual => "ge", Comparison::Equal => "eq",
        Comparison::Less => "lt", Comparison::Greater => "gt",
    }
}
pub fn opt_type(o: &OptimizationType) -> &'static str {
    match o { OptimizationType::Min => "min", OptimizationType::Max => "max", OptimizationType::Satisfy => "solve" }
}
pub fn var_type(t: &VariableType) -> String {
    match t {
        VariableType::Boolean => "bool".into(),
        VariableType::NonNegativeReal(a, b) => format!("(nnreal {} {})", num(*a), num(*b)),
        VariableType::Real(a, b) => format!("(real {} {})", num(*a), num(*b)),
        VariableType::IntegerRange(a, b) => format!("(int {} {})", a, b),
    }
}
pub fn domain(d: &IndexMap<String, DomainVariable>) -> String {
    let mut s = String::from("(domain");
    for (name, v) in d {
        s.push_str(&format!(" ({} {} {})", q(name), var_type(v.get_type()), v.usage_count()));
    }
    s.push(')');
    s
}
pub fn constraint(c: &Constraint) -> String {
    if c.is_logic_assertion() {
        format!("(assert {} {})", q(c.name()), exp(c.lhs()))
    } else {
        format!("(c {} {} {} {})", q(c.name()), cmp(c.constraint_type()), exp(c.lhs()), exp(c.rhs()))
    }
}
pub fn model(m: &Model) -> String {
    let mut s = format!("(model ({} {}) (constraints", opt_type(&m.objective().objective_type), exp(&m.objective().rhs));
    for c in m.constraints() { s.push(' '); s.push_str(&constraint(c)); }
    s.push_str(") ");
    s.push_str(&domain(m.domain()));
    s.push(')');
    s
}
pub fn nums(v: &[f64]) -> String { v.iter().map(|x| num(*x)).collect::<Vec<_>>().join(" ") }
pub fn lin_model(m: &LinearModel) -> String {
    let mut s = format!("(lin {} (obj {}) {} (vars", opt_type(m.optimization_type()), nums(m.objective()), num(m.objective_offset()));
    if m.objective().is_empty() { s = s.replace("(obj )", "(obj)"); }
    for v in m.variables() { s.push(' '); s.push_str(&q(v)); }
    s.push_str(") ");
    s.push_str(&domain(m.domain()));
    s.push_str(" (rows");
    for r in m.constraints() {
        s.push_str(&format!(" (row {} {} ({}) {})", q(&r.name()), cmp(*r.constraint_type()), nums(r.coefficients()), num(r.rhs())));
    }
    s.push_str("))");
    s
}
