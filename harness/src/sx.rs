//! Canonical S-expression encoding shared with the Lean driver (DESIGN.md appendix B).
use rooc::model_transformer::Exp;
use rooc::{BinOp, UnOp};

pub fn num(v: f64) -> String { format!("#x{:016x}", v.to_bits()) }
pub fn q(s: &str) -> String {
    let mut o = String::with_capacity(s.len() + 2);
    o.push('"');
    for c in s.chars() {
        match c { '"' => o.push_str("\\\""), '\\' => o.push_str("\\\\"), '\n' => o.push_str("\\n"), c => o.push(c) }
    }
    o.push('"');
    o
}
pub fn binop(op: BinOp) -> &'static str {
    match op {
        BinOp::Add => "add", BinOp::Sub => "sub", BinOp::Mul => "mul", BinOp::Div => "div", BinOp::And => "and",
        BinOp::Or => "or", BinOp::Xor => "xor", BinOp::Implies => "implies", BinOp::Iff => "iff",
    }
}
pub fn unop(op: UnOp) -> &'static str { match op { UnOp::Neg => "neg", UnOp::Not => "not" } }
fn list(head: &str, es: &[Exp]) -> String {
    let mut s = format!("({}", head);
    for e in es { s.push(' '); s.push_str(&exp(e)); }
    s.push(')');
    s
}
pub fn exp(e: &Exp) -> String {
    match e {
        Exp::Number(v) => format!("(num {})", num(*v)),
        Exp::Variable(n) => format!("(var {})", q(n)),
        Exp::Abs(e) => format!("(abs {})", exp(e)),
        Exp::Min(es) => list("min", es),
        Exp::Max(es) => list("max", es),
        Exp::And(es) => list("and", es),
        Exp::Or(es) => list("or", es),
        Exp::Not(e) => format!("(not {})", exp(e)),
        Exp::Xor(a, b) => format!("(xor {} {})", exp(a), exp(b)),
        Exp::Implies(a, b) => format!("(implies {} {})", exp(a), exp(b)),
        Exp::Iff(a, b) => format!("(iff {} {})", exp(a), exp(b)),
        Exp::BinOp(op, a, b) => format!("(bin {} {} {})", binop(*op), exp(a), exp(b)),
        Exp::UnOp(op, e) => format!("(un {} {})", unop(*op), exp(e)),
    }
}
