//! One generated case as handed to the orchestrator (`check`).
use serde::Serialize;
#[derive(Serialize, Default, Clone)]
pub struct Case {
    /// request line for the Lean model at `Float` (without the `Cnn float ` prefix); empty = no model request
    pub req: String,
    /// the implementation's canonical answer to the same request
    pub imp: String,
    /// exact-arithmetic oracle request (evaluates the PROPERTY on the implementation's answer); empty = none
    pub oracle: String,
    /// distribution tags
    pub tags: Vec<String>,
    /// exercised at least one non-identity rule
    pub nontrivial: bool,
    /// violation observed directly on the implementation (panic, failed certificate, …)
    pub impl_violation: Option<String>,
    /// finite signature used to match known findings
    pub sig: Option<String>,
    /// human-readable rendering for samples / replays
    pub show: String,
}
