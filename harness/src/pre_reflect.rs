//! Runtime reflection of the primitive operator tables (C18, C19): the harness calls the REAL
//! `can_apply_binary_op / can_apply_unary_op / get_type / apply_binary_op / apply_unary_op /
//! as_*_cast / can_spread_into` over ALL kind pairs and over boundary values, and emits
//! (request, implementation answer) pairs for the Lean model (`Rooc/Pre/Prim.lean`, `Rooc/Pre/Types.lean`).
//! `roocverif reflect-ops` dumps the static tables as JSON for `tools/gen_optables.py`
//! (→ `lean/Rooc/Gen/OpTables.lean`).
use crate::case::Case;
use crate::sx;
use indexmap::IndexMap;
use rooc::type_checker::type_checker_context::{FunctionContext, TypeCheckerContext, WithType};
use rooc::{ApplyOp, BinOp, GraphEdge, GraphNode, Graph, InputSpan, IterableKind, PreExp, Primitive, PrimitiveKind, RoocFunction, Spanned, Tuple, UnOp};
use std::panic::{catch_unwind, AssertUnwindSafe};

pub const BINOPS: [BinOp; 9] = [BinOp::Add, BinOp::Sub, BinOp::Mul, BinOp::Div, BinOp::And, BinOp::Or, BinOp::Xor, BinOp::Implies, BinOp::Iff];
pub const UNOPS: [UnOp; 2] = [UnOp::Neg, UnOp::Not];

pub fn kind_sx(k: &PrimitiveKind) -> String {
    match k {
        PrimitiveKind::Number => "number".into(),
        PrimitiveKind::Integer => "integer".into(),
        PrimitiveKind::PositiveInteger => "pint".into(),
        PrimitiveKind::String => "string".into(),
        PrimitiveKind::Iterable(i) => format!("(iter {})", kind_sx(i)),
        PrimitiveKind::Graph => "graph".into(),
        PrimitiveKind::GraphEdge => "edge".into(),
        PrimitiveKind::GraphNode => "node".into(),
        PrimitiveKind::Tuple(ts) => { let mut s = String::from("(tuple"); for t in ts { s.push(' '); s.push_str(&kind_sx(t)); } s.push(')'); s }
        PrimitiveKind::Boolean => "boolean".into(),
        PrimitiveKind::Undefined => "undefined".into(),
        PrimitiveKind::Any => "any".into(),
    }
}
/// NaN sign / payload is not observable through Lean's `Float.toBits` (canonical NaN): one spelling
pub fn numc(x: f64) -> String { if x.is_nan() { "#x7ff8000000000000".into() } else { sx::num(x) } }
/// values: scalars in full, every other primitive as `(other KIND)` (the operator code only looks at its kind)
pub fn prim_sx(p: &Primitive) -> String {
    match p {
        Primitive::Number(x) => format!("(num {})", numc(*x)),
        Primitive::Integer(i) => format!("(int {})", i),
        Primitive::PositiveInteger(u) => format!("(pint {})", u),
        Primitive::Boolean(b) => format!("(bool {})", b),
        Primitive::String(s) => format!("(str {})", sx::q(s)),
        other => format!("(other {})", kind_sx(&other.get_type())),
    }
}

/// one representative per kind constructor (parameters: one nesting level is enough, the code never
/// inspects the parameter of `Iterable` / `Tuple` in an operator rule)
pub fn all_kinds() -> Vec<PrimitiveKind> {
    use PrimitiveKind::*;
    vec![Number, Integer, PositiveInteger, String, Iterable(Box::new(Integer)), Iterable(Box::new(Any)), Graph, GraphEdge, GraphNode,
         Tuple(vec![Integer, String]), Tuple(vec![]), Boolean, Undefined, Any]
}

pub fn boundary_values() -> Vec<Primitive> {
    let mut v = vec![];
    for x in [0.0, -0.0, 1.0, -1.5, 2.5, 9007199254740992.0, 9.223372036854775807e18, -9.223372036854775808e18, 1.8446744073709552e19,
              1e308, -1e308, 5e-324, 1e-6, -1e-6, 1e-16, -1e-16, 2.2e-16, 1e-300, -2.2250738585072014e-308, 3.000001, 2.99999, f64::INFINITY, f64::NEG_INFINITY, f64::NAN] { v.push(Primitive::Number(x)); }
    for i in [0i64, 1, -1, 2, 3, -7, i64::MAX, i64::MIN, i64::MAX - 1, i64::MIN + 1, 1 << 31, 1 << 32, (1 << 53) + 1, 3037000500, -3037000500, 4611686018427387904] { v.push(Primitive::Integer(i)); }
    for u in [0u64, 1, 2, 3, (1 << 63) - 1, 1 << 63, (1 << 63) + 1, u64::MAX, u64::MAX - 1, 1 << 32, 4294967296 * 2, 6074001000, (1 << 53) + 1] { v.push(Primitive::PositiveInteger(u)); }
    v.push(Primitive::Boolean(true));
    v.push(Primitive::Boolean(false));
    v.push(Primitive::String(String::new()));
    v.push(Primitive::String("a\"b".into()));
    v.push(Primitive::Iterable(IterableKind::Integers(vec![1, 2])));
    v.push(Primitive::Iterable(IterableKind::Anys(vec![])));
    v.push(Primitive::Iterable(IterableKind::Tuples(vec![])));
    v.push(Primitive::Iterable(IterableKind::Iterables(vec![IterableKind::Numbers(vec![1.0])])));
    v.push(Primitive::Graph(Graph::new(vec![])));
    v.push(Primitive::GraphEdge(GraphEdge::new("a".into(), "b".into(), Some(2.0))));
    v.push(Primitive::GraphNode(GraphNode::new("a".into(), vec![])));
    v.push(Primitive::Tuple(Tuple::new(vec![Primitive::Integer(1), Primitive::String("s".into())])));
    v.push(Primitive::Tuple(Tuple::new(vec![])));
    v.push(Primitive::Undefined);
    v
}

fn op_err(e: &rooc::OperatorError) -> String {
    let d = format!("{:?}", e);
    d.split(|c: char| !c.is_alphanumeric()).next().unwrap_or("").to_string()
}
fn terr(e: &rooc::model_transformer::TransformError) -> String {
    let d = format!("{:?}", e.base_error());
    d.split(|c: char| !c.is_alphanumeric()).next().unwrap_or("").to_string()
}

pub fn apply_bin(a: &Primitive, op: BinOp, b: &Primitive) -> String {
    match catch_unwind(AssertUnwindSafe(|| a.apply_binary_op(op, b))) {
        Ok(Ok(v)) => format!("(ok {})", prim_sx(&v)),
        Ok(Err(e)) => format!("(err {})", op_err(&e)),
        Err(_) => "(panic)".into(),
    }
}
pub fn apply_un(a: &Primitive, op: UnOp) -> String {
    match catch_unwind(AssertUnwindSafe(|| a.apply_unary_op(op))) {
        Ok(Ok(v)) => format!("(ok {})", prim_sx(&v)),
        Ok(Err(e)) => format!("(err {})", op_err(&e)),
        Err(_) => "(panic)".into(),
    }
}

/// a `PreExp` whose static type is exactly `k` (a variable declared with that kind)
fn typed_var(ctx: &mut TypeCheckerContext, name: &str, k: &PrimitiveKind) -> PreExp {
    let _ = ctx.declare_variable(name, k.clone(), false);
    PreExp::Variable(Spanned::new(name.to_string(), InputSpan::default()))
}
pub fn static_bin_type(l: &PrimitiveKind, op: BinOp, r: &PrimitiveKind) -> PrimitiveKind {
    let mut ctx = TypeCheckerContext::default();
    let a = typed_var(&mut ctx, "lhsv", l);
    let b = typed_var(&mut ctx, "rhsv", r);
    let e = PreExp::BinaryOperation(Spanned::new(op, InputSpan::default()), Box::new(a), Box::new(b));
    let (f1, f2): (IndexMap<String, Box<dyn RoocFunction>>, IndexMap<String, Box<dyn RoocFunction>>) = (IndexMap::new(), IndexMap::new());
    e.get_type(&ctx, &FunctionContext::new(&f1, &f2))
}
pub fn static_un_type(op: UnOp, k: &PrimitiveKind) -> PrimitiveKind {
    let mut ctx = TypeCheckerContext::default();
    let a = typed_var(&mut ctx, "opv", k);
    let e = PreExp::UnaryOperation(Spanned::new(op, InputSpan::default()), Box::new(a));
    let (f1, f2): (IndexMap<String, Box<dyn RoocFunction>>, IndexMap<String, Box<dyn RoocFunction>>) = (IndexMap::new(), IndexMap::new());
    e.get_type(&ctx, &FunctionContext::new(&f1, &f2))
}

fn case(req: String, imp: String, tags: &[&str], nontrivial: bool) -> Case {
    let mut c = Case::default();
    c.show = format!("{} => {}", req, imp);
    c.req = req;
    c.imp = imp;
    c.tags = tags.iter().map(|s| s.to_string()).collect();
    c.nontrivial = nontrivial;
    c
}

/// static tables over ALL kind pairs (C19)
pub fn static_cases() -> Vec<Case> {
    let kinds = all_kinds();
    let mut out = vec![];
    for l in &kinds {
        for op in BINOPS {
            for r in &kinds {
                let can = l.can_apply_binary_op(op, r.clone());
                out.push(case(format!("canbin {} {} {}", kind_sx(l), sx::binop(op), kind_sx(r)), format!("(ok {})", can), &["table:can_apply_binary_op"], can));
                let t = static_bin_type(l, op, r);
                out.push(case(format!("bintype {} {} {}", kind_sx(l), sx::binop(op), kind_sx(r)), format!("(ok {})", kind_sx(&t)), &["table:binary-result-kind"], can));
            }
        }
        for op in UNOPS {
            let can = l.can_apply_unary_op(op);
            out.push(case(format!("canun {} {}", sx::unop(op), kind_sx(l)), format!("(ok {})", can), &["table:can_apply_unary_op"], can));
            let t = static_un_type(op, l);
            out.push(case(format!("untype {} {}", sx::unop(op), kind_sx(l)), format!("(ok {})", kind_sx(&t)), &["table:unary-result-kind"], can));
        }
        out.push(case(format!("isnumeric {}", kind_sx(l)), format!("(ok {})", l.is_numeric()), &["table:is_numeric"], l.is_numeric()));
        let sp = match l.can_spread_into() { Ok(ks) => format!("(ok {})", ks.iter().map(kind_sx).collect::<Vec<_>>().join(" ")).replace("(ok )", "(ok)"), Err(e) => format!("(err {})", terr(&e)) };
        out.push(case(format!("spread {}", kind_sx(l)), sp.clone(), &["table:can_spread_into"], sp.starts_with("(ok")));
    }
    out
}

/// dynamic operator semantics over boundary values (C18: outcome class incl. panic; exact values)
pub fn dynamic_cases() -> Vec<Case> {
    let vals = boundary_values();
    let mut out = vec![];
    for a in &vals {
        for op in BINOPS {
            for b in &vals {
                let imp = apply_bin(a, op, b);
                let cls = if imp.starts_with("(ok") { "value" } else if imp == "(panic)" { "panic" } else { "error" };
                out.push(case(format!("binop {} {} {}", sx::binop(op), prim_sx(a), prim_sx(b)), imp, &["dyn:apply_binary_op", &format!("dyn-outcome:{}", cls)], cls == "value"));
            }
        }
        for op in UNOPS {
            let imp = apply_un(a, op);
            let cls = if imp.starts_with("(ok") { "value" } else if imp == "(panic)" { "panic" } else { "error" };
            out.push(case(format!("unop {} {}", sx::unop(op), prim_sx(a)), imp, &["dyn:apply_unary_op", &format!("dyn-outcome:{}", cls)], cls == "value"));
        }
        // casts
        let r = |x: Result<String, rooc::model_transformer::TransformError>| match x { Ok(s) => format!("(ok {})", s), Err(e) => format!("(err {})", terr(&e)) };
        let g = |f: &dyn Fn() -> String| catch_unwind(AssertUnwindSafe(f)).unwrap_or_else(|_| "(panic)".into());
        out.push(case(format!("cast number {}", prim_sx(a)), g(&|| r(a.as_number_cast().map(|x| numc(x)))), &["dyn:as_number_cast"], true));
        out.push(case(format!("cast integer {}", prim_sx(a)), g(&|| r(a.as_integer_cast().map(|x| x.to_string()))), &["dyn:as_integer_cast"], true));
        out.push(case(format!("cast usize {}", prim_sx(a)), g(&|| r(a.as_usize_cast().map(|x| x.to_string()))), &["dyn:as_usize_cast"], true));
        out.push(case(format!("kindof {}", prim_sx(a)), format!("(ok {})", kind_sx(&a.get_type())), &["dyn:get_type"], true));
    }
    out
}

/// JSON dump of the static tables for tools/gen_optables.py
pub fn dump() {
    let kinds = all_kinds();
    let mut rows = vec![];
    for l in &kinds {
        for op in BINOPS {
            for r in &kinds {
                rows.push(serde_json::json!({"t": "bin", "l": kind_sx(l), "op": sx::binop(op), "r": kind_sx(r),
                    "can": l.can_apply_binary_op(op, r.clone()), "res": kind_sx(&static_bin_type(l, op, r))}));
            }
        }
        for op in UNOPS {
            rows.push(serde_json::json!({"t": "un", "op": sx::unop(op), "k": kind_sx(l), "can": l.can_apply_unary_op(op), "res": kind_sx(&static_un_type(op, l))}));
        }
        rows.push(serde_json::json!({"t": "kind", "k": kind_sx(l), "numeric": l.is_numeric()}));
    }
    println!("{}", serde_json::to_string(&rows).unwrap());
}
