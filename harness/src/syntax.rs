//! Shared by C09 / C11: tokens of the expression sub-language, their rendering to text, and the canonical
//! S-expression of a `PreExp` (spans dropped).
use crate::rng::Rng;
use crate::sx;
use rooc::{BinOp, PreExp, Primitive};

#[derive(Clone, Debug, PartialEq, Eq, Hash)]
pub enum T {
    Int(String),
    Float(String),
    Word(String),
    LPar,
    RPar,
    Comma,
    Plus,
    Minus,
    Star,
    Slash,
    AmpAmp,
    BarBar,
    Bang,
    Arrow,
    DArrow,
    LBrace,
    RBrace,
    LBrack,
    RBrack,
    DotDot,
    DotDotEq,
    /// the `_` of a compound variable: written without any space on either side
    Us,
    Str(String),
    Nl,
}
pub fn w(s: &str) -> T { T::Word(s.to_string()) }
pub fn int(s: &str) -> T { T::Int(s.to_string()) }

impl T {
    pub fn text(&self) -> &str {
        match self {
            T::Int(s) | T::Float(s) | T::Word(s) => s,
            T::LPar => "(", T::RPar => ")", T::Comma => ",", T::Plus => "+", T::Minus => "-", T::Star => "*",
            T::Slash => "/", T::AmpAmp => "&&", T::BarBar => "||", T::Bang => "!", T::Arrow => "->", T::DArrow => "<->",
            T::LBrace => "{", T::RBrace => "}", T::LBrack => "[", T::RBrack => "]", T::DotDot => "..", T::DotDotEq => "..=",
            T::Us => "_", T::Nl => "\n",
            T::Str(s) => s,
        }
    }
    fn wordish(&self) -> bool { matches!(self, T::Word(_)) }
    fn numeric(&self) -> bool { matches!(self, T::Int(_) | T::Float(_)) }
}

/// may `b` directly follow `a` without changing how the text is cut into terminals?
pub fn safe_adjacent(a: &T, b: &T) -> bool {
    if (a.wordish() || a.numeric()) && b.numeric() { return false; }
    if a.wordish() && b.wordish() && !b.text().starts_with('$') { return false; }
    if matches!(a, T::Slash) && matches!(b, T::Slash | T::Star) { return false; }
    // `1 .. 2`: a digit directly before `..` is fine (`1..2`), but `..` directly before `=` would be `..=`
    if matches!(a, T::DotDot | T::DotDotEq) && matches!(b, T::DotDot | T::DotDotEq) { return false; }
    // `a - > b` never occurs (no `>` token); `<` only as part of `<->`
    true
}

/// 0 = single spaces, 1 = as tight as is lexically safe, 2 = random mix incl. tabs and comments
pub fn render(toks: &[T], mode: u8, r: &mut Rng) -> String {
    let mut s = String::new();
    for (i, t) in toks.iter().enumerate() {
        if let T::Str(x) = t {
            if i > 0 && mode != 1 { s.push(' '); }
            s.push('"'); s.push_str(x); s.push('"');
            continue;
        }
        if i > 0 && (matches!(t, T::Us) || matches!(toks[i - 1], T::Us)) {
            // compound variables are written without inner spaces
        } else if i > 0 {
            // a segment of a compound variable (`x_12`) is part of a word: nothing wordish / numeric may be glued to it
            let seg = i >= 2 && matches!(toks[i - 2], T::Us) && (toks[i - 1].numeric() || toks[i - 1].wordish());
            let safe = safe_adjacent(&toks[i - 1], t) && !(seg && (t.wordish() || t.numeric()));
            match mode {
                0 => s.push(' '),
                1 => { if !safe { s.push(' ') } }
                _ => {
                    match r.below(8) {
                        0 | 1 | 2 if safe => {}
                        3 => s.push_str("  "),
                        4 => s.push('\t'),
                        5 => s.push_str(" /* c */ "),
                        6 if safe && !matches!(toks[i - 1], T::Slash) => s.push_str("/**/"),
                        _ => s.push(' '),
                    }
                }
            }
        }
        s.push_str(t.text());
    }
    s
}

/// no word starting with `_` directly after a word (compound variable, outside the modelled sub-language)
pub fn in_domain(toks: &[T]) -> bool {
    toks.windows(2).all(|p| !(p[0].wordish() && p[1].wordish() && p[1].text().starts_with('_')))
}

/// canonical S-expression of a parsed `PreExp` with numbers by their LEXEME in `source` (what the parser model
/// answers); arrays by their display, graphs / tuples / other primitives as `(other …)` (outside the model)
pub fn pre_exp(e: &PreExp, source: &str) -> String {
    let list = |head: &str, name: &str, es: &[PreExp]| {
        let mut s = format!("({} {}", head, sx::q(name));
        for a in es { s.push(' '); s.push_str(&pre_exp(a, source)); }
        s.push(')');
        s
    };
    match e {
        PreExp::Primitive(p) => match p.value() {
            Primitive::Integer(i) => format!("(int {})", i),
            Primitive::Number(_) => format!("(num {})", sx::q(p.span_text(source).unwrap_or("?"))),
            Primitive::Boolean(b) => format!("(bool {})", b),
            Primitive::String(s) => format!("(str {})", sx::q(s)),
            Primitive::Iterable(it) => format!("(prim {})", sx::q(&it.to_string())),
            Primitive::Graph(g) => format!("(prim {})", sx::q(&graph_lex_text(g, p.span_text(source).unwrap_or("")))),
            other => format!("(other {})", sx::q(&format!("{:?}", other))),
        },
        PreExp::Variable(n) => format!("(var {})", sx::q(n.value())),
        PreExp::FunctionCall(_, f) => list("call", &f.name, &f.args),
        PreExp::BinaryOperation(op, l, r) => format!("(bin {} {} {})", sx::binop(**op), pre_exp(l, source), pre_exp(r, source)),
        PreExp::UnaryOperation(op, x) => format!("(un {} {})", sx::unop(**op), pre_exp(x, source)),
        PreExp::CompoundVariable(c) => list("cvar", &c.name, &c.indexes),
        PreExp::ArrayAccess(a) => list("access", &a.name, &a.accesses),
        PreExp::BlockFunction(b) => list("block", &b.kind.to_string(), &b.exps),
        PreExp::BlockScopedFunction(b) => format!("(scoped {} {} {})", sx::q(&b.kind.to_string()), iters_lex(&b.iters, source), pre_exp(&b.exp, source)),
    }
}
/// the display of a graph literal (twin of `graphText` of the parser model) with every edge cost by its LEXEME in the
/// source text of the literal (the costs are the `: signed_number` of that text, in order)
pub fn graph_lex_text(g: &rooc::Graph, span: &str) -> String {
    let cs: Vec<char> = span.chars().collect();
    let mut lexemes: Vec<String> = vec![];
    let mut i = 0;
    while i < cs.len() {
        if cs[i] == ':' {
            let mut j = i + 1; while j < cs.len() && (cs[j] == ' ' || cs[j] == '\t') { j += 1; }
            let st = j;
            if j < cs.len() && cs[j] == '-' { j += 1; }
            while j < cs.len() && (cs[j].is_ascii_digit() || cs[j] == '.') { j += 1; }
            lexemes.push(cs[st..j].iter().collect());
            i = j;
        } else { i += 1; }
    }
    let mut next = lexemes.into_iter();
    let nodes: Vec<String> = g.nodes().iter().map(|n| {
        let edges: Vec<String> = n.clone().to_edges().iter().map(|e| match e.weight {
            Some(_) => format!("{}:{}", e.to, next.next().unwrap_or_else(|| "?".into())),
            None => e.to.clone(),
        }).collect();
        if edges.is_empty() { n.name().clone() } else { format!("{} -> [ {} ]", n.name(), edges.join(", ")) }
    }).collect();
    if nodes.is_empty() { "Graph { }".to_string() } else { format!("Graph {{\n{}\n}}", nodes.iter().map(|n| format!("    {}", n)).collect::<Vec<_>>().join(",\n")) }
}
pub fn iters_lex(its: &[IterableSet], source: &str) -> String {
    let mut s = String::from("(its");
    for i in its { s.push_str(&format!(" (it {} {})", var_kind(&i.var), pre_exp(i.iterator.value(), source))); }
    s.push(')');
    s
}

/// class of a rejection by `RoocParser::parse`: `peg` (pest did not match the text) or the first error of the AST
/// builders, named as the parser model names them
pub fn error_class(e: &rooc::CompilationError) -> String {
    let s = e.to_string();
    let body = s.splitn(2, "] ").nth(1).unwrap_or(&s);
    if body.trim_start().starts_with("--> ") { return "peg".into(); }
    let table: [(&str, &str); 11] = [
        ("Unknown objective type", "objective-kind"),
        ("Expected integer but got", "int-overflow"),
        ("Unknown block function", "unknown-block"),
        ("Unknown scoped block function", "unknown-scoped"),
        ("the block", "block-arity"),
        ("Unknown variable type", "unknown-type"),
        ("IntegerRange must have", "integer-range-arity"),
        ("Missing constant body", "missing-constant-name"),
        ("Expected compound variable index", "compound-index"),
        ("parallel edges", "graph-parallel-edges"),
        ("Expected number but got", "graph-edge-cost"),
    ];
    for (pre, class) in table { if body.starts_with(pre) { return class.into(); } }
    if body.starts_with("found ") && body.contains("expected number") { return "int-overflow".into(); }
    format!("other:{}", body.chars().take(40).collect::<String>().replace(['\n', '"', '(', ')'], " "))
}

pub fn variables(e: &PreExp, out: &mut Vec<String>) {
    match e {
        PreExp::Variable(n) => { if !out.contains(n.value()) { out.push(n.value().clone()) } }
        PreExp::FunctionCall(_, f) => f.args.iter().for_each(|a| variables(a, out)),
        PreExp::BinaryOperation(_, l, r) => { variables(l, out); variables(r, out) }
        PreExp::UnaryOperation(_, x) => variables(x, out),
        _ => {}
    }
}
/// does the tree use a leaf kind beyond numbers, names and calls?
pub fn has_block_leaf(e: &PreExp) -> bool {
    match e {
        PreExp::CompoundVariable(_) | PreExp::ArrayAccess(_) | PreExp::BlockFunction(_) | PreExp::BlockScopedFunction(_) => true,
        PreExp::Primitive(p) => !matches!(p.value(), Primitive::Integer(_) | Primitive::Number(_) | Primitive::Boolean(_)),
        PreExp::FunctionCall(_, f) => f.args.iter().any(has_block_leaf),
        PreExp::BinaryOperation(_, l, r) => has_block_leaf(l) || has_block_leaf(r),
        PreExp::UnaryOperation(_, x) => has_block_leaf(x),
        PreExp::Variable(_) => false,
    }
}

pub const BIN_SPELLINGS: [(&str, BinOp); 13] = [
    ("+", BinOp::Add), ("-", BinOp::Sub), ("*", BinOp::Mul), ("/", BinOp::Div), ("and", BinOp::And), ("&&", BinOp::And),
    ("or", BinOp::Or), ("||", BinOp::Or), ("xor", BinOp::Xor), ("implies", BinOp::Implies), ("->", BinOp::Implies),
    ("iff", BinOp::Iff), ("<->", BinOp::Iff),
];
pub fn bin_tok(s: &str) -> T {
    match s {
        "+" => T::Plus, "-" => T::Minus, "*" => T::Star, "/" => T::Slash, "&&" => T::AmpAmp, "||" => T::BarBar,
        "->" => T::Arrow, "<->" => T::DArrow, "!" => T::Bang, w => T::Word(w.to_string()),
    }
}

/// keyword <-> alias swap of one token (None: has no other spelling)
pub fn swap_alias(t: &T) -> Option<T> {
    Some(match t {
        T::AmpAmp => w("and"), T::BarBar => w("or"), T::Bang => w("not"), T::Arrow => w("implies"), T::DArrow => w("iff"),
        T::Word(s) => match s.as_str() { "and" => T::AmpAmp, "or" => T::BarBar, "not" => T::Bang, "implies" => T::Arrow, "iff" => T::DArrow, _ => return None },
        _ => return None,
    })
}

/// keyword <-> alias swap of every token that stands in OPERATOR position (a word such as `and` directly
/// in leaf position is a function name or an error, not an operator). None: nothing to swap.
pub fn alias_twin(toks: &[T]) -> Option<Vec<T>> {
    // iteration declarations (`not in S`, `(u, not) in E`, `i in and()`) put words where this scan expects operators
    if toks.iter().any(|t| matches!(t, T::Word(s) if s.to_ascii_lowercase() == "in")) { return None; }
    let mut out = Vec::with_capacity(toks.len());
    let mut expect_leaf = true;
    let mut had_unary = false;
    let mut swapped = false;
    for (ti, t) in toks.iter().enumerate() {
        let mut o = t.clone();
        // a word glued to `_` is (the base of) a compound variable, never an operator
        if matches!(toks.get(ti + 1), Some(T::Us)) || (ti > 0 && matches!(toks[ti - 1], T::Us)) {
            if matches!(t, T::Word(_) | T::Int(_)) { expect_leaf = false; out.push(o); continue; }
        }
        if expect_leaf {
            match t {
                T::Minus | T::Bang if !had_unary => { had_unary = true; if let Some(x) = swap_alias(t) { o = x; swapped = true; } }
                T::Word(s) if s == "not" && !had_unary => { had_unary = true; o = T::Bang; swapped = true; }
                T::LPar | T::LBrace | T::LBrack => { had_unary = false; }
                T::RPar | T::RBrace | T::RBrack | T::Str(_) => { expect_leaf = false; }
                T::Int(_) | T::Float(_) | T::Word(_) => { expect_leaf = false; }
                _ => {}
            }
        } else {
            match t {
                T::Plus | T::Minus | T::Star | T::Slash | T::AmpAmp | T::BarBar | T::Arrow | T::DArrow => {
                    if let Some(x) = swap_alias(t) { o = x; swapped = true; }
                    expect_leaf = true; had_unary = false;
                }
                T::Word(s) if ["and", "or", "xor", "implies", "iff"].contains(&s.as_str()) => {
                    if let Some(x) = swap_alias(t) { o = x; swapped = true; }
                    expect_leaf = true; had_unary = false;
                }
                T::LPar | T::Comma | T::LBrace | T::LBrack | T::DotDot | T::DotDotEq => { expect_leaf = true; had_unary = false; }
                _ => {}
            }
        }
        out.push(o);
    }
    // a swapped operator glued to the `_` of a compound variable would change the lexical structure (`||_x` / `or_x`)
    for i in 0..out.len() {
        if out[i] != toks[i] && (matches!(toks.get(i + 1), Some(T::Us)) || (i > 0 && matches!(toks[i - 1], T::Us))) { return None; }
    }
    if swapped { Some(out) } else { None }
}

// ---------------------------------------------------------------------------------------------- C11
use rooc::domain_declaration::{Variable, VariablesDomainDeclaration};
use rooc::math_enums::PreVariableType;
use rooc::model_transformer::VariableKind;
use rooc::pre_model::PreModel;
use rooc::{IterableSet, OptimizationType, PreConstraint};

/// Contract of `Display for Primitive::Number` (number tokens are opaque in the Lean printer): Rust's shortest
/// round-trip `f64` Display, except that an integral value outside the i64 range keeps a fractional part (`1e20` is
/// written `100000000000000000000.0`), because the grammar reads an all-digit literal through i64.
pub fn number_text(v: f64) -> String {
    if v.is_finite() && v.fract() == 0.0 && v.abs() >= 9223372036854775808.0 { format!("{}.0", v) } else { v.to_string() }
}

/// full `PreExp` (every variant) with numbers as Rust displays them
pub fn pre_exp_full(e: &PreExp) -> String {
    let list = |head: &str, name: &str, es: &[PreExp]| {
        let mut s = format!("({} {}", head, sx::q(name));
        for a in es { s.push(' '); s.push_str(&pre_exp_full(a)); }
        s.push(')');
        s
    };
    match e {
        PreExp::Primitive(p) => match p.value() {
            Primitive::Integer(i) if *i >= 0 => format!("(int {})", i),
            Primitive::PositiveInteger(i) => format!("(int {})", i),
            Primitive::Number(n) => format!("(num {})", sx::q(&number_text(*n))),
            Primitive::Boolean(b) => format!("(bool {})", b),
            Primitive::String(s) => format!("(str {})", sx::q(s)),
            other => format!("(prim {})", sx::q(&other.to_string())),
        },
        PreExp::Variable(n) => format!("(var {})", sx::q(n.value())),
        PreExp::CompoundVariable(c) => list("cvar", &c.name, &c.indexes),
        PreExp::ArrayAccess(a) => list("access", &a.name, &a.accesses),
        PreExp::FunctionCall(_, f) => list("call", &f.name, &f.args),
        PreExp::BlockFunction(b) => list("block", &b.kind.to_string(), &b.exps),
        PreExp::BlockScopedFunction(b) => format!("(scoped {} {} {})", sx::q(&b.kind.to_string()), iters(&b.iters), pre_exp_full(&b.exp)),
        PreExp::BinaryOperation(op, l, r) => format!("(bin {} {} {})", sx::binop(**op), pre_exp_full(l), pre_exp_full(r)),
        PreExp::UnaryOperation(op, x) => format!("(un {} {})", sx::unop(**op), pre_exp_full(x)),
    }
}
fn var_kind(v: &VariableKind) -> String {
    match v {
        VariableKind::Single(n) => format!("(single {})", sx::q(n.value())),
        VariableKind::Tuple(ns) => format!("(tuple{})", ns.iter().map(|n| format!(" {}", sx::q(n.value()))).collect::<String>()),
    }
}
pub fn iters(its: &[IterableSet]) -> String {
    let mut s = String::from("(its");
    for i in its { s.push_str(&format!(" (it {} {})", var_kind(&i.var), pre_exp_full(i.iterator.value()))); }
    s.push(')');
    s
}
fn variable(v: &Variable) -> String {
    match v {
        Variable::Variable(n) => format!("(v {})", sx::q(n)),
        Variable::CompoundVariable(c) => {
            let mut s = format!("(cv {}", sx::q(&c.name));
            for a in &c.indexes { s.push(' '); s.push_str(&pre_exp_full(a)); }
            s.push(')');
            s
        }
    }
}
fn variable_lex(v: &Variable, src: &str) -> String {
    match v {
        Variable::Variable(n) => format!("(v {})", sx::q(n)),
        Variable::CompoundVariable(c) => {
            let mut s = format!("(cv {}", sx::q(&c.name));
            for a in &c.indexes { s.push(' '); s.push_str(&pre_exp(a, src)); }
            s.push(')');
            s
        }
    }
}
fn opt_exp(e: &Option<PreExp>) -> String { match e { Some(e) => pre_exp_full(e), None => "none".into() } }
fn pre_var_type(t: &PreVariableType) -> String {
    match t {
        PreVariableType::Boolean => "bool".into(),
        PreVariableType::NonNegativeReal(a, b) => format!("(nnreal {} {})", opt_exp(a), opt_exp(b)),
        PreVariableType::Real(a, b) => format!("(real {} {})", opt_exp(a), opt_exp(b)),
        PreVariableType::IntegerRange(a, b) => format!("(intrange {} {})", pre_exp_full(a), pre_exp_full(b)),
    }
}
pub fn pre_constraint(c: &PreConstraint) -> String {
    format!("(c {} {} {} {} {} {})",
        match &c.name_exp { Some(n) => variable(n.value()), None => "none".into() },
        pre_exp_full(&c.lhs), sx::cmp(c.constraint_type), pre_exp_full(&c.rhs), c.is_logic_assertion, iters(&c.iteration))
}
fn domain_decl(d: &VariablesDomainDeclaration) -> String {
    let mut s = String::from("(dom (vars");
    for v in d.variables() { s.push(' '); s.push_str(&variable(v.value())); }
    s.push_str(&format!(") {} {})", pre_var_type(d.get_type()), iters(d.iteration())));
    s
}
pub fn pre_model(m: &PreModel) -> String {
    let o = m.objective();
    let kind = match o.objective_type { OptimizationType::Min => "min", OptimizationType::Max => "max", OptimizationType::Satisfy => "solve" };
    let mut s = format!("(premodel (obj {} {}) (constraints", kind, pre_exp_full(&o.rhs));
    for c in m.constraints() { s.push(' '); s.push_str(&pre_constraint(c)); }
    s.push_str(") (consts");
    for k in m.constants() { s.push_str(&format!(" (let {} {})", sx::q(k.name.value()), pre_exp_full(&k.value))); }
    s.push_str(") (domains");
    for d in m.domains() { s.push(' '); s.push_str(&domain_decl(d)); }
    s.push_str("))");
    s
}

// ------------------------------------------------------------------------------ C11, program-level parser model
/// `PreModel` as the program-level parser model answers it: numbers by their lexeme in `src`, fragment without
/// iterations (anything else is encoded as `(other …)` and cannot match)
pub fn pre_model_lex(m: &PreModel, src: &str) -> String {
    let e = |x: &PreExp| pre_exp(x, src);
    let oe = |x: &Option<PreExp>| match x { Some(x) => pre_exp(x, src), None => "none".to_string() };
    let o = m.objective();
    let kind = match o.objective_type { OptimizationType::Min => "min", OptimizationType::Max => "max", OptimizationType::Satisfy => "solve" };
    let mut s = format!("(premodel (obj {} {}) (constraints", kind, e(&o.rhs));
    for c in m.constraints() {
        s.push_str(&format!(" (c {} {} {} {} {} {})",
            match &c.name_exp { Some(n) => variable_lex(n.value(), src), None => "none".into() },
            e(&c.lhs), sx::cmp(c.constraint_type), e(&c.rhs), c.is_logic_assertion, iters_lex(&c.iteration, src)));
    }
    s.push_str(") (consts");
    for k in m.constants() { s.push_str(&format!(" (let {} {})", sx::q(k.name.value()), e(&k.value))); }
    s.push_str(") (domains");
    for d in m.domains() {
        s.push_str(" (dom (vars");
        for v in d.variables() { s.push(' '); s.push_str(&variable_lex(v.value(), src)); }
        let ty = match d.get_type() {
            PreVariableType::Boolean => "bool".to_string(),
            PreVariableType::NonNegativeReal(a, b) => format!("(nnreal {} {})", oe(a), oe(b)),
            PreVariableType::Real(a, b) => format!("(real {} {})", oe(a), oe(b)),
            PreVariableType::IntegerRange(a, b) => format!("(intrange {} {})", e(a), e(b)),
        };
        s.push_str(&format!(") {} {})", ty, iters_lex(d.iteration(), src)));
    }
    s.push_str("))");
    s
}

// ------------------------------------------------------------------------------ twin of the Lean lexer's domain
const EXTRA_LETTERS: &str = "éèêíıñüößλд";
fn is_letter(c: char) -> bool { c.is_ascii_alphabetic() || EXTRA_LETTERS.contains(c) }
fn is_word_char(c: char) -> bool { is_letter(c) || c.is_ascii_digit() || c == '_' }
fn is_simple_run(r: &[char]) -> bool {
    let k = r.iter().take_while(|&&c| c == '_').count();
    match r.get(k) { Some(&c) => is_letter(c) && r[k + 1..].iter().all(|&d| is_letter(d) || d.is_ascii_digit()), None => false }
}
fn is_plain_run(r: &[char]) -> bool { !r.is_empty() && is_letter(r[0]) && r[1..].iter().all(|&d| is_letter(d) || d.is_ascii_digit()) }
/// `compoundTail` of Rooc/Syntax/Tok.lean: are the `_seg` pieces behind a base name / a `}` readable?
fn tail_ok(segs: &[&[char]], next: &[char]) -> bool {
    for (i, seg) in segs.iter().enumerate() {
        let last = i + 1 == segs.len();
        if seg.is_empty() { return last && next.first() == Some(&'{'); }
        let all_digits = seg.iter().all(|c| c.is_ascii_digit());
        if !(all_digits || is_plain_run(seg)) { return false; }
        if last && all_digits && next.len() >= 2 && next[0] == '.' && next[1].is_ascii_digit() { return false; }
    }
    true
}
/// does the Lean lexer model (`lex`, Rooc/Syntax/Tok.lean) cut this text into tokens (true) or answer `unsupported`?
/// Kept in step with the model by the correspondence check itself: a wrong prediction shows up as a mismatch.
pub fn lex_supported(src: &str) -> bool {
    let cs: Vec<char> = src.chars().collect();
    let mut i = 0;
    let mut prev_word = false;
    let mut last_word_graph = false;
    let mut brack_depth = 0usize;
    while i < cs.len() {
        let c = cs[i];
        let rest = &cs[i + 1..];
        let mut now_graph = false;
        if c == ' ' || c == '\t' { i += 1; now_graph = last_word_graph; }
        else if c == '\n' { i += 1; prev_word = false; }
        else if c == '\r' { i += if rest.first() == Some(&'\n') { 2 } else { 1 }; prev_word = false; }
        else if c == ':' || c == '=' || c == '(' || c == ')' || c == ',' || c == '+' || c == '*' || c == '!' || c == '[' || c == ']' {
            if c == '[' { brack_depth += 1; } else if c == ']' && brack_depth > 0 { brack_depth -= 1; }
            i += 1; prev_word = false;
        }
        else if c == '{' {
            if last_word_graph {
                // a graph literal: modelled unless it sits in an array, carries a comment, or writes a cost as `- 2`
                // (`signed_number` is atomic: the PEG refuses the blank, the token-level model cannot see it)
                if brack_depth > 0 { return false; }
                let end = cs[i..].iter().position(|&x| x == '}').map(|k| i + k).unwrap_or(cs.len());
                let region: String = cs[i..end].iter().collect();
                if region.contains('/') { return false; }
                let rc: Vec<char> = region.chars().collect();
                for (k, &x) in rc.iter().enumerate() {
                    if x == ':' {
                        let mut j = k + 1; while j < rc.len() && (rc[j] == ' ' || rc[j] == '\t') { j += 1; }
                        if rc.get(j) == Some(&'-') && !rc.get(j + 1).map(|d| d.is_ascii_digit()).unwrap_or(false) { return false; }
                    }
                }
            }
            i += 1; prev_word = false;
        }
        else if c == '>' { i += if rest.first() == Some(&'=') { 2 } else { 1 }; prev_word = false; }
        else if c == '/' {
            if rest.first() == Some(&'/') { while i < cs.len() && cs[i] != '\n' { i += 1; } now_graph = last_word_graph; }
            else if rest.first() == Some(&'*') {
                let mut j = i + 2;
                let mut found = None;
                while j + 1 < cs.len() { if cs[j] == '*' && cs[j + 1] == '/' { found = Some(j + 2); break; } j += 1; }
                match found { Some(k) => { i = k; now_graph = last_word_graph; } None => { i += 1; prev_word = false; } }
            } else { i += 1; prev_word = false; }
        }
        else if c == '-' { i += if rest.first() == Some(&'>') { 2 } else { 1 }; prev_word = false; }
        else if c == '<' {
            if rest.len() >= 2 && rest[0] == '-' && rest[1] == '>' { i += 3 } else if rest.first() == Some(&'=') { i += 2 } else { i += 1 }
            prev_word = false;
        }
        else if c == '&' || c == '|' { if rest.first() == Some(&c) { i += 2; prev_word = false; } else { return false; } }
        else if c.is_ascii_digit() {
            let mut j = i; while j < cs.len() && cs[j].is_ascii_digit() { j += 1; }
            if j < cs.len() && cs[j] == '.' {
                if j + 1 >= cs.len() { return false; }
                let d = cs[j + 1];
                if d.is_ascii_digit() { j += 1; while j < cs.len() && cs[j].is_ascii_digit() { j += 1; } }
                else if d == '.' { /* `1..n`: integer, the dots are lexed next */ }
                else { return false; }
            }
            i = j; prev_word = false;
        }
        else if c == '$' {
            let mut j = i + 1; while j < cs.len() && is_word_char(cs[j]) { j += 1; }
            if !is_simple_run(&cs[i + 1..j]) { return false; }
            i = j; prev_word = true;
        }
        else if (c == 's' || c == 'S') && rest.len() >= 3 && rest[0] == '.' && (rest[1] == 't' || rest[1] == 'T') && rest[2] == '.' { i += 4; prev_word = false; }
        else if is_letter(c) || c == '_' {
            let mut j = i; while j < cs.len() && is_word_char(cs[j]) { j += 1; }
            let run = &cs[i..j];
            if c == '_' && prev_word { return false; }
            if is_simple_run(run) {
                now_graph = run.iter().collect::<String>().to_ascii_lowercase() == "graph";
            } else if c == '_' {
                // the lone `_` (`no_par`), unless a `{` follows (`_{…}`: a compound variable without a base name)
                if !(run.len() == 1 && cs.get(j) != Some(&'{')) { return false; }
            }
            else {
                let segs: Vec<&[char]> = run.split(|&x| x == '_').collect();
                if !tail_ok(&segs[1..], &cs[j..]) { return false; }
                now_graph = segs.last().map(|x| x.iter().collect::<String>().to_ascii_lowercase() == "graph").unwrap_or(false);
            }
            i = j; prev_word = true;
        }
        else if c == '}' {
            if rest.first() == Some(&'_') {
                let mut j = i + 1; while j < cs.len() && is_word_char(cs[j]) { j += 1; }
                let run = &cs[i + 1..j];
                let segs: Vec<&[char]> = run.split(|&x| x == '_').collect();
                if !tail_ok(&segs[1..], &cs[j..]) { return false; }
                i = j;
            } else { i += 1; }
            prev_word = true;
        }
        else if c == '.' {
            if rest.len() >= 2 && rest[0] == '.' && rest[1] == '=' { i += 3 } else if rest.first() == Some(&'.') { i += 2 } else { return false; }
            prev_word = false;
        }
        else if c == '"' {
            let mut j = i + 1; while j < cs.len() && cs[j] != '"' && cs[j] != '\\' { j += 1; }
            if j < cs.len() && cs[j] == '"' { i = j + 1; prev_word = false; } else { return false; }
        }
        else if c == '\\' {
            // twin of the `escaped_compound_variable` branch of the lexer model (`isEscapedRun`, `escapedFollowBad`)
            let mut j = i + 1; while j < cs.len() && is_word_char(cs[j]) { j += 1; }
            let run = &cs[i + 1..j];
            if !escaped_run(run) { return false; }
            let mut k = j; while k < cs.len() && (cs[k] == ' ' || cs[k] == '\t') { k += 1; }
            if cs.get(k) == Some(&'[') { return false; }
            let last_digits = run.split(|&x| x == '_').last().map(|x| x.iter().all(|c| c.is_ascii_digit())).unwrap_or(false);
            if last_digits && j + 1 < cs.len() && cs[j] == '.' && cs[j + 1].is_ascii_digit() { return false; }
            i = j; prev_word = true;
        }
        else { return false; }
        last_word_graph = now_graph;
    }
    true
}

/// words at which pest's case-insensitive literals without a word boundary (`^"min"`, `^"for"`, `^"in"`, `^"as"`,
/// `^"where"`, `^"define"`, `"let"`, `^"subject to"`) may split a word the model reads as one identifier
pub fn has_glued_keyword(src: &str) -> bool {
    let lower = src.to_ascii_lowercase();
    let mut prev = "";
    for w in lower.split(|c: char| !(c.is_alphanumeric() || c == '_' || c == '$')) {
        if w.is_empty() { continue; }
        if w == "subject" { return true; }
        // the word behind `as` is a type name (`IntegerRange`): no keyword is expected there
        if prev != "as" {
            for k in ["min", "max", "solve", "for", "in", "as", "where", "define", "let", "graph"] {
                if w.len() > k.len() && w.starts_with(k) { return true; }
            }
        }
        prev = w;
    }
    false
}

// ------------------------------------------------------------------------------ twin of the printable fragment
// `coreExp` / `coreProgram` of Rooc/Syntax/FormatToks.lean, ProgramToks.lean, on the parsed tree.  The model answers
// `parse-program` with `in-fragment` / `out-of-fragment`, so a twin that drifts shows up as a correspondence mismatch.
const KEYWORDS: [&str; 18] = ["for", "min", "max", "where", "true", "false", "in", "as", "define", "let", "solve", "and", "or", "not", "implies", "iff", "xor", "_"];
fn plain_run_s(s: &str) -> bool { let cs: Vec<char> = s.chars().collect(); is_plain_run(&cs) }
fn escaped_run(run: &[char]) -> bool {
    let segs: Vec<&[char]> = run.split(|&x| x == '_').collect();
    segs.len() >= 2 && is_plain_run(segs[0]) && segs[1..].iter().all(|x| !x.is_empty() && (x.iter().all(|c| c.is_ascii_digit()) || is_plain_run(x)))
}
fn escaped_var(s: &str) -> bool { let cs: Vec<char> = s.chars().collect(); escaped_run(&cs) && !KEYWORDS.contains(&s) }
fn name_var(s: &str) -> bool { plain_var(s) || escaped_var(s) }
fn plain_var(s: &str) -> bool { plain_run_s(s) && !KEYWORDS.contains(&s) }
fn float_text(s: &str) -> bool {
    let mut p = s.splitn(2, '.');
    let a = p.next().unwrap_or("");
    match p.next() { Some(b) => !a.is_empty() && !b.is_empty() && a.chars().all(|c| c.is_ascii_digit()) && b.chars().all(|c| c.is_ascii_digit()), None => false }
}
fn range_sugar(f: &rooc::FunctionCall) -> bool {
    f.name == "range" && f.args.len() == 3 && matches!(&f.args[2], PreExp::Primitive(p) if matches!(p.value(), Primitive::Boolean(_)))
}
/// `lexeme`: numbers are judged by their text in the source (always a float literal), else by their display
pub fn core_exp(e: &PreExp, lexeme: bool) -> bool {
    match e {
        PreExp::Primitive(p) => match p.value() {
            Primitive::Integer(i) => *i >= 0,
            Primitive::Number(v) => lexeme || float_text(&number_text(*v)),
            Primitive::Boolean(_) => true,
            Primitive::String(s) => !s.chars().any(|c| c == '"' || c == '\\' || c == '\n' || c == '\r'),
            Primitive::Iterable(rooc::IterableKind::Integers(v)) => v.iter().all(|x| *x >= 0),
            Primitive::Iterable(rooc::IterableKind::Anys(v)) => v.is_empty(),
            _ => false,
        },
        PreExp::Variable(n) => name_var(n.value()),
        PreExp::CompoundVariable(c) => plain_run_s(&c.name) && !c.indexes.is_empty() && core_idx(&c.indexes, lexeme),
        PreExp::ArrayAccess(a) => plain_run_s(&a.name) && a.name != "not" && !a.accesses.is_empty() && a.accesses.iter().all(|x| core_exp(x, lexeme)),
        PreExp::FunctionCall(_, f) => f.name != "not" && !f.name.is_empty() && f.name.chars().all(is_letter) && f.args.iter().all(|x| core_exp(x, lexeme)),
        PreExp::BlockFunction(b) => !b.exps.is_empty() && (b.kind.to_string() != "abs" || b.exps.len() == 1) && b.exps.iter().all(|x| core_exp(x, lexeme)),
        PreExp::BlockScopedFunction(b) => core_for(&b.iters, lexeme) && !b.iters.is_empty() && core_exp(&b.exp, lexeme),
        PreExp::UnaryOperation(_, x) => core_exp(x, lexeme),
        PreExp::BinaryOperation(_, l, r) => core_exp(l, lexeme) && core_exp(r, lexeme),
    }
}
fn core_idx(idx: &[PreExp], lexeme: bool) -> bool {
    idx.iter().all(|e| match e {
        // twin of `numIndexBare` / `strIndexBare`: an index the printer writes bare is outside (it is read back as
        // an integer / a variable), one written in braces is inside
        PreExp::Primitive(p) if matches!(p.value(), Primitive::Number(_)) => {
            let t = match p.value() { Primitive::Number(v) => number_text(*v), _ => unreachable!() };
            // (in `lexeme` mode the model sees the source text, a float literal: never bare)
            let bare = !lexeme && (t == "-0" || (!t.is_empty() && t.chars().all(|c| c.is_ascii_digit()) && t.parse::<u128>().map(|v| v < 9223372036854775808).unwrap_or(false)));
            !bare && core_exp(e, lexeme)
        }
        PreExp::Primitive(p) if matches!(p.value(), Primitive::String(_)) => {
            let s = match p.value() { Primitive::String(s) => s.clone(), _ => unreachable!() };
            let rest = s.trim_start_matches('_');
            let bare = s.starts_with('_') && !rest.is_empty() && rest.chars().all(|c| is_letter(c) || c.is_ascii_digit());
            !bare && core_exp(e, lexeme)
        }
        PreExp::Variable(n) => plain_run_s(n.value()) || escaped_var(n.value()),
        other => core_exp(other, lexeme),
    })
}
fn core_for(its: &[IterableSet], lexeme: bool) -> bool {
    its.iter().all(|i| {
        let v = match &i.var {
            VariableKind::Single(n) => plain_var(n.value()),
            VariableKind::Tuple(ns) => !ns.is_empty() && ns.iter().all(|n| plain_var(n.value())),
        };
        let it = match i.iterator.value() {
            PreExp::FunctionCall(_, f) if range_sugar(f) => core_exp(&f.args[0], lexeme) && core_exp(&f.args[1], lexeme),
            other => core_exp(other, lexeme),
        };
        v && it
    })
}
/// twin of `coreGraphValue` / `graphOKb`: a graph literal with a first node that has an edge to a name that is no boolean
/// word and whose own name is no keyword (names are `simple_variable`s, edges are not parallel, costs are numbers: the
/// parser guarantees these)
fn core_graph_value(e: &PreExp) -> bool {
    match e {
        PreExp::Primitive(p) => match p.value() {
            Primitive::Graph(g) => {
                let word_ok = |s: &str| s.chars().all(|c| is_word_char(c) || c == '$');
                let all_ok = g.nodes().iter().all(|n| word_ok(n.name()) && n.clone().to_edges().iter().all(|e| word_ok(&e.to) && e.weight.map(|w| w.is_finite()).unwrap_or(true)));
                match g.nodes().first() {
                    Some(n) => {
                        let edges = n.clone().to_edges();
                        all_ok && !KEYWORDS.contains(&n.name().as_str()) && edges.first().map(|e| e.to != "true" && e.to != "false").unwrap_or(false)
                    }
                    None => false,
                }
            }
            _ => false,
        },
        _ => false,
    }
}
fn core_name(v: &Variable, lexeme: bool) -> bool {
    match v {
        Variable::Variable(n) => name_var(n),
        Variable::CompoundVariable(c) => plain_run_s(&c.name) && !c.indexes.is_empty() && core_idx(&c.indexes, lexeme),
    }
}
/// first token of the printed expression if it is a word (`notForHead` of the model looks at it)
fn first_word(e: &PreExp) -> Option<String> {
    match e {
        PreExp::Primitive(p) => match p.value() { Primitive::Boolean(b) => Some(b.to_string()), _ => None },
        PreExp::Variable(n) => Some(n.value().clone()),
        PreExp::CompoundVariable(c) => Some(c.name.clone()),
        PreExp::ArrayAccess(a) => Some(a.name.clone()),
        PreExp::FunctionCall(_, f) => Some(f.name.clone()),
        PreExp::BlockFunction(b) => Some(b.kind.to_string()),
        PreExp::BlockScopedFunction(b) => Some(b.kind.to_string()),
        PreExp::UnaryOperation(op, _) => if matches!(**op, rooc::UnOp::Not) { Some("not".into()) } else { None },
        PreExp::BinaryOperation(op, l, _) => {
            let paren = matches!(&**l, PreExp::BinaryOperation(c, _, _) if c.precedence() < op.precedence() || (c.precedence() == op.precedence() && !c.is_left_associative()));
            if paren { None } else { first_word(l) }
        }
    }
}
fn not_for(w: Option<String>) -> bool { w.map(|w| w.to_ascii_lowercase() != "for").unwrap_or(true) }
fn name_word(v: &Variable) -> Option<String> {
    Some(match v { Variable::Variable(n) => n.clone(), Variable::CompoundVariable(c) => c.name.clone() })
}

/// THE PRINTABLE FRAGMENT (decidable predicate `coreProgram` of the model) on a parsed program
pub fn in_fragment(m: &PreModel, lexeme: bool) -> bool {
    let o = m.objective();
    let obj_ok = match o.objective_type { OptimizationType::Satisfy => true, _ => core_exp(&o.rhs, lexeme) };
    obj_ok
        && m.constraints().iter().all(|c| {
            c.name_exp.as_ref().map(|n| core_name(n.value(), lexeme)).unwrap_or(true)
                && core_exp(&c.lhs, lexeme) && (c.is_logic_assertion || core_exp(&c.rhs, lexeme)) && core_for(&c.iteration, lexeme)
                && not_for(match &c.name_exp { Some(n) => name_word(n.value()), None => first_word(&c.lhs) })
        })
        && m.constants().iter().all(|k| (plain_var(k.name.value()) || k.name.value() == "_") && (core_exp(&k.value, lexeme) || core_graph_value(&k.value)))
        && m.domains().iter().all(|d| {
            !d.variables().is_empty() && d.variables().iter().all(|v| core_name(v.value(), lexeme))
                && match d.get_type() {
                    PreVariableType::Boolean => true,
                    PreVariableType::NonNegativeReal(a, b) | PreVariableType::Real(a, b) => match (a, b) {
                        (None, None) => true,
                        (Some(a), Some(b)) => core_exp(a, lexeme) && core_exp(b, lexeme),
                        _ => false,
                    },
                    PreVariableType::IntegerRange(a, b) => core_exp(a, lexeme) && core_exp(b, lexeme),
                }
                && core_for(d.iteration(), lexeme)
                && not_for(d.variables().first().and_then(|v| name_word(v.value())))
        })
        && (!m.constraints().is_empty() || (m.constants().is_empty() && m.domains().is_empty()))
}
