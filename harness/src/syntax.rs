//! Shared by C09 / C11: tokens of the expression sub-language, their rendering to text, and the canonical
//! S-expression of a `PreExp` (spans dropped).
use crate::rng::Rng;
use crate::sx;
use rooc::{BinOp, PreExp, Primitive};

#[derive(Clone, Debug, PartialEq, Eq, Hash)]
pub enum T {
    Int(String),
    Float(String),
    Word(String),
    LPar,
    RPar,
    Comma,
    Plus,
    Minus,
    Star,
    Slash,
    AmpAmp,
    BarBar,
    Bang,
    Arrow,
    DArrow,
}
pub fn w(s: &str) -> T { T::Word(s.to_string()) }
pub fn int(s: &str) -> T { T::Int(s.to_string()) }

impl T {
    pub fn text(&self) -> &str {
        match self {
            T::Int(s) | T::Float(s) | T::Word(s) => s,
            T::LPar => "(", T::RPar => ")", T::Comma => ",", T::Plus => "+", T::Minus => "-", T::Star => "*",
            T::Slash => "/", T::AmpAmp => "&&", T::BarBar => "||", T::Bang => "!", T::Arrow => "->", T::DArrow => "<->",
        }
    }
    fn wordish(&self) -> bool { matches!(self, T::Word(_)) }
    fn numeric(&self) -> bool { matches!(self, T::Int(_) | T::Float(_)) }
}

/// may `b` directly follow `a` without changing how the text is cut into terminals?
pub fn safe_adjacent(a: &T, b: &T) -> bool {
    if (a.wordish() || a.numeric()) && b.numeric() { return false; }
    if a.wordish() && b.wordish() && !b.text().starts_with('$') { return false; }
    if matches!(a, T::Slash) && matches!(b, T::Slash | T::Star) { return false; }
    // `a - > b` never occurs (no `>` token); `<` only as part of `<->`
    true
}

/// 0 = single spaces, 1 = as tight as is lexically safe, 2 = random mix incl. tabs and comments
pub fn render(toks: &[T], mode: u8, r: &mut Rng) -> String {
    let mut s = String::new();
    for (i, t) in toks.iter().enumerate() {
        if i > 0 {
            let safe = safe_adjacent(&toks[i - 1], t);
            match mode {
                0 => s.push(' '),
                1 => { if !safe { s.push(' ') } }
                _ => {
                    match r.below(8) {
                        0 | 1 | 2 if safe => {}
                        3 => s.push_str("  "),
                        4 => s.push('\t'),
                        5 => s.push_str(" /* c */ "),
                        6 if safe && !matches!(toks[i - 1], T::Slash) => s.push_str("/**/"),
                        _ => s.push(' '),
                    }
                }
            }
        }
        s.push_str(t.text());
    }
    s
}

/// no word starting with `_` directly after a word (compound variable, outside the modelled sub-language)
pub fn in_domain(toks: &[T]) -> bool {
    toks.windows(2).all(|p| !(p[0].wordish() && p[1].wordish() && p[1].text().starts_with('_')))
}

pub fn pre_exp(e: &PreExp, source: &str) -> String {
    match e {
        PreExp::Primitive(p) => match p.value() {
            Primitive::Integer(i) => format!("(int {})", i),
            Primitive::Number(_) => format!("(num {})", sx::q(p.span_text(source).unwrap_or("?"))),
            Primitive::Boolean(b) => format!("(bool {})", b),
            other => format!("(other {})", sx::q(&format!("{:?}", other))),
        },
        PreExp::Variable(n) => format!("(var {})", sx::q(n.value())),
        PreExp::FunctionCall(_, f) => {
            let mut s = format!("(call {}", sx::q(&f.name));
            for a in &f.args { s.push(' '); s.push_str(&pre_exp(a, source)); }
            s.push(')');
            s
        }
        PreExp::BinaryOperation(op, l, r) => format!("(bin {} {} {})", sx::binop(**op), pre_exp(l, source), pre_exp(r, source)),
        PreExp::UnaryOperation(op, x) => format!("(un {} {})", sx::unop(**op), pre_exp(x, source)),
        PreExp::CompoundVariable(_) => "(other \"CompoundVariable\")".into(),
        PreExp::ArrayAccess(_) => "(other \"ArrayAccess\")".into(),
        PreExp::BlockFunction(_) => "(other \"BlockFunction\")".into(),
        PreExp::BlockScopedFunction(_) => "(other \"BlockScopedFunction\")".into(),
    }
}

pub fn variables(e: &PreExp, out: &mut Vec<String>) {
    match e {
        PreExp::Variable(n) => { if !out.contains(n.value()) { out.push(n.value().clone()) } }
        PreExp::FunctionCall(_, f) => f.args.iter().for_each(|a| variables(a, out)),
        PreExp::BinaryOperation(_, l, r) => { variables(l, out); variables(r, out) }
        PreExp::UnaryOperation(_, x) => variables(x, out),
        _ => {}
    }
}

pub const BIN_SPELLINGS: [(&str, BinOp); 13] = [
    ("+", BinOp::Add), ("-", BinOp::Sub), ("*", BinOp::Mul), ("/", BinOp::Div), ("and", BinOp::And), ("&&", BinOp::And),
    ("or", BinOp::Or), ("||", BinOp::Or), ("xor", BinOp::Xor), ("implies", BinOp::Implies), ("->", BinOp::Implies),
    ("iff", BinOp::Iff), ("<->", BinOp::Iff),
];
pub fn bin_tok(s: &str) -> T {
    match s {
        "+" => T::Plus, "-" => T::Minus, "*" => T::Star, "/" => T::Slash, "&&" => T::AmpAmp, "||" => T::BarBar,
        "->" => T::Arrow, "<->" => T::DArrow, "!" => T::Bang, w => T::Word(w.to_string()),
    }
}

/// keyword <-> alias swap of one token (None: has no other spelling)
pub fn swap_alias(t: &T) -> Option<T> {
    Some(match t {
        T::AmpAmp => w("and"), T::BarBar => w("or"), T::Bang => w("not"), T::Arrow => w("implies"), T::DArrow => w("iff"),
        T::Word(s) => match s.as_str() { "and" => T::AmpAmp, "or" => T::BarBar, "not" => T::Bang, "implies" => T::Arrow, "iff" => T::DArrow, _ => return None },
        _ => return None,
    })
}

/// keyword <-> alias swap of every token that stands in OPERATOR position (a word such as `and` directly
/// in leaf position is a function name or an error, not an operator). None: nothing to swap.
pub fn alias_twin(toks: &[T]) -> Option<Vec<T>> {
    let mut out = Vec::with_capacity(toks.len());
    let mut expect_leaf = true;
    let mut had_unary = false;
    let mut swapped = false;
    for t in toks {
        let mut o = t.clone();
        if expect_leaf {
            match t {
                T::Minus | T::Bang if !had_unary => { had_unary = true; if let Some(x) = swap_alias(t) { o = x; swapped = true; } }
                T::Word(s) if s == "not" && !had_unary => { had_unary = true; o = T::Bang; swapped = true; }
                T::LPar => { had_unary = false; }
                T::RPar => { expect_leaf = false; }
                T::Int(_) | T::Float(_) | T::Word(_) => { expect_leaf = false; }
                _ => {}
            }
        } else {
            match t {
                T::Plus | T::Minus | T::Star | T::Slash | T::AmpAmp | T::BarBar | T::Arrow | T::DArrow => {
                    if let Some(x) = swap_alias(t) { o = x; swapped = true; }
                    expect_leaf = true; had_unary = false;
                }
                T::Word(s) if ["and", "or", "xor", "implies", "iff"].contains(&s.as_str()) => {
                    if let Some(x) = swap_alias(t) { o = x; swapped = true; }
                    expect_leaf = true; had_unary = false;
                }
                T::LPar | T::Comma => { expect_leaf = true; had_unary = false; }
                _ => {}
            }
        }
        out.push(o);
    }
    if swapped { Some(out) } else { None }
}

// ---------------------------------------------------------------------------------------------- C11
use rooc::domain_declaration::{Variable, VariablesDomainDeclaration};
use rooc::math_enums::PreVariableType;
use rooc::model_transformer::VariableKind;
use rooc::pre_model::PreModel;
use rooc::{IterableSet, OptimizationType, PreConstraint};

/// Contract of `Display for Primitive::Number` (number tokens are opaque in the Lean printer): Rust's shortest
/// round-trip `f64` Display, except that an integral value outside the i64 range keeps a fractional part (`1e20` is
/// written `100000000000000000000.0`), because the grammar reads an all-digit literal through i64.
pub fn number_text(v: f64) -> String {
    if v.is_finite() && v.fract() == 0.0 && v.abs() >= 9223372036854775808.0 { format!("{}.0", v) } else { v.to_string() }
}

/// full `PreExp` (every variant) with numbers as Rust displays them
pub fn pre_exp_full(e: &PreExp) -> String {
    let list = |head: &str, name: &str, es: &[PreExp]| {
        let mut s = format!("({} {}", head, sx::q(name));
        for a in es { s.push(' '); s.push_str(&pre_exp_full(a)); }
        s.push(')');
        s
    };
    match e {
        PreExp::Primitive(p) => match p.value() {
            Primitive::Integer(i) if *i >= 0 => format!("(int {})", i),
            Primitive::PositiveInteger(i) => format!("(int {})", i),
            Primitive::Number(n) => format!("(num {})", sx::q(&number_text(*n))),
            Primitive::Boolean(b) => format!("(bool {})", b),
            Primitive::String(s) => format!("(str {})", sx::q(s)),
            other => format!("(prim {})", sx::q(&other.to_string())),
        },
        PreExp::Variable(n) => format!("(var {})", sx::q(n.value())),
        PreExp::CompoundVariable(c) => list("cvar", &c.name, &c.indexes),
        PreExp::ArrayAccess(a) => list("access", &a.name, &a.accesses),
        PreExp::FunctionCall(_, f) => list("call", &f.name, &f.args),
        PreExp::BlockFunction(b) => list("block", &b.kind.to_string(), &b.exps),
        PreExp::BlockScopedFunction(b) => format!("(scoped {} {} {})", sx::q(&b.kind.to_string()), iters(&b.iters), pre_exp_full(&b.exp)),
        PreExp::BinaryOperation(op, l, r) => format!("(bin {} {} {})", sx::binop(**op), pre_exp_full(l), pre_exp_full(r)),
        PreExp::UnaryOperation(op, x) => format!("(un {} {})", sx::unop(**op), pre_exp_full(x)),
    }
}
fn var_kind(v: &VariableKind) -> String {
    match v {
        VariableKind::Single(n) => format!("(single {})", sx::q(n.value())),
        VariableKind::Tuple(ns) => format!("(tuple{})", ns.iter().map(|n| format!(" {}", sx::q(n.value()))).collect::<String>()),
    }
}
pub fn iters(its: &[IterableSet]) -> String {
    let mut s = String::from("(its");
    for i in its { s.push_str(&format!(" (it {} {})", var_kind(&i.var), pre_exp_full(i.iterator.value()))); }
    s.push(')');
    s
}
fn variable(v: &Variable) -> String {
    match v {
        Variable::Variable(n) => format!("(v {})", sx::q(n)),
        Variable::CompoundVariable(c) => {
            let mut s = format!("(cv {}", sx::q(&c.name));
            for a in &c.indexes { s.push(' '); s.push_str(&pre_exp_full(a)); }
            s.push(')');
            s
        }
    }
}
fn opt_exp(e: &Option<PreExp>) -> String { match e { Some(e) => pre_exp_full(e), None => "none".into() } }
fn pre_var_type(t: &PreVariableType) -> String {
    match t {
        PreVariableType::Boolean => "bool".into(),
        PreVariableType::NonNegativeReal(a, b) => format!("(nnreal {} {})", opt_exp(a), opt_exp(b)),
        PreVariableType::Real(a, b) => format!("(real {} {})", opt_exp(a), opt_exp(b)),
        PreVariableType::IntegerRange(a, b) => format!("(intrange {} {})", pre_exp_full(a), pre_exp_full(b)),
    }
}
pub fn pre_constraint(c: &PreConstraint) -> String {
    format!("(c {} {} {} {} {} {})",
        match &c.name_exp { Some(n) => variable(n.value()), None => "none".into() },
        pre_exp_full(&c.lhs), sx::cmp(c.constraint_type), pre_exp_full(&c.rhs), c.is_logic_assertion, iters(&c.iteration))
}
fn domain_decl(d: &VariablesDomainDeclaration) -> String {
    let mut s = String::from("(dom (vars");
    for v in d.variables() { s.push(' '); s.push_str(&variable(v.value())); }
    s.push_str(&format!(") {} {})", pre_var_type(d.get_type()), iters(d.iteration())));
    s
}
pub fn pre_model(m: &PreModel) -> String {
    let o = m.objective();
    let kind = match o.objective_type { OptimizationType::Min => "min", OptimizationType::Max => "max", OptimizationType::Satisfy => "solve" };
    let mut s = format!("(premodel (obj {} {}) (constraints", kind, pre_exp_full(&o.rhs));
    for c in m.constraints() { s.push(' '); s.push_str(&pre_constraint(c)); }
    s.push_str(") (consts");
    for k in m.constants() { s.push_str(&format!(" (let {} {})", sx::q(k.name.value()), pre_exp_full(&k.value))); }
    s.push_str(") (domains");
    for d in m.domains() { s.push(' '); s.push_str(&domain_decl(d)); }
    s.push_str("))");
    s
}

// ------------------------------------------------------------------------------ C11, program-level parser model
/// `PreModel` as the program-level parser model answers it: numbers by their lexeme in `src`, fragment without
/// iterations (anything else is encoded as `(other …)` and cannot match)
pub fn pre_model_lex(m: &PreModel, src: &str) -> String {
    let e = |x: &PreExp| pre_exp(x, src);
    let oe = |x: &Option<PreExp>| match x { Some(x) => pre_exp(x, src), None => "none".to_string() };
    let o = m.objective();
    let kind = match o.objective_type { OptimizationType::Min => "min", OptimizationType::Max => "max", OptimizationType::Satisfy => "solve" };
    let mut s = format!("(premodel (obj {} {}) (constraints", kind, e(&o.rhs));
    for c in m.constraints() {
        s.push_str(&format!(" (c {} {} {} {} {} {})",
            match &c.name_exp { Some(n) => variable(n.value()), None => "none".into() },
            e(&c.lhs), sx::cmp(c.constraint_type), e(&c.rhs), c.is_logic_assertion, iters(&c.iteration)));
    }
    s.push_str(") (consts");
    for k in m.constants() { s.push_str(&format!(" (let {} {})", sx::q(k.name.value()), e(&k.value))); }
    s.push_str(") (domains");
    for d in m.domains() {
        s.push_str(" (dom (vars");
        for v in d.variables() { s.push(' '); s.push_str(&variable(v.value())); }
        let ty = match d.get_type() {
            PreVariableType::Boolean => "bool".to_string(),
            PreVariableType::NonNegativeReal(a, b) => format!("(nnreal {} {})", oe(a), oe(b)),
            PreVariableType::Real(a, b) => format!("(real {} {})", oe(a), oe(b)),
            PreVariableType::IntegerRange(a, b) => format!("(intrange {} {})", e(a), e(b)),
        };
        s.push_str(&format!(") {} {})", ty, iters(d.iteration())));
    }
    s.push_str("))");
    s
}

/// light lexical filter for the program fragment the Lean parser model reads (no brackets, braces, strings, escapes,
/// iterations, inner underscores; `.` only inside a decimal literal or `s.t.`)
pub fn in_program_fragment(src: &str) -> bool {
    let cs: Vec<char> = src.chars().collect();
    for (i, &c) in cs.iter().enumerate() {
        let ok = c.is_ascii_alphanumeric() || "éèêíıñüößλд".contains(c) || " \t\n$_(),+-*/!<>=&|:.".contains(c);
        if !ok { return false; }
        if c == '_' && i > 0 && (cs[i - 1].is_alphanumeric()) { return false; }
        if c == '.' {
            let digit_side = i > 0 && i + 1 < cs.len() && cs[i - 1].is_ascii_digit() && cs[i + 1].is_ascii_digit();
            let st = (i >= 1 && (cs[i - 1] == 's' || cs[i - 1] == 'S') && i + 2 < cs.len() && (cs[i + 1] == 't' || cs[i + 1] == 'T') && cs[i + 2] == '.')
                || (i >= 3 && (cs[i - 1] == 't' || cs[i - 1] == 'T') && cs[i - 2] == '.' && (cs[i - 3] == 's' || cs[i - 3] == 'S'));
            if !digit_side && !st { return false; }
        }
        if (c == '&' || c == '|') && !((i + 1 < cs.len() && cs[i + 1] == c) || (i > 0 && cs[i - 1] == c)) { return false; }
    }
    let lower = src.to_ascii_lowercase();
    for w in lower.split(|c: char| !(c.is_alphanumeric() || c == '_' || c == '$')) {
        if w == "for" || w == "in" || w == "graph" || w == "subject" { return false; }
    }
    // a word starting with `_` directly after a word would be glued into a compound variable
    let toks: Vec<&str> = src.split_whitespace().collect();
    for p in toks.windows(2) {
        let a_word = p[0].chars().last().map(|c| c.is_alphanumeric()).unwrap_or(false);
        if a_word && p[1].starts_with('_') { return false; }
    }
    true
}
