import Rooc.Driver
def main : IO Unit := Rooc.driverMain
