/-
M6 — port of `transformers/standardizer.rs` (`to_standard_form`, `normalize_constraint`) and of the
constructors in `transformers/standard_linear_model.rs` (`EqualityConstraint::new`,
`StandardLinearModel::new`) and `utils.rs` (`remove_many`).  Import-free; polymorphic in the number type.

Column bookkeeping is positional exactly as in the Rust: every free variable appends two columns
(`$p`, `$m`) to every row and to the objective, afterwards the original columns of the free variables are
removed by index; a slack/surplus column is placed at index `total_variables` at the moment its row is
normalised.  Where the Rust would panic (index out of range, `unwrap` on a missing domain entry) the
model answers `StdErr.panic`.
-/
import Rooc.Model
import Rooc.Tol
namespace Rooc

structure StdRow (α : Type) where
  coeffs : List α
  rhs : α
  deriving Repr, Inhabited

/-- `StandardLinearModel`. -/
structure StdModel (α : Type) where
  vars : List String
  objective : List α
  offset : α
  flip : Bool
  rows : List (StdRow α)
  deriving Repr, Inhabited

inductive StdErr
  | invalidDomain | unavailableComparison | unimplementedOptimizationType | panic
  deriving Repr, DecidableEq, Inhabited

def StdErr.name : StdErr → String
  | .invalidDomain => "InvalidDomain"
  | .unavailableComparison => "UnavailableComparison"
  | .unimplementedOptimizationType => "UnimplementedOptimizationType"
  | .panic => "panic"

namespace Standardize
variable {α : Type} [Arith α]
open Arith

/-- `Vec::resize(n, d)`: truncate or pad. -/
def resize {β : Type} (l : List β) (n : Nat) (d : β) : List β :=
  l.take n ++ List.replicate (n - l.length) d

/-- `utils::remove_many`: drop the elements whose POSITION is listed. -/
def removeManyFrom {β : Type} (idx : List Nat) : Nat → List β → List β
  | _, [] => []
  | k, x :: xs => if idx.contains k then removeManyFrom idx (k+1) xs else x :: removeManyFrom idx (k+1) xs
def removeMany {β : Type} (l : List β) (idx : List Nat) : List β := removeManyFrom idx 0 l

/-- `EqualityConstraint::new`: rows with a negative right-hand side are negated (EXACT sign test `rhs < 0.0`
since /repo 947e0f0; before, the tolerant `float_lt` left right-hand sides in `(-1e-5, 0)` negative). -/
def eqNew (coeffs : List α) (rhs : α) : StdRow α :=
  if lt rhs zero then { coeffs := coeffs.map (fun c => mul c (ofInt (-1))), rhs := neg rhs }
  else { coeffs := coeffs, rhs := rhs }

def isContinuous : VarType α → Bool
  | .real _ _ | .nnreal _ _ => true
  | _ => false
def isFree : VarType α → Bool
  | .real _ _ => true
  | _ => false

def lookup (domain : List (DomVar α)) (v : String) : Option (VarType α) :=
  (domain.find? (·.name == v)).map (·.ty)

def unitRow (n i : Nat) : List α := (List.replicate n (zero : α)).set i one

/-- rows added for one variable with bounds (`standardizer.rs:72-122`). -/
def boundRows (n i : Nat) : VarType α → List (LinRow α)
  | .real lo hi =>
    if eq lo negInf && eq hi posInf then []
    else if ne lo negInf || ne hi posInf then
      (if ne lo negInf then [{ name := "", coeffs := unitRow n i, cmp := .ge, rhs := lo }] else []) ++
      (if ne hi posInf then [{ name := "", coeffs := unitRow n i, cmp := .le, rhs := hi }] else [])
    else []
  | .nnreal lo hi =>
    if eq lo zero && eq hi posInf then []
    else if ne lo zero || ne hi posInf then
      (if ne lo zero then [{ name := "", coeffs := unitRow n i, cmp := .ge, rhs := lo }] else []) ++
      (if ne hi posInf then [{ name := "", coeffs := unitRow n i, cmp := .le, rhs := hi }] else [])
    else []
  | _ => []

/-- all bound rows, in variable order; `none` = `domain.get(v).unwrap()` panicked. -/
def allBoundRows (domain : List (DomVar α)) (n : Nat) : Nat → List String → Option (List (LinRow α))
  | _, [] => some []
  | i, v :: vs =>
    match lookup domain v with
    | none => none
    | some ty => (allBoundRows domain n (i+1) vs).map (boundRows n i ty ++ ·)

/-- indices of the variables declared `Real(_, _)`. -/
def freeIdx (domain : List (DomVar α)) : Nat → List String → Option (List Nat)
  | _, [] => some []
  | i, v :: vs =>
    match lookup domain v with
    | none => none
    | some ty => (freeIdx domain (i+1) vs).map (fun r => if isFree ty then i :: r else r)

/-- one free variable: append `c, -c` where `c` is read at index `i` of the (already grown) vector. -/
def splitStep (i : Nat) (l : List α) : Option (List α) :=
  match l[i]? with
  | some c => some (l ++ [c, neg c])
  | none => none

def splitAll : List Nat → List α → Option (List α)
  | [], l => some l
  | i :: is, l => match splitStep i l with
    | some l' => splitAll is l'
    | none => none

def mapM' {β γ : Type} (f : β → Option γ) : List β → Option (List γ)
  | [] => some []
  | x :: xs => match f x with
    | none => none
    | some y => (mapM' f xs).map (y :: ·)

/-- `normalize_constraint` over all rows: state = `total_variables`, slack and surplus counters.
Returns the rows and the names of the added columns in order. -/
def normalizeAll : Nat → Nat → Nat → List (LinRow α) → Except StdErr (List (StdRow α) × List String × Nat)
  | total, _, _, [] => .ok ([], [], total)
  | total, sl, su, r :: rs =>
    match r.cmp with
    | .eq =>
      match normalizeAll total sl su rs with
      | .ok (rows, names, t) => .ok (eqNew r.coeffs r.rhs :: rows, names, t)
      | .error e => .error e
    | .le =>
      let row := eqNew (resize r.coeffs total zero ++ [one]) r.rhs
      match normalizeAll (total+1) (sl+1) su rs with
      | .ok (rows, names, t) => .ok (row :: rows, ("$sl_" ++ toString (sl+1)) :: names, t)
      | .error e => .error e
    | .ge =>
      let row := eqNew (resize r.coeffs total zero ++ [ofInt (-1)]) r.rhs
      match normalizeAll (total+1) sl (su+1) rs with
      | .ok (rows, names, t) => .ok (row :: rows, ("$su_" ++ toString (su+1)) :: names, t)
      | .error e => .error e
    | _ => .error .unavailableComparison

/-- `to_standard_form`. -/
def standardize (lm : LinModel α) : Except StdErr (StdModel α) :=
  if lm.domain.any (fun d => !(isContinuous d.ty)) then .error .invalidDomain else
  let n := lm.vars.length
  match allBoundRows lm.domain n 0 lm.vars, freeIdx lm.domain 0 lm.vars with
  | some brows, some free =>
    let rows := lm.rows ++ brows
    -- free-variable split (append two columns per free variable, then remove the originals by index)
    match mapM' (fun (r : LinRow α) => (splitAll free r.coeffs).map (fun c => { r with coeffs := removeMany c free })) rows,
          splitAll free lm.objective with
    | some rows, some obj =>
      let obj := removeMany obj free
      let vars := removeMany (lm.vars ++ free.flatMap (fun i => let v := lm.vars.getD i ""; ["$p" ++ v, "$m" ++ v])) free
      match normalizeAll (n + free.length) 0 0 rows with
      | .error e => .error e
      | .ok (srows, names, total) =>
        let vars := vars ++ names
        let srows := srows.map (fun r => { r with coeffs := resize r.coeffs total zero })
        match lm.optType with
        | .max =>
          .ok (mk vars (obj.map (fun c => mul c (ofInt (-1)))) lm.offset true srows)
        | .min => .ok (mk vars obj lm.offset false srows)
        | .satisfy => .error .unimplementedOptimizationType
    | _, _ => .error .panic
  | _, _ => .error .panic
where
  /-- `StandardLinearModel::new`: every row and the objective are resized to the number of variables. -/
  mk (vars : List String) (obj : List α) (off : α) (flip : Bool) (rows : List (StdRow α)) : StdModel α :=
    { vars := vars, objective := resize obj vars.length zero, offset := off, flip := flip,
      rows := rows.map (fun r => { r with coeffs := resize r.coeffs vars.length zero }) }

end Standardize
end Rooc
