/-
`solve_real_lp_problem_slow_simplex` (`solvers/simplex/simplex_solver.rs`) as ONE model function, composed of the ported
stages: `into_standard_form` (`Standardize.standardize`) → `into_tableau` (`Tableau.intoTableau`, direct or two-phase
start) → `solve(limit)` (`Tableau.solve`, no preference list) → `OptimalTableau::as_lp_solution`
(`SolverWrap.asLpSolution` on `variables_values` / `optimal_value` under the names of the standard form), with the error
arms of the entry point:

    into_standard_form()?                         SolverError of the standardizer, as is
    CanonicalTransformError::Infesible  ->        SolverError::Infeasible          (repair 5a0cc70)
    other CanonicalTransformError       ->        SolverError::Other
    SimplexError::IterationLimitReached ->        SolverError::LimitReached
    SimplexError::Unbounded             ->        SolverError::Unbounded
    SimplexError::Other                 ->        SolverError::Other

Import-free; polymorphic in the number type (the `Float` instantiation is diffed against the real entry point).
-/
import Rooc.Standardize
import Rooc.Tableau
import Rooc.SolverWrap
namespace Rooc
namespace SlowSimplex
variable {α : Type} [Arith α]
open SolverWrap

/-- `limit : i64`; the loop `while iteration < limit` does nothing for `limit ≤ 0`. -/
def solveReal (tol : α) (stallExtra phase1Limit : Nat) (lm : LinModel α) (limit : Int) : Res α :=
  match Standardize.standardize lm with
  | .error .panic => .panic
  | .error e => .err e.name
  | .ok sm =>
    match Tableau.intoTableau tol stallExtra phase1Limit sm with
    | .error .infeasible => .err "Infeasible"
    | .error _ => .err "Other"
    | .ok T =>
      let out := Tableau.solve tol stallExtra limit.toNat [] T
      match out.result with
      | .ok () => .ok (asLpSolution sm.vars (Tableau.variablesValues out.final) (Tableau.optimalValue out.final))
      | .error .iterationLimit => .err "LimitReached"
      | .error .unbounded => .err "Unbounded"
      | .error .other => .err "Other"

end SlowSimplex
end Rooc
