/-
Exact oracle for C13: evaluates the PROPERTY ("standard-form conversion preserves the problem") on the
implementation's own output, in exact rational arithmetic, independently of the model in
`Standardize.lean`:

* shape: equal row lengths, right-hand sides ≥ 0;
* column roles are recovered from the recorded names (`$p<v>` / `$m<v>` = the two halves of a free
  variable, an original name = that variable, anything else = slack/surplus);
* forward: original-feasible sample points are mapped to `p = max x 0`, `m = max (−x) 0`, slack = residual,
  and must be feasible for the standard form with `±obj_std + offset = obj`;
* backward: standard-form-feasible points (grid over the structural columns with solved slacks, plus all
  basic feasible solutions) are mapped back with `x = p − m` and must be feasible for the original
  (rows AND declared bounds) with the same objective relation.
Import-free.
-/
import Rooc.WireStd
import Rooc.RatLin
namespace Rooc
namespace StdOracle
open Sexp RatLin

def finOf : Ext Rat → Option Rat
  | .fin q => some q
  | _ => none

def optAllR {β γ : Type} (f : β → Option γ) (l : List β) : Option (List γ) := optAll (l.map f)

inductive Role
  | x (i : Nat)      -- original variable i, kept
  | p (i : Nat)      -- positive half of free variable i
  | m (i : Nat)      -- negative half of free variable i
  | slack
  deriving Repr, BEq

structure Orig where
  names : List String
  free : List Bool
  lo : List (Ext Rat)
  hi : List (Ext Rat)
  nn : List Bool            -- declared NonNegativeReal
  obj : List Rat
  offset : Rat
  rows : List (List Rat × Cmp × Rat)

def encQ (q : Rat) : Sexp := .atom (Wire.enc (Ext.fin q : Ext Rat))
def encQs (l : List Rat) : Sexp := .list (l.map encQ)

def holds (c : Cmp) (l r : Rat) : Bool :=
  match c with
  | .le => l ≤ r | .ge => l ≥ r | .eq => l == r | .lt => l < r | .gt => l > r

def inBounds (o : Orig) (x : List Rat) : Bool :=
  (List.range o.names.length).all fun i =>
    let v := x.getD i 0
    Ext.le (o.lo.getD i .ninf) (.fin v) && Ext.le (.fin v) (o.hi.getD i .pinf) &&
      (!(o.nn.getD i false) || v ≥ 0)

def rowsHold (o : Orig) (x : List Rat) : Bool := o.rows.all fun (cs, c, r) => holds c (dot cs x) r
def objOrig (o : Orig) (x : List Rat) : Rat := dot o.obj x + o.offset

/-- the `idx`-th point of the grid `vals^n` (mixed-radix decoding). -/
def gridAt {β : Type} [Inhabited β] (vals : List β) : Nat → Nat → List β
  | 0, _ => []
  | n+1, idx => vals.getD (idx % vals.length) default :: gridAt vals n (idx / vals.length)

/-- at most `k` points of the grid `vals^n`: all of them when there are few, otherwise a deterministic
scattered subset (never materialises the whole grid). -/
def gridSample {β : Type} [Inhabited β] (k : Nat) (vals : List β) (n : Nat) : List (List β) :=
  let total := vals.length ^ n
  if total ≤ k then (List.range total).map (gridAt vals n)
  else (List.range k).map fun i => gridAt vals n ((i * 2654435761 + i / 7) % total)

def binom : Nat → Nat → Nat
  | _, 0 => 1
  | 0, _+1 => 0
  | n+1, k+1 => binom n k + binom n (k+1)

def dedupQ (l : List Rat) : List Rat := l.foldl (fun acc x => if acc.contains x then acc else acc ++ [x]) []

def check (tol : Rat) (effort : Nat) (lm : LinModel (Ext Rat)) (sm : StdModel (Ext Rat)) : Sexp :=
  let viol (kind : String) (extra : List Sexp) : Sexp := app "violation" (.atom kind :: extra)
  -- ---- decode to exact rationals; non-finite data is outside the exact statement
  let tyOf (v : String) : Option (VarType (Ext Rat)) := (lm.domain.find? (·.name == v)).map (·.ty)
  match optAllR finOf lm.objective, finOf lm.offset,
        optAllR (fun (r : LinRow (Ext Rat)) => do pure ((← optAllR finOf r.coeffs), r.cmp, (← finOf r.rhs))) lm.rows,
        optAllR tyOf lm.vars,
        optAllR finOf sm.objective, finOf sm.offset,
        optAllR (fun (r : StdRow (Ext Rat)) => do pure ((← optAllR finOf r.coeffs), (← finOf r.rhs))) sm.rows with
  | some obj, some off, some rows, some tys, some sobj, some soff, some srows =>
    let o : Orig := {
      names := lm.vars
      free := tys.map (fun | .real _ _ => true | _ => false)
      lo := tys.map (fun | .real a _ => a | .nnreal a _ => a | _ => .ninf)
      hi := tys.map (fun | .real _ b => b | .nnreal _ b => b | _ => .pinf)
      nn := tys.map (fun | .nnreal _ _ => true | _ => false)
      obj := obj, offset := off, rows := rows }
    let n := o.names.length
    let ns := sm.vars.length
    if (o.lo ++ o.hi).any (fun | .nan => true | _ => false) then app "ok" [.atom "skipped-nan-bound"] else
    -- ---- shape
    if srows.any (fun r => r.1.length != ns) || sobj.length != ns then viol "row-length" [] else
    match srows.find? (fun r => r.2 < 0) with
    | some r => if r.2 > -tol then viol "rhs-negative-within-tolerance" [encQ r.2] else viol "rhs-negative" [encQ r.2]
    | none =>
    -- ---- roles of the standard-form columns, from the recorded names
    let idxOf (v : String) : Option Nat := o.names.findIdx? (· == v)
    let role (s : String) : Role :=
      match idxOf s with
      | some i => if o.free.getD i false then .slack else .x i
      | none =>
        if s.startsWith "$p" then
          match idxOf (s.drop 2).toString with
          | some i => if o.free.getD i false then .p i else .slack
          | none => .slack
        else if s.startsWith "$m" then
          match idxOf (s.drop 2).toString with
          | some i => if o.free.getD i false then .m i else .slack
          | none => .slack
        else .slack
    let roles := sm.vars.map role
    let count (r : Role) : Nat := (roles.filter (· == r)).length
    let missing := (List.range n).filter fun i =>
      if o.free.getD i false then count (.p i) != 1 || count (.m i) != 1 else count (.x i) != 1
    if !missing.isEmpty then viol "variable-not-represented" [.str (o.names.getD (missing.headD 0) "")] else
    let A := srows.map (·.1)
    let b := srows.map (·.2)
    let rolesA := roles.toArray
    let slackCols := (List.range ns).filter (fun j => roles.getD j .slack == .slack)
    -- each slack column: zero cost, exactly one non-zero entry; at most one slack per row
    let slackRow (j : Nat) : Option Nat :=
      match (List.range A.length).filter (fun r => (A.getD r []).getD j 0 != 0) with
      | [r] => some r
      | _ => none
    if slackCols.any (fun j => (slackRow j).isNone || sobj.getD j 0 != 0) then viol "slack-shape" [] else
    let slackRows := slackCols.filterMap slackRow
    if slackRows.length != (slackRows.eraseDups).length then viol "slack-shape" [.atom "two-slacks-in-a-row"] else
    -- (slack column, its row without the slack entry, the slack coefficient, the rhs)
    let slackInfo : List (Nat × List Rat × Rat × Rat) := slackCols.filterMap fun j =>
      (slackRow j).map fun r => (j, (A.getD r []).set j 0, (A.getD r []).getD j 0, b.getD r 0)
    -- complete a structural assignment (values for x/p/m columns, slack positions 0) with solved slacks
    let complete (y : List Rat) : List Rat :=
      let ya := slackInfo.foldl (fun (ya : Array Rat) (j, row, a, bi) => ya.set! j ((bi - dot row y) / a)) y.toArray
      ya.toList
    let stdFeasible (y : List Rat) : Bool :=
      y.all (· ≥ 0) && (List.zip A b).all (fun (r, bi) => dot r y == bi)
    let objStd (y : List Rat) : Rat := (if sm.flip then -(dot sobj y) else dot sobj y) + soff
    -- per original variable: the columns it is read back from, with sign
    let backInfo : List (List (Nat × Bool)) := (List.range n).map fun i =>
      (List.range ns).filterMap fun j =>
        match rolesA.getD j .slack with
        | .x k => if k == i then some (j, true) else none
        | .p k => if k == i then some (j, true) else none
        | .m k => if k == i then some (j, false) else none
        | .slack => none
    let back (y : List Rat) : List Rat :=
      let ya := y.toArray
      backInfo.map fun cols => cols.foldl (fun acc (j, pos) => if pos then acc + ya.getD j 0 else acc - ya.getD j 0) 0
    let fwd (x : List Rat) : List Rat :=
      let xa := x.toArray
      complete (roles.map fun
        | .x k => xa.getD k 0
        | .p k => max (xa.getD k 0) 0
        | .m k => max (-(xa.getD k 0)) 0
        | .slack => 0)
    -- ---- sample values: small grid plus the model's own finite bounds
    let bnds := (o.lo ++ o.hi).filterMap finOf
    let vals := (dedupQ ([0, 1, -1, 2, 1/2, -2, 3] ++ bnds)).take 11
    -- ---- forward
    let origPts := gridSample effort vals n
    let origFeas := origPts.filter (fun x => inBounds o x && rowsHold o x)
    let fwdBad := origFeas.findSome? fun x =>
      let y := fwd x
      if !(y.all (· ≥ 0)) then some (viol "fwd-image-negative" [encQs x, encQs y])
      else if !(stdFeasible y) then some (viol "fwd-image-infeasible" [encQs x, encQs y])
      else if objStd y != objOrig o x then some (viol "fwd-objective" [encQs x, encQs y, encQ (objStd y), encQ (objOrig o x)])
      else none
    match fwdBad with
    | some v => v
    | none =>
    -- ---- direction: the standard form is a MINIMISATION of `c·y`; for a `max` model minimising it must maximise the
    -- original objective.  Semantic test on two feasible points with different objective; the recorded flag otherwise.
    let isMax := lm.optType == OptType.max
    let dirBad : Option Sexp :=
      match origFeas.head? with
      | none => none
      | some x1 =>
        match origFeas.find? (fun x2 => objOrig o x2 != objOrig o x1) with
        | none => none
        | some x2 =>
          let z1 := dot sobj (fwd x1)
          let z2 := dot sobj (fwd x2)
          let origLess := objOrig o x1 < objOrig o x2
          let stdLess := z1 < z2
          -- min: same order; max: reversed order
          if (if isMax then stdLess == origLess else stdLess != origLess) then
            some (viol "objective-direction" [encQs x1, encQs x2, encQ z1, encQ z2, encQ (objOrig o x1), encQ (objOrig o x2)])
          else none
    match dirBad with
    | some v => v
    | none =>
    if sm.flip != isMax && lm.optType != OptType.satisfy then viol "objective-direction" [.atom "flip-flag", .atom (if sm.flip then "flip" else "noflip"), .atom lm.optType.name] else
    -- ---- backward
    let structCols := (List.range ns).filter (fun j => roles.getD j .slack != .slack)
    let pvals := dedupQ ([0, 1, 2, 1/2, 3] ++ (bnds.filter (· > 0)).take 3)
    let structPts := gridSample effort pvals structCols.length
    let structPos : List (Option Nat) := (List.range ns).map fun j => structCols.findIdx? (· == j)
    let fromStruct (zs : List Rat) : List Rat :=
      let za := zs.toArray
      complete (structPos.map fun | some k => za.getD k 0 | none => 0)
    let small := binom ns (min A.length ns) ≤ 10 * effort
    let verts := if small then (vertices ns A b).map (·.2) else []
    let stdFeas := (structPts.map fromStruct).filter stdFeasible ++ verts
    let bwdBad := stdFeas.findSome? fun y =>
      let x := back y
      if !(rowsHold o x) then some (viol "bwd-row-violated" [encQs y, encQs x])
      else if !(inBounds o x) then some (viol "bound-not-enforced" [encQs y, encQs x])
      else if objStd y != objOrig o x then some (viol "bwd-objective" [encQs y, encQs x, encQ (objStd y), encQ (objOrig o x)])
      else none
    match bwdBad with
    | some v => v
    | none =>
      -- feasibility must agree as far as the samples can tell
      if !origFeas.isEmpty && stdFeas.isEmpty && small then viol "std-infeasible-but-original-feasible" [encQs (origFeas.headD [])]
      else app "ok" [.atom (toString origFeas.length), .atom (toString stdFeas.length)]
  | _, _, _, _, _, _, _ => app "ok" [.atom "skipped-nonfinite"]

end StdOracle
end Rooc
