/-
Semantics used by the C14 statements (DESIGN appendix A), written against the same number interface as
the model so that they can be evaluated (oracle) and reasoned about (at an ordered field).  Import-free.
-/
import Rooc.Tableau
namespace Rooc
namespace TabSem
variable {α : Type} [Arith α]
open Arith Tableau

/-- `Σ aⱼ·xⱼ`. -/
def dot : List α → List α → α
  | a :: as, x :: xs => add (mul a x) (dot as xs)
  | _, _ => zero

/-- `x` solves the equation system `[A | b]` of the tableau. -/
def Sol (T : Tab α) (x : List α) : Prop :=
  ∀ i, i < T.a.length → dot (row T.a i) x = nth T.b i

/-- rectangular `m × n` tableau. -/
structure Rect (T : Tab α) (m n : Nat) : Prop where
  rows : T.a.length = m
  rhs : T.b.length = m
  basis : T.basis.length = m
  costs : T.c.length = n
  width : ∀ i, i < m → (row T.a i).length = n

/-- the basic columns are unit columns: `a[i][basis k] = δ_ik`. -/
def UnitCols (T : Tab α) : Prop :=
  ∀ i k, i < T.a.length → k < T.a.length →
    nth (row T.a i) (T.basis.getD k 0) = if i = k then one else zero

/-- every basic index is a column. -/
def BasisInRange (T : Tab α) : Prop := ∀ k, k < T.a.length → T.basis.getD k 0 < T.c.length

/-- reduced costs of the basic columns vanish. -/
def BasicCostsZero (T : Tab α) : Prop := ∀ k, k < T.a.length → nth T.c (T.basis.getD k 0) = zero

/-- the basic solution is non-negative. -/
def Feasible (T : Tab α) : Prop := ∀ i, i < T.a.length → le zero (nth T.b i) = true

/-- `(c, value)` represent the objective `c0` on the solution set: `c0·x = c·x − value`. -/
def ObjInv (T : Tab α) (c0 : List α) : Prop :=
  ∀ x, x.length = T.c.length → Sol T x → dot c0 x = sub (dot T.c x) T.value

/-- canonical-form invariant (without feasibility). -/
structure Canon (T : Tab α) (m n : Nat) : Prop where
  rect : Rect T m n
  unit : UnitCols T
  inRange : BasisInRange T
  costs : BasicCostsZero T

/-- the basic solution as a vector: `x[basis k] = b[k]`, zero elsewhere (`variables_values`). -/
def basicSolution (T : Tab α) : List α := variablesValues T

/-- every component is `≥ 0`. -/
def NonNeg (x : List α) : Prop := ∀ j, j < x.length → le zero (nth x j) = true

end TabSem
end Rooc
