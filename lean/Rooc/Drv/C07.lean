import Rooc.Wire
import Rooc.WireModel
import Rooc.Bounds
import Rooc.BoundsOracle
import Rooc.Gen.Consts
import Rooc.Compile
namespace Rooc.Drv.C07
open Rooc Sexp

variable {α : Type} [Arith α] [Wire α]

open BoundsOracle

/-- model requests for C07 (run at `Float` for the exact diff, at `Ext Rat` as oracle).
`analyze TOL (domain …) (constraints …) (exprs …)` uses the step limit regenerated from bounds.rs;
`analyze-steps N TOL …` takes it from the request; `info …` additionally reports the two flags. -/
def handle (α : Type) [Arith α] [Wire α] : List Sexp → Sexp
  | [.atom "analyze", tol, .list (.atom "domain" :: d), .list (.atom "constraints" :: cs), .list (.atom "exprs" :: es)] =>
    match (decNumS tol : Option α), decInstance (α := α) d cs es with
    | some tol, some (d, cs, es) => encReport (analyzeBounds d cs es tol Gen.boundsMaxSteps)
    | _, _ => app "err" [.atom "decode"]
  | [.atom "linbounds", tol, .list (.atom "domain" :: d), .list (.atom "constraints" :: cs)] =>
    match (decNumS tol : Option α), decInstance (α := α) d cs [] with
    | some tol, some (d, cs, _) => encReport (linearizerBounds d cs tol Gen.boundsMaxSteps)
    | _, _ => app "err" [.atom "decode"]
  | [.atom "compile-domains", m, tol] =>
    match (Model.dec m : Option (Model α)), (decNumS tol : Option α) with
    | some m, some tol =>
      match Compile.linearize m tol Gen.boundsMaxSteps with
      | .ok lm => app "ok" [app "domain" (lm.domain.map fun d => DomVar.enc { d with ty := canonTy d.ty })]
      | .error _ => app "err" []
    | _, _ => app "err" [.atom "decode"]
  | [.atom "analyze-steps", .atom n, tol, .list (.atom "domain" :: d), .list (.atom "constraints" :: cs), .list (.atom "exprs" :: es)] =>
    match n.toNat?, (decNumS tol : Option α), decInstance (α := α) d cs es with
    | some n, some tol, some (d, cs, es) => encReport (analyzeBounds d cs es tol n)
    | _, _, _ => app "err" [.atom "decode"]
  | [.atom "info", tol, .list (.atom "domain" :: d), .list (.atom "constraints" :: cs), .list (.atom "exprs" :: _)] =>
    match (decNumS tol : Option α), decInstance (α := α) d cs [] with
    | some tol, some (d, cs, _) =>
      let an := Analyzer.analyze d cs tol Gen.boundsMaxSteps
      app "ok" [.atom (if an.reachedIterationLimit then "limit" else "no-limit"),
                .atom (if an.detectedInfeasible then "frozen" else "not-frozen"),
                .atom (toString ((cs.map AffineForm.fromConstraint).filter Option.isSome).length)]
    | _, _ => app "err" [.atom "decode"]
  | _ => app "err" [.atom "bad-request"]

/-- exact oracle: the PROPERTY evaluated on the implementation's own answer. -/
def oracle : List Sexp → Sexp
  | [.atom "check", tol, .list (.atom "domain" :: d), .list (.atom "constraints" :: cs), .list (.atom "exprs" :: es), impl] =>
    match impl with
    | .list [.atom "ok", .list (.atom "vars" :: vs), .list (.atom "exprs" :: bs), .list (.atom "domain" :: d')] =>
      BoundsOracle.check false Gen.boundsMaxSteps tol d cs es impl vs bs d'
    | _ => app "err" [.atom "bad-request"]
  | [.atom "check-lin", tol, .list (.atom "domain" :: d), .list (.atom "constraints" :: cs), impl] =>
    match impl with
    | .list [.atom "ok", .list (.atom "vars" :: vs), .list (.atom "exprs" :: bs), .list (.atom "domain" :: d')] =>
      BoundsOracle.check true Gen.boundsMaxSteps tol d cs [] impl vs bs d'
    | _ => app "err" [.atom "bad-request"]
  | [.atom "check-aux", tol, .list (.atom "domain" :: d), .list (.atom "constraints" :: cs), lm] =>
    BoundsOracle.checkAux tol d cs lm
  | _ => app "err" [.atom "bad-request"]
end Rooc.Drv.C07
