import Rooc.Wire
import Rooc.Oracle
import Rooc.Syntax.Format
import Rooc.Syntax.FormatToks
import Rooc.Syntax.ProgramToks
import Rooc.Syntax.Wire
import Rooc.Syntax.Parse
import Rooc.Syntax.Program
import Rooc.Syntax.Ref
import Rooc.Drv.C09
namespace Rooc.Drv.C11
open Rooc Sexp Rooc.Syntax

/-- every expression slot of a program (objective, constraint sides, iterators, constants, domain bounds) -/
def exprSlots (m : PModel) : List PExp :=
  [m.objective]
    ++ m.constraints.flatMap (fun c => [c.lhs, c.rhs] ++ c.iters)
    ++ m.constants.map (·.2)
    ++ m.domains.flatMap (fun d =>
        (match d.ty with
         | .boolean => []
         | .nonNegReal a b | .real a b => a.toList ++ b.toList
         | .intRange a b => [a, b]) ++ d.iters)

/-- link between the text printer and its token twin (the object of the C11 theorems): on the
expression sub-language, lexing `fmtExp e` gives exactly `fmtToks e`. Checked on every case. -/
def linkOk (e : PExp) : Bool :=
  !(coreExp e) ||
    (match lex (fmtExp e).toList with
     | .ok ts => ts == fmtToks e
     | .unsupported => true)

def rawOpaque (p : RawProgram) : Bool :=
  let es : List PExp :=
    p.objective.body.toList
      ++ p.constraints.flatMap (fun c => [c.lhs, c.rhs] ++ c.iters
          ++ (match c.name with | some (.compound _ idx) => idx | _ => []))
      ++ p.constants.map (·.2)
      ++ p.domains.flatMap (fun d => (d.args.getD []) ++ d.iters
          ++ d.vars.flatMap (fun | .compound _ idx => idx | _ => []))
  C09.hasOpaqueList es

/-- model requests for C11: `(format <premodel>)` → the text `RoocParser::format` prints for that `PreModel`. -/
def handle (α : Type) [Arith α] [Wire α] : List Sexp → Sexp
  | [.atom "format", m] =>
    match grammarDrift with
    | some rule => app "err" [.atom "grammar-rule-changed", .atom rule]
    | none =>
    match PModel.dec m with
    | some m =>
      match (exprSlots m).find? (fun e => !(linkOk e)) with
      | some e => app "err" [.atom "printer-token-link-broken", .str (fmtExp e)]
      | none =>
        -- program-level link: on the fragment, lexing the printed program gives `progToks`
        if coreProgram m && (match lex m.text.toList with
            | .ok ts => ts != progToks m
            | .unsupported => false)      -- the lexer declines (e.g. a name starting with `_` right after a word)
        then app "err" [.atom "program-token-link-broken"]
        else app "ok" [.str m.text]
    | none => app "err" [.atom "decode"]
  -- `(parse-program "<text>")` → the `PreModel` the program-level parser model reads, or the class of the rejection
  | [.atom "parse-program", .str s] =>
    match grammarDrift with
    | some rule => app "err" [.atom "grammar-rule-changed", .atom rule]
    | none =>
    match lex s.toList with
    | .unsupported => app "err" [.atom "unsupported"]
    | .ok toks =>
      match parseProgramRaw toks with
      | .error .reject => app "err" [.atom "reject", .atom "peg"]
      | .error .panic => app "err" [.atom "panic"]
      | .error .fuel => app "err" [.atom "fuel"]
      | .ok raw =>
        match buildProgram raw with
        | .error e => app "err" [.atom "reject", .atom e]
        | .ok m =>
          if rawOpaque raw then app "err" [.atom "unsupported"]
          else app "ok" [m.enc, .atom (if printable m then "in-fragment" else "out-of-fragment")]
  | _ => app "err" [.atom "bad-request"]

/-! ### oracle: the property itself on the implementation's output -/

/-- numeric literals are compared by value (`2.0` is printed `2` and read back as an integer) -/
def litVal : PExp → Option Rat
  | .int v => some (v : Nat)
  | .num t => if t.toList.all (fun c => isDigit c || c == '.') then some (Ref.ratOfLexeme t) else none
  | _ => none

mutual
partial def sameExp (a b : PExp) : Bool :=
  match litVal a, litVal b with
  | some x, some y => x == y
  | some _, none | none, some _ => false
  | none, none =>
    match a, b with
    | .num s, .num t => s == t
    | .bool x, .bool y => x == y
    | .str x, .str y => x == y
    | .prim x, .prim y => x == y
    | .var x, .var y => x == y
    | .cvar n xs, .cvar m ys => n == m && sameList xs ys
    | .access n xs, .access m ys => n == m && sameList xs ys
    | .call n xs, .call m ys => n == m && sameList xs ys
    | .block n xs, .block m ys => n == m && sameList xs ys
    | .scoped k vs is b, .scoped k' vs' is' b' => k == k' && vs == vs' && sameList is is' && sameExp b b'
    | .bin o l r, .bin o' l' r' => o == o' && sameExp l l' && sameExp r r'
    | .un o e, .un o' e' => o == o' && sameExp e e'
    | _, _ => false
partial def sameList : List PExp → List PExp → Bool
  | [], [] => true
  | a :: as, b :: bs => sameExp a b && sameList as bs
  | _, _ => false
end

def sameOpt : Option PExp → Option PExp → Bool
  | none, none => true
  | some a, some b => sameExp a b
  | _, _ => false

def sameName : Option CName → Option CName → Bool
  | none, none => true
  | some (.plain a), some (.plain b) => a == b
  | some (.compound a xs), some (.compound b ys) => a == b && sameList xs ys
  | _, _ => false

def sameType : PVarType → PVarType → Bool
  | .boolean, .boolean => true
  | .nonNegReal a b, .nonNegReal c d => sameOpt a c && sameOpt b d
  | .real a b, .real c d => sameOpt a c && sameOpt b d
  | .intRange a b, .intRange c d => sameExp a c && sameExp b d
  | _, _ => false

/-- binding powers of the real parser (regenerated table) for the round-trip condition -/
def bp (o : BinOp) : Nat × Nat :=
  let rule := match o with
    | .add => "add" | .sub => "sub" | .mul => "mul" | .div => "div" | .and => "and_op" | .or => "or_op"
    | .xor => "xor_op" | .implies => "implies_op" | .iff => "iff_op"
  match getOp rule with
  | some (.inR, p) => (p, p - 1)
  | some (_, p) => (p, p)
  | none => (0, 0)

/-- first operand whose parentheses are needed by the parser but not printed:
(parent, child, side).  Right child `c` under `p` needs them iff `lbp c ≤ rbp p`, left child iff
`rbp c < lbp p`; the printer emits them iff `prec c < prec p`. -/
partial def offender : PExp → Option (BinOp × BinOp × String)
  | .bin p l r =>
    let here : Option (BinOp × BinOp × String) :=
      match l with
      | .bin c _ _ => if (bp c).2 < (bp p).1 && !(Gen.binPrec c < Gen.binPrec p) then some (p, c, "left") else none
      | _ => none
    let here := here.orElse fun _ =>
      match r with
      | .bin c _ _ => if (bp c).1 ≤ (bp p).2 && !(Gen.binPrec c < Gen.binPrec p) then some (p, c, "right") else none
      | _ => none
    (here.orElse fun _ => offender l).orElse fun _ => offender r
  | .un _ e => offender e
  | .call _ as | .block _ as | .cvar _ as | .access _ as => as.findSome? offender
  | .scoped _ _ its b => (its.findSome? offender).orElse fun _ => offender b
  | _ => none

/-- a name that `simple_variable` matches completely and that contains `_` is printed as `\name`, which
`escaped_compound_variable` cannot read (it needs `name_index…`) -/
def badEscapedName (n : String) : Bool :=
  n.contains '_' &&
    (let cs := n.toList
     let cs := match cs with | '$' :: r => r | r => r
     isSimpleRun cs)

partial def expNames : PExp → List String
  | .var n => [n]
  | .cvar _ as | .access _ as | .call _ as | .block _ as => as.flatMap expNames
  | .scoped _ _ its b => its.flatMap expNames ++ expNames b
  | .bin _ l r => expNames l ++ expNames r
  | .un _ e => expNames e
  | _ => []

/-- texts of the `Primitive::Number` literals and of the opaque primitives (arrays, graphs) of an expression -/
partial def expLiterals : PExp → List String × List String
  | .num t => ([t], [])
  | .prim d => ([], [d])
  | .cvar _ as | .access _ as | .call _ as | .block _ as =>
    as.foldl (fun acc e => let r := expLiterals e; (acc.1 ++ r.1, acc.2 ++ r.2)) ([], [])
  | .scoped _ _ its b =>
    (its ++ [b]).foldl (fun acc e => let r := expLiterals e; (acc.1 ++ r.1, acc.2 ++ r.2)) ([], [])
  | .bin _ l r => let a := expLiterals l; let b := expLiterals r; (a.1 ++ b.1, a.2 ++ b.2)
  | .un _ e => expLiterals e
  | _ => ([], [])

/-- an integral float beyond the `i64` range is printed without a fractional part (`100000000000000000000`),
which the parser reads as an integer literal that overflows -/
def integralBeyondI64 (t : String) : Bool :=
  !t.toList.isEmpty && t.toList.all isDigit && decide (digitsToNat t.toList > i64Max)

/-- `Debug` of an `f64` inside an array: exponent notation (`1e-6`, `1e16`), which the grammar has no syntax for -/
def hasExponentNumber (d : String) : Bool :=
  let rec go : List Char → Bool
    | a :: 'e' :: b :: rest => (isDigit a && (isDigit b || b == '-')) || go ('e' :: b :: rest)
    | _ :: rest => go rest
    | [] => false
  go d.toList

mutual
/-- a `range(from, to, <boolean literal>)` call that is NOT the iterator of an iteration: before 10f80da the printer
wrote the sugar `from..to`, which the grammar only reads in iterator position (kept as regression detector) -/
partial def rangeOutsideIterator : PExp → Bool
  | .call n as => isRangeSugar n as || as.any rangeOutsideIterator
  | .cvar _ as | .access _ as | .block _ as => as.any rangeOutsideIterator
  | .scoped _ _ its b => its.any rangeInIterator || rangeOutsideIterator b
  | .bin _ l r => rangeOutsideIterator l || rangeOutsideIterator r
  | .un _ e => rangeOutsideIterator e
  | _ => false
/-- the same below an iterator (the iterator itself may be the sugar) -/
partial def rangeInIterator : PExp → Bool
  | .call "range" [a, b, .bool _] => rangeOutsideIterator a || rangeOutsideIterator b
  | e => rangeOutsideIterator e
end

/-- (repaired in 7352fcb, kept as regression detector) a compound variable with a float index `x_{1.5}` was printed
`x_1.5`, which the builder of compound variables refuses -/
partial def floatIndex : PExp → Bool
  | .cvar _ as => as.any (fun | .num _ => true | e => floatIndex e)
  | .access _ as | .call _ as | .block _ as => as.any floatIndex
  | .scoped _ _ its b => its.any floatIndex || floatIndex b
  | .bin _ l r => floatIndex l || floatIndex r
  | .un _ e => floatIndex e
  | _ => false

/-- (repaired in 7352fcb, kept as regression detector) a compound variable with a string index `x_{"a"}` was printed
`x_a`, which is read as the index variable `a`
(a string index is only printed bare when it is a literal name fragment `_2`) -/
partial def stringIndex : PExp → Bool
  | .cvar _ as => as.any (fun | .str s => !(s.startsWith "_") | e => stringIndex e)
  | .access _ as | .call _ as | .block _ as => as.any stringIndex
  | .scoped _ _ its b => its.any stringIndex || stringIndex b
  | .bin _ l r => stringIndex l || stringIndex r
  | .un _ e => stringIndex e
  | _ => false

/-- (repaired in 7719594, kept as regression detector) a compound variable whose index is a VARIABLE starting with an
underscore (`x_{_i}`): it was printed bare, `x__i`, which the grammar reads as the literal name fragment `_i` (`underscore_literal`), not as the variable -/
partial def underscoreVarIndex : PExp → Bool
  | .cvar _ as => as.any (fun | .var n => n.startsWith "_" | e => underscoreVarIndex e)
  | .access _ as | .call _ as | .block _ as => as.any underscoreVarIndex
  | .scoped _ _ its b => its.any underscoreVarIndex || underscoreVarIndex b
  | .bin _ l r => underscoreVarIndex l || underscoreVarIndex r
  | .un _ e => underscoreVarIndex e
  | _ => false

/-- `Debug` of a mixed array: `[Integer(1), Boolean(true)]` (repaired in ceec4dc, kept as regression detector) -/
def hasDebugArray (d : String) : Bool :=
  ["Integer(", "Boolean(", "Number(", "String(", "PositiveInteger("].any fun k => (d.splitOn k).length > 1

/-- display of a graph whose nodes are all isolated (`Graph {\n    A,\n    B\n}`): every node is an expression, so the
text is read as the block function `Graph { A, B }` (`block_function` is tried before `primitive`) and refused -/
def isolatedNodesGraph (d : String) : Bool :=
  d.startsWith "Graph {" && d != "Graph { }" && !(d.toList.contains '[')

def modelNames (m : PModel) : List String :=
  expNames m.objective
    ++ m.constraints.flatMap (fun c => (match c.name with | some (.plain n) => [n] | _ => []) ++ expNames c.lhs ++ expNames c.rhs ++ c.iters.flatMap expNames)
    ++ m.constants.flatMap (fun k => expNames k.2)
    ++ m.domains.flatMap (fun d => d.vars.flatMap (fun | .plain n => [n] | .compound _ xs => xs.flatMap expNames) ++ d.iters.flatMap expNames)

/-- all expression slots of a program, in order, with a label -/
def slots (m : PModel) : List (String × PExp) :=
  [("objective", m.objective)]
    ++ m.constraints.flatMap (fun c => [("constraint lhs", c.lhs), ("constraint rhs", c.rhs)] ++ c.iters.map (("constraint iteration", ·)))
    ++ m.constants.map (fun k => ("constant " ++ k.1, k.2))
    ++ m.domains.flatMap (fun d =>
        (match d.ty with
         | .boolean => []
         | .nonNegReal a b | .real a b => (a.toList ++ b.toList).map (("domain bound", ·))
         | .intRange a b => [("domain bound", a), ("domain bound", b)]) ++ d.iters.map (("domain iteration", ·)))

/-- expression slots that are no iterators / that are the iterators of `for` clauses -/
def slotsNoIter (m : PModel) : List PExp :=
  [m.objective] ++ m.constraints.flatMap (fun c => [c.lhs, c.rhs]) ++ m.constants.map (·.2)
    ++ m.domains.flatMap (fun d => match d.ty with
        | .boolean => []
        | .nonNegReal a b | .real a b => a.toList ++ b.toList
        | .intRange a b => [a, b])
def iterSlots (m : PModel) : List PExp := m.constraints.flatMap (·.iters) ++ m.domains.flatMap (·.iters)

def opName (o : BinOp) : String := o.name

/-- does dropping the parentheses change the VALUE (not only the tree)? evaluated on the core fragment -/
def valueChanges (a b : PExp) : Bool :=
  let ea := Ref.ofPExp a
  let eb := Ref.ofPExp b
  let vs := Oracle.dedup (Oracle.vars ea ++ Oracle.vars eb)
  (C09vals vs).any fun ρ => !(same (Sem.eval ρ ea) (Sem.eval ρ eb))
where
  C09vals (vs : List String) : List (String → Rat) :=
    (Oracle.assignments [0, 1, 2, -1] (vs.take 4)).map fun a s =>
      match a.find? (·.1 == s) with
      | some p => p.2
      | none => 1
  same : Option Rat → Option Rat → Bool
    | some v, some w => v == w
    | none, none => true
    | _, _ => false

/-- compare the skeletons (everything that is not an expression slot) -/
def sameSkeleton (a b : PModel) : Bool :=
  a.objKind == b.objKind
    && a.constraints.length == b.constraints.length
    && (a.constraints.zip b.constraints).all (fun (x, y) =>
          sameName x.name y.name && x.cmp == y.cmp && x.logic == y.logic && x.iterVars == y.iterVars && x.iters.length == y.iters.length)
    && a.constants.map (·.1) == b.constants.map (·.1)
    && a.domains.length == b.domains.length
    && (a.domains.zip b.domains).all (fun (x, y) =>
          x.vars.length == y.vars.length && (x.vars.zip y.vars).all (fun (v, w) => sameName (some v) (some w))
          && x.iterVars == y.iterVars && x.iters.length == y.iters.length
          && (match x.ty, y.ty with
              | .boolean, .boolean => true
              | .nonNegReal a b, .nonNegReal c d | .real a b, .real c d => a.isSome == c.isSome && b.isSome == d.isSome
              | .intRange _ _, .intRange _ _ => true
              | _, _ => false))

/-- every expression of a program read as the defective builder of range iterators reads it (Drv/C09) -/
def nestedRangeModel (m : PModel) : PModel :=
  let e := C09.nestedRangeReading
  let name : Option CName → Option CName
    | some (.compound n idx) => some (.compound n (idx.map e))
    | other => other
  { m with
    objective := e m.objective,
    constraints := m.constraints.map fun c =>
      { c with name := name c.name, lhs := e c.lhs, rhs := e c.rhs, iters := c.iters.map C09.nestedRangeIter },
    constants := m.constants.map fun k => (k.1, e k.2),
    domains := m.domains.map fun d =>
      { d with
        vars := d.vars.filterMap fun v => name (some v),
        ty := (match d.ty with
          | .boolean => .boolean
          | .nonNegReal a b => .nonNegReal (a.map e) (b.map e)
          | .real a b => .real (a.map e) (b.map e)
          | .intRange a b => .intRange (e a) (e b)),
        iters := d.iters.map C09.nestedRangeIter } }

/-- classification of a parse of the implementation that differs from the parser model: the known defect of the
range iterators, or nothing (the difference is then reported as a break of the correspondence) -/
def classifyParse (text : String) (impl : Sexp) : Sexp :=
  match lex text.toList with
  | .unsupported => app "ok" [.atom "skipped-unsupported"]
  | .ok toks =>
    match parseProgram toks, impl with
    | .ok m, .list [.atom "ok", im, _] =>
      if toString m.enc == toString im then app "ok" [.atom "same"]
      else if toString (nestedRangeModel m).enc == toString im then
        app "violation" [.atom "range-bound-read-from-nested-range"]
      else app "ok" [.atom "differs-unclassified"]
    | _, _ => app "ok" [.atom "not-compared"]

/-- display texts of the `Primitive::Number` literals of a program -/
def lits (b : PModel) : List String :=
  ((slots b).foldl (fun acc x => let r := expLiterals x.2; (acc.1 ++ r.1, acc.2 ++ r.2)) (([], []) : List String × List String)).1

/-- an integral decimal literal of large magnitude: it is printed as an INTEGER literal (`9223372036854774784.0` →
`9223372036854774784`), so arithmetic on it becomes checked i64 arithmetic and can overflow where the decimal did not -/
def largeIntegralFloat (t : String) : Bool :=
  !t.toList.isEmpty && t.toList.all isDigit && decide (digitsToNat t.toList ≥ 2147483648)

/-- every expression of a program, names included -/
def allExps (b : PModel) : List PExp :=
  (slots b).map (·.2)
    ++ b.constraints.flatMap (fun c => match c.name with | some (.compound n idx) => [PExp.cvar n idx] | _ => [])
    ++ b.domains.flatMap (fun d => d.vars.filterMap (fun | .compound n idx => some (PExp.cvar n idx) | _ => none))

/-- the (repaired) printer defect a program would run into, if any: a deviation of such a program is attributed to
the recurrence of that defect -/
def knownPrinterDefect (b : PModel) : Option String :=
  let lits := (slots b).foldl (fun acc x => let r := expLiterals x.2; (acc.1 ++ r.1, acc.2 ++ r.2)) (([], []) : List String × List String)
  if (allExps b).any underscoreVarIndex then some "underscore-variable-index-printed-as-name-fragment"
  else if (allExps b).any stringIndex then some "string-index-of-compound-variable-printed-bare"
  else if (allExps b).any floatIndex then some "float-index-of-compound-variable-printed-bare"
  else if (lits.2.find? hasDebugArray).isSome then some "mixed-array-printed-in-debug-form"
  else if (slotsNoIter b).any rangeOutsideIterator || (iterSlots b).any rangeInIterator then
    some "range-call-printed-as-sugar-outside-iterator"
  else none

/-- `parse (format s) = s as a program`, evaluated on the implementation's own answers -/
def checkFormat (before after : Sexp) (idem models graphs : String) : Sexp :=
    match PModel.dec before with
    | none => app "err" [.atom "decode"]
    | some b =>
      -- the formatted text stands for the program with its one-sided domain bounds completed (`PModel.canon`)
      let b := b.canon
      -- a deviation of a program that runs into a known printer defect is attributed to that defect
      let attributed (generic : Sexp) : Sexp :=
        match knownPrinterDefect b with
        | some k => app "violation" [.atom k]
        | none => generic
      match after with
      | .atom "panic" => app "violation" [.atom "parser-panics-on-formatted-text"]
      | .atom "reject" =>
        match knownPrinterDefect b with
        | some k => app "violation" [.atom k]
        | none =>
        if b.objKind == .solve then app "violation" [.atom "solve-objective-printed-with-operand"]
        else match (modelNames b).find? badEscapedName with
          | some n => app "violation" [.atom "escaped-simple-variable-with-underscore", .str n]
          | none =>
            let lits := (slots b).foldl (fun acc x => let r := expLiterals x.2; (acc.1 ++ r.1, acc.2 ++ r.2)) (([], []) : List String × List String)
            if (lits.2.find? isolatedNodesGraph).isSome then app "violation" [.atom "isolated-nodes-graph-read-as-block-function"] else
            match lits.1.find? integralBeyondI64, lits.2.find? hasExponentNumber with
            | some t, _ => app "violation" [.atom "integral-float-beyond-i64-printed-as-integer", .str t]
            | none, some d => app "violation" [.atom "array-number-printed-in-exponent-notation", .str d]
            | none, none => app "violation" [.atom "formatted-text-does-not-parse"]
      | a =>
        match PModel.dec a with
        | none => app "err" [.atom "decode-after"]
        | some a =>
          let a := a.canon
          if !(sameSkeleton b a) then attributed (app "violation" [.atom "format-changes-program-skeleton"])
          else
            match ((slots b).zip (slots a)).find? (fun (x, y) => !(sameExp x.2 y.2)) with
            | some (x, y) =>
              attributed (match offender x.2 with
              | some (p, c, side) =>
                app "violation" [.atom ("paren-dropped:" ++ opName p ++ "/" ++ opName c ++ "/" ++ side),
                  .atom (if valueChanges x.2 y.2 then "value-changes" else "tree-only"), .str x.1, .str (fmtExp x.2)]
              | none => app "violation" [.atom "format-changes-expression", .str x.1, .str (fmtExp x.2), .str (fmtExp y.2)])
            | none =>
              -- the VALUE of a graph / array literal (nodes, edges, costs — compared by the harness on the
              -- implementation's own parse of the formatted text) changed although the displays agree
              if graphs == "graphs-differ" then attributed (app "violation" [.atom "format-changes-graph-literal"])
              else if models == "broke" && (lits b).any largeIntegralFloat then
                app "violation" [.atom "integral-float-printed-as-integer-overflows-integer-arithmetic"]
              else if models == "differ" || models == "broke" then attributed (app "violation" [.atom ("compiled-model-" ++ models)])
              else if idem != "true" then attributed (app "violation" [.atom "format-not-idempotent"])
              else app "ok" [.atom models]

/-- exact oracle: the PROPERTY evaluated on the implementation's own answer.
`(check-format <premodel of s> <premodel of format(s) | reject | panic> <idempotent?> <models: same|differ|broke|repaired|na>
 [<graphs-same | graphs-differ | graphs-none>])` -/
def oracle : List Sexp → Sexp
  | [.atom "check-parse", .str text, impl] => classifyParse text impl
  | [.atom "check-format", before, after, .atom idem, .atom models] => checkFormat before after idem models "graphs-none"
  | [.atom "check-format", before, after, .atom idem, .atom models, .atom graphs] => checkFormat before after idem models graphs
  | _ => app "err" [.atom "bad-request"]
end Rooc.Drv.C11
