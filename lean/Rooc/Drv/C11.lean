import Rooc.Wire
import Rooc.Oracle
namespace Rooc.Drv.C11
open Rooc Sexp

/-- model requests for C11 (run at `Float` for the exact diff, at `Ext Rat` as oracle). -/
def handle (α : Type) [Arith α] [Wire α] : List Sexp → Sexp
  | _ => app "err" [.atom "bad-request"]

/-- exact oracle: the PROPERTY evaluated on the implementation's own answer. -/
def oracle : List Sexp → Sexp
  | _ => app "err" [.atom "bad-request"]
end Rooc.Drv.C11
