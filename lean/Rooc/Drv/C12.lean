import Rooc.Wire
import Rooc.WireModel
import Rooc.Display
import Rooc.DisplayItems
import Rooc.DisplayOracle
import Rooc.NumTok
import Rooc.DisplayLink
namespace Rooc.Drv.C12
open Rooc Sexp Rooc.NumTok

/-- model requests for C12 (run at `Float` for the exact diff). -/
def handle (α : Type) [Arith α] [Wire α] : List Sexp → Sexp
  | [.atom "display-exp", e, toks] =>
    match (Exp.dec e : Option (Exp α)), decToks toks with
    | some e, some tbl => app "ok" [.str (Display.displayExp (tokStr tbl) e)]
    | _, _ => app "err" [.atom "decode"]
  | [.atom "display-model", m, toks] =>
    match (Model.dec m : Option (Model α)), decToks toks with
    | some m, some tbl =>
      -- whole-model round trip (run-time half of `parse_display_model`): text → lexer model → `modelToks`,
      -- text → program parser model → `modelProgram`
      match Display.modelLink (tokStr tbl) m with
      | some what => app "err" [.atom "display-model-link-broken", .atom what, .str (Display.displayModel (tokStr tbl) m)]
      | none => app "ok" [.str (Display.displayModel (tokStr tbl) m)]
    | _, _ => app "err" [.atom "decode"]
  | [.atom "display-lin", lm, toks] =>
    match (LinModel.dec lm : Option (LinModel α)), decToks toks with
    | some lm, some tbl =>
      match Display.linLink (tokStr tbl) lm with
      | some what => app "err" [.atom "display-lin-link-broken", .atom what, .str ((Display.displayLin (tokStr tbl) lm).getD "")]
      | none =>
      match Display.displayLin (tokStr tbl) lm with
      | some s => app "ok" [.str s]
      | none => app "err" [.atom "panic"]
    | _, _ => app "err" [.atom "decode"]
  -- coverage probe: is the rendered model inside the fragment of the whole-model round trip, and did the check run?
  | [.atom "link-status", .atom "display-model", m, toks] =>
    match (Model.dec m : Option (Model α)), decToks toks with
    | some m, some tbl =>
      if !Display.modelFragB (tokStr tbl) m then app "ok" [.atom "outside"]
      else (match Syntax.lex ((Display.displayModel (tokStr tbl) m).toList ++ ['\n']) with
            | .unsupported => app "ok" [.atom "lexer-declines"]
            | .ok _ => app "ok" [.atom (match Display.modelLink (tokStr tbl) m with | none => "checked" | some w => "broken-" ++ w)])
    | _, _ => app "err" [.atom "decode"]
  | [.atom "link-status", .atom "display-lin", lm, toks] =>
    match (LinModel.dec lm : Option (LinModel α)), decToks toks with
    | some lm, some tbl =>
      if !Display.linFragB (tokStr tbl) lm then app "ok" [.atom "outside"]
      else (match Syntax.lex (((Display.displayLin (tokStr tbl) lm).getD "").toList ++ ['\n']) with
            | .unsupported => app "ok" [.atom "lexer-declines"]
            | .ok _ => app "ok" [.atom (match Display.linLink (tokStr tbl) lm with | none => "checked" | some w => "broken-" ++ w)])
    | _, _ => app "err" [.atom "decode"]
  | _ => app "err" [.atom "bad-request"]

/-- exact oracle: the PROPERTY evaluated on the implementation's own answers. -/
def oracle : List Sexp → Sexp
  | [.atom which, a, b, .str t1, .str t2] =>
    if which != "same-lin" && which != "same-lin-api" && which != "same-lin-strict" then app "err" [.atom "bad-request"] else
    match (LinModel.dec a : Option (LinModel LpOracle.Bits)), (LinModel.dec b : Option (LinModel LpOracle.Bits)) with
    | some a, some b =>
      match DisplayOracle.sameLin (which == "same-lin-api") a b t1 t2 with
      -- `same-lin-strict`: the source is one on which the bounds analysis reaches its fixed point in ONE
      -- compilation, so domains that differ after re-compiling the rendering are not the known non-idempotence
      | .list (.atom "violation" :: .atom "derived-domain-differs-on-recompile" :: rest) =>
        if which == "same-lin-strict" then app "violation" (.atom "derived-domain-differs-where-fixpoint-holds" :: rest)
        else app "violation" (.atom "derived-domain-differs-on-recompile" :: rest)
      | r => r
    | _, _ => app "err" [.atom "decode"]
  | [.atom "same-lin-model", m, a, b, .str _, .str _] =>
    match (Model.dec m : Option (Model (Ext Rat))),
          (LinModel.dec a : Option (LinModel LpOracle.Bits)), (LinModel.dec b : Option (LinModel LpOracle.Bits)) with
    | some m, some a, some b => DisplayOracle.sameLinModel m a b
    | _, _, _ => app "err" [.atom "decode"]
  | [.atom "no-defect", e] =>
    match (Exp.dec e : Option (Exp (Ext Rat))) with
    | some e => app "ok" [.atom (toString (Display.subDivDefect e))]
    | none => app "err" [.atom "decode"]
  | _ => app "err" [.atom "bad-request"]
end Rooc.Drv.C12
