import Rooc.Wire
import Rooc.Oracle
import Rooc.Pre.Wire
import Rooc.Pre.IterWire
import Rooc.Pre.Graph
namespace Rooc.Drv.C06
open Rooc Sexp Rooc.Pre

def decInts (xs : List Sexp) : Option (List Int) :=
  optAll (xs.map fun | .atom s => decIntStr s | _ => none)
def encInt (i : Int) : Sexp := .atom (toString i)
def encNatRow (r : List Int) : Sexp := .list (r.map encInt)

partial def decTree : Sexp → Option (Tree Int)
  | .list [.atom "leaf", .atom s] => (decIntStr s).map .leaf
  | .list (.atom "node" :: cs) => (optAll (cs.map decTree)).map .node
  | _ => none
partial def encTree : Tree Int → Sexp
  | .leaf v => app "leaf" [encInt v]
  | .node cs => app "node" (cs.map encTree)

/-- one printed index fragment; `none` = `WrongExpectedArgument` -/
def decFrag : Sexp → Option (Option String)
  | .list [.atom "numtext", .str s] => some (some s)
  | .list [.atom "int", .atom s] => (decIntStr s).map (fun i => some (toString i))
  | .list [.atom "pint", .atom s] => s.toNat?.map (fun n => some (toString n))
  | .list [.atom "bool", .atom "true"] => some (some "T")
  | .list [.atom "bool", .atom "false"] => some (some "F")
  | .list [.atom "str", .str s] => some (some s)
  | .list [.atom "node", .str s] => some (some s)
  | .list [.atom "other", _] => some none
  | _ => none

def decEdge (src : String) : Sexp → Option (GEdge Float)
  | .list [.atom "edge", .str d, .atom "none"] => some ⟨src, d, none⟩
  | .list [.atom "edge", .str d, w] => (decNumS w : Option Float).map (fun x => ⟨src, d, some x⟩)
  | _ => none
def decNode : Sexp → Option (GNode Float)
  | .list (.atom "node" :: .str n :: es) => (optAll (es.map (decEdge n))).map (fun es => ⟨n, es⟩)
  | _ => none
def decGraph : Sexp → Option (Graph Float)
  | .list (.atom "graph" :: ns) => optAll (ns.map decNode)
  | _ => none
def encSpread (e : GEdge Float) : Sexp := .list [.str e.spread.1, .str e.spread.2.1, encNum e.spread.2.2]

def decSVal : Sexp → Option (SVal Float)
  | .list [.atom "num", x] => (decNumS x : Option Float).map .num
  | .list [.atom "str", .str s] => some (.str s)
  | .list [.atom "bool", .atom b] => some (.bool (b == "true"))
  | _ => none
/-- the name fragment Rust prints for the test values (integers and halves) -/
def halfText (x : Float) : String :=
  let neg := x < 0
  let a := if neg then -x else x
  let fl := Float.floor a
  let body := if a == fl then toString (fl.toUInt64) else toString (fl.toUInt64) ++ ".5"
  if neg then "-" ++ body else body
def svalText : SVal Float → String
  | .num x => halfText x
  | .str s => s
  | .bool b => if b then "T" else "F"

def handleF : List Sexp → Sexp
  | [.atom "fold", .atom kind, .list leaves] =>
    match AggKind.ofName kind, (optAll (leaves.map Exp.dec) : Option (List (Exp Float))) with
    | some k, some xs => (match aggregate k xs with | some e => app "ok" [e.enc] | none => app "err" [.atom "Unexpected", .atom "token"])
    | _, _ => app "err" [.atom "decode"]
  | [.atom "range", .atom lo, .atom hi, .atom inc] =>
    match decIntStr lo, decIntStr hi with
    | some lo, some hi =>
      -- `Src.rows` of a literal range: the size cap first (TooLarge), then the elements
      (match Src.rows [] (.range (.lit lo) (.lit hi) (inc == "true")) with
       | .ok rows => app "ok" (rows.map (fun row => .list (row.map encInt)))
       | .error _ => app "err" [.atom "TooLarge"])
    | _, _ => app "err" [.atom "decode"]
  | [.atom "enumerate", .list xs] =>
    match decInts xs with
    | some xs => app "ok" ((enumerate xs).map (fun (p : Int × Nat) => .list [encInt p.1, encInt p.2]))
    | none => app "err" [.atom "decode"]
  | .atom "zip" :: ls =>
    match optAll (ls.map fun | .list xs => decInts xs | _ => none) with
    | some ls => app "ok" ((zip ls).map encNatRow)
    | none => app "err" [.atom "decode"]
  | [.atom "setfn", .atom f, .list a, .list b] =>
    match decInts a, decInts b with
    | some a, some b =>
      let fa : List Float := a.map Arith.ofInt
      let fb : List Float := b.map Arith.ofInt
      let r := match f with | "union" => setUnion fa fb | "intersection" => setInter fa fb | _ => setDiff fa fb
      app "ok" (r.map (fun x => .list [encInt (Arith.toI64 x)]))
    | _, _ => app "err" [.atom "decode"]
  | [.atom "setfn-mixed", .atom "intersection", .list a, .list b] =>
    match decInts a, (optAll (b.map decNumS) : Option (List Float)) with
    | some a, some fb =>
      let fa : List Float := a.map Arith.ofInt
      app "ok" ((setInter fa fb).map (fun x => .list [encInt (Arith.toI64 x)]))
    | _, _ => app "err" [.atom "decode"]
  | [.atom "flatten", .str name, .list frags] =>
    match optAll (frags.map decFrag) with
    | some fs => (match optAll fs with
      | some strs => app "ok" [.str (flattenCompound name strs)]
      | none => app "err" [.atom "WrongExpectedArgument"])
    | none => app "err" [.atom "decode"]
  | [.atom "read", t, .list idx] =>
    match decTree t, decInts idx with
    | some t, some idx =>
      (match t.read (idx.map Int.toNat) with
       | .ok none => app "ok" [.atom "undefined"]
       | .ok (some r) => app "ok" [encTree r]
       | .error _ => app "err" [.atom "OutOfBounds"])
    | _, _ => app "err" [.atom "decode"]
  | [.atom "graph", .atom what, g] =>
    match decGraph g with
    | none => app "err" [.atom "decode"]
    | some g =>
      match what with
      | "edges" => app "ok" (g.edges.map encSpread)
      | "nodes" => app "ok" (g.nodes.map (fun n => .str n.name))
      | "neighall" => app "ok" ((g.nodes.flatMap (fun n => (Graph.neighEdges n).map (fun e => (n.name, e)))).map
          (fun p => .list [.str p.1, .str p.2.spread.2.1, encNum p.2.spread.2.2]))
      | _ => app "err" [.atom "bad-request"]
  | [.atom "graph", .atom "neighof", g, .str name] =>
    match decGraph g with
    | none => app "err" [.atom "decode"]
    | some g => (match Graph.neighEdgesOf name g with
      | some es => app "ok" (es.map (fun e => .list [.str e.spread.2.1, encNum e.spread.2.2]))
      | none => app "err" [.atom "Other"])
  | [.atom "svset", .atom f, .list a, .list b] =>
    match optAll (a.map decSVal), optAll (b.map decSVal) with
    | some a, some b =>
      let r := match f with | "union" => svalUnion a b | "intersection" => svalInter a b | _ => svalDiff a b
      app "ok" (r.map (fun v => .str (svalText v)))
    | _, _ => app "err" [.atom "decode"]
  | [.atom "transformprog", p] =>
    match ProgM.dec p with
    | some p => (match (transformProg p : Except IErr (Model Float)) with | .ok m => app "ok" [m.enc] | .error _ => app "err" [])
    | none => app "err" [.atom "decode"]
  | [.atom "unrollprogtext", p] =>
    match ProgM.dec p with
    | some p => if !p.arityOk then app "err" [] else (match unrollProg p with | .ok u => app "ok" [.str u.text] | .error _ => app "err" [])
    | none => app "err" [.atom "decode"]
  | [.atom "expandme", e] =>
    match ME.dec e with
    | some e => (match (expandChecked e : Except IErr (Exp Float)) with | .ok x => app "ok" [x.enc] | .error _ => app "err" [])
    | none => app "err" [.atom "decode"]
  | [.atom "unrolltext", e] =>
    match ME.dec e with
    | some e => (match unrollChecked e with | .ok u => app "ok" [.str u.text] | .error _ => app "err" [])
    | none => app "err" [.atom "decode"]
  | _ => app "err" [.atom "bad-request"]

def handle (α : Type) [Arith α] [Wire α] (args : List Sexp) : Sexp := handleF args

/-! ### exact oracle: the value of the implementation's folded tree is the aggregate of the values -/

/-- test assignment: `x_i ↦ (i + 2) / 3`, `b_i ↦ i mod 2` -/
def rho (name : String) : Rat :=
  let i : Nat := (match name.splitOn "_" with | [_, d] => d.toNat?.getD 0 | _ => 0)
  if name.startsWith "b" then ((i % 2 : Nat) : Rat) else ((i : Rat) + 2) / 3

def expected (kind : String) (vs : List Rat) : Option Rat :=
  match kind with
  | "sum" => some (vs.foldl (· + ·) 0)
  | "prod" => some (vs.foldl (· * ·) 1)
  | "avg" => if vs.isEmpty then none else some (vs.foldl (· + ·) 0 / (vs.length : Rat))
  | "min" => (match vs with | x :: xs => some (xs.foldl (fun a b => if b < a then b else a) x) | [] => none)
  | "max" => (match vs with | x :: xs => some (xs.foldl (fun a b => if a < b then b else a) x) | [] => none)
  | "all" => some (if vs.all (· != 0) then 1 else 0)
  | "any" => some (if vs.any (· != 0) then 1 else 0)
  | "abs" => (match vs with | [x] => some (if x < 0 then -x else x) | _ => none)
  | _ => none

def oracle : List Sexp → Sexp
  | [.atom "fold-value", .atom kind, .list leaves, .list [.atom "ok", tree]] =>
    match (optAll (leaves.map Exp.dec) : Option (List (Exp (Ext Rat)))), (Exp.dec tree : Option (Exp (Ext Rat))) with
    | some ls, some t =>
      (match Sem.evalList rho ls with
       | none => app "err" [.atom "leaves-undefined"]
       | some vs =>
         let got := Sem.eval rho t
         if kind == "xor" then
           -- parity of the truth values (a single operand keeps its own value)
           let par := (vs.map (· != 0)).foldl (· != ·) false
           match got with
           | some r => if (r != 0) == par then app "ok" [] else app "violation" [.atom "fold-value-differs", .atom kind]
           | none => app "violation" [.atom "fold-value-undefined", .atom kind]
         else if got == expected kind vs then app "ok" []
         else app "violation" [.atom "fold-value-differs", .atom kind, .atom (toString (repr got)), .atom (toString (repr (expected kind vs)))])
    | _, _ => app "err" [.atom "decode"]
  | _ => app "err" [.atom "bad-request"]
end Rooc.Drv.C06
