import Rooc.Wire
import Rooc.WireSolve
import Rooc.SolveOracle
import Rooc.Drv.C04
namespace Rooc.Drv.C05
open Rooc Sexp SolverWrap

/-- model requests for C05: the verdict / status mapping arms of the wrappers (shared with C04). -/
def handle (α : Type) [Arith α] [Wire α] : List Sexp → Sexp
  | [.atom "map-simplex-error", .atom e] => app "ok" [.atom (mapSimplexError e)]
  | [.atom "exact", lm] =>
    -- the exact certified verdict itself (diagnostics; always evaluated at `Ext Rat`)
    match (LinModel.dec lm : Option (LinModel (Ext Rat))) with
    | some lm =>
      match SolveOracle.exact lm with
      | .ok (_, s) => app "ok" [.atom (SolveOracle.verdictName s.verdict), .atom (toString s.certified),
          match s.verdict with | .optimal _ v => SolveOracle.encRat v | _ => .atom "-"]
      | .error w => app "err" [.atom w]
    | none => app "err" [.atom "decode"]
  | args => Drv.C04.handle α args      -- the wrapper models (`milp-wrap`, `microlp-wrap`, `clarabel-wrap`, `auto-wrap`)

/-- exact oracle: verdict and value of one entry point against the certified exact solver. -/
def oracle : List Sexp → Sexp
  | [.atom "verdict", lm, .atom solver, res, .str msg, .atom raw] =>
    match (LinModel.dec lm : Option (LinModel (Ext Rat))), (ImplRes.dec res : Option (ImplRes (Ext Rat))) with
    | some lm, some r => SolveOracle.checkVerdict lm solver r msg raw
    | _, _ => app "err" [.atom "decode"]
  | _ => app "err" [.atom "bad-request"]
end Rooc.Drv.C05
