import Rooc.WireModel
import Rooc.Linearize
import Rooc.Compile
import Rooc.Gen.Consts
namespace Rooc.Drv.C01
open Rooc Sexp Lin

variable {α : Type} [Arith α] [Wire α]

def encErr : LinErr → Sexp
  | .nonLinear => app "err" [.atom "NonLinearExpression"]
  | .divisionByZero => app "err" [.atom "DivisionByZero"]
  | .emptyAggregation k => app "err" [.atom "EmptyAggregation", .str k]
  | .varAlreadyDeclared n => app "err" [.atom "VarAlreadyDeclared", .str n]
  | .unimplemented => app "err" [.atom "UnimplementedExpression"]
  | .nonBinaryLogicOperand => app "err" [.atom "NonBinaryLogicOperand"]
  | .missingFiniteBounds vs => app "err" [.atom "MissingFiniteBounds", .list (vs.map .str)]
  | .fuel => app "err" [.atom "fuel"]

def decBounds : Sexp → Option (BoundsMap α)
  | .list (.atom "bounds" :: bs) => optAll (bs.map fun
      | .list [.str n, .list [.atom "b", lo, hi]] => do pure (n, ⟨← decNumS lo, ← decNumS hi⟩)
      | _ => none)
  | _ => none

def decDomain : Sexp → Option (List (DomVar α))
  | .list (.atom "domain" :: ds) => optAll (ds.map DomVar.dec)
  | _ => none

/-- model requests shared by C01 / C02 / C08. -/
def handle (α : Type) [Arith α] [Wire α] : List Sexp → Sexp
  | [.atom "linearize", m, b, d] =>
    match (Model.dec m : Option (Model α)), (decBounds b : Option (BoundsMap α)), (decDomain d : Option (List (DomVar α))) with
    | some m, some b, some d =>
      -- `Linearizer::linearize` runs the collapse check first, on its scratch context (declared domains, the
      -- bounds of `analyze(&domain, &[])`; fix e35561f); then the lowering with the bounds handed in
      -- DEFAULT_TOLERANCE = 1e-9 (`Gen.boundsToleranceText`), in the wire format of numbers (IEEE bits)
      match (decNumS (.atom "#x3e112e0be826d695") : Option α) with
      | some tol =>
        match collapseCheckAll m (Compile.scratchState m tol Gen.boundsMaxSteps) with
        | .error e => encErr e
        | .ok _ =>
          match linearizeWith m b d with
          | .ok lm => app "ok" [lm.enc]
          | .error e => encErr e
      | none => app "err" [.atom "decode"]
    | _, _, _ => app "err" [.atom "decode"]
  | [.atom "linearize-full", m, tol] =>
    match (Model.dec m : Option (Model α)), (decNumS tol : Option α) with
    | some m, some tol =>
      match Compile.linearize m tol Gen.boundsMaxSteps with
      | .ok lm => app "ok" [lm.enc]
      | .error e => encErr e
    | _, _ => app "err" [.atom "decode"]
  | _ => app "err" [.atom "bad-request"]

/-- exact oracle: the PROPERTY evaluated on the implementation's own answer. -/
def oracle : List Sexp → Sexp
  | _ => app "err" [.atom "bad-request"]
end Rooc.Drv.C01
