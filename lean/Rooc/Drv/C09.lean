import Rooc.Wire
import Rooc.Oracle
import Rooc.Syntax.Parse
import Rooc.Syntax.Ref
import Rooc.Syntax.Wire
import Rooc.Syntax.GrammarPin
namespace Rooc.Drv.C09
open Rooc Sexp Rooc.Syntax

mutual
/-- the tree carries an array literal whose display the model does not compute -/
def hasOpaque : PExp → Bool
  | .prim d => d == opaquePrim
  | .cvar _ as | .access _ as | .call _ as | .block _ as => hasOpaqueList as
  | .scoped _ _ its b => hasOpaqueList its || hasOpaque b
  | .bin _ l r => hasOpaque l || hasOpaque r
  | .un _ e => hasOpaque e
  | _ => false
def hasOpaqueList : List PExp → Bool
  | [] => false
  | e :: es => hasOpaque e || hasOpaqueList es
end

/-- the expression text stands in `min <text>␤s.t.…`: NEWLINEs at its end belong to the `nl+` behind the objective -/
def dropTrailingNl (toks : List Tok) : List Tok := (toks.reverse.dropWhile (· == .nl)).reverse

/-- answer of the parser model with the class of a rejection: `peg` (the grammar does not match) or the first
error of the AST builder -/
def encText (s : List Char) : Sexp :=
  match grammarDrift with
  | some rule => app "err" [.atom "grammar-rule-changed", .atom rule]
  | none =>
  match lex s with
  | .unsupported => app "err" [.atom "unsupported"]
  | .ok toks =>
    let toks := dropTrailingNl toks
    match parseToksRaw toks with
    | .error .reject => app "err" [.atom "reject", .atom "peg"]
    | .error .panic => app "err" [.atom "panic"]
    | .error .fuel => app "err" [.atom "fuel"]
    | .ok t =>
      match buildErr t with
      | some e => app "err" [.atom "reject", .atom e]
      | none => if hasOpaque t then app "err" [.atom "unsupported"] else app "ok" [t.enc]

/-- model requests for C09: `(parse "<text>")` → the `PreExp` the objective `min <text>` parses to. -/
def handle (α : Type) [Arith α] [Wire α] : List Sexp → Sexp
  | [.atom "parse", .str s] => encText s.toList
  | _ => app "err" [.atom "bad-request"]

def lowerChar (c : Char) : Char := if decide ('A' ≤ c) && decide (c ≤ 'Z') then Char.ofNat (c.toNat + 32) else c

/-- (matched text, remainder) when the word starts, in any letter case, with `true` / `false` -/
def boolPrefix (w : String) : Option (String × String) :=
  let cs := w.toList
  if (cs.take 4).map lowerChar == ['t', 'r', 'u', 'e'] then some (String.ofList (cs.take 4), String.ofList (cs.drop 4))
  else if (cs.take 5).map lowerChar == ['f', 'a', 'l', 's', 'e'] then some (String.ofList (cs.take 5), String.ofList (cs.drop 5))
  else none

/-- REGRESSION classification (defect repaired in cf0e033): words that start (in any letter case) with
`true`/`false` without being exactly that literal — before the repair the `boolean` rule had no boundary
look-ahead, was case-insensitive and was tried before `variable`. -/
def hasBoolPrefixWord : List Tok → Bool
  | .word w :: .lpar :: rest => (!(isFunctionName w) && boolish w) || hasBoolPrefixWord rest
  | .word w :: rest => boolish w || hasBoolPrefixWord rest
  | _ :: rest => hasBoolPrefixWord rest
  | [] => false
where
  boolish (w : String) : Bool := (boolPrefix w).isSome && w != "true" && w != "false"

def vals : List Rat := [0, 1, 2, -1]

/-- assignments: the first four variables range over all of `vals` (further ones follow a fixed rotation),
plus three generic ones in which every variable gets a different value away from 0 / 1 (`x / 2 / 4` against
`x / (2 / 4)` needs x ≠ 0; sums and products of equal values can hide a regrouping). Named `where`
constants keep their value in every assignment. -/
def assignmentsFor (vs : List String) (consts : List (String × Rat)) : List (String → Rat) :=
  let vs := vs.filter fun v => !(consts.any (·.1 == v))
  let main := vs.take 4
  let extra := vs.drop 4
  let fixed (ρ : String → Rat) : String → Rat := fun s =>
    match consts.find? (·.1 == s) with
    | some p => p.2
    | none => ρ s
  let grid : List (String → Rat) := (Oracle.assignments vals main).map fun a s =>
    match a.find? (·.1 == s) with
    | some p => p.2
    | none =>
      match extra.findIdx? (· == s) with
      | some i => vals.getD ((i + a.length) % 4) 1
      | none => 1
  let generic : List (String → Rat) := [
    (fun s => match vs.findIdx? (· == s) with | some i => (2 * i + 3 : Nat) | none => 7),
    (fun s => match vs.findIdx? (· == s) with | some i => ((i : Int) + 2 : Int) / (2 : Rat) - 3 | none => 5 / 2),
    (fun s => match vs.findIdx? (· == s) with | some i => -((3 * i + 5 : Nat) : Rat) / 4 | none => -7 / 4)]
  (grid ++ generic).map fixed

def close (v w : Rat) : Bool :=
  let d := if v < w then w - v else v - w
  let m := max 1 (max (if v < 0 then -v else v) (if w < 0 then -w else w))
  d ≤ m / 1000000000

def sameVal : Option Rat → Option Rat → Bool
  | some v, some w => close v w
  | none, none => true
  | _, _ => false

def showAssign (vs : List String) (ρ : String → Rat) : Sexp :=
  .list (vs.map fun v => .list [.str v, .atom (toString (ρ v))])

def showVal : Option Rat → Sexp
  | some v => .atom (toString v)
  | none => .atom "undef"

inductive Verdict where
  | agree (n : Nat)
  | bothReject
  | rejectsWellformed
  | acceptsIllformed
  | value (vs : List String) (ρ : String → Rat) (doc impl : Option Rat)

def decodeImpl : Sexp → Option (Option Ref.E)
  | .atom "reject" => some none
  | .list [.atom "pre", t] => (PExp.dec t).map (fun p => some (Ref.ofPExp p))
  | .list [.atom "compiled", e] => (Exp.dec e : Option (Exp (Ext Rat))).map some
  | _ => none

/-- the documented reading of the tokens against the implementation's tree -/
def judge (toks : List Tok) (ie : Option Ref.E) (consts : List (String × Rat) := []) : Verdict :=
  match Ref.parse toks, ie with
  | none, none => .bothReject
  | some _, none => .rejectsWellformed
  | none, some _ => .acceptsIllformed
  | some r, some i =>
    let vs := Oracle.dedup (Oracle.vars r ++ Oracle.vars i)
    let asg := assignmentsFor vs consts
    match asg.find? (fun ρ => !(sameVal (Sem.eval ρ r) (Sem.eval ρ i))) with
    | some ρ => .value vs ρ (Sem.eval ρ r) (Sem.eval ρ i)
    | none => .agree asg.length

def Verdict.isOk : Verdict → Bool
  | .agree _ | .bothReject => true
  | _ => false

def report (s : String) : Verdict → Sexp
  | .agree n => app "ok" [.atom (toString n)]
  | .bothReject => app "ok" [.atom "both-reject"]
  | .rejectsWellformed => app "violation" [.atom "rejects-wellformed", .str s]
  | .acceptsIllformed => app "violation" [.atom "accepts-illformed", .str s]
  | .value vs ρ d i =>
    app "violation" [.atom "value", .str s, showAssign vs ρ, app "documented" [showVal d], app "implementation" [showVal i]]

/-- which of the two known shapes of the `boolean`-rule defect a token list contains -/
def boolQuirkKind (toks : List Tok) : String :=
  let longer := toks.any fun
    | .word w => match boolPrefix w with
      | some (_, rem) => rem != ""
      | none => false
    | _ => false
  if longer then "bool-literal-prefix-of-identifier" else "bool-literal-case-variant"

/-- exact oracle: the PROPERTY evaluated on the implementation's own answer: the value of the
implementation's tree (compiled `Exp` when the program compiled, else its `PreExp`) against the
independent precedence-climbing reading of the same text, at every assignment over {0,1,2,-1}.
A deviation in a text with a `true…`/`false…` word is attributed to the `boolean` rule only if the
same text with those words renamed (`twin`) shows no deviation. -/
def decodeConsts (more : List Sexp) : List (String × Rat) :=
  more.flatMap fun
    | .list (.atom "consts" :: cs) => cs.filterMap fun
      | .list [.str k, .str v] => some (k, Ref.ratOfLexeme v)
      | _ => none
    | _ => []

/-! REGRESSION classification of the defect "the bounds of a range iterator are looked up in the whole subtree"
(`parse_iterator`: `find_first_tagged("to")` / `("range_type")` search the pairs in pre-order, so a range nested in
the LOWER bound — `sum(i in sum(j in 0..2) { j }..5) { … }` — supplies the upper bound and the inclusiveness). -/

mutual
/-- upper bound and inclusiveness of the first range iterator met in pre-order -/
partial def firstRange : PExp → Option (PExp × Bool)
  | .scoped _ _ its b => (firstRangeIts its).orElse fun _ => firstRange b
  | .cvar _ as | .access _ as | .call _ as | .block _ as => as.findSome? firstRange
  | .bin _ l r => (firstRange l).orElse fun _ => firstRange r
  | .un _ e => firstRange e
  | _ => none
partial def firstRangeIts : List PExp → Option (PExp × Bool)
  | [] => none
  | .call "range" [a, b, .bool incl] :: rest => ((firstRange a).orElse fun _ => some (b, incl)).orElse fun _ => firstRangeIts rest
  | e :: rest => (firstRange e).orElse fun _ => firstRangeIts rest
end

mutual
/-- the tree as the defective builder reads it -/
partial def nestedRangeReading : PExp → PExp
  | .scoped k vs its b => .scoped k vs (its.map nestedRangeIter) (nestedRangeReading b)
  | .cvar n as => .cvar n (as.map nestedRangeReading)
  | .access n as => .access n (as.map nestedRangeReading)
  | .call n as => .call n (as.map nestedRangeReading)
  | .block n as => .block n (as.map nestedRangeReading)
  | .bin o l r => .bin o (nestedRangeReading l) (nestedRangeReading r)
  | .un o e => .un o (nestedRangeReading e)
  | e => e
partial def nestedRangeIter : PExp → PExp
  | .call "range" [a, b, .bool incl] =>
    match firstRange a with
    | some (b', incl') => .call "range" [nestedRangeReading a, nestedRangeReading b', .bool incl']
    | none => .call "range" [nestedRangeReading a, nestedRangeReading b, .bool incl]
  | e => nestedRangeReading e
end

def isNestedRangeDefect (toks : List Tok) (ie : Option Ref.E) : Bool :=
  match parseToks toks, ie with
  | .ok t, some i =>
    let r := nestedRangeReading t
    Ref.canon (Ref.ofPExp r) != Ref.canon (Ref.ofPExp t) && Ref.canon (Ref.ofPExp r) == Ref.canon i
  | _, _ => false

/-- KNOWN DEFECT classification: `iteration_declaration = { … ~ ^"in" ~ iterator }` matches the word `in` in any letter
case and WITHOUT a word boundary, so `i inS`, `i in_x` are read as `i in S`, `i in _x` -/
def gluedIn : List Tok → Bool
  | a :: .word w :: rest =>
    ((match a with | .word _ | .rpar => true | _ => false)
      && (lowerWord w).startsWith "in" && (w.length > 2 || (match rest with | .us :: _ => true | _ => false)))
      || gluedIn (.word w :: rest)
  | _ :: rest => gluedIn rest
  | [] => false

def oracle : List Sexp → Sexp
  | .atom "check" :: .str s :: impl :: more =>
    match lex s.toList with
    | .unsupported => app "ok" [.atom "skipped-unsupported"]
    | .ok toks =>
      let toks := dropTrailingNl toks
      match decodeImpl impl with
      | none => app "err" [.atom "decode"]
      | some ie =>
        let consts := decodeConsts more
        let v := judge toks ie consts
        if v.isOk then report s v
        else if isNestedRangeDefect toks ie then app "violation" [.atom "range-bound-read-from-nested-range", .str s]
        else if (match v with | .acceptsIllformed => true | _ => false) && gluedIn toks then
          app "violation" [.atom "keyword-in-without-word-boundary", .str s]
        else
          match more.find? (fun | .list (.atom "twin" :: _) => true | _ => false) with
          | some (.list [.atom "twin", .str s2, impl2]) =>
            match lex s2.toList, decodeImpl impl2 with
            | .ok toks2, some ie2 =>
              if hasBoolPrefixWord toks && (judge toks2 ie2 consts).isOk then
                app "violation" [.atom (boolQuirkKind toks), .str s]
              else report s v
            | _, _ => report s v
          | _ => report s v
  | _ => app "err" [.atom "bad-request"]
end Rooc.Drv.C09
