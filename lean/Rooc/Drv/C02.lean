import Rooc.Drv.C01
namespace Rooc.Drv.C02
open Rooc Sexp
/-- C02 shares the linearizer model requests of C01. -/
def handle (α : Type) [Arith α] [Wire α] : List Sexp → Sexp := Drv.C01.handle α
def oracle : List Sexp → Sexp
  | _ => app "err" [.atom "bad-request"]
end Rooc.Drv.C02
