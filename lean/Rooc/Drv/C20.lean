import Rooc.Wire
import Rooc.WireSolve
import Rooc.SolveOracle
import Rooc.Drv.C04
namespace Rooc.Drv.C20
open Rooc Sexp SolverWrap

/-- model requests for C20: `collect_good_lp_duals` and the Clarabel wrapper around good_lp's raw duals. -/
def handle (α : Type) [Arith α] [Wire α] : List Sexp → Sexp
  | [.atom "collect-duals", .list ds] =>
    match (decPairs ds : Option (List (String × α))) with
    | some ds => app "ok" (encPairs (collectDuals ds))
    | none => app "err" [.atom "decode"]
  | [.atom "clarabel-wrap", lm, out] =>
    match (LinModel.dec lm : Option (LinModel α)), (ClarabelOutcome.dec out : Option (ClarabelOutcome α)) with
    | some lm, some out => (wrapClarabel lm out).enc lm.vars
    | _, _ => app "err" [.atom "decode"]
  | args => Drv.C04.handle α args

/-- exact oracle: reported shadow prices against exact finite differences of the certified optimum. -/
def oracle : List Sexp → Sexp
  | [.atom "shadow", lm, res] =>
    match (LinModel.dec lm : Option (LinModel (Ext Rat))), (ImplRes.dec res : Option (ImplRes (Ext Rat))) with
    | some lm, some r => SolveOracle.checkShadow lm r
    | _, _ => app "err" [.atom "decode"]
  | [.atom "shadow-compiled", src, comp, res] =>
    match (LinModel.dec src : Option (LinModel (Ext Rat))), (LinModel.dec comp : Option (LinModel (Ext Rat))),
          (ImplRes.dec res : Option (ImplRes (Ext Rat))) with
    | some src, some comp, some r => SolveOracle.checkShadowCompiled src comp r
    | _, _, _ => app "err" [.atom "decode"]
  | _ => app "err" [.atom "bad-request"]
end Rooc.Drv.C20
