import Rooc.WireModel
import Rooc.Builder
import Rooc.BuilderHist
import Rooc.WireSolve
import Rooc.Pipes
import Rooc.Drv.C03
import Rooc.Drv.C01
import Rooc.Gen.Consts
namespace Rooc.Drv.C16
open Rooc Sexp Builder

def decVars {α : Type} [Wire α] : Sexp → Option (List (String × VarType α))
  | .list (.atom "bvars" :: vs) => optAll (vs.map fun
      | .list [.str n, t] => do pure (n, ← VarType.dec t)
      | _ => none)
  | _ => none

/-! ### builder call histories (`history` request)

```
request  ::= history (ops OP*) [(solution|readback SOL (handles N*) (exprs E*) (cnames STR*))]   -- solution: through solve_with (linearize first); readback: the read-backs only
OP       ::= (add-var STR T) | (add-vars STR N T) | (with BC) | (with-all BC*) | (maximize E) | (minimize E) | (satisfy)
BC       ::= (bc STR cmp E E true|false)                      -- all (public) fields of a `BuilderConstraint`
SOL      ::= (sol (value N) (assign (STR val)*) (rows (STR N)*) (duals (STR N)*))
response ::= (ok (outcomes O*) RMODEL|(index-panic) [READBACK])
O        ::= (handles N*) | (unit) | (duplicate STR)
RMODEL   ::= (rmodel (ot E) (constraints BC*) (domain …))
READBACK ::= (readback (value N) (var-values (val|none)*) (numeric (N|none)*) (evals N*) (cvalues (N|none)*) (duals (N|none)*))
```
-/

def decBool : Sexp → Option Bool
  | .atom "true" => some true | .atom "false" => some false | _ => none

def decBC {α : Type} [Wire α] : Sexp → Option (Constraint α)
  | .list [.atom "bc", .str n, .atom c, l, r, a] => do
    pure { name := n, lhs := ← Exp.dec l, cmp := ← Cmp.ofName c, rhs := ← Exp.dec r, isAssert := ← decBool a }
  | _ => none

def encBC {α : Type} [Wire α] (c : Constraint α) : Sexp :=
  app "bc" [.str c.name, .atom c.cmp.name, c.lhs.enc, c.rhs.enc, .atom (if c.isAssert then "true" else "false")]

def decOp {α : Type} [Wire α] : Sexp → Option (Op α)
  | .list [.atom "add-var", .str n, t] => do pure (.addVar n (← VarType.dec t))
  | .list [.atom "add-vars", .str n, k, t] => do pure (.addVars n (← decNat k) (← VarType.dec t))
  | .list [.atom "with", c] => do pure (.with_ (← decBC c))
  | .list (.atom "with-all" :: cs) => do pure (.withAll (← optAll (cs.map decBC)))
  | .list [.atom "maximize", e] => do pure (.maximize (← Exp.dec e))
  | .list [.atom "minimize", e] => do pure (.minimize (← Exp.dec e))
  | .list [.atom "satisfy"] => some .satisfy
  | _ => none

def encOutcome : Outcome → Sexp
  | .handles hs => app "handles" (hs.map fun h => .atom (toString h))
  | .unit => app "unit" []
  | .duplicate n => app "duplicate" [.str n]

def encRModel {α : Type} [Wire α] (m : Model α) : Sexp :=
  app "rmodel" [.list [.atom m.optType.name, m.objective.enc], app "constraints" (m.constraints.map encBC),
    app "domain" (m.domain.map DomVar.enc)]

open SolverWrap in
def decSol {α : Type} [Wire α] [Arith α] : Sexp → Option (Solution α)
  | .list [.atom "sol", .list [.atom "value", v], .list (.atom "assign" :: asg), .list (.atom "rows" :: rows),
      .list (.atom "duals" :: duals)] => do
    let assignment ← optAll (asg.map fun | .list [.str n, x] => (Val.dec x).map (n, ·) | _ => none)
    pure { status := .optimal, value := ← decNumS v, assignment := assignment, constraints := ← decPairs rows,
           shadow := ← decPairs duals }
  | _ => none

def encOptNum {α : Type} [Wire α] : Option α → Sexp
  | some v => encNum v | none => .atom "none"

open SolverWrap in
def readback {α : Type} [Arith α] [Wire α] (b : BSolution α) (hs : List Nat) (es : List (Exp α)) (cs : List String) : Sexp :=
  app "readback" [app "value" [encNum b.value],
    app "var-values" (hs.map fun h => match b.varValue h with | some v => v.enc | none => .atom "none"),
    app "numeric" (hs.map fun h => encOptNum (b.numericValue h)),
    app "evals" (es.map fun e => encNum (b.eval e)),
    app "cvalues" (cs.map fun c => encOptNum (b.constraintValue c)),
    app "duals" (cs.map fun c => encOptNum (b.shadowPrice c))]

def history (α : Type) [Arith α] [Wire α] (ops : List Sexp) (rest : List Sexp) : Sexp :=
  match (optAll (ops.map decOp) : Option (List (Op α))) with
  | none => app "err" [.atom "decode-ops"]
  | some ops =>
    let (s, outs) := run (BState.new : BState α) ops
    let head := [app "outcomes" (outs.map encOutcome),
      match s.intoModel with | some m => encRModel m | none => app "index-panic" []]
    match rest with
    | [] => app "ok" head
    | [.list [.atom "readback", sol, .list (.atom "handles" :: hs), .list (.atom "exprs" :: es), .list (.atom "cnames" :: cs)]] =>
      -- read-backs only (the solution is wrapped with the names directly)
      match (decSol sol : Option (SolverWrap.Solution α)), optAll (hs.map decNat), (optAll (es.map Exp.dec) : Option (List (Exp α))),
          optAll (cs.map fun | .str c => some c | _ => none) with
      | some sol, some hs, some es, some cs =>
        app "ok" (head ++ [readback { solution := sol, variableNames := s.variableNames } hs es cs])
      | _, _, _, _ => app "err" [.atom "decode-solution"]
    | [.list [.atom "solution", sol, .list (.atom "handles" :: hs), .list (.atom "exprs" :: es), .list (.atom "cnames" :: cs)]] =>
      match (decSol sol : Option (SolverWrap.Solution α)), optAll (hs.map decNat), (optAll (es.map Exp.dec) : Option (List (Exp α))),
          optAll (cs.map fun | .str c => some c | _ => none) with
      | some sol, some hs, some es, some cs =>
        -- `solve_with(solver)` with a solver that returns the given solution: linearize first (its error wins), then wrap
        match s.solveWith (Wire.ofBits 0x3e112e0be826d695) Gen.boundsMaxSteps (fun _ => .ok sol) with   -- tolerance 1e-9
        | .ok b => app "ok" (head ++ [readback b hs es cs])
        | .linearization e => app "ok" (head ++ [app "linearization" [Drv.C01.encErr e]])
        | .indexPanic => app "ok" (head ++ [app "solve-panic" []])
        | .solver v => app "ok" (head ++ [app "solver" [.atom v]])
        | .solverPanic => app "ok" (head ++ [app "solve-panic" []])
      | _, _, _, _ => app "err" [.atom "decode-solution"]
    | _ => app "err" [.atom "bad-request"]

/-! ### the staged pipe runner (`run-pipe` request)

```
request  ::= run-pipe (pipes NAME*) TYPE (fail N | none)      -- NAME = the Rust struct name, TYPE = PipeDataType
response ::= (ok TYPE*) | (err (invalid-data TYPE TYPE) | (stage VARIANT)  (results TYPE*))
```
-/
open Pipes in
def runPipeReq (pipes : List Sexp) (start fail : Sexp) : Sexp :=
  let kinds := optAll (pipes.map fun | .atom n => PipeKind.ofName n | _ => none)
  let st := match start with | .atom n => DataTy.ofName n | _ => none
  let fa : Option (Option Nat) := match fail with
    | .atom "none" => some none
    | .list [.atom "fail", n] => (decNat n).map some
    | _ => none
  match kinds, st, fa with
  | some kinds, some st, some fa =>
    let tys (l : List DataTy) : List Sexp := l.map fun t => .atom t.name
    match runTags kinds st fa with
    | .ok rs => app "ok" (tys rs)
    | .error (.invalidData e g, rs) => app "err" [app "invalid-data" [.atom e.name, .atom g.name], app "results" (tys rs)]
    | .error (.stage v, rs) => app "err" [app "stage" [.atom v], app "results" (tys rs)]
  | _, _, _ => app "err" [.atom "decode"]

def handle (α : Type) [Arith α] [Wire α] : List Sexp → Sexp
  | [.atom "run-pipe", .list (.atom "pipes" :: ps), start, fail] => runPipeReq ps start fail
  | .atom "history" :: .list (.atom "ops" :: ops) :: rest => history α ops rest
  | [.atom "eval-expr", e, .list (.atom "vals" :: vs)] =>
    match (Exp.dec e : Option (Exp α)), (optAll (vs.map decNumS) : Option (List α)) with
    | some e, some vals => app "ok" [encNum (evalExpr (fun i => vals.getD i Arith.zero) e)]
    | _, _ => app "err" [.atom "decode"]
  | [.atom "into-model", vars, .list (.atom "constraints" :: cs), obj] =>
    match (decVars vars : Option (List (String × VarType α))), (optAll (cs.map Constraint.dec) : Option (List (Constraint α))) with
    | some vars, some cs =>
      let objective : Option (Option (OptType × Exp α)) := match obj with
        | .list [.atom "none"] => some none
        | .list [.atom ot, e] => do pure (some (← OptType.ofName ot, ← Exp.dec e))
        | _ => none
      match objective with
      | none => app "err" [.atom "decode"]
      | some o =>
        match intoModel { vars := vars, constraints := cs, objective := o } with
        | some m => app "ok" [m.enc]
        | none => app "err" [.atom "index-out-of-range"]
    | _, _ => app "err" [.atom "decode"]
  | _ => app "err" [.atom "bad-request"]

def ratOf : Ext Rat → Option Rat | .fin q => some q | _ => none

/-- `eval-check E (vals …) reported`: the value `BuilderSolution::eval` reported must be the value the
LANGUAGE SEMANTICS (`Sem.eval`, exact) gives the expression at those values, wherever that is defined. -/
def evalCheck (e : Exp (Ext Rat)) (vals : List (Ext Rat)) (reported : Ext Rat) : Sexp :=
  let ρ : String → Rat := fun s => match s.toNat? with
    | some i => (ratOf (vals.getD i (.fin 0))).getD 0
    | none => 0
  match Sem.eval ρ e, reported with
  | none, _ => app "ok" [.atom "undefined-in-the-language"]
  | some v, .fin r =>
    if Drv.C03.close v r then app "ok" []
    else app "violation" [.atom "eval-disagrees-with-semantics", Drv.C03.encRat v, Drv.C03.encRat r]
  | some v, r => app "violation" [.atom "eval-disagrees-with-semantics", Drv.C03.encRat v, .atom (Wire.enc r)]

/-- end-to-end answers of any door are judged by the reference interpreter of C03. -/
def oracle : List Sexp → Sexp
  | [.atom "eval-check", e, .list (.atom "vals" :: vs), r] =>
    match (Exp.dec e : Option (Exp (Ext Rat))), (optAll (vs.map decNumS) : Option (List (Ext Rat))), (decNumS r : Option (Ext Rat)) with
    | some e, some vals, some r => evalCheck e vals r
    | _, _, _ => app "err" [.atom "decode"]
  | args => Drv.C03.oracle args
end Rooc.Drv.C16
