import Rooc.WireModel
import Rooc.Builder
import Rooc.Drv.C03
namespace Rooc.Drv.C16
open Rooc Sexp Builder

def decVars {α : Type} [Wire α] : Sexp → Option (List (String × VarType α))
  | .list (.atom "bvars" :: vs) => optAll (vs.map fun
      | .list [.str n, t] => do pure (n, ← VarType.dec t)
      | _ => none)
  | _ => none

def handle (α : Type) [Arith α] [Wire α] : List Sexp → Sexp
  | [.atom "eval-expr", e, .list (.atom "vals" :: vs)] =>
    match (Exp.dec e : Option (Exp α)), (optAll (vs.map decNumS) : Option (List α)) with
    | some e, some vals => app "ok" [encNum (evalExpr (fun i => vals.getD i Arith.zero) e)]
    | _, _ => app "err" [.atom "decode"]
  | [.atom "into-model", vars, .list (.atom "constraints" :: cs), obj] =>
    match (decVars vars : Option (List (String × VarType α))), (optAll (cs.map Constraint.dec) : Option (List (Constraint α))) with
    | some vars, some cs =>
      let objective : Option (Option (OptType × Exp α)) := match obj with
        | .list [.atom "none"] => some none
        | .list [.atom ot, e] => do pure (some (← OptType.ofName ot, ← Exp.dec e))
        | _ => none
      match objective with
      | none => app "err" [.atom "decode"]
      | some o =>
        match intoModel { vars := vars, constraints := cs, objective := o } with
        | some m => app "ok" [m.enc]
        | none => app "err" [.atom "index-out-of-range"]
    | _, _ => app "err" [.atom "decode"]
  | _ => app "err" [.atom "bad-request"]

/-- end-to-end answers of any door are judged by the reference interpreter of C03. -/
def oracle : List Sexp → Sexp := Drv.C03.oracle
end Rooc.Drv.C16
