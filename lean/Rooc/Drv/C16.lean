import Rooc.WireModel
import Rooc.Builder
import Rooc.Drv.C03
namespace Rooc.Drv.C16
open Rooc Sexp Builder

def decVars {α : Type} [Wire α] : Sexp → Option (List (String × VarType α))
  | .list (.atom "bvars" :: vs) => optAll (vs.map fun
      | .list [.str n, t] => do pure (n, ← VarType.dec t)
      | _ => none)
  | _ => none

def handle (α : Type) [Arith α] [Wire α] : List Sexp → Sexp
  | [.atom "eval-expr", e, .list (.atom "vals" :: vs)] =>
    match (Exp.dec e : Option (Exp α)), (optAll (vs.map decNumS) : Option (List α)) with
    | some e, some vals => app "ok" [encNum (evalExpr (fun i => vals.getD i Arith.zero) e)]
    | _, _ => app "err" [.atom "decode"]
  | [.atom "into-model", vars, .list (.atom "constraints" :: cs), obj] =>
    match (decVars vars : Option (List (String × VarType α))), (optAll (cs.map Constraint.dec) : Option (List (Constraint α))) with
    | some vars, some cs =>
      let objective : Option (Option (OptType × Exp α)) := match obj with
        | .list [.atom "none"] => some none
        | .list [.atom ot, e] => do pure (some (← OptType.ofName ot, ← Exp.dec e))
        | _ => none
      match objective with
      | none => app "err" [.atom "decode"]
      | some o =>
        match intoModel { vars := vars, constraints := cs, objective := o } with
        | some m => app "ok" [m.enc]
        | none => app "err" [.atom "index-out-of-range"]
    | _, _ => app "err" [.atom "decode"]
  | _ => app "err" [.atom "bad-request"]

def ratOf : Ext Rat → Option Rat | .fin q => some q | _ => none

/-- `eval-check E (vals …) reported`: the value `BuilderSolution::eval` reported must be the value the
LANGUAGE SEMANTICS (`Sem.eval`, exact) gives the expression at those values, wherever that is defined. -/
def evalCheck (e : Exp (Ext Rat)) (vals : List (Ext Rat)) (reported : Ext Rat) : Sexp :=
  let ρ : String → Rat := fun s => match s.toNat? with
    | some i => (ratOf (vals.getD i (.fin 0))).getD 0
    | none => 0
  match Sem.eval ρ e, reported with
  | none, _ => app "ok" [.atom "undefined-in-the-language"]
  | some v, .fin r =>
    if Drv.C03.close v r then app "ok" []
    else app "violation" [.atom "eval-disagrees-with-semantics", Drv.C03.encRat v, Drv.C03.encRat r]
  | some v, r => app "violation" [.atom "eval-disagrees-with-semantics", Drv.C03.encRat v, .atom (Wire.enc r)]

/-- end-to-end answers of any door are judged by the reference interpreter of C03. -/
def oracle : List Sexp → Sexp
  | [.atom "eval-check", e, .list (.atom "vals" :: vs), r] =>
    match (Exp.dec e : Option (Exp (Ext Rat))), (optAll (vs.map decNumS) : Option (List (Ext Rat))), (decNumS r : Option (Ext Rat)) with
    | some e, some vals, some r => evalCheck e vals r
    | _, _, _ => app "err" [.atom "decode"]
  | args => Drv.C03.oracle args
end Rooc.Drv.C16
