import Rooc.Wire
import Rooc.Oracle
import Rooc.Pre.Wire
namespace Rooc.Drv.C19
open Rooc Sexp Rooc.Pre

def decKinds (xs : List Sexp) : Option (List Kind) := optAll (xs.map Kind.dec)

def encCheck : Except TErr Unit → Sexp
  | .ok _ => app "ok" []
  | .error e => app "err" [.atom e.name]

def encEval (r : Except TErr (Prim Float)) : Sexp :=
  match r with
  | .ok v => app "ok" [v.enc]
  | .error (.binOpError .panic) | .error (.unOpError .panic) => app "panic" []
  | .error e => app "err" [.atom e.name]

def handleF : List Sexp → Sexp
  | [.atom "canbin", l, .atom op, r] =>
    match Kind.dec l, BinOp.ofName op, Kind.dec r with
    | some l, some op, some r => app "ok" [boolAtom (l.canApplyBinary op r)]
    | _, _, _ => app "err" [.atom "decode"]
  | [.atom "bintype", l, .atom op, r] =>
    match Kind.dec l, BinOp.ofName op, Kind.dec r with
    | some l, some op, some r => app "ok" [(binResultKind l op r).enc]
    | _, _, _ => app "err" [.atom "decode"]
  | [.atom "canun", .atom op, k] =>
    match UnOp.ofName op, Kind.dec k with
    | some op, some k => app "ok" [boolAtom (k.canApplyUnary op)]
    | _, _ => app "err" [.atom "decode"]
  | [.atom "untype", .atom op, k] =>
    match UnOp.ofName op, Kind.dec k with
    | some op, some k => app "ok" [(unResultKind op k).enc]
    | _, _ => app "err" [.atom "decode"]
  | [.atom "isnumeric", k] =>
    match Kind.dec k with | some k => app "ok" [boolAtom k.isNumeric] | none => app "err" [.atom "decode"]
  | [.atom "spread", k] =>
    match Kind.dec k with
    | some k => (match k.canSpreadInto with | some ks => app "ok" (ks.map Kind.enc) | none => app "err" [.atom "Unspreadable"])
    | none => app "err" [.atom "decode"]
  | [.atom "fn", .atom name, .list st, .list dy] =>
    match decKinds st, decKinds dy with
    | some st, some dy =>
      .list [.atom "check", encCheck (fnTypeCheck name st), .atom "ret", (fnReturnType name st).enc, .atom "callerr",
             (match fnCallTypeError name dy with | none => .atom "none" | some e => .atom e.name)]
    | _, _ => app "err" [.atom "decode"]
  | [.atom "pattern", k, .atom form, .atom n, comps] =>
    match Kind.dec k, n.toNat? with
    | some k, some n =>
      let tuple := form == "tuple"
      let dyn : Option TErr := match comps with
        | .atom "noniter" => some .wrongArgument
        | .list cs => patternDyn tuple n (cs.map fun | .atom "scalar" => Comp.scalar | .atom s => Comp.parts (s.toNat?.getD 0) | _ => Comp.scalar)
        | _ => none
      .list [.atom "check", encCheck (patternCheck k tuple n), .atom "dyn", (match dyn with | none => .atom "none" | some e => .atom e.name)]
    | _, _ => app "err" [.atom "decode"]
  | [.atom "cvcheck", .list (.atom "fams" :: fams), .list (.atom "statics" :: statics), .str base, .list idx] =>
    let fs : List (String × Nat) := fams.filterMap fun | .list [.str b, .atom n] => n.toNat?.map (fun k => (b, k)) | _ => none
    let ss : List String := statics.filterMap fun | .str s => some s | _ => none
    let ix : List (Option String) := idx.map fun | .list [.atom "lit", .str f] => some f | _ => none
    if compoundDeclared fs ss base ix then app "ok" [] else app "err" [.atom "UndeclaredVariable"]
  | .atom "lets" :: ls =>
    match optAll (ls.map fun | .list [.atom "let", .str n, e] => (TE.dec e : Option (TE Float)).map (fun e => (n, e)) | _ => none) with
    | none => app "err" [.atom "decode"]
    | some lets =>
      -- static kinds as the token-type map records them (first declaration of a name wins, errors ignored)
      let kinds := (stdLets ++ lets).foldl (fun (acc : Ctx × List Kind) (p : String × TE Float) =>
        let k := p.2.typeOf acc.1
        (if p.1 == "_" || (acc.1.get p.1).isSome || reservedNames.contains p.1 then acc.1 else (p.1, k) :: acc.1, acc.2 ++ [k])) (([] : Ctx), ([] : List Kind))
      let chk : Sexp := match typeCheckWhere lets with | .ok _ => app "ok" [] | .error e => app "err" [.atom e.name]
      let ev : Sexp := match evalWhere lets with
        | .ok r => app "ok" ((r.reverse.drop 3).filterMap (fun p => match p.2 with
            | .scalar q => (match asNumberCast q with | .ok x => some (.list [.str p.1, encNum x]) | .error _ => none)
            | _ => none))
        | .error e => app "err" [.atom e.name]
      .list [.atom "check", chk, .atom "kinds", .list ((kinds.2.drop 3).map Kind.enc), .atom "eval", ev]
  | [.atom "scopes", .list (.atom "lets" :: ls), .list (.atom "decls" :: ds), .list (.atom "fors" :: fs)] =>
    match optAll (ls.map fun | .list [.atom "let", .str n, e] => (TE.dec e : Option (TE Float)).map (fun e => (n, e)) | _ => none),
          optAll (ds.map (TDecl.dec (α := Float))), optAll (fs.map (TFor.dec (α := Float))) with
    | some lets, some decls, some fors =>
      -- fragments of a compiled name, canonical: integers (and integral floats below 2^63) as text, other floats by bits
      let frag (p : Prim Float) : Sexp := match p with
        | .integer i => app "i" [.atom (toString i)]
        | .pint n => app "i" [.atom (toString n)]
        | .number x => if x.isFinite && x == x.floor && x.abs < 9223372036854775808.0 then app "i" [.atom (toString (Arith.toI64 x))] else app "f" [encNum x]
        | .boolean b => app "s" [.str (if b then "T" else "F")]
        | .string t => app "s" [.str t]
        | .other _ => .atom "?"
      let tyEnc (t : VarType Float) : Sexp := match t with
        | .bool => app "bool" []
        | .real a b => app "real" [encNum a, encNum b]
        | .nnreal a b => app "nnreal" [encNum a, encNum b]
        | .int a b => app "int" [.atom (toString a), .atom (toString b)]
      let chk : Sexp := match typeCheckProgram lets decls fors with
        | .ok _ => app "ok" [] | .error e => app "err" [.atom e.name]
      let ev : Sexp := match runProgram (fun p => toString (frag p)) lets decls fors with
        | .ok out =>
          app "ok" [.list (.atom "domain" :: out.domain.map (fun (d : String × List (Prim Float) × VarType Float) => .list [.str d.1, .list (d.2.1.map frag), tyEnc d.2.2])),
                    .list (.atom "names" :: out.names.map (fun (leaves : List (List (Prim Float))) => .list (leaves.map (fun fr => .list (fr.map frag)))))]
        | .error e => app "err" [.atom e.name]
      .list [.atom "check", chk, .atom "eval", ev]
    | _, _, _ => app "err" [.atom "decode"]
  | [.atom "expr", e] =>
    match (PExp.dec e : Option (PExp Float)) with
    | some e => .list [.atom "tc", boolAtom e.typeCheck, .atom "type", e.typeOf.enc, .atom "eval", encEval e.eval]
    | none => app "err" [.atom "decode"]
  | _ => app "err" [.atom "bad-request"]

def handle (α : Type) [Arith α] [Wire α] (args : List Sexp) : Sexp := handleF args

/-! ### oracle -/
def typeClass : List String := ["WrongArgument", "WrongExpectedArgument", "BinOpError", "UnOpError", "Unspreadable", "SpreadError",
  "NonExistentFunction", "WrongNumberOfArguments", "WrongFunctionSignature", "UndeclaredVariable"]

/-- numeric kinds other than Boolean form one class: the static rules never separate them -/
def kindClass : Kind → Kind
  | .integer | .pint | .number => .number
  | k => k

def oracle : List Sexp → Sexp
  | [.atom "sound", .atom tc, .atom tr, .atom flag] =>
    if tc == "ok" && (typeClass.contains tr || flag == "undeclared-family" || flag == "static-arity-destructure") && flag != "numeric-conversion" then
      app "violation" [.atom ("accepted-then-" ++ tr), .atom flag]
    else app "ok" []
  | [.atom "fn-sound", .atom _name, .list [.atom "check", chk, .atom "ret", _, .atom "callerr", .atom e]] =>
    if chk == app "ok" [] && e != "none" then app "violation" [.atom ("accepted-call-then-" ++ e)] else app "ok" []
  | [.atom "expr-sound", e, .list [.atom "tc", .atom tc, .atom "type", ty, .atom "eval", ev]] =>
    match (PExp.dec e : Option (PExp Float)), Kind.dec ty with
    | some pe, some ty =>
      if tc != "true" then app "ok" [] else
      match ev with
      | .list [.atom "ok", v] =>
        (match (Prim.dec v : Option (Prim Float)) with
         | some pv => if kindClass pv.kind == kindClass ty then app "ok" [] else app "violation" [.atom "value-kind-outside-static-kind", pv.kind.enc, ty.enc]
         | none => app "err" [.atom "decode"])
      | .list [.atom "panic"] => app "violation" [.atom "accepted-then-panic"]
      | .list [.atom "err", .atom _] =>
        -- the exact evaluator knows the cause the Rust drops
        (match pe.eval with
         | .error err => if err.dataDependent then app "violation" [.atom "data-failure-reported-as-type-error", .atom err.name]
                         else app "violation" [.atom "accepted-then-type-error", .atom err.name]
         | .ok _ => app "violation" [.atom "accepted-then-type-error", .atom "model-disagrees"])
      | _ => app "err" [.atom "decode"]
    | _, _ => app "err" [.atom "decode"]
  | _ => app "err" [.atom "bad-request"]
end Rooc.Drv.C19
