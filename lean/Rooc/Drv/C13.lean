import Rooc.Wire
import Rooc.Oracle
import Rooc.WireStd
import Rooc.StdOracle
import Rooc.Gen.Consts
namespace Rooc.Drv.C13
open Rooc Sexp

/-- the tolerance sent by the harness must be the one the regenerated constant table implies
(`10^-NEAR_ZERO_PRECISION`); a disagreement means the extractor and the measured code differ. -/
def tolOk : Sexp → Bool
  | .atom s =>
    match (decNum s : Option (Ext Rat)) with
    | some (.fin q) =>
      let want : Rat := 1 / ((10 : Rat) ^ Gen.nearZeroPrecision)
      let d := if q < want then want - q else q - want
      d * 1000000000000 ≤ want          -- within 1e-12 relative: the nearest double
    | _ => false
  | _ => false

/-- model requests for C13 (run at `Float` for the exact diff, at `Ext Rat` as oracle). -/
def handle (α : Type) [Arith α] [Wire α] : List Sexp → Sexp
  | [.atom "standardize", tol, lm] =>
    if !(tolOk tol) then app "err" [.atom "tolerance-mismatch"] else
    match (decNumS tol : Option α), (LinModel.dec lm : Option (LinModel α)) with
    | some _, some lm =>
      match Standardize.standardize lm with
      | .ok sm => app "ok" [sm.enc]
      | .error e => app "err" [.atom e.name]
    | _, _ => app "err" [.atom "decode"]
  | _ => app "err" [.atom "bad-request"]

/-- exact oracle: the PROPERTY evaluated on the implementation's own answer. -/
def oracle : List Sexp → Sexp
  | [.atom "check-std", tol, effort, lm, sm] =>
    match (decNumS tol : Option (Ext Rat)), decNat effort, (LinModel.dec lm : Option (LinModel (Ext Rat))),
          (StdModel.dec sm : Option (StdModel (Ext Rat))) with
    | some (.fin tol), some effort, some lm, some sm => StdOracle.check tol effort lm sm
    | _, _, _, _ => app "err" [.atom "decode"]
  | _ => app "err" [.atom "bad-request"]
end Rooc.Drv.C13
