import Rooc.Wire
import Rooc.WireModel
import Rooc.LpFormat
import Rooc.LpOracle
import Rooc.NumTok
namespace Rooc.Drv.C17
open Rooc Sexp

open Rooc.NumTok

/-- model requests for C17 (run at `Float` for the exact diff). -/
def handle (α : Type) [Arith α] [Wire α] : List Sexp → Sexp
  | [.atom "lp", lm, toks] =>
    match (LinModel.dec lm : Option (LinModel α)), decToks toks with
    | some lm, some tbl => app "ok" [.str (String.ofList (Lp.writeLP (tokOf tbl) lm))]
    | _, _ => app "err" [.atom "decode"]
  | [.atom "rownames", lm] =>
    match (LinModel.dec lm : Option (LinModel α)) with
    | some lm => app "ok" ((Lp.rowNames lm.rows).map fun n => .str (String.ofList n))
    | none => app "err" [.atom "decode"]
  | _ => app "err" [.atom "bad-request"]

/-- exact oracle: the PROPERTY evaluated on the implementation's own answer. -/
def oracle : List Sexp → Sexp
  | [.atom "check-lp", lm, .str text] =>
    match (LinModel.dec lm : Option (LinModel LpOracle.Bits)) with
    | some lm =>
      if LpOracle.wellFormed lm then LpOracle.checkLP lm text.toList
      else app "ok" [.atom "outside-quantifier"]
    | none => app "err" [.atom "decode"]
  | [.atom "readlp", .str text] =>
    match Lp.readLP LpOracle.decLex text.toList with
    | some p => app "ok" [LpOracle.encProblem p]
    | none => app "err" [.atom "unreadable"]
  | _ => app "err" [.atom "bad-request"]
end Rooc.Drv.C17
