import Rooc.Drv.C01
import Rooc.WellFormed
import Rooc.LinErrText
import Rooc.Compile
import Rooc.Gen.Consts
namespace Rooc.Drv.C08
open Rooc Sexp
/-- C08 shares the linearizer model requests of C01. -/
def decErr : Sexp → Option Lin.LinErr
  | .list [.atom "err", .atom "NonLinearExpression"] => some .nonLinear
  | .list [.atom "err", .atom "DivisionByZero"] => some .divisionByZero
  | .list [.atom "err", .atom "EmptyAggregation", .str k] => some (.emptyAggregation k)
  | .list [.atom "err", .atom "VarAlreadyDeclared", .str n] => some (.varAlreadyDeclared n)
  | .list [.atom "err", .atom "UnimplementedExpression"] => some .unimplemented
  | .list [.atom "err", .atom "NonBinaryLogicOperand"] => some .nonBinaryLogicOperand
  | .list [.atom "err", .atom "MissingFiniteBounds", .list vs] =>
    (optAll (vs.map fun | .str s => some s | _ => none)).map .missingFiniteBounds
  | _ => none

def handle (α : Type) [Arith α] [Wire α] : List Sexp → Sexp
  | [.atom "linerr-display", e, .str expr, .str req, .str lo, .str hi] =>
    match decErr e with
    | some e => .str (e.text expr req lo hi)
    | none => app "err" [.atom "decode"]
  | r => Drv.C01.handle α r


/-- the largest finite `f64`, `(2 − 2^−52)·2^1023`. -/
def f64Max : Rat := ((2:Rat)^(1024:Nat)) - ((2:Rat)^(971:Nat))

def outOfF64 : Ext Rat → Bool
  | .fin q => decide (q > f64Max) || decide (q < -f64Max)
  | _ => false

/-- root cause of a non-finite output: does the EXACT compilation of the source (rational arithmetic, the
implementation's tolerance `1e-9` and step limit) contain a coefficient, right-hand side or offset that is finite
but outside the range of `f64`?  Then the `inf`/`NaN` in the implementation's output is the overflow of a value that
really is that large (finding C08-f64-overflow); otherwise some step of the implementation lost a representable value. -/
def exactOverflows (m : Model (Ext Rat)) : Bool :=
  match Compile.linearize m (.fin ((1:Rat) / 1000000000)) Gen.boundsMaxSteps with
  | .ok lm =>
    lm.rows.any (fun r => r.coeffs.any outOfF64 || outOfF64 r.rhs) || lm.objective.any outOfF64 || outOfF64 lm.offset
  | .error _ => false

/-- exact oracle: the well-formedness predicate on the implementation's linear model. -/
def oracle : List Sexp → Sexp
  | [.atom _, m, lm] =>
    match (Model.dec m : Option (Model (Ext Rat))), (LinModel.dec lm : Option (LinModel (Ext Rat))) with
    | some m, some lm =>
      let r := WF.report m lm
      let failing := r.failing ++ (if WF.occurringPresent m lm then [] else ["occurring-variable-missing"]) ++
        (if WF.domainOrdered m lm then [] else ["domain-not-ordered"])
      let failing := failing.map fun f =>
        if f == "non-finite-output" && WF.modelLitsFinite m && exactOverflows m then "f64-overflow-output" else f
      match failing with
      | [] => app "ok" []
      | f :: _ => app "violation" [.atom f, .list (failing.map .atom)]
    | _, _ => app "err" [.atom "decode"]
  | _ => app "err" [.atom "bad-request"]
end Rooc.Drv.C08
