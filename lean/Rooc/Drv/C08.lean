import Rooc.Drv.C01
import Rooc.WellFormed
namespace Rooc.Drv.C08
open Rooc Sexp
/-- C08 shares the linearizer model requests of C01. -/
def handle (α : Type) [Arith α] [Wire α] : List Sexp → Sexp := Drv.C01.handle α

/-- exact oracle: the well-formedness predicate on the implementation's linear model. -/
def oracle : List Sexp → Sexp
  | [.atom _, m, lm] =>
    match (Model.dec m : Option (Model (Ext Rat))), (LinModel.dec lm : Option (LinModel (Ext Rat))) with
    | some m, some lm =>
      let r := WF.report m lm
      match r.failing with
      | [] => app "ok" []
      | f :: _ => app "violation" [.atom f, .list (r.failing.map .atom)]
    | _, _ => app "err" [.atom "decode"]
  | _ => app "err" [.atom "bad-request"]
end Rooc.Drv.C08
