import Rooc.Drv.C01
import Rooc.WellFormed
import Rooc.LinErrText
namespace Rooc.Drv.C08
open Rooc Sexp
/-- C08 shares the linearizer model requests of C01. -/
def decErr : Sexp → Option Lin.LinErr
  | .list [.atom "err", .atom "NonLinearExpression"] => some .nonLinear
  | .list [.atom "err", .atom "DivisionByZero"] => some .divisionByZero
  | .list [.atom "err", .atom "EmptyAggregation", .str k] => some (.emptyAggregation k)
  | .list [.atom "err", .atom "VarAlreadyDeclared", .str n] => some (.varAlreadyDeclared n)
  | .list [.atom "err", .atom "UnimplementedExpression"] => some .unimplemented
  | .list [.atom "err", .atom "NonBinaryLogicOperand"] => some .nonBinaryLogicOperand
  | .list [.atom "err", .atom "MissingFiniteBounds", .list vs] =>
    (optAll (vs.map fun | .str s => some s | _ => none)).map .missingFiniteBounds
  | _ => none

def handle (α : Type) [Arith α] [Wire α] : List Sexp → Sexp
  | [.atom "linerr-display", e, .str expr, .str req, .str lo, .str hi] =>
    match decErr e with
    | some e => .str (e.text expr req lo hi)
    | none => app "err" [.atom "decode"]
  | r => Drv.C01.handle α r

/-- exact oracle: the well-formedness predicate on the implementation's linear model. -/
def oracle : List Sexp → Sexp
  | [.atom _, m, lm] =>
    match (Model.dec m : Option (Model (Ext Rat))), (LinModel.dec lm : Option (LinModel (Ext Rat))) with
    | some m, some lm =>
      let r := WF.report m lm
      let failing := r.failing ++ (if WF.occurringPresent m lm then [] else ["occurring-variable-missing"]) ++
        (if WF.domainOrdered m lm then [] else ["domain-not-ordered"])
      match failing with
      | [] => app "ok" []
      | f :: _ => app "violation" [.atom f, .list (failing.map .atom)]
    | _, _ => app "err" [.atom "decode"]
  | _ => app "err" [.atom "bad-request"]
end Rooc.Drv.C08
