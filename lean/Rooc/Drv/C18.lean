import Rooc.Wire
import Rooc.Oracle
import Rooc.Pre.Wire
namespace Rooc.Drv.C18
open Rooc Sexp Rooc.Pre

/-- the operator core always runs at `Float` (bit-exact against rustc's f64) -/
def handleF : List Sexp → Sexp
  | [.atom "binop", .atom op, a, b] =>
    match BinOp.ofName op, (Prim.dec a : Option (Prim Float)), (Prim.dec b : Option (Prim Float)) with
    | some op, some a, some b => encRes (applyBinary a op b)
    | _, _, _ => app "err" [.atom "decode"]
  | [.atom "unop", .atom op, a] =>
    match UnOp.ofName op, (Prim.dec a : Option (Prim Float)) with
    | some op, some a => encRes (applyUnary op a)
    | _, _ => app "err" [.atom "decode"]
  | [.atom "cast", .atom which, a] =>
    match (Prim.dec a : Option (Prim Float)) with
    | none => app "err" [.atom "decode"]
    | some a =>
      match which with
      | "number" => (match asNumberCast a with | .ok x => app "ok" [encNum x] | .error _ => app "err" [.atom "WrongArgument"])
      | "integer" => (match asIntegerCast a with | .ok i => app "ok" [.atom (toString i)] | .error .doesNotFit => app "err" [.atom "Other"] | .error _ => app "err" [.atom "WrongArgument"])
      | "usize" => (match asUsizeCast a with | .ok n => app "ok" [.atom (toString n)] | .error _ => app "err" [.atom "WrongArgument"])
      | _ => app "err" [.atom "bad-request"]
  | [.atom "kindof", a] =>
    match (Prim.dec a : Option (Prim Float)) with
    | some a => app "ok" [a.kind.enc]
    | none => app "err" [.atom "decode"]
  | _ => app "err" [.atom "bad-request"]

def handle (α : Type) [Arith α] [Wire α] (args : List Sexp) : Sexp := handleF args

/-! ### oracle: the property itself on the implementation's answers -/

def badOutcomes : List String := ["panic", "hang", "abort", "abort-alloc", "abort-stack", "render-failed"]

/-- `stage=outcome` atoms of a pipeline run -/
def stageVerdict : List Sexp → Option (String × String)
  | [] => none
  | .atom s :: rest =>
    match s.splitOn "=" with
    | [stage, outcome] => if badOutcomes.contains outcome then some (stage, outcome) else stageVerdict rest
    | _ => stageVerdict rest
  | _ :: rest => stageVerdict rest

def exactInt : Prim Float → Option Int
  | .integer i => some i
  | .pint n => some (n : Int)
  | .boolean b => some (if b then 1 else 0)
  | _ => none

/-- the real number an operand of `+ - * /` stands for (`as f64`) -/
def asF : Prim Float → Option Float
  | .number x => some x
  | .integer i => some (Arith.ofInt i)
  | .pint n => some (Arith.ofInt (n : Int))
  | .boolean b => some (if b then 1.0 else 0.0)
  | _ => none

/-- the meaning of a `Number` result, written independently of the case-by-case port: operands converted, operator
applied LEFT to RIGHT; a zero divisor (0, 0.0, -0.0, false) is never a value -/
def floatMeaning (op : String) (a b : Prim Float) (r : Float) : Option Sexp :=
  match asF a, asF b with
  | some x, some y =>
    if op == "div" && y == 0.0 then some (app "violation" [.atom "division-by-zero-accepted", encNum x, encNum y, encNum r])
    else
      let e : Option Float := match op with | "add" => some (x + y) | "sub" => some (x - y) | "mul" => some (x * y) | "div" => some (x / y) | _ => none
      match e with
      | some e => if (e.isNaN && r.isNaN) || e.toBits == r.toBits then none else some (app "violation" [.atom "arithmetic-wrong-value", encNum e, encNum r])
      | none => none
  | _, _ => none

def oracle : List Sexp → Sexp
  | [.atom "total", .list outcomes] =>
    match stageVerdict outcomes with
    | some (stage, outcome) => app "violation" [.atom ("stage-" ++ outcome), .atom stage]
    | none => app "ok" []
  | [.atom "opcore", .list req, imp] =>
    if imp == app "panic" [] then app "violation" [.atom "operator-panics", .list req]
    else match req, imp with
      -- exact integer meaning: an `Integer` / `PositiveInteger` result of + - * is the mathematical result
      | [.atom "binop", .atom op, a, b], .list [.atom "ok", r] =>
        match (Prim.dec a : Option (Prim Float)), (Prim.dec b : Option (Prim Float)), (Prim.dec r : Option (Prim Float)) with
        | some pa, some pb, some (.number x) => (match floatMeaning op pa pb x with | some v => v | none => app "ok" [])
        | some (.boolean _), _, _ => app "ok" []
        | some pa, some pb, some pr =>
          match exactInt pa, exactInt pb, pr with
          | some x, some y, .integer v | some x, some y, .pint v =>
            let exact : Option Int := match op with | "add" => some (x + y) | "sub" => some (x - y) | "mul" => some (x * y) | _ => none
            (match exact with
             | some e => if e == v then app "ok" [] else app "violation" [.atom "silent-integer-wrap", .atom (toString e), .atom (toString v)]
             | none => app "ok" [])
          | _, _, _ => app "ok" []
        | _, _, _ => app "ok" []
      -- a division is refused as DivisionByZero only for a ZERO divisor (0, 0.0, -0.0, false): a tiny or subnormal divisor divides
      | [.atom "binop", .atom "div", a, b], .list [.atom "err", .atom "DivisionByZero"] =>
        match (Prim.dec a : Option (Prim Float)), (Prim.dec b : Option (Prim Float)) with
        | some pa, some pb =>
          (match asF pa, asF pb with
           | some x, some y => if y == 0.0 then app "ok" [] else app "violation" [.atom "division-by-nonzero-refused", encNum x, encNum y]
           | _, _ => app "ok" [])
        | _, _ => app "ok" []
      | [.atom "unop", .atom "neg", a], .list [.atom "ok", r] =>
        match (Prim.dec a : Option (Prim Float)), (Prim.dec r : Option (Prim Float)) with
        | some pa, some (.integer v) =>
          (match exactInt pa with
           | some x => if -x == v then app "ok" [] else app "violation" [.atom "silent-integer-wrap", .atom (toString (-x)), .atom (toString v)]
           | none => app "ok" [])
        | _, _ => app "ok" []
      -- exact integer meaning of the cast: an integer-valued primitive is cast to ITSELF
      | [.atom "cast", .atom "integer", a], .list [.atom "ok", .atom v] =>
        match (Prim.dec a : Option (Prim Float)) with
        | some (.integer i) => if toString i == v then app "ok" [] else app "violation" [.atom "silent-integer-wrap", .atom (toString i), .atom v]
        | some (.pint n) => if toString n == v then app "ok" [] else app "violation" [.atom "silent-integer-wrap", .atom (toString n), .atom v]
        | _ => app "ok" []
      | _, _ => app "ok" []
  | _ => app "err" [.atom "bad-request"]
end Rooc.Drv.C18
