import Rooc.Wire
import Rooc.Oracle
import Rooc.OracleC10
namespace Rooc.Drv.C10
open Rooc Sexp

def flattenFuel : Nat := 100000

def handle (α : Type) [Arith α] [Wire α] : List Sexp → Sexp
  | [.atom "simplify", e] =>
    match (Exp.dec e : Option (Exp α)) with
    | some e => app "ok" [(Exp.simplify e).enc]
    | none => app "err" [.atom "decode"]
  | [.atom "flatten", e] =>
    match (Exp.dec e : Option (Exp α)) with
    | some e => match Exp.flattenF flattenFuel e with
      | some r => app "ok" [r.enc]
      | none => app "err" [.atom "fuel"]
    | none => app "err" [.atom "decode"]
  | [.atom "collapses", e] =>
    match (Exp.dec e : Option (Exp α)) with
    | some e => app "ok" [.atom (if Exp.collapsesNonbinary (fun _ => false) e then "true" else "false")]
    | none => app "err" [.atom "decode"]
  | _ => app "err" [.atom "bad-request"]

/-- exact oracle: the PROPERTY evaluated on the implementation's own answer. -/
def oracle : List Sexp → Sexp
  | [.atom "check-rewrite", e, e'] =>
    match (Exp.dec e : Option (Exp (Ext Rat))), (Exp.dec e' : Option (Exp (Ext Rat))) with
    | some e, some e' => OracleC10.checkRewrite e e'
    | _, _ => app "err" [.atom "decode"]
  | _ => app "err" [.atom "bad-request"]
end Rooc.Drv.C10
