import Rooc.WireModel
import Rooc.Ref
import Rooc.RefResidual
import Rooc.Oracle
import Rooc.Drv.C01
import Rooc.Pipeline
import Rooc.WireSolve
import Rooc.Pre.IterWire
namespace Rooc.Drv.C03
open Rooc Sexp Sem

/-- the compiler half of the pipeline is diffed through C01's requests (`linearize-full`); `solve-using` runs the model of
`RoocSolver::solve_using(auto_solver)` after `transform` (`Pipeline.solveUsingAuto`) on microlp's raw answer for the
compiled model: every arm of the error mapping and the returned `LpSolution`. -/
def handle (α : Type) [Arith α] [Wire α] : List Sexp → Sexp
  | [.atom "solve-using", m, tol, out] =>
    match (Model.dec m : Option (Model α)), (decNumS tol : Option α), (SolverWrap.MlpOutcome.dec out : Option (SolverWrap.MlpOutcome α)) with
    | some m, some tol, some out =>
      match Pipeline.solveUsingAuto m tol Gen.boundsMaxSteps (fun _ => out) with
      | .solved lm s => app "solved" [s.enc lm.vars]
      | .linearization e => app "linearization" [Drv.C01.encErr e]
      | .solver v => app "solver" [app "err" [.atom v]]
      | .panic => app "panic" []
    | _, _, _ => app "err" [.atom "decode"]
  | [.atom "solve-prog", p, .atom tc, tol, out] =>
    -- the whole default path from a program of the iteration fragment (`Pipeline.solveProg`); `tc` = verdict of the real
    -- type checker on the text (a parameter of the model)
    match Pre.ProgM.dec p, (decNumS tol : Option α), (SolverWrap.MlpOutcome.dec out : Option (SolverWrap.MlpOutcome α)) with
    | some p, some tol, some out =>
      match Pipeline.solveProg p (tc == "1") tol Gen.boundsMaxSteps (fun _ => out) with
      | .parseError => app "parse-error" []
      | .typeError => app "transform-error" [.atom "type"]
      | .transformError _ => app "transform-error" [.atom "transform"]
      | .compiled (.solved lm s) => app "solved" [s.enc lm.vars]
      | .compiled (.linearization e) => app "linearization" [Drv.C01.encErr e]
      | .compiled (.solver v) => app "solver" [app "err" [.atom v]]
      | .compiled .panic => app "panic" []
    | _, _, _ => app "err" [.atom "decode"]
  | args => Drv.C01.handle α args

def decAssign : Sexp → Option (List (String × Rat))
  | .list (.atom "assign" :: ps) => optAll (ps.map fun
      | .list [.str n, v] => match (decNumS v : Option (Ext Rat)) with
        | some (.fin q) => some (n, q)
        | _ => none
      | _ => none)
  | _ => none

def encRat (q : Rat) : Sexp := .atom (Wire.enc (Ext.fin q : Ext Rat))
def absR (q : Rat) : Rat := if q < 0 then -q else q
def close (a b : Rat) : Bool := absR (a - b) ≤ (max 1 (max (absR a) (absR b))) / 1000000

/-- snap a returned float value to the integer it denotes (within 1e-6) for discrete variables. -/
def snap (m : Model (Ext Rat)) (a : List (String × Rat)) : List (String × Rat) :=
  a.map fun (n, v) =>
    let discrete : Bool := match (m.domain.find? (·.name == n)).map (·.ty) with
      | some (VarType.bool) => true
      | some (VarType.int _ _) => true
      | _ => false
    let r : Rat := ((v + 1/2).floor : Int)
    if discrete && absR (v - r) ≤ 1/1000000 then (n, r) else (n, v)

def noDupNames (l : List String) : Bool :=
  match l with
  | [] => true
  | x :: xs => !(xs.contains x) && noDupNames xs

/-- MIXED models (some used declaration is continuous): the discrete declarations are enumerated exactly, each residual
LP over the continuous ones is solved by the independent vertex enumeration of `RefResidual.sub`
(`Ref.refSolveMixed`; `Props.C03.refSolveMixed_*` say what the combination proves when the residual answers are right).
The returned point is floating point: feasibility is checked within 1e-6. -/
def mixedJudge (m : Model (Ext Rat)) (outcome : Sexp) : Sexp :=
  if !(noDupNames (m.domain.map (·.name))) then app "ok" [.atom "skipped-continuous"] else
  match Ref.refSolveMixed RefResidual.sub m, outcome with
  | .unknown, _ => app "ok" [.atom "skipped-continuous"]
  | .unbounded, _ => app "ok" [.atom "skipped-continuous"]
  | .infeasible, .list [.atom "infeasible"] => app "ok" [.atom "mixed-infeasible"]
  | .infeasible, .list (.atom "solution" :: _) => app "violation" [.atom "solution-for-infeasible-model"]
  | .infeasible, o => app "violation" [.atom "wrong-verdict-for-infeasible-model", o]
  | .optimal v w, .list [.atom "solution", rv, asg] =>
    match decAssign asg with
    | none => app "err" [.atom "decode-assignment"]
    | some a =>
      let a := snap m a
      let ρ := Ref.lookup a
      if !(RefResidual.srcFeasibleTol m ρ) then
        app "violation" [.atom "returned-point-infeasible", Oracle.encAssign a, Oracle.encAssign w]
      else match m.optType with
        | .satisfy => app "ok" [.atom "mixed-feasible"]
        | _ =>
          match (decNumS rv : Option (Ext Rat)), eval ρ m.objective with
          | some (.fin reported), some actual =>
            if !(close reported actual) then
              app "violation" [.atom "objective-mismatch", encRat reported, encRat actual]
            else if !(close actual v) then
              app "violation" [.atom "not-optimal", encRat actual, encRat v, Oracle.encAssign w]
            else app "ok" [.atom "mixed-optimal"]
          | _, _ => app "violation" [.atom "objective-not-finite"]
  | .optimal _ _, o => app "violation" [.atom "no-solution-for-feasible-model", o]

/-- exact oracle for C03/C16-style end-to-end answers: `ref <model> <outcome>`. -/
def oracle : List Sexp → Sexp
  | [.atom "ref", m, outcome] =>
    match (Model.dec m : Option (Model (Ext Rat))) with
    | none => app "err" [.atom "decode"]
    | some m =>
      let verdict := Ref.refSolve m
      match verdict, outcome with
      | .continuous, outcome => mixedJudge m outcome
      | .undefinedObjective, _ => app "ok" [.atom "skipped-undefined-objective"]
      | .infeasible, .list [.atom "infeasible"] => app "ok" [.atom "infeasible"]
      | .infeasible, .list (.atom "solution" :: _) => app "violation" [.atom "solution-for-infeasible-model"]
      | .infeasible, o => app "violation" [.atom "wrong-verdict-for-infeasible-model", o]
      | .feasibleAny w, .list [.atom "solution", _, asg] | .optimal _ w, .list [.atom "solution", _, asg] =>
        match decAssign asg with
        | none => app "err" [.atom "decode-assignment"]
        | some a =>
          let a := snap m a
          let ρ := Ref.lookup a
          if !(srcFeasible m ρ) then
            app "violation" [.atom "returned-point-infeasible", Oracle.encAssign a, Oracle.encAssign w]
          else match verdict, outcome with
            | .optimal v _, .list [.atom "solution", rv, _] =>
              match (decNumS rv : Option (Ext Rat)), eval ρ m.objective with
              | some (.fin reported), some actual =>
                if !(close reported actual) then
                  app "violation" [.atom "objective-mismatch", encRat reported, encRat actual]
                else if !(close actual v) then
                  app "violation" [.atom "not-optimal", encRat actual, encRat v, Oracle.encAssign w]
                else app "ok" [.atom "optimal"]
              | _, _ => app "violation" [.atom "objective-not-finite"]
            | _, _ => app "ok" [.atom "feasible"]
      | .feasibleAny _, o | .optimal _ _, o => app "violation" [.atom "no-solution-for-feasible-model", o]
  | _ => app "err" [.atom "bad-request"]
end Rooc.Drv.C03
