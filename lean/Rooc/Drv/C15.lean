import Rooc.Wire
import Rooc.WireSolve
import Rooc.SolveOracle
import Rooc.Milp
namespace Rooc.Drv.C15
open Rooc Sexp SolverWrap

def decGap {α : Type} [Wire α] : Sexp → Option (Option α)
  | .atom "none" => some none
  | .list [.atom "gap", g] => (decNumS g).map some
  | _ => none
def decLimit : Sexp → Option (Option Nat)
  | .atom "none" => some none
  | .list [.atom "limit", n] => (decNat n).map some
  | _ => none

/-- model requests for C15: `milp-with <linmodel> <gap> <limit> <raw microlp outcome of the search>`
(`milp-with-fixed` = the repaired labelling). -/
def handle (α : Type) [Arith α] [Wire α] : List Sexp → Sexp
  | [.atom which, lm, gap, limit, out] =>
    match (LinModel.dec lm : Option (LinModel α)), (decGap gap : Option (Option α)), decLimit limit,
          (MlpOutcome.dec out : Option (MlpOutcome α)) with
    | some lm, some gap, some limit, some out =>
      let o : Milp.Options α := { mipGap := gap, timeLimitNs := limit }
      if which == "milp-with" then (Milp.solveMilpWith lm o (fun _ => out)).enc lm.vars
      else if which == "milp-with-fixed" then (Milp.solveMilpWithFixed lm o (fun _ => out)).enc lm.vars
      else if which == "builder-microlp" then ((Milp.Microlp.build gap limit).solve lm (fun _ => out)).enc lm.vars
      else if which == "builder-microlp-fixed" then ((Milp.Microlp.build gap limit).solveFixed lm (fun _ => out)).enc lm.vars
      else app "err" [.atom "bad-request"]
    | _, _, _, _ => app "err" [.atom "decode"]
  | _ => app "err" [.atom "bad-request"]

/-- exact oracle: feasibility of the returned point, label against the certified optimum and the requested gap. -/
def oracle : List Sexp → Sexp
  | [.atom "label", lm, gap, limit, res, res0, .atom raw] =>
    match (LinModel.dec lm : Option (LinModel (Ext Rat))), (decGap gap : Option (Option (Ext Rat))), decLimit limit,
          (ImplRes.dec res : Option (ImplRes (Ext Rat))), (ImplRes.dec res0 : Option (ImplRes (Ext Rat))) with
    | some lm, some gap, some limit, some r, some r0 => SolveOracle.checkLabel lm { gap := gap, limitNs := limit } r r0 raw
    | _, _, _, _, _ => app "err" [.atom "decode"]
  | _ => app "err" [.atom "bad-request"]
end Rooc.Drv.C15
