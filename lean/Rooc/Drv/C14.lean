import Rooc.Wire
import Rooc.Oracle
import Rooc.WireTab
import Rooc.TabOracle
import Rooc.Drv.C13
import Rooc.Gen.Simplex
namespace Rooc.Drv.C14
open Rooc Sexp

def CanonErr.enc : CanonErr → Sexp
  | .infeasible => app "err" [.atom "Infesible"]
  | .invalidBasis => app "err" [.atom "InvalidBasis"]
  | .simplexError e => app "err" [.atom "SimplexError", .atom e.name]

variable {α : Type} [Arith α] [Wire α]

def encAction : StepAction α → Sexp
  | .finished => .atom "finished"
  | .pivot h t r => app "pivot" [encNat h, encNat t, encNum r]

/-- model requests for C14 (run at `Float` for the exact diff, at `Ext Rat` as oracle). -/
def handle (α : Type) [Arith α] [Wire α] : List Sexp → Sexp
  | [.atom "tableau", tol, sm] =>
    if !(C13.tolOk tol) then app "err" [.atom "tolerance-mismatch"] else
    match (decNumS tol : Option α), (StdModel.dec sm : Option (StdModel α)) with
    | some tol, some sm =>
      match Tableau.intoTableau tol Gen.stallLimitExtra Gen.phase1IterationLimit sm with
      | .ok T => app "ok" [T.enc]
      | .error e => CanonErr.enc e
    | _, _ => app "err" [.atom "decode"]
  | [.atom "flt", tol, a, b] =>
    -- the tolerance predicate `float_lt` itself (probed at large and small arguments)
    if !(C13.tolOk tol) then app "err" [.atom "tolerance-mismatch"] else
    match (decNumS tol : Option α), (decNumS a : Option α), (decNumS b : Option α) with
    | some tol, some a, some b => app "ok" [.atom (if Tol.flt tol a b then "true" else "false")]
    | _, _, _ => app "err" [.atom "decode"]
  | [.atom "step", tol, prefer, T] =>
    if !(C13.tolOk tol) then app "err" [.atom "tolerance-mismatch"] else
    match (decNumS tol : Option α), decNats prefer, (Tab.dec T : Option (Tab α)) with
    | some tol, some prefer, some T =>
      match Tableau.step tol T prefer with
      | .ok (.finished, _) => app "ok" [.atom "finished"]
      | .ok (act, T') => app "ok" [encAction act, T'.enc]
      | .error e => app "err" [.atom e.name]
    | _, _, _ => app "err" [.atom "decode"]
  | [.atom "solve", tol, limit, T] =>
    if !(C13.tolOk tol) then app "err" [.atom "tolerance-mismatch"] else
    match (decNumS tol : Option α), decNat limit, (Tab.dec T : Option (Tab α)) with
    | some tol, some limit, some T =>
      let out := Tableau.solve tol Gen.stallLimitExtra limit [] T
      match out.result with
      | .error e => app "solved" [.atom e.name, out.final.enc]      -- the steps are lost with the error
      | .ok () =>
        app "solved" [.atom "ok", encNat out.steps.length, out.final.enc,
          app "values" ((Tableau.variablesValues out.final).map encNum), encNum (Tableau.optimalValue out.final),
          app "trace" (out.steps.map fun (P, _, _, _) => .list [.list (P.c.map encNum), encNum P.value])]
    | _, _, _ => app "err" [.atom "decode"]
  | _ => app "err" [.atom "bad-request"]

/-- exact oracle: the PROPERTY evaluated on the implementation's own trace. -/
def oracle : List Sexp → Sexp
  | [.atom "check-trace", tol, sm, start, .list (.atom "steps" :: steps), final] =>
    match (decNumS tol : Option (Ext Rat)), (StdModel.dec sm : Option (StdModel (Ext Rat))) with
    | some (.fin tol), some sm => TabOracle.check tol sm start steps final
    | _, _ => app "err" [.atom "decode"]
  | _ => app "err" [.atom "bad-request"]
end Rooc.Drv.C14
