import Rooc.Wire
import Rooc.WireSolve
import Rooc.SolveOracle
import Rooc.SlowSimplex
import Rooc.Drv.C13
import Rooc.Gen.Simplex
namespace Rooc.Drv.C04
open Rooc Sexp SolverWrap

def strs (l : List Sexp) : Option (List String) := optAll (l.map fun | .str s => some s | _ => none)

/-- model requests for C04: rooc's own wrapper code applied to the external solver's raw answer. -/
def handle (α : Type) [Arith α] [Wire α] : List Sexp → Sexp
  | [.atom "milp-wrap", lm, out] =>
    match (LinModel.dec lm : Option (LinModel α)), (MlpOutcome.dec out : Option (MlpOutcome α)) with
    | some lm, some out => (wrapMilp lm out).enc lm.vars
    | _, _ => app "err" [.atom "decode"]
  | [.atom "milp-wrap-fixed", lm, out] =>
    match (LinModel.dec lm : Option (LinModel α)), (MlpOutcome.dec out : Option (MlpOutcome α)) with
    | some lm, some out => (wrapMilpFixed lm out).enc lm.vars
    | _, _ => app "err" [.atom "decode"]
  | [.atom "auto-wrap", lm, out] =>
    match (LinModel.dec lm : Option (LinModel α)), (MlpOutcome.dec out : Option (MlpOutcome α)) with
    | some lm, some out => (wrapAuto lm out).enc lm.vars
    | _, _ => app "err" [.atom "decode"]
  | [.atom "microlp-wrap", lm, out] =>
    match (LinModel.dec lm : Option (LinModel α)), (MlpOutcome.dec out : Option (MlpOutcome α)) with
    | some lm, some out => (wrapMicroLp lm out).enc lm.vars
    | _, _ => app "err" [.atom "decode"]
  | [.atom "clarabel-wrap", lm, out] =>
    match (LinModel.dec lm : Option (LinModel α)), (ClarabelOutcome.dec out : Option (ClarabelOutcome α)) with
    | some lm, some out => (wrapClarabel lm out).enc lm.vars
    | _, _ => app "err" [.atom "decode"]
  | [.atom "clarabel-wrap-v", .atom e, .atom pc, lm, out, feas] =>
    match (LinModel.dec lm : Option (LinModel α)), (ClarabelOutcome.dec out : Option (ClarabelOutcome α)),
          (ClarabelOutcome.dec feas : Option (ClarabelOutcome α)) with
    | some lm, some out, some feas =>
      (wrapClarabelV { emptyModelHandled := e == "1", primalCheck := pc == "1" } lm out feas).enc lm.vars
    | _, _, _ => app "err" [.atom "decode"]
  | [.atom "simplex-wrap", tol, limit, lm] =>
    -- the WHOLE entry point `solve_real_lp_problem_slow_simplex` (no external solver involved)
    if !(C13.tolOk tol) then app "err" [.atom "tolerance-mismatch"] else
    match (decNumS tol : Option α), decInt limit, (LinModel.dec lm : Option (LinModel α)) with
    | some tol, some limit, some lm =>
      (SlowSimplex.solveReal tol Gen.stallLimitExtra Gen.phase1IterationLimit lm limit).enc lm.vars
    | _, _, _ => app "err" [.atom "decode"]
  | [.atom "as-lp-solution", .list names, .list values, value] =>
    match strs names, optAll (values.map (decNumS (α := α))), (decNumS value : Option α) with
    | some names, some values, some value => (asLpSolution names values value).enc names
    | _, _, _ => app "err" [.atom "decode"]
  | [.atom "assign-map", .list pairs] =>
    match (decPairs pairs : Option (List (String × α))) with
    | some ps => app "ok" (encPairs (buildAssignmentMap ps))
    | none => app "err" [.atom "decode"]
  | [.atom "calc", lm, .list values] =>
    match (LinModel.dec lm : Option (LinModel α)), optAll (values.map (decNumS (α := α))) with
    | some lm, some values =>
      let enc1 : Option α → Sexp | some v => encNum v | none => .atom "panic"
      let encL : Option (List (String × α)) → Sexp | some l => .list (encPairs l) | none => .atom "panic"
      app "ok" [enc1 (calcObjective lm values), encL (calcConstraints lm values), encL (constraintsMap lm values)]
    | _, _ => app "err" [.atom "decode"]
  | _ => app "err" [.atom "bad-request"]

/-- exact oracle: the PROPERTY evaluated on the implementation's own answer. -/
def oracle : List Sexp → Sexp
  | [.atom "check-solution", lm, .atom solver, res] =>
    match (LinModel.dec lm : Option (LinModel (Ext Rat))), (ImplRes.dec res : Option (ImplRes (Ext Rat))) with
    | some lm, some (.ok s byname) => SolveOracle.checkSolution lm solver s byname
    | some _, some _ => app "ok" [.atom "no-solution"]
    | _, _ => app "err" [.atom "decode"]
  | _ => app "err" [.atom "bad-request"]
end Rooc.Drv.C04
