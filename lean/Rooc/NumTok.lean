/- Number-token tables of the protocol: `(toks (#xBITS "string") …)` = the string Rust's `Display`
printed for each number that a printer may have to show.  Import-free. -/
import Rooc.Wire
namespace Rooc.NumTok
open Rooc Sexp

def decToks : Sexp → Option (List (String × String))
  | .list (.atom "toks" :: es) => optAll (es.map fun
      | .list [.atom k, .str s] => some (k, s)
      | _ => none)
  | _ => none

/-- the token of `v`; `?` when the harness did not ship one (shows up as a mismatch). -/
def tokStr {α : Type} [Wire α] (tbl : List (String × String)) (v : α) : String :=
  match tbl.find? (fun p => p.1 == Wire.enc v) with
  | some (_, s) => s
  | none => "?"

def tokOf {α : Type} [Wire α] (tbl : List (String × String)) (v : α) : List Char := (tokStr tbl v).toList
end Rooc.NumTok
