/-
Reference interpreter for MIXED models (discrete + continuous declarations): the used Boolean / IntegerRange
declarations are enumerated EXACTLY; for each of their assignments the model with those values substituted (the
RESIDUAL model, over the continuous declarations only) is DELEGATED to a sub-solver `sub`, and the answers are
combined (any unbounded residual → unbounded; otherwise the best residual optimum, first best wins).
Import-free; `Rooc/Proofs/RefMixedLemmas.lean` proves that the combination is right whenever `sub` is right on the
residuals.
-/
import Rooc.Ref
namespace Rooc
namespace Ref
variable {K : Type} [ExactField K]
open ExactField Sem

/-- all assignments of the used DISCRETE declared variables; continuous declarations are skipped. -/
def discreteAssignments : List (DomVar (Ext K)) → List (List (String × K))
  | [] => [[]]
  | d :: ds =>
    if d.usage == 0 then discreteAssignments ds else
    match domainValues d.ty with
    | some vs => (discreteAssignments ds).flatMap fun a => vs.map fun v => (d.name, v) :: a
    | none => discreteAssignments ds

/-- the association list gives `s` a value. -/
def bound (a : List (String × K)) (s : String) : Bool := a.any (·.1 == s)

/-- `ρ` with the names of `a` overridden by `a`. -/
def over (a : List (String × K)) (ρ : String → K) : String → K :=
  fun s => if bound a s then lookup a s else ρ s

mutual
/-- substitute the values of `a` for its names. -/
def substExp (a : List (String × K)) : Exp (Ext K) → Exp (Ext K)
  | .num v => .num v
  | .var s => if bound a s then .num (.fin (lookup a s)) else .var s
  | .abs e => .abs (substExp a e)
  | .min es => .min (substList a es)
  | .max es => .max (substList a es)
  | .and es => .and (substList a es)
  | .or es => .or (substList a es)
  | .not e => .not (substExp a e)
  | .xor x y => .xor (substExp a x) (substExp a y)
  | .implies x y => .implies (substExp a x) (substExp a y)
  | .iff x y => .iff (substExp a x) (substExp a y)
  | .bin op x y => .bin op (substExp a x) (substExp a y)
  | .un op e => .un op (substExp a e)
def substList (a : List (String × K)) : List (Exp (Ext K)) → List (Exp (Ext K))
  | [] => []
  | e :: es => substExp a e :: substList a es
end

/-- a declaration that the enumeration fixes. -/
def enumerated (d : DomVar (Ext K)) : Bool := d.usage != 0 && (domainValues d.ty).isSome

/-- the residual model of a discrete assignment: values substituted, the fixed declarations removed. -/
def residual (a : List (String × K)) (m : Model (Ext K)) : Model (Ext K) :=
  { optType := m.optType,
    objective := substExp a m.objective,
    constraints := m.constraints.map fun c => { c with lhs := substExp a c.lhs, rhs := substExp a c.rhs },
    domain := m.domain.filter fun d => !(enumerated d) }

/-- what the sub-solver says about a residual model (witnesses as association lists over the continuous names). -/
inductive SubVerdict (K : Type) where
  | infeasible
  | optimal (value : K) (witness : List (String × K))
  | unbounded
  | unknown
  deriving Repr

inductive MixedVerdict (K : Type) where
  | infeasible
  /-- the witness lists the discrete values first, then the continuous ones: `lookup` reads it as one assignment. -/
  | optimal (value : K) (witness : List (String × K))
  | unbounded
  | unknown
  deriving Repr

def SubVerdict.isUnknown : SubVerdict K → Bool | .unknown => true | _ => false
def SubVerdict.isUnbounded : SubVerdict K → Bool | .unbounded => true | _ => false

/-- enumerate, delegate, combine.  For a `satisfy` model `best` keeps the first feasible residual. -/
def refSolveMixed (sub : Model (Ext K) → SubVerdict K) (m : Model (Ext K)) : MixedVerdict K :=
  let rs := (discreteAssignments m.domain).map fun a => (a, sub (residual a m))
  if rs.any (fun r => r.2.isUnknown) then .unknown
  else if rs.any (fun r => r.2.isUnbounded) then .unbounded
  else
    match best m.optType (rs.filterMap fun r => match r.2 with
        | .optimal v w => some (v, r.1 ++ w)
        | _ => none) with
    | some (v, w) => .optimal v w
    | none => .infeasible

/-- the sub-solver for residuals WITHOUT variables (every used declaration was enumerated): evaluate once. -/
def subConst (m' : Model (Ext K)) : SubVerdict K :=
  if srcFeasible m' (lookup []) then
    match eval (lookup []) m'.objective with
    | some v => .optimal v []
    | none => .unknown
  else .infeasible

end Ref
end Rooc
