/-
C10 oracle, refined classification (import-free; runs at `Ext Rat`).

Differences to `Oracle.checkRewrite`:
* IEEE rounding is kept outside the exact statement: the two sides must agree up to a relative
  1e-9 either directly or after every literal of the implementation's output that lies within
  tolerance of the exact value of a subterm of the input (at the assignment under test) has been
  snapped to that exact value (a tolerance on the final values alone is not enough:
  `1 / (x + 2/1.000000001)` at `x = -2` amplifies one ulp to a relative error of 1e-7).  Inputs
  whose exact subterm values leave the range in which doubles are dense (|v| < 1e-290 or > 1e290)
  are skipped.
* the division clause follows the theorems of `Rooc.Props.C10`:
  - `definedness-created`        : outside the collapse region, finite literals, rounding-free folding: the input
                                   is undefined at an assignment at which the output is defined (converse of
                                   `simplify_eval_eq` / `flatten_eval_eq`);
  - `division-erased`            : hypothesis of `div_preserved_nonconstant` holds (`protDiv`:
                                   some divisor does not simplify to a non-zero literal),
                                   conclusion fails on the implementation's output;
  - `division-erased-semantic`   : a semantically bad division outside absorbing constants vanished
                                   and nothing below explains it;
  - `division-erased-divisor-undefined-under-absorbing-constant` : the divisor is undefined at every
                                   assignment (empty min/max …) but simplifies to a non-zero literal
                                   because an absorbing constant inside it drops the undefined operand;
  - `division-erased-under-absorbing-constant` : as before.
  Value differences caused by the `x and 1 ↦ x` collapse are reported before the semantic division
  checks (a collapsed operand inside a divisor changes whether the divisor is constant).
-/
import Rooc.Oracle
import Rooc.ExpShape
namespace Rooc
namespace OracleC10
open Sem Oracle

partial def subterms {α : Type} : Exp α → List (Exp α)
  | e@(.num _) | e@(.var _) => [e]
  | e@(.abs a) | e@(.not a) | e@(.un _ a) => e :: subterms a
  | e@(.min es) | e@(.max es) | e@(.and es) | e@(.or es) => e :: es.flatMap subterms
  | e@(.xor a b) | e@(.implies a b) | e@(.iff a b) | e@(.bin _ a b) => e :: (subterms a ++ subterms b)

def absR (q : Rat) : Rat := if q < 0 then -q else q

def subVals (ρ : String → Rat) (e : Exp (Ext Rat)) : List Rat :=
  (subterms e).filterMap (eval ρ)

/-- nearest element of `S` within `tol` of `c` (or `c` itself). -/
def snapLit (S : List Rat) (tol : Rat) (c : Rat) : Rat :=
  let best := S.foldl (fun (acc : Option Rat) s =>
    let d := absR (s - c)
    if d ≤ tol then
      match acc with
      | some b => if d < absR (b - c) then some s else acc
      | none => some s
    else acc) none
  best.getD c

partial def snap (S : List Rat) (tol : Rat) : Exp (Ext Rat) → Exp (Ext Rat)
  | .num (.fin c) => .num (.fin (snapLit S tol c))
  | .num x => .num x
  | .var s => .var s
  | .abs e => .abs (snap S tol e)
  | .not e => .not (snap S tol e)
  | .un op e => .un op (snap S tol e)
  | .min es => .min (es.map (snap S tol))
  | .max es => .max (es.map (snap S tol))
  | .and es => .and (es.map (snap S tol))
  | .or es => .or (es.map (snap S tol))
  | .xor a b => .xor (snap S tol a) (snap S tol b)
  | .implies a b => .implies (snap S tol a) (snap S tol b)
  | .iff a b => .iff (snap S tol a) (snap S tol b)
  | .bin op a b => .bin op (snap S tol a) (snap S tol b)

def tiny : Rat := 1 / (10 : Rat)^(290 : Nat)
def huge : Rat := (10 : Rat)^(290 : Nat)

/-! ### Bool mirrors of `Exp.badDivisor`, `Exp.HasDivBy`, `Exp.DivS` (see `Proofs/ExpLemmasDiv`) -/

def badDivisor : Exp (Ext Rat) → Bool
  | .num z => Arith.eq z Arith.zero
  | _ => true

partial def hasDivByBad : Exp (Ext Rat) → Bool
  | .num _ | .var _ => false
  | .abs e | .not e | .un _ e => hasDivByBad e
  | .min es | .max es | .and es | .or es => es.any hasDivByBad
  | .xor a b | .implies a b | .iff a b => hasDivByBad a || hasDivByBad b
  | .bin op a b => hasDivByBad a || hasDivByBad b || (op == .div && badDivisor b)

def absorbing (isAnd : Bool) (v : Ext Rat) : Bool :=
  if isAnd then !(Exp.numTruthy v) else Exp.numTruthy v
def isLitAbs (isAnd : Bool) : Exp (Ext Rat) → Bool
  | .num v => absorbing isAnd v
  | _ => false

/-- Bool mirror of `Exp.DivS badDivisor`: some division whose divisor does not simplify to a non-zero
literal — the hypothesis of `Rooc.Props.C10.div_preserved_nonconstant` (FULL since rooc 9f62afd: no
condition on absorbing constants any more). -/
partial def protDiv : Exp (Ext Rat) → Bool
  | .num _ | .var _ => false
  | .abs e | .not e | .un _ e => protDiv e
  | .min es | .max es | .and es | .or es => es.any protDiv
  | .xor a b | .implies a b | .iff a b => protDiv a || protDiv b
  | .bin op a b => protDiv a || protDiv b || (op == .div && badDivisor (Exp.simplify b))

/-- some division whose divisor is undefined at every small assignment although it simplifies to a
non-zero finite literal. -/
def divisorUndefErased (asg : List (List (String × Rat))) (e : Exp (Ext Rat)) : Bool :=
  (subterms e).any fun s =>
    match s with
    | .bin .div _ d =>
      asg.all (fun a => (eval (lookup a) d).isNone) &&
        (match Exp.simplify d with
         | .num (.fin k) => k != 0
         | _ => false)
    | _ => false

def checkRewrite (e e' : Exp (Ext Rat)) : Sexp :=
  let vs := (dedup (vars e ++ vars e')).take 4
  let asg := assignments smallVals vs
  let allVals := asg.flatMap (fun a => subVals (lookup a) e)
  -- final values agree up to a relative 1e-9 ...
  let close (v w : Rat) : Bool :=
    let d := absR (v - w)
    let m := max 1 (max (absR v) (absR w))
    d ≤ m / 1000000000
  -- ... either directly, or after un-rounding the folded literals (needed when a rounding error is
  -- amplified by cancellation; the direct comparison is needed when a rounded literal coincides with
  -- another exact subterm value, e.g. `1 + 2^-54` folded to `1`)
  let bad (a : List (String × Rat)) : Bool :=
    let ρ := lookup a
    match eval ρ e with
    | some v =>
      let S := subVals ρ e
      let M := S.foldl (fun m s => max m (absR s)) 1
      let e'' := snap S (M / 1000000000) e'
      let ok1 := match eval ρ e' with | some w => close v w | none => false
      let ok2 := match eval ρ e'' with | some w => close v w | none => false
      !(ok1 || ok2)
    | none => false
  let report (kind : String) (a : List (String × Rat)) : Sexp :=
    Sexp.app "violation" [.atom kind, encAssign a, encOptRat (eval (lookup a) e), encOptRat (eval (lookup a) e')]
  if hasNonFinite e' && !(hasNonFinite e) then Sexp.app "ok" [.atom "skipped-float-overflow"]
  else if allVals.any (fun v => v != 0 && (absR v < tiny || absR v > huge)) then
    Sexp.app "ok" [.atom "skipped-float-range"]
  else
  -- region covered by the theorems: `simplify_sound_partial` (operands of and/or nodes are 0/1 at the
  -- assignment) and `simplify_eval_eq` (no and/or node collapses to a non-logic operand — the very
  -- predicate `Exp.collapsesNonbinary` of the theorem, domain-independent instance)
  let noCollapse := !(Exp.collapsesNonbinary (fun _ => false) e)
  -- converse direction (`simplify_eval_eq`, `flatten_eval_eq`): outside the collapse region and with finite
  -- literals the rewrite creates no definedness.  Only judged when the folding was rounding-free (every literal
  -- of the output is an exact subterm value of the input, or 0/1), so that a divisor that is exactly zero is not
  -- mistaken for one that rounds to a non-zero double.
  let litsOf : Exp (Ext Rat) → List Rat := fun x => (subterms x).filterMap fun t =>
    match t with | .num (.fin c) => some c | _ => none
  let roundingFree := (litsOf e').all fun c => c == 0 || c == 1 || allVals.contains c || (litsOf e).contains c
  let created (a : List (String × Rat)) : Bool :=
    (eval (lookup a) e).isNone && (eval (lookup a) e').isSome
  match asg.find? (fun a => (noCollapse || logicOperands01 (lookup a) e) && bad a) with
  | some a => report "value" a
  | none =>
    if noCollapse && !(hasNonFinite e) && !(hasNonFinite e') && roundingFree && asg.any created then
      (match asg.find? created with
       | some a => report "definedness-created" a
       | none => Sexp.app "ok" [.atom "unreachable"])
    else
    if protDiv e && !(hasDivByBad e') && !(hasNonFinite e) then Sexp.app "violation" [.atom "division-erased"]
    else match asg.find? bad with
    | some a => report "value-nonbinary-logic-operand" a
    | none =>
      if hasBadDiv e && !(hasBadDiv e') && !(hasNonFinite e) then
        if hasBadDivOutsideAbsorbing e then
          if divisorUndefErased asg e then
            Sexp.app "violation" [.atom "division-erased-divisor-undefined-under-absorbing-constant"]
          else Sexp.app "violation" [.atom "division-erased-semantic"]
        else Sexp.app "violation" [.atom "division-erased-under-absorbing-constant"]
      else Sexp.app "ok" [.atom (toString asg.length)]

end OracleC10
end Rooc
