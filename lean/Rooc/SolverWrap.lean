/-
rooc's OWN code around the external solvers, as pure functions (the solvers themselves are parameters: their
raw output is an input here).  Ports of

* `linear_model.rs`: `calc_objective`, `calc_constraints`, `make_constraints_map_from_assignment`
* `common.rs`: `build_assignment_map` (first duplicate wins), `LpSolution::new` (status defaults to Optimal)
* `milp_solver.rs`: domain → (lb, ub, integrality), read-back `as i32` / `!= 0.0`, error mapping, objective + offset
* `simplex_solver.rs::solve_real_lp_problem_micro_lp`: pre-checks, `inf`/`NaN` objective mapping, error mapping
* `good_lp.rs::solve_with_good_lp` + `clarabel.rs`: pre-checks, DualInfeasible → Unbounded, recomputed objective,
  `collect_good_lp_duals` (non-empty names only)
* `auto_solver.rs`
* `optimal_tableau.rs::as_lp_solution`: free-variable recombination and slack removal by NAME PREFIX

Polymorphic in the number type (`Float` for the bit-exact diff, `Ext Rat` / `Ext K` for oracle and theorems).
Import-free.
-/
import Rooc.Model
namespace Rooc
namespace SolverWrap
variable {α : Type} [Arith α]
open Arith

/-! ### IndexMap behaviour -/

/-- `IndexMap::insert`: a repeated key keeps its first position and takes the new value. -/
def imInsert {β : Type} (m : List (String × β)) (k : String) (v : β) : List (String × β) :=
  if m.any (·.1 == k) then m.map (fun p => if p.1 == k then (k, v) else p) else m ++ [(k, v)]

/-- `iter.collect::<IndexMap<_,_>>()`. -/
def imCollect {β : Type} (l : List (String × β)) : List (String × β) :=
  l.foldl (fun m p => imInsert m p.1 p.2) []

def imGet {β : Type} (m : List (String × β)) (k : String) : Option β :=
  (m.find? (·.1 == k)).map (·.2)

/-- `build_assignment_map`: `entry(name).or_insert(value)` — the FIRST duplicate wins. -/
def buildAssignmentMap {β : Type} (l : List (String × β)) : List (String × β) :=
  l.foldl (fun m p => if m.any (·.1 == p.1) then m else m ++ [p]) []

/-! ### `LinearModel::calc_objective`, `calc_constraints`, `make_constraints_map_from_assignment` -/

/-- `iter.zip(values).map(|(c, v)| c * v).sum::<f64>()` — rustc ≥ 1.83 starts a float sum at `-0.0`. -/
def sumProducts (cs vs : List α) : α :=
  (List.zipWith mul cs vs).foldl add (neg (ofInt 0))

/-- `None` = the Rust panics (length mismatch). -/
def calcObjective (lm : LinModel α) (values : List α) : Option α :=
  if values.length != lm.objective.length then none
  else some (add (sumProducts lm.objective values) lm.offset)

def calcConstraints (lm : LinModel α) (values : List α) : Option (List (String × α)) :=
  if lm.rows.all (fun r => r.coeffs.length == values.length) then
    some (lm.rows.map fun r => (r.name, sumProducts r.coeffs values))
  else none

/-- user rows only (`"__"`-prefixed names are internal), collected into an IndexMap: unnamed rows collapse on the
empty key, a repeated name keeps the LAST activity. -/
def constraintsMap (lm : LinModel α) (values : List α) : Option (List (String × α)) :=
  (calcConstraints lm values).map fun cs => imCollect (cs.filter fun c => !(c.1.startsWith "__"))

/-! ### results -/

inductive Val (α : Type) where
  | real (v : α)
  | int (i : Int)
  | bool (b : Bool)
  deriving Repr, Inhabited

def Val.toNum : Val α → α
  | .real v => v
  | .int i => ofInt i
  | .bool b => if b then ofInt 1 else ofInt 0

inductive Status | optimal | feasible | infeasible | unbounded
  deriving Repr, DecidableEq, Inhabited

structure Solution (α : Type) where
  status : Status
  value : α
  assignment : List (String × Val α)
  constraints : List (String × α)
  shadow : List (String × α)
  deriving Repr, Inhabited

/-- `LpSolution::value_of`. -/
def Solution.valueOf (s : Solution α) (name : String) : Option (Val α) :=
  imGet (buildAssignmentMap s.assignment) name

inductive Res (α : Type) where
  | ok (s : Solution α)
  /-- `SolverError` variant name -/
  | err (variant : String)
  | panic
  deriving Repr, Inhabited

/-- `LpSolution::new`: status `Optimal`, no shadow prices. -/
def lpSolutionNew (assignment : List (String × Val α)) (value : α) (constraints : List (String × α)) : Solution α :=
  { status := .optimal, value := value, assignment := assignment, constraints := constraints, shadow := [] }

/-! ### microlp as a parameter -/

inductive MlpStatus | optimal | feasible | interrupted
  deriving Repr, DecidableEq, Inhabited

inductive MlpOutcome (α : Type) where
  /-- `Ok(solution)`: `status()`, `objective()`, `var_value(v)` per variable -/
  | ok (status : MlpStatus) (objective : α) (values : List α)
  /-- `Err(e)`: `Infeasible | Unbounded | InternalError | InvalidOptions | InvalidOperation` -/
  | err (variant : String)
  deriving Repr, Inhabited

/-- the column the MILP wrapper hands to microlp for a domain: `(lb, ub, integer?)`. -/
def milpColumn : VarType α → α × α × Bool
  | .real lo hi => (lo, hi, false)
  | .nnreal lo hi => (lo, hi, false)
  | .bool => (ofInt 0, ofInt 1, true)
  | .int lo hi => (ofInt lo, ofInt hi, true)

/-- per-domain read-back of a raw solver value (`milp_solver.rs:187-195`). -/
def readBack : VarType α → α → Val α
  | .real _ _, v | .nnreal _ _, v => .real v
  | .int _ _, v => .int (toI32 v)
  | .bool, v => .bool (ne v (ofInt 0))

def domainOf (lm : LinModel α) (name : String) : Option (VarType α) :=
  (lm.domain.find? (·.name == name)).map (·.ty)

def isStrict : Cmp → Bool
  | .lt | .gt => true
  | _ => false

def mapMlpError : String → String
  | "Unbounded" => "Unbounded"
  | "Infeasible" => "Infeasible"
  | _ => "Other"      -- InternalError, InvalidOptions, InvalidOperation

def zipNames (names : List String) (vals : List β) : List (String × β) := List.zip names vals

/-- `solve_milp_lp_problem_with`, everything except the call into microlp (`out` = what microlp answered). The
status of the microlp solution is NOT consulted: that is the code as it stands (C15). -/
def wrapMilp (lm : LinModel α) (out : MlpOutcome α) : Res α :=
  if lm.objective.length != lm.vars.length then .err "Other"
  else if lm.vars.any (fun v => (domainOf lm v).isNone) then .panic
  else if lm.rows.any (fun r => isStrict r.cmp) then .err "UnavailableComparison"
  else match out with
  | .err e => if e == "panic" then .panic else .err (mapMlpError e)   -- a panic inside the dependency propagates
  | .ok _ objective values =>
    let assignment := (zipNames lm.vars values).map fun (n, v) =>
      match domainOf lm n with
      | some ty => (n, readBack ty v)
      | none => (n, .real v)
    match constraintsMap lm values with
    | none => .panic
    | some cm => .ok (lpSolutionNew assignment (add objective lm.offset) cm)

/-- the repaired labelling (fix candidate `fixes/C15-milp-status.diff`): the microlp status decides. -/
def wrapMilpFixed (lm : LinModel α) (out : MlpOutcome α) : Res α :=
  match wrapMilp lm out, out with
  | .ok s, .ok .optimal _ _ => .ok s
  | .ok s, .ok .feasible _ _ => .ok { s with status := .feasible }
  | .ok _, .ok .interrupted _ _ => .err "LimitReached"
  | r, _ => r

/-- a row of a variable-free model is the constant comparison `0 ⋈ rhs` (IEEE comparisons: false on NaN). -/
def constRowHolds (r : LinRow α) : Bool :=
  match r.cmp with
  | .le => le (ofInt 0) r.rhs
  | .ge => le r.rhs (ofInt 0)
  | .eq => eq r.rhs (ofInt 0)
  | .lt => lt (ofInt 0) r.rhs
  | .gt => lt r.rhs (ofInt 0)

/-- `auto_solver`: a model without variables is decided on the spot (every constant row must hold; the value is the
offset), everything else goes to the MILP wrapper. -/
def wrapAuto (lm : LinModel α) (out : MlpOutcome α) : Res α :=
  if lm.domain.isEmpty then
    if lm.rows.all constRowHolds then .ok (lpSolutionNew [] lm.offset []) else .err "Infeasible"
  else wrapMilp lm out

def isContinuous : VarType α → Bool
  | .real _ _ | .nnreal _ _ => true
  | _ => false

/-- `solve_real_lp_problem_micro_lp`, everything except `problem.solve()`. -/
def wrapMicroLp (lm : LinModel α) (out : MlpOutcome α) : Res α :=
  if lm.domain.any (fun d => !(isContinuous d.ty)) then .err "InvalidDomain"
  else if lm.optType == .satisfy then .err "UnimplementedOptimizationType"
  else if lm.vars.any (fun v => (domainOf lm v).isNone) then .err "Other"
  else if lm.objective.length < lm.vars.length then .panic        -- `obj[i]` out of bounds
  else if lm.rows.any (fun r => isStrict r.cmp) then .err "UnavailableComparison"
  else match out with
  | .err e => if e == "panic" then .panic else .err (mapMlpError e)
  | .ok _ objective values =>
    if isInfinite objective then .err "Unbounded"
    else if isNaN objective then .err "Infeasible"
    else
      let assignment := (zipNames lm.vars values).map fun (n, v) => (n, Val.real v)
      match constraintsMap lm values with
      | none => .panic
      | some cm => .ok (lpSolutionNew assignment (add objective lm.offset) cm)

/-! ### good_lp / Clarabel as a parameter -/

inductive ClarabelOutcome (α : Type) where
  /-- `Ok(solution)`: clarabel's `SolverStatus` name, `x`, and good_lp's dual of every row (in row order) -/
  | ok (status : String) (x : List α) (duals : List (String × α))
  /-- `Err(ResolutionError::{Unbounded, Infeasible, Other, Str})` -/
  | err (variant : String)
  deriving Repr, Inhabited

/-- `collect_good_lp_duals`: rows with a non-empty name, collected into an IndexMap. -/
def collectDuals (duals : List (String × α)) : List (String × α) :=
  imCollect (duals.filter fun d => !d.1.isEmpty)

/-- first failing row check of the constraint loop of `solve_with_good_lp`. -/
def goodLpRowError (nvars : Nat) : List (LinRow α) → Option String
  | [] => none
  | r :: rs =>
    if r.coeffs.length != nvars then some "Other"
    else if isStrict r.cmp then some "UnavailableComparison"
    else goodLpRowError nvars rs

/-- which of the two Clarabel-path repairs the code under test contains (both `false` = the code as it stands). -/
structure ClarabelVariant where
  /-- `fixes/C05-clarabel-empty-model.diff`: a variable-free model is decided from its constant rows -/
  emptyModelHandled : Bool
  /-- `fixes/C05-clarabel-dual-infeasible.diff`: dual infeasibility is `Unbounded` only if a zero-objective re-solve is
  not proven infeasible -/
  primalCheck : Bool
  deriving Repr, Inhabited

/-- `solve_real_lp_problem_clarabel` = `solve_with_good_lp` instantiated by `clarabel.rs`.
`feas` = raw answer of the same problem with a zero objective (consulted only by the `primalCheck` variant). -/
def wrapClarabelV (v : ClarabelVariant) (lm : LinModel α) (out feas : ClarabelOutcome α) : Res α :=
  if lm.domain.any (fun d => !(isContinuous d.ty)) then .err "InvalidDomain"
  else if lm.objective.length != lm.vars.length then .err "Other"
  else if v.emptyModelHandled && lm.vars.isEmpty then
    if lm.rows.all constRowHolds then
      match calcObjective lm [], constraintsMap lm [] with
      | some value, some cm => .ok (lpSolutionNew [] value cm)
      | _, _ => .panic
    else .err "Infeasible"
  else if lm.vars.any (fun v => (domainOf lm v).isNone) then .err "Other"
  else match goodLpRowError lm.vars.length lm.rows with
  | some e => .err e
  | none =>
    match out with
    | .err "Unbounded" => .err "Unbounded"
    | .err "Infeasible" => .err "Infeasible"
    | .err "panic" => .panic        -- a panic inside good_lp / clarabel propagates
    | .err _ => .err "Other"
    | .ok status x duals =>
      -- clarabel.rs: (Almost)DualInfeasible is reported as Unbounded (as it stands: without a primal feasibility check)
      if status == "DualInfeasible" || status == "AlmostDualInfeasible" then
        if v.primalCheck then
          match feas with
          | .err "Infeasible" => .err "Infeasible"
          | _ => .err "Unbounded"
        else .err "Unbounded"
      else
        let assignment := (zipNames lm.vars x).map fun (n, v) => (n, Val.real v)
        match calcObjective lm x, constraintsMap lm x with
        | some value, some cm =>
          .ok { status := .optimal, value := value, assignment := assignment, constraints := cm, shadow := collectDuals duals }
        | _, _ => .panic

/-- the code as it stands. -/
def wrapClarabel (lm : LinModel α) (out : ClarabelOutcome α) : Res α :=
  wrapClarabelV { emptyModelHandled := false, primalCheck := false } lm out (.err "unused")

/-! ### tableau simplex: `OptimalTableau::as_lp_solution` -/

def stripPrefix (p s : String) : Option String :=
  if s.startsWith p then some (String.ofList (s.toList.drop p.length)) else none

/-- standard-form names + values → assignment of the original variables. -/
def asLpAssignment (names : List String) (values : List α) : List (String × Val α) :=
  let pairs := zipNames names values
  let map := imCollect pairs
  pairs.filterMap fun (name, val) =>
    if name.startsWith "$su_" || name.startsWith "$sl_" || name.startsWith "$a_" then none
    else
      match (stripPrefix "$m" name).bind (fun rest => imGet map ("$p" ++ rest)) with
      | some _ => none
      | none =>
        match stripPrefix "$p" name with
        | some rest =>
          match imGet map ("$m" ++ rest) with
          | some minus => some (rest, .real (sub val minus))
          | none => some (name, .real val)
        | none => some (name, .real val)

/-- `as_lp_solution`: no row activities are reported by this solver. -/
def asLpSolution (names : List String) (values : List α) (value : α) : Solution α :=
  lpSolutionNew (asLpAssignment names values) value []

/-- error mapping of `solve_real_lp_problem_slow_simplex`: an infeasible phase-1 surfaces as `Other`, not as the
dedicated `Infeasible` kind (C05 finding d). -/
def mapSimplexError : String → String
  | "IterationLimitReached" => "LimitReached"
  | "Unbounded" => "Unbounded"
  | _ => "Other"       -- SimplexError::Other, CanonicalTransformError::{Raw, InvalidBasis, Infesible, SimplexError}

end SolverWrap
end Rooc
