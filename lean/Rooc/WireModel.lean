/- Protocol encoding of `Model` / `LinModel` (DESIGN.md appendix B). Import-free. -/
import Rooc.Model
import Rooc.Wire
namespace Rooc
open Sexp
variable {α : Type} [Wire α]

def Cmp.name : Cmp → String | .le => "le" | .ge => "ge" | .eq => "eq" | .lt => "lt" | .gt => "gt"
def Cmp.ofName : String → Option Cmp
  | "le" => some .le | "ge" => some .ge | "eq" => some .eq | "lt" => some .lt | "gt" => some .gt | _ => none
def OptType.name : OptType → String | .min => "min" | .max => "max" | .satisfy => "solve"
def OptType.ofName : String → Option OptType
  | "min" => some .min | "max" => some .max | "solve" => some .satisfy | _ => none

def encInt (i : Int) : Sexp := .atom (toString i)
def decInt : Sexp → Option Int
  | .atom s => s.toInt?
  | _ => none
def decNat : Sexp → Option Nat
  | .atom s => s.toNat?
  | _ => none

def VarType.enc : VarType α → Sexp
  | .bool => .atom "bool"
  | .nnreal a b => app "nnreal" [encNum a, encNum b]
  | .real a b => app "real" [encNum a, encNum b]
  | .int a b => app "int" [encInt a, encInt b]
def VarType.dec : Sexp → Option (VarType α)
  | .atom "bool" => some .bool
  | .list [.atom "nnreal", a, b] => do pure (.nnreal (← decNumS a) (← decNumS b))
  | .list [.atom "real", a, b] => do pure (.real (← decNumS a) (← decNumS b))
  | .list [.atom "int", a, b] => do pure (.int (← decInt a) (← decInt b))
  | _ => none

def DomVar.enc (d : DomVar α) : Sexp := .list [.str d.name, d.ty.enc, .atom (toString d.usage)]
def DomVar.dec : Sexp → Option (DomVar α)
  | .list [.str n, t, u] => do pure { name := n, ty := ← VarType.dec t, usage := ← decNat u }
  | _ => none

def Constraint.enc (c : Constraint α) : Sexp :=
  if c.isAssert then app "assert" [.str c.name, c.lhs.enc]
  else app "c" [.str c.name, .atom c.cmp.name, c.lhs.enc, c.rhs.enc]
def Constraint.dec [Arith α] : Sexp → Option (Constraint α)
  | .list [.atom "assert", .str n, e] => do
    pure { name := n, lhs := ← Exp.dec e, cmp := .eq, rhs := .num Arith.one, isAssert := true }
  | .list [.atom "c", .str n, .atom c, l, r] => do
    pure { name := n, lhs := ← Exp.dec l, cmp := ← Cmp.ofName c, rhs := ← Exp.dec r, isAssert := false }
  | _ => none

def Model.enc (m : Model α) : Sexp :=
  app "model" [.list [.atom m.optType.name, m.objective.enc],
               app "constraints" (m.constraints.map Constraint.enc),
               app "domain" (m.domain.map DomVar.enc)]
def Model.dec [Arith α] : Sexp → Option (Model α)
  | .list [.atom "model", .list [.atom ot, obj], .list (.atom "constraints" :: cs), .list (.atom "domain" :: ds)] => do
    pure { optType := ← OptType.ofName ot, objective := ← Exp.dec obj,
           constraints := ← optAll (cs.map Constraint.dec), domain := ← optAll (ds.map DomVar.dec) }
  | _ => none

def LinRow.enc (r : LinRow α) : Sexp :=
  app "row" [.str r.name, .atom r.cmp.name, .list (r.coeffs.map encNum), encNum r.rhs]
def LinRow.dec : Sexp → Option (LinRow α)
  | .list [.atom "row", .str n, .atom c, .list cs, r] => do
    pure { name := n, cmp := ← Cmp.ofName c, coeffs := ← optAll (cs.map decNumS), rhs := ← decNumS r }
  | _ => none

def LinModel.enc (m : LinModel α) : Sexp :=
  app "lin" [.atom m.optType.name, app "obj" (m.objective.map encNum), encNum m.offset,
             app "vars" (m.vars.map .str), app "domain" (m.domain.map DomVar.enc),
             app "rows" (m.rows.map LinRow.enc)]
def LinModel.dec : Sexp → Option (LinModel α)
  | .list [.atom "lin", .atom ot, .list (.atom "obj" :: os), off, .list (.atom "vars" :: vs),
           .list (.atom "domain" :: ds), .list (.atom "rows" :: rs)] => do
    pure { optType := ← OptType.ofName ot, objective := ← optAll (os.map decNumS), offset := ← decNumS off,
           vars := ← optAll (vs.map fun | .str s => some s | _ => none),
           domain := ← optAll (ds.map DomVar.dec), rows := ← optAll (rs.map LinRow.dec) }
  | _ => none

end Rooc
