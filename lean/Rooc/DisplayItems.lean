/-
The binary-operator skeleton of `impl Display for Exp` as an ITEM STREAM, and the documented
grouping rules it has to respect (C12).

* `items ctx e` follows `Display` / `to_string_with_precedence` (see `Display.showE`) but keeps
  structure: a parenthesised group and every non-`BinOp` node (number, variable, `abs{}`, `min{}`,
  `-x`, `not x`, n-ary `and`/`or` …) is ONE leaf item carrying the tree it stands for; binary
  operators are infix items.
* `PExpr / PLoop` is the documented way such a stream is grouped: precedence climbing with the
  binding powers of `BinOp::precedence` / `is_left_associative` (regenerated in `Gen.Prec`; the same
  table pest's `PrattParser` is configured with in `exp_parser.rs`).
* `needRight / needLeft` say where these rules REQUIRE parentheses.
Import-free.
-/
import Rooc.Exp
import Rooc.Gen.Prec
import Rooc.Display
namespace Rooc.Display
open Rooc

inductive Item (α : Type) where
  | atom (e : Exp α)      -- a non-`BinOp` node, rendered by `Display` itself
  | group (e : Exp α)     -- `( … )` around the rendering of `e`
  | infix (op : BinOp)
  deriving Inhabited

/-- the tree a leaf item (atom or parenthesised group) stands for -/
def Item.tree? {α : Type} : Item α → Option (Exp α)
  | .atom e => some e
  | .group e => some e
  | .infix _ => none

section
variable {α : Type}

/-- a dedicated logic node (`and`/`or`/`xor`/`implies`/`iff` — the `Exp` variants, not `BinOp`) -/
def isLogicVariant : Exp α → Bool
  | .and _ | .or _ | .xor _ _ | .implies _ _ | .iff _ _ => true
  | _ => false

/-- Item-level twin of `showE` (same case structure): a `BinOp` under a parent is a group when
`parensRule` says so, a dedicated logic node under a parent always is, everything else is an atom. -/
def items : Option (BinOp × Bool) → Exp α → List (Item α)
  | ctx, .bin op lhs rhs =>
    let body := items (some (op, false)) lhs ++ [.infix op] ++ items (some (op, true)) rhs
    match ctx with
    | none => body
    | some (parent, isRhs) => if parensRule parent isRhs op then [.group (.bin op lhs rhs)] else body
  | ctx, e =>
    match ctx with
    | none => [.atom e]
    | some _ => if isLogicVariant e then [.group e] else [.atom e]

/-! ### the documented grouping rules -/

/-- left binding power (pest: `prec` of the level, levels 10 apart). -/
def lbp (o : BinOp) : Nat := 10 * Gen.binPrec o
/-- right binding power: `prec` for a left-associative operator, `prec - 1` for a right-associative one. -/
def rbp (o : BinOp) : Nat := if Gen.binLeftAssoc o then lbp o else lbp o - 1

mutual
/-- `PExpr r items t rest`: reading an expression with minimum binding power `r` from `items`
yields the tree `t` and leaves `rest`. -/
inductive PExpr : Nat → List (Item α) → Exp α → List (Item α) → Prop
  | mk {r it lhs rest1 t rest} : it.tree? = some lhs → PLoop r lhs rest1 t rest → PExpr r (it :: rest1) t rest
inductive PLoop : Nat → Exp α → List (Item α) → Exp α → List (Item α) → Prop
  | stopNil {r lhs} : PLoop r lhs [] lhs []
  | stopOp {r lhs o rest} : ¬ r < lbp o → PLoop r lhs (.infix o :: rest) lhs (.infix o :: rest)
  | step {r lhs o rest rhs rest' t rest''} : r < lbp o → PExpr (rbp o) rest rhs rest' →
      PLoop r (.bin o lhs rhs) rest' t rest'' → PLoop r lhs (.infix o :: rest) t rest''
end

/-- the text of one item -/
def renderItem (tok : α → String) : Item α → String
  | .atom e => showE tok none e
  | .group e => "(" ++ showE tok none e ++ ")"
  | .infix op => binOpStr op

/-- the text of an item stream: items separated by single blanks -/
def renderItems (tok : α → String) (is : List (Item α)) : String := joinWith " " (is.map (renderItem tok))

/-- The stream reads back as the tree `t` (all items consumed). -/
def ReadsAs (is : List (Item α)) (t : Exp α) : Prop := PExpr 0 is t []

/-- parentheses are REQUIRED around a left operand `l` of `o` -/
def needLeft (o : BinOp) : Exp α → Bool
  | .bin o' _ _ => decide (lbp o > rbp o')
  | _ => false
/-- parentheses are REQUIRED around a right operand `r` of `o` -/
def needRight (o : BinOp) : Exp α → Bool
  | .bin o' _ _ => decide (lbp o' ≤ rbp o)
  | _ => false

/-- parentheses are REQUIRED around an operand on the given side of `o` -/
def needSide (o : BinOp) (isRhs : Bool) (e : Exp α) : Bool := if isRhs then needRight o e else needLeft o e

/-- shapes whose meaning depends on the parentheses of a right operand: a `BinOp` at the parent's own
precedence on the right of `-` or `/` (`x - (y - z)`, `x - (y + z)`, `x / (y * z)`, `x / (y / z)`).
Used by the oracle to name the root cause should the rendering ever drop them again. -/
def subDivDefect : Exp α → Bool
  | .bin o l r =>
    ((o == .sub || o == .div) && (match r with | .bin o' _ _ => Gen.binPrec o' == Gen.binPrec o | _ => false))
      || subDivDefect l || subDivDefect r
  | .num _ | .var _ => false
  | .abs e | .not e | .un _ e => subDivDefect e
  | .min es | .max es | .and es | .or es => (es.map fun e => subDivDefect e).any id
  | .xor a b | .implies a b | .iff a b => subDivDefect a || subDivDefect b

/-- a logic node directly under `+ - * /` (`(b and d) + x`): the shape whose parentheses `operand_to_string`
used to drop (repaired in 5d62460); the oracle names this root cause should it ever reappear. -/
def logicUnderArith : Exp α → Bool
  | .bin o l r =>
    ((o == .add || o == .sub || o == .mul || o == .div) && (isLogicVariant l || isLogicVariant r))
      || logicUnderArith l || logicUnderArith r
  | .num _ | .var _ => false
  | .abs e | .not e | .un _ e => logicUnderArith e
  | .min es | .max es | .and es | .or es => (es.map fun e => logicUnderArith e).any id
  | .xor a b | .implies a b | .iff a b => logicUnderArith a || logicUnderArith b

end
end Rooc.Display
