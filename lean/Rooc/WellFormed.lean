/-
C08 — the well-formedness predicate of compiled linear models, as a decidable (executable) check.
The same function is (a) run by the oracle on the IMPLEMENTATION's output and (b) the conclusion of
the theorems in `Rooc/Props/C08.lean` about the linearizer model.  Import-free.
-/
import Rooc.Model
import Rooc.Exp
namespace Rooc
namespace WF
variable {α : Type} [Arith α]
open Arith

def sortedStrict : List String → Bool
  | [] => true
  | [_] => true
  | a :: b :: rest => decide (a < b) && sortedStrict (b :: rest)

def noDup : List String → Bool
  | [] => true
  | x :: xs => !(xs.contains x) && noDup xs

def expVars : Exp α → List String
  | .num _ => []
  | .var s => [s]
  | .abs e | .not e | .un _ e => expVars e
  | .min es | .max es | .and es | .or es => es.flatMap expVars
  | .xor a b | .implies a b | .iff a b | .bin _ a b => expVars a ++ expVars b

/-- a name the compiler may introduce: `$`-prefixed. -/
def isAuxName (s : String) : Bool := s.startsWith "$"

structure Report where
  varsSortedUnique : Bool
  varsEqDomainKeys : Bool
  rowLengths : Bool
  objectiveLength : Bool
  finite : Bool
  namesUnique : Bool
  sourceVarsPresent : Bool
  userNamesKept : Bool
  auxDisjoint : Bool
  deriving Repr

/-- `m` = source model (for the facets that relate output to input), `lm` = compiled model. -/
def report (m : Model α) (lm : LinModel α) : Report :=
  let n := lm.vars.length
  let names := lm.rows.filterMap fun r => if r.name.isEmpty then none else some r.name
  let srcNames := m.constraints.filterMap fun c => if c.name.isEmpty then none else some c.name
  let declared := m.domain.map (·.name)
  let usedSrc := (m.domain.filter (·.usage > 0)).map (·.name)
  { varsSortedUnique := sortedStrict lm.vars
    varsEqDomainKeys := lm.vars.all (fun v => lm.domain.any (·.name == v)) &&
                        lm.domain.all (fun d => lm.vars.contains d.name) && noDup (lm.domain.map (·.name))
    rowLengths := lm.rows.all fun r => r.coeffs.length == n
    objectiveLength := lm.objective.length == n
    finite := lm.rows.all (fun r => r.coeffs.all isFinite && isFinite r.rhs) &&
              lm.objective.all isFinite && isFinite lm.offset
    namesUnique := noDup names
    sourceVarsPresent := usedSrc.all lm.vars.contains
    -- the first use of each user-written name is preserved: every source name that reaches the output
    -- unchanged appears, and every output name is a source name or a `name__k` derivative of one
    userNamesKept := names.all fun nm => srcNames.any fun s => nm == s || nm.startsWith (s ++ "__")
    -- auxiliaries never collide with user variables: every output variable is either declared in the
    -- source or `$`-prefixed and NOT declared in the source
    auxDisjoint := lm.vars.all fun v => declared.contains v || isAuxName v }

def Report.ok (r : Report) (requireFinite : Bool) : Bool :=
  r.varsSortedUnique && r.varsEqDomainKeys && r.rowLengths && r.objectiveLength &&
  (r.finite || !requireFinite) && r.namesUnique && r.sourceVarsPresent && r.userNamesKept && r.auxDisjoint

def Report.failing (r : Report) : List String :=
  (if r.varsSortedUnique then [] else ["vars-not-sorted-unique"]) ++
  (if r.varsEqDomainKeys then [] else ["vars-ne-domain-keys"]) ++
  (if r.rowLengths then [] else ["row-length"]) ++
  (if r.objectiveLength then [] else ["objective-length"]) ++
  (if r.namesUnique then [] else ["row-names-not-unique"]) ++
  (if r.sourceVarsPresent then [] else ["source-variable-missing"]) ++
  (if r.userNamesKept then [] else ["user-row-name-lost"]) ++
  (if r.auxDisjoint then [] else ["aux-name-collision"]) ++
  (if r.finite then [] else ["non-finite-output"])

/-- every variable the source model mentions (objective, both sides of every constraint; the right-hand side of a
logic assertion is a placeholder and is not read). -/
def occurring (m : Model α) : List String :=
  expVars m.objective ++ m.constraints.flatMap fun c => expVars c.lhs ++ (if c.isAssert then [] else expVars c.rhs)

/-- … has a column in the compiled model (independent of the usage counters of the source domain). -/
def occurringPresent (m : Model α) (lm : LinModel α) : Bool :=
  (occurring m).all fun v => lm.vars.contains v && lm.domain.any (·.name == v)

/-- every literal of the source is a finite number (the hypothesis of the finiteness and ordering theorems). -/
def litsFinite : Exp α → Bool
  | .num v => isFinite v
  | .var _ => true
  | .abs e | .not e | .un _ e => litsFinite e
  | .min es | .max es | .and es | .or es => es.attach.all fun ⟨e, _⟩ => litsFinite e
  | .xor a b | .implies a b | .iff a b | .bin _ a b => litsFinite a && litsFinite b

def modelLitsFinite (m : Model α) : Bool :=
  litsFinite m.objective && m.constraints.all fun c => litsFinite c.lhs && litsFinite c.rhs

def typeOrdered : VarType α → Bool
  | .bool => true
  | .int lo hi => decide (lo ≤ hi)
  | .real lo hi | .nnreal lo hi => le lo hi

/-- every published range is ordered (`lower ≤ upper`, so no NaN end). Claimed for sources with finite literals
and ordered declared ranges (`Props.C08.compile_domains_ordered`). -/
def domainOrdered (m : Model α) (lm : LinModel α) : Bool :=
  !(modelLitsFinite m && m.domain.all fun d => typeOrdered d.ty) || lm.domain.all fun d => typeOrdered d.ty

end WF
end Rooc
