/-
M7 — port of `solvers/simplex/tableau.rs` (`step_inner`, `is_optimal`, `find_h`, `find_t`, `pivot`,
`solve_avoiding` / `solve_step_by_step` with the stall counter and the Bland switch, `variables_values`),
of `StandardLinearModel::into_tableau` / `into_tableau_two_phase` (`standard_linear_model.rs`) and of
`OptimalTableau::optimal_value`.  Import-free; polymorphic in the number type; same evaluation order
as the Rust so that the `Float` instantiation is bit-exact.

Tableaus are assumed rectangular (`StandardLinearModel::new` resizes every row); indexing uses a zero
default instead of panicking.
-/
import Rooc.Standardize
import Rooc.Gen.Simplex
namespace Rooc

/-- `Tableau` (variable names are not modelled). -/
structure Tab (α : Type) where
  c : List α
  a : List (List α)
  b : List α
  basis : List Nat
  value : α
  offset : α
  flip : Bool
  deriving Repr, Inhabited

inductive StepAction (α : Type) where
  | pivot (entering leaving : Nat) (ratio : α)
  | finished
  deriving Repr, Inhabited

inductive SimplexErr | unbounded | iterationLimit | other
  deriving Repr, DecidableEq, Inhabited
def SimplexErr.name : SimplexErr → String
  | .unbounded => "Unbounded" | .iterationLimit => "IterationLimitReached" | .other => "Other"

inductive CanonErr | infeasible | invalidBasis | simplexError (e : SimplexErr)
  deriving Repr, DecidableEq, Inhabited

namespace Tableau
variable {α : Type} [Arith α]
open Arith

@[inline] def nth (l : List α) (i : Nat) : α := l.getD i zero
@[inline] def row (a : List (List α)) (i : Nat) : List α := a.getD i []

/-- `r[j] -= f * t[j]` for every `j` (the pivot-row operand `t` is as long as `r` in a rectangular tableau). -/
def rowSubMul (f : α) : List α → List α → List α
  | x :: xs, p :: ps => sub x (mul f p) :: rowSubMul f xs ps
  | xs, [] => xs
  | [], _ => []

/-- `r[j] /= p`. -/
def rowDiv (p : α) (r : List α) : List α := r.map (fun x => div x p)

/-- `is_optimal`: every reduced cost is `float_ge 0`. -/
def isOptimal (tol : α) (T : Tab α) : Bool := T.c.all (fun x => Tol.fge tol x zero)

/-- the eligible entering columns of `find_h`: non-basic with `float_lt(c, 0)`, in index order. -/
def eligible (tol : α) (T : Tab α) : List (Nat × α) :=
  T.c.zipIdx.filterMap fun (x, i) => if !(T.basis.contains i) && Tol.flt tol x zero then some (i, x) else none

/-- `Iterator::min_by(partial_cmp.unwrap_or(Equal))`: the FIRST minimum; a NaN never replaces. -/
def minByFirst : List (Nat × α) → Option (Nat × α)
  | [] => none
  | x :: xs => some (xs.foldl (fun best y => if lt y.2 best.2 then y else best) x)

/-- `find_h`: Dantzig (most negative reduced cost) or Bland (least index). -/
def findH (tol : α) (T : Tab α) (bland : Bool) : Option Nat :=
  if bland then (eligible tol T).head?.map (·.1)
  else (minByFirst (eligible tol T)).map (·.1)

/-- the candidates of the ratio test: rows with `float_gt(a[i][h], 0)` and their ratios. -/
def ratios (tol : α) (T : Tab α) (h : Nat) : List (Nat × α) :=
  T.a.zipIdx.filterMap fun (r, i) => if Tol.fgt tol (nth r h) zero then some (i, div (nth T.b i) (nth r h)) else none

/-- Bland's index rule for a tie of the ratio test: the smaller basic index wins, or a preferred variable. -/
def tieWins (basis prefer : List Nat) (mn ir : Nat × α) : Bool :=
  let bi := basis.getD ir.1 0
  let bm := basis.getD mn.1 0
  let toPrefer := prefer.contains bi && !(prefer.contains bm)
  decide (bi < bm) || toPrefer

/-- one step of the scan of `find_t` (`mn` = best so far, `ir` = next candidate).  The source has one of two
shapes, re-read on every run into `Gen.ratioTestExact`:
* tolerant (`false`): `if float_eq(ratio, min) { index rule } else if float_lt(ratio, min) { take }`;
* exact (`true`, `fixes/C14-ratio-test-exact.diff`): `if ratio < min { take } else if ratio == min { index rule }`. -/
def selRatio (tol : α) (basis prefer : List Nat) (mn ir : Nat × α) : Nat × α :=
  if Gen.ratioTestExact then
    (if lt ir.2 mn.2 then ir
     else if eq ir.2 mn.2 then (if tieWins basis prefer mn ir then ir else mn)
     else mn)
  else
    (if Tol.feq tol ir.2 mn.2 then (if tieWins basis prefer mn ir then ir else mn)
     else if Tol.flt tol ir.2 mn.2 then ir
     else mn)

/-- `find_t`: minimum ratio; ties go to the smaller basic index or a preferred variable. -/
def findT (tol : α) (T : Tab α) (h : Nat) (prefer : List Nat) : Option (Nat × α) :=
  match ratios tol T h with
  | [] => none
  | first :: rest => some (rest.foldl (selRatio tol T.basis prefer) first)

/-- `pivot(t, h)`: variable `h` enters, the basic variable of row `t` leaves. -/
def pivot (T : Tab α) (t h : Nat) : Tab α :=
  let rt := row T.a t
  let p := nth rt h
  let bt := nth T.b t
  let f := div (nth T.c h) p
  { T with
    a := T.a.mapIdx fun i ri => if i = t then rowDiv p ri else rowSubMul (div (nth ri h) p) ri rt
    b := T.b.mapIdx fun i bi => if i = t then div bi p else sub bi (mul (div (nth (row T.a i) h) p) bt)
    c := rowSubMul f T.c rt
    value := sub T.value (mul f bt)
    basis := T.basis.set t h }

/-- `step_inner`. -/
def stepInner (tol : α) (T : Tab α) (prefer : List Nat) (bland : Bool) : Except SimplexErr (StepAction α × Tab α) :=
  if isOptimal tol T then .ok (.finished, T) else
  match findH tol T bland with
  | none => .ok (.finished, T)
  | some h =>
    match findT tol T h prefer with
    | none => .error .unbounded
    | some (t, ratio) => .ok (.pivot h t ratio, pivot T t h)

/-- the public `step`: Dantzig's rule. -/
def step (tol : α) (T : Tab α) (prefer : List Nat) : Except SimplexErr (StepAction α × Tab α) :=
  stepInner tol T prefer false

/-- `variables_values`. -/
def variablesValues (T : Tab α) : List α :=
  (T.basis.zipIdx).foldl (fun vals (j, i) => vals.set j (nth T.b i)) (List.replicate T.c.length zero)

structure SolveOut (α : Type) where
  /-- tableau when the loop stopped (final on success; the state at the error otherwise) -/
  final : Tab α
  /-- the tableaus BEFORE each pivot, oldest first (`SimplexStep.tableau`) -/
  steps : List (Tab α × Nat × Nat × α)
  result : Except SimplexErr Unit

/-- the loop shared by `solve_avoiding` and `solve_step_by_step`; `fuel` = remaining `limit - iteration`. -/
def solveLoop (tol : α) (prefer : List Nat) (stallLimit : Nat) :
    Nat → Tab α → Nat → α → List (Tab α × Nat × Nat × α) → SolveOut α
  | 0, T, _, _, acc => { final := T, steps := acc.reverse, result := .error .iterationLimit }
  | fuel+1, T, stalls, last, acc =>
    match stepInner tol T prefer (decide (stalls > stallLimit)) with
    | .error e => { final := T, steps := acc.reverse, result := .error e }
    | .ok (.finished, _) => { final := T, steps := acc.reverse, result := .ok () }
    | .ok (.pivot h t ratio, T') =>
      if Tol.feq tol T'.value last then solveLoop tol prefer stallLimit fuel T' (stalls+1) last ((T, h, t, ratio) :: acc)
      else solveLoop tol prefer stallLimit fuel T' 0 T'.value ((T, h, t, ratio) :: acc)

/-- `solve_avoiding(limit, prefer)` (`limit ≤ 0` = no iteration at all); `stall_limit = c.len() + a.len() + 1`
(the `1` is `Gen.stallLimitExtra`, regenerated from the source). -/
def solve (tol : α) (stallExtra : Nat) (limit : Nat) (prefer : List Nat) (T : Tab α) : SolveOut α :=
  solveLoop tol prefer (T.c.length + T.a.length + stallExtra) limit T 0 T.value []

/-- `OptimalTableau::optimal_value`. -/
def optimalValue (T : Tab α) : α :=
  add (mul (neg T.value) (if T.flip then ofInt (-1) else one)) T.offset

/-! ### `into_tableau` -/

structure Indep (α : Type) where
  row : Nat
  column : Nat
  value : α

/-- columns with a single (tolerance-)non-zero entry which is (tolerance-)positive. -/
def independentColumns (tol : α) (n : Nat) (a : List (List α)) : List (Indep α) :=
  (List.range n).filterMap fun column =>
    let (count, r, v) := a.zipIdx.foldl (fun (acc : Nat × Nat × α) (cr : List α × Nat) =>
      let coeff := nth cr.1 column
      if Tol.fne tol coeff zero then (acc.1 + 1, cr.2, coeff) else acc) (0, 0, zero)
    if count == 1 && Tol.fgt tol v zero then some { row := r, column := column, value := v } else none

/-- first usable independent variable per row, in row order. -/
def selectPerRow (m : Nat) (vars : List (Indep α)) : List (Indep α) :=
  (List.range m).filterMap fun r => vars.find? (·.row == r)

/-- canonicalising eliminations of the direct start. -/
def canonicalise (sel : List (Indep α)) (a : List (List α)) (b c : List α) : List (List α) × List α × List α × α :=
  sel.foldl (fun (st : List (List α) × List α × List α × α) iv =>
    let (a, b, c, value) := st
    let a := a.modify iv.row (rowDiv iv.value)
    let b := b.modify iv.row (fun x => div x iv.value)
    let amount := nth c iv.column
    let c := rowSubMul amount c (row a iv.row)
    let value := sub value (mul amount (nth b iv.row))
    (a, b, c, value)) (a, b, c, zero)

/-- the drive-out loop after phase 1: for every row whose basic variable is artificial, pivot on the first
structural column with a non-zero entry, or mark the row as redundant. -/
def driveOut (tol : α) (n : Nat) : Nat → Nat → List (List α) → List α → List Nat → List Nat →
    List (List α) × List α × List Nat × List Nat
  | 0, _, a, b, basis, drop => (a, b, basis, drop)
  | k+1, r, a, b, basis, drop =>
    if basis.getD r 0 < n then driveOut tol n k (r+1) a b basis drop else
    match (List.range n).find? (fun j => Tol.fne tol (nth (row a r) j) zero) with
    | none => driveOut tol n k (r+1) a b basis (drop ++ [r])
    | some col =>
      let p := nth (row a r) col
      let pr := rowDiv p (row a r)
      let br := div (nth b r) p
      let a' := a.mapIdx fun i ri =>
        if i = r then pr else
          let factor := nth ri col
          if eq factor zero then ri else rowSubMul factor ri pr
      let b' := b.mapIdx fun i bi =>
        if i = r then br else
          let factor := nth (row a i) col
          if eq factor zero then bi else sub bi (mul factor br)
      driveOut tol n k (r+1) a' b' (basis.set r col) drop

/-- restoring the original objective in canonical form over the final basis. -/
def restoreCosts (c : List α) (a : List (List α)) (b : List α) (basis : List Nat) : List α × α :=
  basis.zipIdx.foldl (fun (st : List α × α) (vr : Nat × Nat) =>
    let coefficient := nth st.1 vr.1
    (rowSubMul coefficient st.1 (row a vr.2), sub st.2 (mul coefficient (nth b vr.2)))) (c, zero)

/-- `c[j] -= coefficient` for every `j` of the row. -/
def subRow : List α → List α → List α
  | x :: xs, p :: ps => sub x p :: subRow xs ps
  | xs, [] => xs
  | [], _ => []

/-- the phase-1 tableau of `into_tableau_two_phase`: one artificial column per row (basic), phase-1 costs
`Σ artificials` brought into canonical form by subtracting the rows one after the other. -/
def phase1Tab (sm : StdModel α) : Tab α :=
  let m := sm.rows.length
  let n := sm.vars.length
  let b := sm.rows.map (·.rhs)
  let a1 := sm.rows.zipIdx.map fun (r, i) => (Standardize.resize r.coeffs (n + m) zero).set (i + n) one
  let c0 : List α := List.replicate n zero ++ List.replicate m one
  { c := a1.foldl (fun c r => subRow c r) c0, a := a1, b := b, basis := (List.range m).map (· + n),
    value := b.foldl (fun v bi => sub v bi) zero, offset := sm.offset, flip := sm.flip }

/-- `into_tableau_two_phase`. -/
def twoPhase (tol : α) (stallExtra phase1Limit : Nat) (sm : StdModel α) : Except CanonErr (Tab α) :=
  let m := sm.rows.length
  let n := sm.vars.length
  let art := (List.range m).map (· + n)
  let out := solve tol stallExtra phase1Limit art (phase1Tab sm)
  match out.result with
  | .error e => .error (.simplexError e)
  | .ok () =>
    let T := out.final
    if Tol.fne tol T.value zero then .error .infeasible else
    let (a, b, basis, drop) := driveOut tol n T.basis.length 0 T.a T.b T.basis []
    let keep := (List.range a.length).filter (fun r => !(drop.contains r))
    let newA := keep.map fun r => (row a r).take n
    let newB := keep.map fun r => nth b r
    let newBasis := keep.map fun r => basis.getD r 0
    if !(newBasis.all (· < n)) then .error .invalidBasis else
    let (newC, value) := restoreCosts sm.objective newA newB newBasis
    .ok { c := newC, a := newA, b := newB, basis := newBasis, value := value, offset := sm.offset, flip := sm.flip }

/-- `into_tableau`. -/
def intoTableau (tol : α) (stallExtra phase1Limit : Nat) (sm : StdModel α) : Except CanonErr (Tab α) :=
  let m := sm.rows.length
  let a := sm.rows.map (·.coeffs)
  let usable := independentColumns tol sm.vars.length a
  if usable.length ≥ m then
    let sel := selectPerRow m usable
    if sel.length < m then twoPhase tol stallExtra phase1Limit sm else
    let (a, b, c, value) := canonicalise sel a (sm.rows.map (·.rhs)) sm.objective
    .ok { c := c, a := a, b := b, basis := sel.map (·.column), value := value, offset := sm.offset, flip := sm.flip }
  else twoPhase tol stallExtra phase1Limit sm

end Tableau
end Rooc
