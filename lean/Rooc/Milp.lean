/-
M11 — options and status labelling of the MILP wrapper (`milp_solver.rs::solve_milp_lp_problem_with`,
`builder/solvers/microlp.rs`).

The branch-and-bound search of microlp is a PARAMETER: `search` stands for whatever `Problem::solve_with` answers
once its own option validation has passed.  What is modelled is (a) the option validation microlp performs on the
one numeric option rooc forwards (`mip_gap`; ported from `microlp::SolveOptions::validate`, recorded assumption),
(b) rooc's decision function from microlp's outcome to `Result<LpSolution, SolverError>` / `SolutionStatus`
(`SolverWrap.wrapMilp`: the code as it stands, which never reads `Solution::status()`), and (c) the repaired
decision function `SolverWrap.wrapMilpFixed` (fix candidate, mirrors `good_lp.rs:196-207`).
Import-free.
-/
import Rooc.SolverWrap
namespace Rooc
namespace Milp
open SolverWrap Arith
variable {α : Type} [Arith α]

/-- `MilpOptions` (the time limit is a `Duration`: every value is valid). -/
structure Options (α : Type) where
  mipGap : Option α
  timeLimitNs : Option Nat
  deriving Repr, Inhabited

/-- `SolveOptions::validate` on `mip_gap`: `!gap.is_finite() || gap < 0.0` is rejected. -/
def gapValid (g : α) : Bool := isFinite g && !(lt g (ofInt 0))

def optionsValid (o : Options α) : Bool :=
  match o.mipGap with
  | some g => gapValid g
  | none => true

/-- `Problem::solve_with`: validation first, then the search. -/
def microlpSolveWith (o : Options α) (search : Options α → MlpOutcome α) : MlpOutcome α :=
  if optionsValid o then search o else .err "InvalidOptions"

/-- `solve_milp_lp_problem_with` as it stands. -/
def solveMilpWith (lm : LinModel α) (o : Options α) (search : Options α → MlpOutcome α) : Res α :=
  wrapMilp lm (microlpSolveWith o search)

/-- with the repaired labelling. -/
def solveMilpWithFixed (lm : LinModel α) (o : Options α) (search : Options α → MlpOutcome α) : Res α :=
  wrapMilpFixed lm (microlpSolveWith o search)

/-! ### the builder's solver object (`builder/solvers/microlp.rs`) -/

/-- `Microlp { mip_gap, time_limit }`. -/
structure Microlp (α : Type) where
  mipGap : Option α
  timeLimitNs : Option Nat
  deriving Repr, Inhabited

/-- `Microlp::new()`. -/
def Microlp.new : Microlp α := { mipGap := none, timeLimitNs := none }
/-- `with_mip_gap`: the value is stored AS GIVEN (no clamping, no validation here: microlp validates). -/
def Microlp.withMipGap (m : Microlp α) (gap : α) : Microlp α := { m with mipGap := some gap }
/-- `with_time_limit`. -/
def Microlp.withTimeLimit (m : Microlp α) (ns : Nat) : Microlp α := { m with timeLimitNs := some ns }
/-- the `MilpOptions` built by `<Microlp as Solver>::solve`. -/
def Microlp.options (m : Microlp α) : Options α := { mipGap := m.mipGap, timeLimitNs := m.timeLimitNs }

/-- the solver object the harness builds: `new()`, then `with_mip_gap` / `with_time_limit` for the options that are set. -/
def Microlp.build (gap : Option α) (limit : Option Nat) : Microlp α :=
  let m : Microlp α := Microlp.new
  let m := match gap with | some g => m.withMipGap g | none => m
  match limit with | some l => m.withTimeLimit l | none => m

/-- `<Microlp as Solver>::solve`. -/
def Microlp.solve (m : Microlp α) (lm : LinModel α) (search : Options α → MlpOutcome α) : Res α :=
  solveMilpWith lm m.options search
def Microlp.solveFixed (m : Microlp α) (lm : LinModel α) (search : Options α → MlpOutcome α) : Res α :=
  solveMilpWithFixed lm m.options search

/-- the model passes the wrapper's own pre-checks. -/
def accepted (lm : LinModel α) : Bool :=
  lm.objective.length == lm.vars.length && lm.vars.all (fun v => (domainOf lm v).isSome) &&
  lm.rows.all (fun r => !(isStrict r.cmp))

end Milp
end Rooc
