/-
Vocabulary of the C07 statements (DESIGN.md appendix A): membership of a value in a derived range,
"ρ is inside the variable box", declared domains, source feasibility.  Import-free and short:
this file and `Rooc/Sem.lean` are what has to be read to know what the C07 theorems say.
`K` is the exact field (any ordered field in the theorems, `Rat` in the oracle); ranges carry endpoints
in `Ext K` (IEEE special values, exact arithmetic).
-/
import Rooc.Bounds
import Rooc.Sem
namespace Rooc
namespace BoundsSem
variable {K : Type} [ExactField K]

/-- `x ∈ [lower, upper]` with IEEE comparisons: a NaN endpoint contains nothing. -/
def Mem (x : K) (b : Bounds (Ext K)) : Prop :=
  Ext.le b.lower (.fin x) = true ∧ Ext.le (.fin x) b.upper = true

/-- every variable lies in the range the analyzer holds for it (absent = unbounded). -/
def InBox (ρ : String → K) (vb : List (String × Bounds (Ext K))) : Prop :=
  ∀ name, Mem (ρ name) (Analyzer.varBounds vb name)

/-- declared domains.  `NonNegativeReal(a, b)` is `0 ≤ x ∧ a ≤ x ≤ b` (the text front-end only produces
`0 ≤ a`, where this is `a ≤ x ≤ b`). -/
def InDomain : VarType (Ext K) → K → Prop
  | .bool, x => x = ExactField.ofInt 0 ∨ x = ExactField.ofInt 1
  | .int lo hi, x => ∃ n : Int, x = ExactField.ofInt n ∧ lo ≤ n ∧ n ≤ hi
  | .real lo hi, x => Mem x ⟨lo, hi⟩
  | .nnreal lo hi, x => ExactField.le (ExactField.ofInt 0) x = true ∧ Mem x ⟨lo, hi⟩

def cmpHolds : Cmp → K → K → Prop
  | .le, l, r => ExactField.le l r = true
  | .ge, l, r => ExactField.le r l = true
  | .eq, l, r => l = r
  | .lt, l, r => ExactField.lt l r = true
  | .gt, l, r => ExactField.lt r l = true

/-- a constraint holds at `ρ`: both sides are defined and compare as stated (a bare logic assertion is
stored as `lhs = 1`). -/
def Holds (ρ : String → K) (c : Constraint (Ext K)) : Prop :=
  ∃ l r, Sem.eval ρ c.lhs = some l ∧ Sem.eval ρ c.rhs = some r ∧ cmpHolds c.cmp l r

/-- source feasibility: every declared variable is in its domain and every constraint holds. -/
def SrcFeasible (domain : List (DomVar (Ext K))) (cs : List (Constraint (Ext K))) (ρ : String → K) : Prop :=
  (∀ d ∈ domain, InDomain d.ty (ρ d.name)) ∧ (∀ c ∈ cs, Holds ρ c)

/-- the analyzer state is sound for a model: every source-feasible point is inside its box. -/
def SoundFor (domain : List (DomVar (Ext K))) (cs : List (Constraint (Ext K)))
    (vb : List (String × Bounds (Ext K))) : Prop :=
  ∀ ρ, SrcFeasible domain cs ρ → InBox ρ vb

/-- every literal of the expression is a finite number (`FiniteLits` of DESIGN.md §6 C07/C08). -/
def finiteLit : Ext K → Bool
  | .fin _ => true
  | _ => false
mutual
def finiteLits : Exp (Ext K) → Bool
  | .num v => finiteLit v
  | .var _ => true
  | .abs e | .not e | .un _ e => finiteLits e
  | .min es | .max es | .and es | .or es => finiteLitsList es
  | .xor a b | .implies a b | .iff a b | .bin _ a b => finiteLits a && finiteLits b
def finiteLitsList : List (Exp (Ext K)) → Bool
  | [] => true
  | e :: es => finiteLits e && finiteLitsList es
end

/-- neither endpoint is NaN. -/
def NoNaN (b : Bounds (Ext K)) : Prop := Ext.isNaN b.lower = false ∧ Ext.isNaN b.upper = false

end BoundsSem
end Rooc
