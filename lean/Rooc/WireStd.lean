/- Protocol encoding of `StdModel` (DESIGN.md appendix B, `std`).  Import-free. -/
import Rooc.Standardize
import Rooc.WireModel
namespace Rooc
open Sexp
variable {α : Type} [Wire α]

def StdRow.enc (r : StdRow α) : Sexp := .list [.list (r.coeffs.map encNum), encNum r.rhs]
def StdRow.dec : Sexp → Option (StdRow α)
  | .list [.list cs, r] => do pure { coeffs := ← optAll (cs.map decNumS), rhs := ← decNumS r }
  | _ => none

def StdModel.enc (m : StdModel α) : Sexp :=
  app "std" [app "vars" (m.vars.map .str), app "obj" (m.objective.map encNum), encNum m.offset,
             .atom (if m.flip then "flip" else "noflip"), app "rows" (m.rows.map StdRow.enc)]
def StdModel.dec : Sexp → Option (StdModel α)
  | .list [.atom "std", .list (.atom "vars" :: vs), .list (.atom "obj" :: os), off, .atom fl,
           .list (.atom "rows" :: rs)] => do
    let flip ← (match fl with | "flip" => some true | "noflip" => some false | _ => none)
    pure { vars := ← optAll (vs.map fun | .str s => some s | _ => none),
           objective := ← optAll (os.map decNumS), offset := ← decNumS off, flip := flip,
           rows := ← optAll (rs.map StdRow.dec) }
  | _ => none

end Rooc
