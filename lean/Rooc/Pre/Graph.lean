/-
M9 (part 5) — graph primitives and the graph / set builtin functions.

Ports of `primitives/graph.rs` (`Graph::to_nodes`, `Graph::to_edges`, `GraphNode::to_edges`,
`Graph::into_neighbours_of`, `impl Spreadable for GraphEdge`), of
`runtime_builtin/functions/graph_functions.rs` (`nodes / V`, `edges / E`, `neigh_edges / N`,
`neigh_edges_of / N_of`) and of the set functions of `array_functions.rs` on values of any kind
(`primitive_value_eq`: numbers of every numeric kind are compared by value with the `float_eq`
tolerance, everything else structurally).  A node's edges are kept in insertion order
(`IndexMap`); the parser rejects parallel edges, so destinations are distinct.  Import-free.
-/
import Rooc.Pre.Expand
namespace Rooc.Pre
open Rooc

structure GEdge (α : Type) where
  src : String
  dst : String
  weight : Option α
  deriving Repr, Inhabited

structure GNode (α : Type) where
  name : String
  edges : List (GEdge α)
  deriving Repr, Inhabited

abbrev Graph (α : Type) := List (GNode α)

namespace Graph
variable {α : Type}

/-- `nodes(G)` / `V(G)` -/
def nodes (g : Graph α) : List (GNode α) := g
/-- `edges(G)` / `E(G)`: the edges of every node, in node order -/
def edges (g : Graph α) : List (GEdge α) := g.flatMap (·.edges)
/-- `neigh_edges(n)` / `N(n)` -/
def neighEdges (n : GNode α) : List (GEdge α) := n.edges
/-- `neigh_edges_of(name, G)` / `N_of(name, G)`: `none` = `Other("node … not found in graph")` -/
def neighEdgesOf (name : String) (g : Graph α) : Option (List (GEdge α)) :=
  (g.find? (fun n => n.name == name)).map (·.edges)
end Graph

/-- what an edge destructures into: `(from, to, weight or 1)` -/
def GEdge.spread {α : Type} [Arith α] (e : GEdge α) : String × String × α :=
  (e.src, e.dst, e.weight.getD (Arith.ofInt 1))

/-! ### set functions on values of any kind -/

/-- the values the set functions compare: numbers by value, the rest structurally -/
inductive SVal (α : Type) where
  | num (x : α)
  | str (s : String)
  | bool (b : Bool)
  deriving Repr, Inhabited

section sets
variable {α : Type} [Arith α]

/-- `primitive_value_eq` (a Boolean takes part in `as_number_cast`, so `true` equals `1`) -/
def SVal.numImage : SVal α → Option α
  | .num x => some x
  | .bool b => some (boolF b)
  | .str _ => none
def svalEq (a b : SVal α) : Bool :=
  match a.numImage, b.numImage with
  | some x, some y => floatEq x y
  | _, _ => match a, b with
    | .str s, .str t => s == t
    | _, _ => false
def svalContains (hay : List (SVal α)) (x : SVal α) : Bool := hay.any (fun y => svalEq y x)
/-- `ArrayUnion::call` -/
def svalUnion (a b : List (SVal α)) : List (SVal α) :=
  (a ++ b).foldl (fun acc x => if svalContains acc x then acc else acc ++ [x]) []
/-- `ArrayIntersection::call` -/
def svalInter (a b : List (SVal α)) : List (SVal α) := a.filter (fun x => svalContains b x)
/-- `ArrayDifference::call` -/
def svalDiff (a b : List (SVal α)) : List (SVal α) := a.filter (fun x => !(svalContains b x))
end sets

end Rooc.Pre
