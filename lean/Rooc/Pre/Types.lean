/-
M9 (part 2) — static typing of the primitive / expression core.

Ports of `PrimitiveKind::{can_apply_binary_op, can_apply_unary_op, can_spread_into}` (dispatching to
the `can_apply_*` associated functions of `i64 / u64 / f64 / bool / String / Tuple / Graph… `),
of `impl WithType for PreExp :: get_type` for `BinaryOperation` / `UnaryOperation` (the
left-operand-dispatch rule for arithmetic result kinds), of `default_type_check`, and of the
`type_check` / `return_type` of the builtin functions; and, on the dynamic side, of
`PreExp::as_primitive` for the expression core (literals, unary, binary), bug-compatibly: EVERY
`OperatorError` is reported as `BinOpError` / `UnOpError`.
Import-free.
-/
import Rooc.Pre.Prim
namespace Rooc.Pre
open Rooc

/-! ### operator tables -/

/-- `i64 / u64 / f64 :: can_apply_binary_op` (the three impls are identical) -/
def canBinArith (op : BinOp) (to : Kind) : Bool := !(isLogic op) && to.isNumeric
/-- `bool::can_apply_binary_op` -/
def canBinBool (op : BinOp) (to : Kind) : Bool := if isLogic op then to == .boolean else to.isNumeric
/-- `String::can_apply_binary_op` -/
def canBinString (op : BinOp) (to : Kind) : Bool := match op with | .add => to == .string | _ => false

/-- `PrimitiveKind::can_apply_binary_op` -/
def Kind.canApplyBinary (self : Kind) (op : BinOp) (to : Kind) : Bool :=
  match self with
  | .any => true
  | .undefined => false
  | .integer | .pint | .number => canBinArith op to
  | .boolean => canBinBool op to
  | .string => canBinString op to
  | .graph | .edge | .node | .tuple _ | .iter _ => false

/-- `PrimitiveKind::can_apply_unary_op` -/
def Kind.canApplyUnary (self : Kind) (op : UnOp) : Bool :=
  match self with
  | .any => true
  | .undefined => false
  | .integer | .pint | .number => (match op with | .neg => true | .not => false)
  | .boolean => true
  | _ => false

/-- `get_type` of `BinaryOperation(op, lhs, rhs)` from the operand kinds -/
def binResultKind (l : Kind) (op : BinOp) (r : Kind) : Kind :=
  if isLogic op then .boolean
  else if l.isNumeric && r.isNumeric then
    let isNumberResult := l == .number || r == .number || l == .boolean
    match op with
    | .add | .mul => if isNumberResult then .number else if l == .integer || r == .integer then .integer else .pint
    | .sub => if isNumberResult then .number else .integer
    | _ => .number
  else l

/-- `get_type` of `UnaryOperation(op, e)` -/
def unResultKind (op : UnOp) (k : Kind) : Kind :=
  match op with
  | .not => .boolean
  | .neg => match k with | .boolean => .number | other => other

/-- `PrimitiveKind::can_spread_into` (`none` = `Unspreadable`) -/
def Kind.canSpreadInto : Kind → Option (List Kind)
  | .tuple ts => some ts
  | .edge => some [.string, .string, .number]
  | _ => none

/-- numeric kinds other than Boolean form one class (the static rules never separate them) -/
def kindClass : Kind → Kind
  | .integer | .pint | .number => .number
  | k => k

/-! ### errors of the transform phase (variant level) -/

inductive TErr where
  | wrongArgument | wrongNumberOfArguments | wrongFunctionSignature | nonExistentFunction
  | unspreadable | spreadError | undeclaredVariable | wrongExpectedArgument
  /-- `BinOpError`; the cause is kept as ghost information (the Rust drops it) -/
  | binOpError (cause : OpErr)
  | unOpError (cause : OpErr)
  | outOfBounds | other
  deriving Repr, DecidableEq

def TErr.name : TErr → String
  | .wrongArgument => "WrongArgument" | .wrongNumberOfArguments => "WrongNumberOfArguments"
  | .wrongFunctionSignature => "WrongFunctionSignature" | .nonExistentFunction => "NonExistentFunction"
  | .unspreadable => "Unspreadable" | .spreadError => "SpreadError" | .undeclaredVariable => "UndeclaredVariable"
  | .wrongExpectedArgument => "WrongExpectedArgument"
  | .binOpError _ => "BinOpError" | .unOpError _ => "UnOpError" | .outOfBounds => "OutOfBounds" | .other => "Other"

/-- a failure is *data dependent* (allowed after a successful type check) iff it is an out-of-range
index or an operator failure whose cause is division by zero / overflow (or the panic). -/
def TErr.dataDependent : TErr → Bool
  | .binOpError c | .unOpError c => c == .divisionByZero || c == .overflow || c == .panic
  | .outOfBounds | .other => true
  | _ => false

/-! ### the expression core: literals, unary and binary operators -/

inductive PExp (α : Type) where
  | lit (p : Prim α)
  | un (op : UnOp) (e : PExp α)
  | bin (op : BinOp) (a b : PExp α)
  deriving Repr, Inhabited

/-- `get_type` -/
def PExp.typeOf {α : Type} : PExp α → Kind
  | .lit p => p.kind
  | .un op e => unResultKind op e.typeOf
  | .bin op a b => binResultKind a.typeOf op b.typeOf

/-- `type_check` (`BinaryOperation` / `UnaryOperation` / `Primitive` arms) -/
def PExp.typeCheck {α : Type} : PExp α → Bool
  | .lit _ => true
  | .un op e => e.typeCheck && e.typeOf.canApplyUnary op
  | .bin op a b => a.typeCheck && b.typeCheck && a.typeOf.canApplyBinary op b.typeOf

/-- `as_primitive` -/
def PExp.eval {α : Type} [Arith α] : PExp α → Except TErr (Prim α)
  | .lit p => .ok p
  | .un op e =>
    match e.eval with
    | .error err => .error err
    | .ok v => match applyUnary op v with
      | .ok r => .ok r
      | .error c => .error (.unOpError c)
  | .bin op a b =>
    match a.eval with
    | .error err => .error err
    | .ok x => match b.eval with
      | .error err => .error err
      | .ok y => match applyBinary x op y with
        | .ok r => .ok r
        | .error c => .error (.binOpError c)

/-- every literal is a proper value (no literal of kind `Any`, scalars are not wrapped in `other`) -/
def PExp.proper {α : Type} : PExp α → Bool
  | .lit p => p.proper
  | .un _ e => e.proper
  | .bin _ a b => a.proper && b.proper

/-! ### builtin function signatures (static side) and their dynamic argument conversions -/

def Kind.isIter : Kind → Bool | .iter _ => true | _ => false
def Kind.iterInner : Kind → Kind | .iter k => k | _ => .undefined

/-- `default_type_check` on one (argument kind, expected kind) pair -/
def defaultArgOk (arg expected : Kind) : Bool :=
  if expected == .any then true
  else if expected == .iter .any && arg.isIter then true
  else if expected == .number && arg.isNumeric then true
  else if expected == .integer && (arg == .integer || arg == .pint) then true
  else arg == expected

def defaultArgsOk : List Kind → List Kind → Bool
  | a :: as, e :: es => defaultArgOk a e && defaultArgsOk as es
  | _, _ => true

/-- `default_type_check` (the arity is compared first) -/
def defaultTypeCheck (args expected : List Kind) : Except TErr Unit :=
  if args.length != expected.length then .error .wrongNumberOfArguments
  else if defaultArgsOk args expected then .ok () else .error .wrongArgument

/-- `RoocFunction::type_check` of the builtins, from the argument kinds -/
def fnTypeCheck (name : String) (args : List Kind) : Except TErr Unit :=
  match name, args with
  | "len", [a] | "enumerate", [a] | "enum", [a] => if a.isIter then .ok () else .error .wrongArgument
  | "len", _ | "enumerate", _ | "enum", _ => .error .wrongFunctionSignature
  | "zip", as => if as.all Kind.isIter then .ok () else .error .wrongArgument
  | "range", [f, t, i] =>
    if !f.isNumeric then .error .wrongArgument else if !t.isNumeric then .error .wrongArgument
    else if !(i == .boolean) then .error .wrongArgument else .ok ()
  | "range", _ => .error .wrongFunctionSignature
  | "union", as | "intersection", as | "difference", as =>
    -- signature = (kind of the first argument, twice)
    let first := match as with | a :: _ => a | [] => .iter .any
    defaultTypeCheck as [first, first]
  | "nodes", as | "V", as | "edges", as | "E", as => defaultTypeCheck as [.graph]
  | "neigh_edges", as | "N", as => defaultTypeCheck as [.node]
  | "neigh_edges_of", [n, g] | "N_of", [n, g] =>
    if !(n == .string) then .error .wrongArgument else if !(g == .graph) then .error .wrongArgument else .ok ()
  | "neigh_edges_of", _ | "N_of", _ => .error .wrongFunctionSignature
  | _, _ => .error .nonExistentFunction

/-- `RoocFunction::return_type` -/
def fnReturnType (name : String) (args : List Kind) : Kind :=
  match name with
  | "len" => .pint
  | "enumerate" | "enum" => .iter (.tuple [ (match args with | a :: _ => a.iterInner | [] => .undefined), .pint ])
  | "zip" => if args.all Kind.isIter then .iter (.tuple (args.map Kind.iterInner)) else .iter .any
  | "range" => (match args with | [.pint, .pint] => .iter .pint | _ => .iter .integer)
  | "union" | "intersection" | "difference" => (match args with | a :: _ => a | [] => .iter .any)
  | "nodes" | "V" => .iter .node
  | "edges" | "E" | "neigh_edges" | "N" | "neigh_edges_of" | "N_of" => .iter .edge
  | _ => .undefined

/-- the type-class failures of `RoocFunction::call` as a function of the kinds of the RUNTIME values
of the arguments (`as_iterator`, `as_graph`, `as_node`, `as_string`, `as_boolean`, `as_integer_cast`):
`none` = no type-class failure (data-dependent failures remain possible). -/
def fnCallTypeError (name : String) (args : List Kind) : Option TErr :=
  match name, args with
  | "len", [a] | "enumerate", [a] | "enum", [a] => if a.isIter then none else some .wrongArgument
  | "len", _ | "enumerate", _ | "enum", _ => some .wrongNumberOfArguments
  | "zip", as => if as.all Kind.isIter then none else some .wrongArgument
  | "range", [f, t, i] =>
    -- as_integer_cast accepts every numeric kind (a fractional Number is a data-dependent failure)
    if !f.isNumeric || !t.isNumeric || !(i == .boolean) then some .wrongArgument else none
  | "range", _ => some .wrongNumberOfArguments
  | "union", [a, b] | "intersection", [a, b] | "difference", [a, b] => if a.isIter && b.isIter then none else some .wrongArgument
  | "union", _ | "intersection", _ | "difference", _ => some .wrongNumberOfArguments
  | "nodes", [g] | "V", [g] | "edges", [g] | "E", [g] => if g == .graph then none else some .wrongArgument
  | "nodes", _ | "V", _ | "edges", _ | "E", _ => some .wrongNumberOfArguments
  | "neigh_edges", [n] | "N", [n] => if n == .node then none else some .wrongArgument
  | "neigh_edges", _ | "N", _ => some .wrongNumberOfArguments
  | "neigh_edges_of", [n, g] | "N_of", [n, g] => if n == .string && g == .graph then none else some .wrongArgument
  | "neigh_edges_of", _ | "N_of", _ => some .wrongNumberOfArguments
  | _, _ => some .nonExistentFunction

/-! ### destructuring patterns `(a, b, _) in iterator` -/

/-- `IterableSet::variable_types`: the static rule.  `nvars` counts ALL slots of the pattern, `_`
placeholders included. -/
def patternCheck (iterKind : Kind) (tuple : Bool) (nvars : Nat) : Except TErr Unit :=
  match iterKind with
  | .iter elem =>
    if !tuple then .ok ()
    else match elem with
      | .iter _ => .ok ()      -- rows of a nested array: the arity is not known statically
      | e => match e.canSpreadInto with
        | none => .error .unspreadable
        | some ks => if nvars > ks.length then .error .spreadError else .ok ()
  | _ => .error .wrongArgument

/-- what one runtime element spreads into -/
inductive Comp where
  | scalar             -- `to_primitive_set` fails: `Unspreadable`
  | parts (n : Nat)    -- a tuple / edge / row with `n` components
  deriving Repr, DecidableEq

/-- `recursive_set_resolver` + `apply_tuple` over the runtime elements, in order: the first element
that cannot be destructured decides (`Other` = "Cannot destructure tuple of length … in … elements") -/
def patternDyn (tuple : Bool) (nvars : Nat) : List Comp → Option TErr
  | [] => none
  | c :: cs =>
    if !tuple then none
    else match c with
      | .scalar => some .unspreadable
      | .parts n => if nvars > n then some .other else patternDyn tuple nvars cs

/-! ### static declaredness of compound variables -/

def allSome {β : Type} : List (Option β) → Option (List β)
  | [] => some []
  | none :: _ => none
  | some x :: xs => (allSome xs).map (x :: ·)

/-- the `CompoundVariable` arm of `type_check` (declaredness part): a reference `base_i₁…_iₙ` is
accepted iff a declaration introduces the family `(base, n)`, or every index is a literal and the
flattened name is a declared plain variable.  `idx`: the printed fragment of a literal index, `none`
for any other index expression. -/
def compoundDeclared (families : List (String × Nat)) (statics : List String) (base : String) (idx : List (Option String)) : Bool :=
  families.contains (base, idx.length) ||
    (match allSome idx with
     | some frags => statics.contains (String.ofList (base.toList ++ '_' :: (String.intercalate "_" frags).toList))
     | none => false)

/-- a runtime kind `d` is compatible with a static kind `s`: `Any` admits everything, iterables and
tuples are compared by constructor only (their parameters are a static approximation:
`range` is typed `Integer[]`, the position of `enumerate` is typed `PositiveInteger` and is a
`Number` at run time), numeric kinds other than Boolean form one class -/
def numClass : Kind → Kind
  | .integer | .pint | .number => .number
  | k => k
def refines (d s : Kind) : Bool :=
  match s with
  | .any => true
  | .iter _ => d.isIter
  | .tuple _ => (match d with | .tuple _ => true | _ => false)
  | s => numClass d == numClass s
def refinesAll : List Kind → List Kind → Bool
  | [], [] => true
  | d :: ds, s :: ss => refines d s && refinesAll ds ss
  | _, _ => false

/-- the builtins whose static signature covers their dynamic argument conversions -/
def soundBuiltins : List String :=
  ["len", "enumerate", "enum", "zip", "range", "nodes", "V", "edges", "E", "neigh_edges", "N", "neigh_edges_of", "N_of"]

end Rooc.Pre
