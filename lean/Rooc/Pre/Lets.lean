/-
M9 (part 7) — the `where` section: typed compile-time expressions with variables, array literals,
array access and builtin calls, checked and evaluated constant by constant.

Static side: `impl TypeCheckable / WithType for PreExp` (arms `Primitive`, `Variable`, `UnaryOperation`,
`BinaryOperation`, `ArrayAccess` with `TypeCheckerContext::get_addressable_value`, `FunctionCall` for
`len` and `range`), `impl TypeCheckable for Constant` (check the value, declare the name with its static
kind, strict).  Dynamic side: `PreExp::as_primitive` for the same arms
(`TransformerContext::addressable_value`: `as_usize_cast` of every index, `as_iterator`,
`IterableKind::read`; `LenOfIterableFn::call`, `NumericRange::call`), and the first loop of
`TransformerContext::new_from_constants`.  Values are scalars or (nested) arrays with the element kind
`flatten_primitive_array_values` assigns.  Import-free.
-/
import Rooc.Pre.Types
import Rooc.Pre.Expand
namespace Rooc.Pre
open Rooc

/-- compile-time values: scalars, arrays (`IterableKind`) tagged with their element kind, and tuples (the
elements of `enumerate(…)`) -/
inductive TVal (α : Type) where
  | scalar (p : Prim α)
  | arr (elem : Kind) (vs : List (TVal α))
  | tuple (vs : List (TVal α))
  deriving Repr, Inhabited

mutual
def TVal.kind {α : Type} : TVal α → Kind
  | .scalar p => p.kind
  | .arr e _ => .iter e
  | .tuple vs => .tuple (TVal.kinds vs)
def TVal.kinds {α : Type} : List (TVal α) → List Kind
  | [] => []
  | v :: vs => v.kind :: TVal.kinds vs
end

/-- the primitive the operator code sees -/
def TVal.prim {α : Type} : TVal α → Prim α
  | .scalar p => p
  | .arr e _ => .other (.iter e)
  | .tuple vs => .other (.tuple (TVal.kinds vs))

/-- `flatten_primitive_array_values`: one kind for all elements, else `Anys`; `[]` is `Anys([])` -/
def mkArr {α : Type} (vs : List (TVal α)) : TVal α :=
  match vs with
  | [] => .arr .any []
  | v :: rest => if rest.all (fun x => x.kind == v.kind) then .arr v.kind vs else .arr .any vs

inductive TE (α : Type) where
  | lit (v : TVal α)
  | var (n : String)
  | un (op : UnOp) (e : TE α)
  | bin (op : BinOp) (a b : TE α)
  | access (n : String) (idx : List (TE α))
  | call (f : String) (args : List (TE α))
  deriving Repr, Inhabited

abbrev Ctx := List (String × Kind)
def Ctx.get (g : Ctx) (n : String) : Option Kind :=
  match g with
  | [] => none
  | (k, v) :: rest => if k == n then some v else Ctx.get rest n

abbrev VEnv (α : Type) := List (String × TVal α)
def VEnv.get {α : Type} (r : VEnv α) (n : String) : Option (TVal α) :=
  match r with
  | [] => none
  | (k, v) :: rest => if k == n then some v else VEnv.get rest n

/-! ### well-kinded values, and the fragment the theorems of `Props/C19.lean` speak about -/
section wellKinded
variable {α : Type}

def Prim.isScalar : Prim α → Bool
  | .other _ => false
  | _ => true

/-- scalar kinds agree up to the numeric class (`Integer`, `PositiveInteger`, `Number` are one class) -/
def scalarAgrees (pk k : Kind) : Bool :=
  match kindClass pk, kindClass k with
  | .number, .number | .boolean, .boolean | .string, .string => true
  | _, _ => false

mutual
/-- the value inhabits the static kind: scalars up to the numeric class, arrays element by element, tuples
component by component (nothing inhabits `Any`, so the only value of kind `Iterable(Any)` is the empty array) -/
def TVal.agrees : TVal α → Kind → Bool
  | .scalar p, k => p.isScalar && scalarAgrees p.kind k
  | .arr _ vs, k => match k with | .iter e => agreesList vs e | _ => false
  | .tuple vs, k => match k with | .tuple ks => agreesTuple vs ks | _ => false
def agreesList : List (TVal α) → Kind → Bool
  | [], _ => true
  | v :: vs, k => v.agrees k && agreesList vs k
def agreesTuple : List (TVal α) → List Kind → Bool
  | [], [] => true
  | v :: vs, k :: ks => v.agrees k && agreesTuple vs ks
  | _, _ => false
end

mutual
/-- the fragment: every literal is well kinded (no mixed array literal `[1, "a"]` — those are the `Any`
escape of known finding C19-any-escape), an array access has at least one index (grammar), and the only
functions called are the ones `TE.eval` implements (`len`, `range`, `enumerate` / `enum`, `zip`) -/
def TE.wf : TE α → Bool
  | .lit v => v.agrees v.kind
  | .var _ => true
  | .un _ e => e.wf
  | .bin _ a b => a.wf && b.wf
  | .access _ idx => !idx.isEmpty && wfList idx
  | .call f args => (f == "len" || f == "range" || f == "enumerate" || f == "enum" || f == "zip") && wfList args
def wfList : List (TE α) → Bool
  | [] => true
  | e :: es => e.wf && wfList es
end

/-- the static context describes the run-time environment: same names, every value inhabits its kind -/
def EnvAgrees (g : Ctx) (r : VEnv α) : Prop :=
  ∀ n, match g.get n, r.get n with
    | some k, some v => v.agrees k = true
    | none, none => True
    | _, _ => False
/-- weaker: every name of the context has a value of its kind (the environment may hold more names) -/
def EnvCovers (g : Ctx) (r : VEnv α) : Prop :=
  ∀ n k, g.get n = some k → ∃ v, r.get n = some v ∧ v.agrees k = true
end wellKinded

/-- `RESERVED_TOKEN` (`check_if_reserved_token`): keywords, literals, `Graph`, block names, builtin functions -/
def reservedNames : List String :=
  ["min", "max", "s.t.", "where", "in", "for", "as", "if", "else", "solve", "true", "false", "Graph",
   "avg", "abs", "all", "any", "xor", "sum", "prod",
   "edges", "E", "len", "nodes", "V", "neigh_edges", "N", "neigh_edges_of", "N_of", "enumerate", "enum",
   "range", "zip", "difference", "union", "intersection"]

/-! ### static side -/
section static
variable {α : Type}

mutual
/-- `get_type` -/
def TE.typeOf (g : Ctx) : TE α → Kind
  | .lit v => v.kind
  | .var n => (g.get n).getD .undefined
  | .un op e => unResultKind op (e.typeOf g)
  | .bin op a b => binResultKind (a.typeOf g) op (b.typeOf g)
  | .access n idx =>
    match g.get n with
    | none => .undefined
    | some k => accessKind g k idx
  | .call f args => fnReturnType f (typeOfList g args)
/-- `get_addressable_value(..).unwrap_or(Undefined)`: one `Iterable` level per index, every index numeric -/
def accessKind (g : Ctx) (k : Kind) : List (TE α) → Kind
  | [] => k
  | i :: rest =>
    if !(i.typeOf g).isNumeric then .undefined
    else match k with
      | .iter e => accessKind g e rest
      | _ => .undefined
def typeOfList (g : Ctx) : List (TE α) → List Kind
  | [] => []
  | e :: es => e.typeOf g :: typeOfList g es
end

/-- does `get_addressable_value` succeed (`Other` otherwise) -/
def accessOk (g : Ctx) (k : Kind) : List (TE α) → Bool
  | [] => true
  | i :: rest =>
    (i.typeOf g).isNumeric && (match k with | .iter e => accessOk g e rest | _ => false)

mutual
/-- `type_check` -/
def TE.typeCheck (g : Ctx) : TE α → Except TErr Unit
  | .lit _ => .ok ()
  | .var n => if (g.get n).isSome then .ok () else .error .undeclaredVariable
  | .un op e => do
    e.typeCheck g
    if (e.typeOf g).canApplyUnary op then .ok () else .error (.unOpError .unsupportedUn)
  | .bin op a b => do
    a.typeCheck g
    b.typeCheck g
    if (a.typeOf g).canApplyBinary op (b.typeOf g) then .ok () else .error (.binOpError .unsupportedBin)
  | .access n idx => do
    typeCheckList g idx
    match g.get n with
    | none => .error .undeclaredVariable
    | some k => if accessOk g k idx then .ok () else .error .other
  | .call f args => do
    typeCheckList g args
    fnTypeCheck f (typeOfList g args)
def typeCheckList (g : Ctx) : List (TE α) → Except TErr Unit
  | [] => .ok ()
  | e :: es => do
    e.typeCheck g
    typeCheckList g es
end

/-- `impl TypeCheckable for Constant`, over the whole `where` section -/
def typeCheckLets : Ctx → List (String × TE α) → Except TErr Ctx
  | g, [] => .ok g
  | g, (n, e) :: rest => do
    e.typeCheck g
    if n == "_" then typeCheckLets g rest
    else if (g.get n).isSome then .error .other   -- AlreadyDeclaredVariable
    else if reservedNames.contains n then .error .other   -- AlreadyDefined
    else typeCheckLets ((n, e.typeOf g) :: g) rest
end static

/-! ### dynamic side -/
section dynamic
variable {α : Type} [Arith α] [ToU64 α]

/-- `IterableKind::read` -/
def readV : TVal α → List Nat → Except TErr (TVal α)
  | v, [] => .ok v     -- (the grammar has at least one index; `read([])` is `Undefined` in the Rust)
  | .scalar _, _ :: _ => .error .outOfBounds
  | .tuple _, _ :: _ => .error .outOfBounds
  | .arr _ vs, [i] => match vs[i]? with | some x => .ok x | none => .error .outOfBounds
  | .arr (.iter _) vs, i :: j :: rest =>      -- only `IterableKind::Iterables` (rows of ONE kind) is descended into
    match vs[i]? with
    | some (.arr e ws) => readV (.arr e ws) (j :: rest)
    | _ => .error .outOfBounds
  | .arr _ _, _ :: _ :: _ => .error .outOfBounds

/-- `as_usize_cast` with the two failure classes kept apart -/
def usizeOf (v : TVal α) : Except TErr Nat :=
  match v with
  | .scalar p =>
    match asUsizeCast p with
    | .ok n => .ok n
    | .error _ => if p.kind.isNumeric then .error .other else .error .wrongArgument   -- numeric: a value (fraction / sign) problem
  | _ => .error .wrongArgument
def intOf (v : TVal α) : Except TErr Int :=
  match v with
  | .scalar p =>
    match asIntegerCast p with
    | .ok n => .ok n
    | .error _ => if p.kind.isNumeric then .error .other else .error .wrongArgument
  | _ => .error .wrongArgument

/-- `EnumerateArray::call`: `(element, index)`, the index a `Number` at run time -/
def enumerateT : List (TVal α) → Nat → List (TVal α)
  | [], _ => []
  | v :: vs, i => .tuple [v, .scalar (.number (Arith.ofInt i))] :: enumerateT vs (i + 1)

/-- the heads and the tails of the rows, `none` as soon as one row is exhausted -/
def headsTails : List (List (TVal α)) → Option (List (TVal α) × List (List (TVal α)))
  | [] => some ([], [])
  | [] :: _ => none
  | (x :: xs) :: rest => match headsTails rest with
    | some (hs, ts) => some (x :: hs, xs :: ts)
    | none => none

/-- `ZipArrays::call`: tuples of the i-th elements, as many as the shortest operand has (`fuel` = a bound on it) -/
def zipT : Nat → List (List (TVal α)) → List (TVal α)
  | 0, _ => []
  | n + 1, rows => match headsTails rows with
    | some (hs, ts) => .tuple hs :: zipT n ts
    | none => []

def liftOp (r : Except OpErr (Prim α)) (wrap : OpErr → TErr) : Except TErr (TVal α) :=
  match r with
  | .ok p => .ok (.scalar p)
  | .error c => .error (opFailure wrap c)

mutual
/-- `as_primitive` -/
def TE.eval (r : VEnv α) : TE α → Except TErr (TVal α)
  | .lit v => .ok v
  | .var n => match r.get n with | some v => .ok v | none => .error .undeclaredVariable
  | .un op e => do
    let v ← e.eval r
    liftOp (applyUnary op v.prim) .unOpError
  | .bin op a b => do
    let x ← a.eval r
    let y ← b.eval r
    liftOp (applyBinary x.prim op y.prim) .binOpError
  | .access n idx =>
    match r.get n with
    | none => .error .undeclaredVariable
    | some a => do
      let is ← evalIdx r idx
      match a with
      | .arr e vs => readV (.arr e vs) is
      | _ => .error .wrongArgument      -- `as_iterator`
  | .call f args =>
    match f, args with
    | "len", [a] => do
      match (← a.eval r) with
      | .arr _ vs => .ok (.scalar (.pint vs.length))
      | _ => .error .wrongArgument
    | "len", _ => .error .wrongNumberOfArguments
    | "enumerate", [a] | "enum", [a] => do
      match (← a.eval r) with
      | .arr e vs => .ok (.arr (.tuple [e, .pint]) (enumerateT vs 0))
      | _ => .error .wrongArgument
    | "enumerate", _ | "enum", _ => .error .wrongNumberOfArguments
    | "zip", [] => .ok (.arr .any [])
    | "zip", a :: rest => do
      let rows ← evalArrs r (a :: rest)
      .ok (.arr (.tuple (rows.map Prod.fst)) (zipT ((rows.map (fun p => p.2.length)).foldl min (rows.headD (.any, [])).2.length) (rows.map Prod.snd)))
    | "range", [a, b, c] => do
      let lo ← intOf (← a.eval r)
      let hi ← intOf (← b.eval r)
      match (← c.eval r) with
      | .scalar (.boolean inc) =>
        if (hi - lo + (if inc then 1 else 0)) > rangeCap then .error .other   -- TooLarge
        else
          let pos := rangeIsPositive lo hi
          .ok (.arr (if pos then .pint else .integer)
            ((rangeVals lo hi inc).map (fun i => .scalar (if pos then .pint i.toNat else .integer i))))
      | _ => .error .wrongArgument
    | "range", _ => .error .wrongNumberOfArguments
    | _, _ => .error .nonExistentFunction
/-- every operand `as_iterator`: element kind tag and elements -/
def evalArrs (r : VEnv α) : List (TE α) → Except TErr (List (Kind × List (TVal α)))
  | [] => .ok []
  | e :: es => do
    match (← e.eval r) with
    | .arr k vs => do
      let rest ← evalArrs r es
      pure ((k, vs) :: rest)
    | _ => .error .wrongArgument
def evalIdx (r : VEnv α) : List (TE α) → Except TErr (List Nat)
  | [] => .ok []
  | e :: es => do
    let v ← e.eval r
    let n ← usizeOf v
    let ns ← evalIdx r es
    pure (n :: ns)
end

/-- `make_std_constants`: declared in front of the program's own constants, by the checker and by transform -/
def stdLets : List (String × TE α) :=
  [("Infinity", .lit (.scalar (.number Arith.posInf))),
   ("MinusInfinity", .lit (.scalar (.number Arith.negInf))),
   ("PI", .lit (.scalar (.number (Arith.div (Arith.ofInt 884279719003555) (Arith.ofInt 281474976710656)))))]

/-- `new_from_constants`, first loop -/
def evalLets : VEnv α → List (String × TE α) → Except TErr (VEnv α)
  | r, [] => .ok r
  | r, (n, e) :: rest => do
    let v ← e.eval r
    if n == "_" then evalLets r rest
    else if (r.get n).isSome then .error .other   -- AlreadyDeclaredVariable
    else if reservedNames.contains n then .error .other   -- AlreadyDefined
    else evalLets ((n, v) :: r) rest

/-- the `where` section as `create_type_checker` sees it -/
def typeCheckWhere (lets : List (String × TE α)) : Except TErr Ctx := typeCheckLets [] (stdLets ++ lets)
/-- the `where` section as `transform_parsed_problem` sees it -/
def evalWhere (lets : List (String × TE α)) : Except TErr (VEnv α) := evalLets [] (stdLets ++ lets)
end dynamic

end Rooc.Pre

