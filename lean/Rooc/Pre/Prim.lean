/-
M9 (part 1) — compile-time primitive values and the operator core.

Ports of `primitives/primitive.rs` (`PrimitiveKind`, `as_number_cast`, `as_integer_cast`,
`as_usize_cast`), `primitives/builtin_primitive_traits_impl.rs` (`impl ApplyOp for String / bool /
f64 / i64 / u64`, `checked_i64`, `checked_u64`, `checked_div`) and the `ApplyOp` impls of tuple /
graph / iterable.  Integers are mathematical `Int` / `Nat` with EXPLICIT `i64` / `u64` range
semantics: every Rust `checked_*` is a range test, every `as` cast is the wrapping / saturating
function Rust defines, and the two places where the Rust code can panic (unchecked unary minus at
`i64::MIN`) return `OpErr.panic`.  Import-free; numbers are any `[Arith α]`.
-/
import Rooc.Num
import Rooc.Exp
namespace Rooc.Pre
open Rooc

/-! ### kinds -/

inductive Kind where
  | number | integer | pint | string
  | iter (k : Kind)
  | graph | edge | node
  | tuple (ks : List Kind)
  | boolean | undefined | any
  deriving Repr, Inhabited

mutual
def Kind.beq : Kind → Kind → Bool
  | .number, .number | .integer, .integer | .pint, .pint | .string, .string => true
  | .graph, .graph | .edge, .edge | .node, .node => true
  | .boolean, .boolean | .undefined, .undefined | .any, .any => true
  | .iter a, .iter b => Kind.beq a b
  | .tuple as, .tuple bs => Kind.beqList as bs
  | _, _ => false
def Kind.beqList : List Kind → List Kind → Bool
  | [], [] => true
  | a :: as, b :: bs => Kind.beq a b && Kind.beqList as bs
  | _, _ => false
end
instance : BEq Kind := ⟨Kind.beq⟩

/-- `PrimitiveKind::is_numeric` -/
def Kind.isNumeric : Kind → Bool
  | .number | .integer | .pint | .boolean => true
  | _ => false

/-! ### 64-bit ranges and casts -/

def i64Min : Int := -9223372036854775808
def i64Max : Int := 9223372036854775807
def u64Max : Nat := 18446744073709551615
def inI64 (i : Int) : Bool := decide (i64Min ≤ i) && decide (i ≤ i64Max)
def inU64 (n : Int) : Bool := decide (0 ≤ n) && decide (n ≤ (u64Max : Int))

/-- Rust `u64 as i64` (two's complement reinterpretation). -/
def u64AsI64 (n : Nat) : Int := if n < 9223372036854775808 then (n : Int) else (n : Int) - 18446744073709551616
/-- Rust `i64::checked_*` result wrapper `checked_i64`. -/
def checkedI64 (r : Int) : Option Int := if inI64 r then some r else none
/-- Rust `u64::checked_*` result wrapper `checked_u64`. -/
def checkedU64 (r : Int) : Option Nat := if inU64 r then some r.toNat else none

/-- Rust `f64 as usize` / `as u64` (saturating, NaN ↦ 0). -/
class ToU64 (α : Type) where
  toU64 : α → Nat
instance : ToU64 Float := ⟨fun a => a.toUInt64.toNat⟩
instance {K : Type} [ExactField K] : ToU64 (Ext K) := ⟨fun a => (Ext.toIntSat 0 18446744073709551615 a).toNat⟩

/-! ### values -/

/-- Scalars in full; every other primitive (iterables, graphs, nodes, edges, tuples, undefined) only
by its kind — the operator code never looks further. -/
inductive Prim (α : Type) where
  | number (x : α)
  | integer (i : Int)
  | pint (n : Nat)
  | boolean (b : Bool)
  | string (s : String)
  | other (k : Kind)
  deriving Repr, Inhabited

/-- `PrimitiveKind::from_primitive` -/
def Prim.kind {α : Type} : Prim α → Kind
  | .number _ => .number | .integer _ => .integer | .pint _ => .pint
  | .boolean _ => .boolean | .string _ => .string | .other k => k

/-- the kinds of the primitives that `Prim.other` stands for -/
def Kind.isOther : Kind → Bool
  | .iter _ | .graph | .edge | .node | .tuple _ | .undefined => true
  | _ => false
/-- `other k` is used for non-scalar primitives only (no value has kind `Any`) -/
def Prim.proper {α : Type} : Prim α → Bool
  | .other k => k.isOther
  | _ => true

/-- the value fits its Rust representation -/
def Prim.wf {α : Type} : Prim α → Bool
  | .integer i => inI64 i
  | .pint n => decide (n ≤ u64Max)
  | _ => true

/-- `OperatorError` variants (+ the panic the Rust can raise). -/
inductive OpErr where
  | incompatibleType | unsupportedBin | unsupportedUn | undefinedUse | divisionByZero | overflow | panic
  deriving Repr, DecidableEq, Inhabited

def OpErr.name : OpErr → String
  | .incompatibleType => "IncompatibleType" | .unsupportedBin => "UnsupportedBinOperation"
  | .unsupportedUn => "UnsupportedUnOperation" | .undefinedUse => "UndefinedUse"
  | .divisionByZero => "DivisionByZero" | .overflow => "Overflow" | .panic => "panic"

abbrev Res (α : Type) := Except OpErr (Prim α)

section ops
variable {α : Type} [Arith α]
open Arith

def boolF (b : Bool) : α := if b then ofInt 1 else ofInt 0
def boolI (b : Bool) : Int := if b then 1 else 0

/-- `checked_div` -/
def checkedDiv (a b : α) : Res α :=
  if eq b (ofInt 0) then .error .divisionByZero else .ok (.number (div a b))

def isLogic : BinOp → Bool
  | .and | .or | .xor | .implies | .iff => true
  | _ => false

/-- float arithmetic of two numbers (`+ - *` total, `/` through `checked_div`) -/
def floatArith (op : BinOp) (a b : α) : Res α :=
  match op with
  | .add => .ok (.number (add a b))
  | .sub => .ok (.number (sub a b))
  | .mul => .ok (.number (mul a b))
  | .div => checkedDiv a b
  | _ => .error .unsupportedBin

def ofI64 (r : Option Int) : Res α :=
  match r with | some v => .ok (.integer v) | none => .error .overflow
def ofU64 (r : Option Nat) : Res α :=
  match r with | some v => .ok (.pint v) | none => .error .overflow

/-- `impl ApplyOp for f64` -/
def applyBinNumber (x : α) (op : BinOp) (to : Prim α) : Res α :=
  match to with
  | .number n => floatArith op x n
  | .integer n => floatArith op x (ofInt n)
  | .pint n => floatArith op x (ofInt (n : Int))
  | .boolean b => floatArith op x (boolF b)
  | _ => .error .incompatibleType

/-- `impl ApplyOp for i64` (since 9844b94: a `PositiveInteger` operand enters the operation with its exact
value, `*self as i128 + *n as i128` narrowed by `i64::try_from`) -/
def applyBinInteger (i : Int) (op : BinOp) (to : Prim α) : Res α :=
  let intOp (n : Int) (nf : α) : Res α :=
    match op with
    | .add => ofI64 (checkedI64 (i + n))
    | .sub => ofI64 (checkedI64 (i - n))
    | .mul => ofI64 (checkedI64 (i * n))
    | .div => checkedDiv (ofInt i) nf
    | _ => .error .unsupportedBin
  match to with
  | .integer n => intOp n (ofInt n)
  | .number n => floatArith op (ofInt i) n
  | .pint n => intOp (n : Int) (ofInt (n : Int))
  | .boolean b => intOp (boolI b) (boolF b)
  | _ => .error .incompatibleType

/-- `impl ApplyOp for u64` (since 9844b94 every result that leaves `u64` is computed exactly and narrowed) -/
def applyBinPint (u : Nat) (op : BinOp) (to : Prim α) : Res α :=
  let s : Int := (u : Int)
  match to with
  | .pint n =>
    match op with
    | .add => ofU64 (checkedU64 ((u : Int) + (n : Int)))
    | .sub => ofI64 (checkedI64 (s - (n : Int)))
    | .mul => ofU64 (checkedU64 ((u : Int) * (n : Int)))
    | .div => checkedDiv (ofInt (u : Int)) (ofInt (n : Int))
    | _ => .error .unsupportedBin
  | .integer n =>
    match op with
    | .add => ofI64 (checkedI64 (s + n))
    | .sub => ofI64 (checkedI64 (s - n))
    | .mul => ofI64 (checkedI64 (s * n))
    | .div => checkedDiv (ofInt (u : Int)) (ofInt n)
    | _ => .error .unsupportedBin
  | .number n => floatArith op (ofInt (u : Int)) n
  | .boolean b =>
    match op with
    | .add => ofU64 (checkedU64 ((u : Int) + boolI b))
    | .sub => ofI64 (checkedI64 (s - boolI b))
    | .mul => ofU64 (checkedU64 ((u : Int) * boolI b))
    | .div => checkedDiv (ofInt (u : Int)) (boolF b)
    | _ => .error .unsupportedBin
  | _ => .error .incompatibleType

/-- `impl ApplyOp for bool` -/
def applyBinBoolean (a : Bool) (op : BinOp) (to : Prim α) : Res α :=
  if isLogic op then
    match to with
    | .boolean b =>
      match op with
      | .and => .ok (.boolean (a && b))
      | .or => .ok (.boolean (a || b))
      | .xor => .ok (.boolean (a != b))
      | .implies => .ok (.boolean (!a || b))
      | _ => .ok (.boolean (a == b))
    | _ => .error .incompatibleType
  else applyBinNumber (boolF a) op to

/-- `impl ApplyOp for String` -/
def applyBinString (s : String) (op : BinOp) (to : Prim α) : Res α :=
  match to with
  | .string t => match op with
    | .add => .ok (.string (s ++ t))
    | _ => .error .unsupportedBin
  | _ => .error .incompatibleType

/-- `impl ApplyOp for Primitive :: apply_binary_op` -/
def applyBinary (a : Prim α) (op : BinOp) (b : Prim α) : Res α :=
  match a with
  | .boolean x => applyBinBoolean x op b
  | .string s => applyBinString s op b
  | .number x => applyBinNumber x op b
  | .integer i => applyBinInteger i op b
  | .pint u => applyBinPint u op b
  | .other .undefined => .error .undefinedUse
  | .other _ => .error .unsupportedBin

/-! #### the code before `fixes/C18-exact-mixed-integer-arithmetic.diff` (applied as 9844b94): mixed
`Integer` / `PositiveInteger` arithmetic cast the unsigned operand with `as i64`.  Kept to state what the
repair changed (`Props/C18.lean`: `u64_operand_wrap_counterexample`, `repair_agrees_binary`). -/

/-- `impl ApplyOp for i64` BEFORE 9844b94: a `PositiveInteger` operand is cast with `as i64` -/
def applyBinIntegerWrap (i : Int) (op : BinOp) (to : Prim α) : Res α :=
  let intOp (n : Int) (nf : α) : Res α :=
    match op with
    | .add => ofI64 (checkedI64 (i + n))
    | .sub => ofI64 (checkedI64 (i - n))
    | .mul => ofI64 (checkedI64 (i * n))
    | .div => checkedDiv (ofInt i) nf
    | _ => .error .unsupportedBin
  match to with
  | .integer n => intOp n (ofInt n)
  | .number n => floatArith op (ofInt i) n
  | .pint n => intOp (u64AsI64 n) (ofInt (n : Int))
  | .boolean b => intOp (boolI b) (boolF b)
  | _ => .error .incompatibleType

/-- `impl ApplyOp for u64` BEFORE 9844b94 -/
def applyBinPintWrap (u : Nat) (op : BinOp) (to : Prim α) : Res α :=
  let s : Int := u64AsI64 u
  match to with
  | .pint n =>
    match op with
    | .add => ofU64 (checkedU64 ((u : Int) + (n : Int)))
    | .sub => ofI64 (checkedI64 (s - u64AsI64 n))
    | .mul => ofU64 (checkedU64 ((u : Int) * (n : Int)))
    | .div => checkedDiv (ofInt (u : Int)) (ofInt (n : Int))
    | _ => .error .unsupportedBin
  | .integer n =>
    match op with
    | .add => ofI64 (checkedI64 (s + n))
    | .sub => ofI64 (checkedI64 (s - n))
    | .mul => ofI64 (checkedI64 (s * n))
    | .div => checkedDiv (ofInt (u : Int)) (ofInt n)
    | _ => .error .unsupportedBin
  | .number n => floatArith op (ofInt (u : Int)) n
  | .boolean b =>
    match op with
    | .add => ofU64 (checkedU64 ((u : Int) + boolI b))
    | .sub => ofI64 (checkedI64 (s - boolI b))
    | .mul => ofU64 (checkedU64 ((u : Int) * boolI b))
    | .div => checkedDiv (ofInt (u : Int)) (boolF b)
    | _ => .error .unsupportedBin
  | _ => .error .incompatibleType

def applyBinaryWrap (a : Prim α) (op : BinOp) (b : Prim α) : Res α :=
  match a with
  | .integer i => applyBinIntegerWrap i op b
  | .pint u => applyBinPintWrap u op b
  | a => applyBinary a op b

/-- the mathematical integer a primitive stands for in integer arithmetic -/
def Prim.intVal : Prim α → Option Int
  | .integer i => some i
  | .pint n => some (n : Int)
  | .boolean b => some (boolI b)
  | _ => none

/-- `impl ApplyOp for Primitive :: apply_unary_op` (as of /repo 964974c: `checked_neg` for `i64`,
`0i64.checked_sub_unsigned(u)` for `u64` — the negation that does not fit `i64` is the `Overflow` error). -/
def applyUnary (op : UnOp) (a : Prim α) : Res α :=
  match a, op with
  | .boolean b, .not => .ok (.boolean (!b))
  | .boolean b, .neg => .ok (.number (neg (boolF b)))
  | .number x, .neg => .ok (.number (neg x))
  | .integer i, .neg => ofI64 (checkedI64 (-i))
  | .pint u, .neg => ofI64 (checkedI64 (-(u : Int)))
  | .other .undefined, _ => .error .undefinedUse
  | _, _ => .error .unsupportedUn

/-- the code BEFORE the repair (`UnOp::Neg => Ok(Primitive::Integer(-self))`, `-(*self as i64)`): kept as
the regression reference — the two `panic` results are the unchecked negations at `i64::MIN`
(debug builds; release builds wrap). -/
def applyUnaryUnchecked (op : UnOp) (a : Prim α) : Res α :=
  match a, op with
  | .integer i, .neg => if i = i64Min then .error .panic else .ok (.integer (-i))
  | .pint u, .neg => if u64AsI64 u = i64Min then .error .panic else .ok (.integer (-(u64AsI64 u)))
  | a, op => applyUnary op a

/-- the operand on which the unchecked `-self` / `-(*self as i64)` overflowed -/
def negatesMin : Prim α → Bool
  | .integer i => i == i64Min
  | .pint u => u64AsI64 u == i64Min
  | _ => false

/-! ### casts (`TransformError::WrongArgument` is the only failure) -/

inductive CastErr where | wrongArgument | doesNotFit
  deriving Repr, DecidableEq

/-- `10_f64.powi(-5)` -/
def nearZero : α := div (ofInt 1) (ofInt 100000)
/-- `math_utils::float_eq` -/
def floatEq (a b : α) : Bool := lt (abs (sub a b)) nearZero
def floatNe (a b : α) : Bool := !(floatEq a b)
def floatLt (a b : α) : Bool := lt a b && !(floatEq a b)
/-- `f64::fract` = `x - x.trunc()` -/
def fract (x : α) : α := sub x (if lt x (ofInt 0) then ceil x else floor x)

/-- `as_number_cast` -/
def asNumberCast : Prim α → Except CastErr α
  | .number n => .ok n
  | .integer n => .ok (ofInt n)
  | .pint n => .ok (ofInt (n : Int))
  | .boolean b => .ok (boolF b)
  | _ => .error .wrongArgument

/-- `as_integer_cast` (since /repo 2f900bf: `i64::try_from(n)` for a `PositiveInteger`, a value from 2^63 on is
the error `Other: the value … does not fit a signed 64 bit integer`, not a wrapped negative number) -/
def asIntegerCast : Prim α → Except CastErr Int
  | .integer n => .ok n
  | .pint n => if n < 9223372036854775808 then .ok (n : Int) else .error .doesNotFit
  | .boolean b => .ok (boolI b)
  | .number n => if floatNe (fract n) (ofInt 0) then .error .wrongArgument else .ok (toI64 n)
  | _ => .error .wrongArgument

/-- the cast BEFORE 2f900bf (`*n as i64`): kept as the regression reference -/
def asIntegerCastWrap : Prim α → Except CastErr Int
  | .pint n => .ok (u64AsI64 n)
  | p => asIntegerCast p

/-- `as_usize_cast` (64-bit target: `usize` = `u64`) -/
def asUsizeCast [ToU64 α] : Prim α → Except CastErr Nat
  | .pint n => .ok n
  | .integer n => if n < 0 then .error .wrongArgument else .ok n.toNat
  | .boolean b => .ok (if b then 1 else 0)
  | .number n =>
    if floatNe (fract n) (ofInt 0) || floatLt n (ofInt 0) then .error .wrongArgument else .ok (ToU64.toU64 n)
  | _ => .error .wrongArgument

end ops
end Rooc.Pre
