/-
M9 (part 3) — iteration / aggregation expansion.

Ports of the folds of `PreExp::into_exp` (`BlockFunction` / `BlockScopedFunction` arms: `sum`,
`prod`, `avg` nest to the RIGHT starting from the last element, `xor` folds from the LEFT, `min`,
`max`, `all`, `any` keep the list, empty cases `0` / `1` / `0 ÷ 0`), of `NumericRange::call`,
`EnumerateArray::call`, `ZipArrays::call`, the set functions of `array_functions.rs`
(`primitive_value_eq`, `contains_value`), `IterableKind::read`, `apply_tuple` and of
`TransformerContext::{flatten_variable_name, flatten_compound_variable}`.  Import-free.
-/
import Rooc.Pre.Prim
namespace Rooc.Pre
open Rooc

section folds
variable {α : Type} [Arith α]

/-- `let mut acc = results.pop().unwrap_or(empty); for r in results.into_iter().rev() { acc = BinOp(op, r, acc) }` -/
def foldRight (op : BinOp) (empty : Exp α) : List (Exp α) → Exp α
  | [] => empty
  | [x] => x
  | x :: y :: rest => .bin op x (foldRight op empty (y :: rest))

/-- `fold_xor` -/
def foldXor : List (Exp α) → Exp α
  | [] => .num (Arith.ofInt 0)
  | x :: xs => xs.foldl (fun acc e => .xor acc e) x

inductive AggKind | sum | prod | min | max | avg | all | any | xor | abs
  deriving Repr, DecidableEq

/-- the `BlockScopedFunction` / `BlockFunction` arms of `into_exp`, applied to the already
transformed operands (`none`: the `abs` arity error). -/
def aggregate (k : AggKind) (xs : List (Exp α)) : Option (Exp α) :=
  match k with
  | .sum => some (foldRight .add (.num (Arith.ofInt 0)) xs)
  | .prod => some (foldRight .mul (.num (Arith.ofInt 1)) xs)
  | .avg => some (.bin .div (foldRight .add (.num (Arith.ofInt 0)) xs) (.num (Arith.ofInt xs.length)))
  | .min => some (.min xs)
  | .max => some (.max xs)
  | .all => some (.and xs)
  | .any => some (.or xs)
  | .xor => some (foldXor xs)
  | .abs => match xs with | [x] => some (.abs x) | _ => none
end folds

/-! ### ranges, enumerate, zip -/

/-- `from..to` as a list of consecutive integers, `n` of them starting at `lo` -/
def intsFrom (lo : Int) : Nat → List Int
  | 0 => []
  | n + 1 => lo :: intsFrom (lo + 1) n

/-- `NumericRange::call` after the integer casts: the elements and whether the result is a
`PositiveIntegers` iterable (`from >= 0 && to >= 0`) or an `Integers` one. -/
def rangeVals (lo hi : Int) (inclusive : Bool) : List Int :=
  intsFrom lo (if inclusive then (hi - lo + 1).toNat else (hi - lo).toNat)
def rangeIsPositive (lo hi : Int) : Bool := decide (0 ≤ lo) && decide (0 ≤ hi)
/-- `MAX_RANGE_SIZE` (`NumericRange::call`, since /repo c4ff057: a larger range is the `TooLarge` error) -/
def rangeCap : Int := 10000000
/-- the size `NumericRange::call` compares with the cap -/
def rangeTooLarge (lo hi : Int) (inclusive : Bool) : Bool := decide (hi - lo + (if inclusive then 1 else 0) > rangeCap)

/-- `EnumerateArray::call`: each element paired with its position -/
def enumerateFrom {β : Type} (i : Nat) : List β → List (β × Nat)
  | [] => []
  | x :: xs => (x, i) :: enumerateFrom (i + 1) xs
def enumerate {β : Type} (xs : List β) : List (β × Nat) := enumerateFrom 0 xs

/-- `ZipArrays::call`: row `i` collects the `i`-th element of every argument, up to the shortest -/
def heads {β : Type} : List (List β) → Option (List β)
  | [] => some []
  | [] :: _ => none
  | (x :: _) :: rest => (heads rest).map (x :: ·)
def zipN {β : Type} : Nat → List (List β) → List (List β)
  | 0, _ => []
  | _, [] => []
  | fuel + 1, ls => match heads ls with
    | none => []
    | some row => row :: zipN fuel (ls.map List.tail)
def shortest {β : Type} : List (List β) → Nat
  | [] => 0
  | [l] => l.length
  | l :: rest => Nat.min l.length (shortest rest)
def zip {β : Type} (ls : List (List β)) : List (List β) := zipN (shortest ls) ls

/-! ### set functions (on the numeric images; `float_eq` tolerance 1e-5) -/
section sets
variable {α : Type} [Arith α]
def containsValue (hay : List α) (x : α) : Bool := hay.any (fun y => floatEq y x)
def setUnion (a b : List α) : List α := (a ++ b).foldl (fun acc x => if containsValue acc x then acc else acc ++ [x]) []
def setInter (a b : List α) : List α := a.filter (fun x => containsValue b x)
def setDiff (a b : List α) : List α := a.filter (fun x => !(containsValue b x))
end sets

/-! ### names -/

/-- `flatten_variable_name` on the already printed index fragments: joined with `_` -/
def flattenChars : List (List Char) → List Char
  | [] => []
  | [a] => a
  | a :: b :: rest => a ++ '_' :: flattenChars (b :: rest)
/-- `flatten_compound_variable`: `format!("{}_{}", name, flattened)` -/
def flattenCompoundChars (name : List Char) (frags : List (List Char)) : List Char := name ++ '_' :: flattenChars frags
def flattenCompound (name : String) (frags : List String) : String :=
  String.ofList (flattenCompoundChars name.toList (frags.map String.toList))

/-- every index fragment is free of `_` -/
def underscoreFree (frags : List (List Char)) : Prop := ∀ f ∈ frags, '_' ∉ f


/-- the printed fragment of an index value (`Number` fragments arrive as the text Rust's `f64`
Display produced); `none` = `WrongExpectedArgument` -/
def fragmentOf {α : Type} (numText : α → String) : Prim α → Option String
  | .number x => some (numText x)
  | .integer i => some (toString i)
  | .pint n => some (toString n)
  | .boolean b => some (if b then "T" else "F")
  | .string s => some s
  | .other .node => none   -- node names travel as strings in the protocol
  | .other _ => none

/-! ### `IterableKind::read` on nested lists -/
inductive Tree (β : Type) where
  | leaf (v : β)
  | node (cs : List (Tree β))
  deriving Repr, Inhabited

inductive ReadErr | outOfBounds deriving Repr, DecidableEq

/-- `read(indexes)`: `none` for the empty index list stands for `Primitive::Undefined` -/
def Tree.read {β : Type} : Tree β → List Nat → Except ReadErr (Option (Tree β))
  | _, [] => .ok none
  | .leaf _, _ :: _ => .error .outOfBounds
  | .node cs, [i] => match cs[i]? with | some c => .ok (some c) | none => .error .outOfBounds
  | .node cs, i :: j :: rest => match cs[i]? with
    | some (.node ds) => Tree.read (.node ds) (j :: rest)
    | _ => .error .outOfBounds

end Rooc.Pre
