/-
M9 (part 4) — iteration expansion on a modelled fragment, and its syntactic hand-unrolling.

`expand` ports the relevant arms of `PreExp::into_exp` together with `recursive_set_resolver` /
`apply_tuple` (scoped frames, strict declaration, `_` discard, iteration order = order of the
iterable, first iterator outermost) and `compute_indexes` / `flatten_compound_variable`, for model
expressions built from integer literals, identifiers (bound: the iteration value as a number; unbound:
a decision variable), compound variables with integer index expressions, the nine binary operators,
block functions and scoped aggregates over `range`, literal arrays, `enumerate` and `zip` of literal
arrays.  `unroll` is the syntactic hand-unrolling: every iteration value is substituted as a literal and
every scoped aggregate is replaced by the explicit expression the language defines.
Restrictions of the fragment: compile-time integers are unbounded here (`i64` overflow is modelled in
`Prim.lean`), data are integers, no graphs.  Import-free.
-/
import Rooc.Pre.Expand
namespace Rooc.Pre
open Rooc

inductive IErr where
  | undeclared | alreadyDeclared | destructure | arity | overflow
  deriving Repr, DecidableEq

/-- compile-time integer expressions (indexes, range bounds) -/
inductive CE where
  | lit (i : Int)
  | var (n : String)
  | add (a b : CE)
  | sub (a b : CE)
  | mul (a b : CE)
  deriving Repr, Inhabited

/-- iterator sources -/
inductive Src where
  | range (lo hi : CE) (inclusive : Bool)
  | arr (xs : List Int)
  | enumArr (xs : List Int)
  | zip2 (xs ys : List Int)
  deriving Repr, Inhabited

/-- `v in range/array` (one variable bound to the element) or `(v₁, …) in enumerate/zip` (destructuring) -/
structure It where
  vars : List String
  src : Src
  deriving Repr, Inhabited

/-- the single-variable form is used with scalar elements only (a tuple pattern over scalars is
`Unspreadable` in the Rust, a single variable over tuples binds a tuple: both outside the fragment) -/
def It.shapeOk (it : It) : Bool :=
  match it.src with
  | .range _ _ _ | .arr _ => it.vars.length == 1
  | _ => true

/-- model expressions of the fragment -/
inductive ME where
  | lit (i : Int)
  | var (n : String)
  | cvar (base : String) (idx : List CE)
  | bin (op : BinOp) (a b : ME)
  | blk (k : AggKind) (es : List ME)
  | agg (k : AggKind) (its : List It) (body : ME)
  deriving Repr, Inhabited

abbrev Env := List (String × Int)

def Env.get (env : Env) (n : String) : Option Int :=
  match env with
  | [] => none
  | (k, v) :: rest => if k == n then some v else Env.get rest n

/-- `checked_add` / `checked_sub` / `checked_mul` on `i64`: a result outside the range is the Overflow error -/
def narrow (v : Int) : Except IErr Int := if inI64 v then .ok v else .error .overflow

def CE.eval (env : Env) : CE → Except IErr Int
  | .lit i => .ok i
  | .var n => match env.get n with | some v => .ok v | none => .error .undeclared
  | .add a b => do narrow ((← a.eval env) + (← b.eval env))
  | .sub a b => do narrow ((← a.eval env) - (← b.eval env))
  | .mul a b => do narrow ((← a.eval env) * (← b.eval env))

/-- `compute_indexes`: an unbound identifier index is a literal name fragment -/
def idxFrag (env : Env) : CE → Except IErr String
  | .var n => match env.get n with | some v => .ok (toString v) | none => .ok n
  | c => (c.eval env).map toString

def mapE {β γ : Type} (f : β → Except IErr γ) : List β → Except IErr (List γ)
  | [] => .ok []
  | x :: xs => do
    let y ← f x
    let ys ← mapE f xs
    pure (y :: ys)

/-- the rows an iterator yields (one row per element, one column per destructured component) -/
def Src.rows (env : Env) : Src → Except IErr (List (List Int))
  | .range lo hi inc => do
    let l ← lo.eval env
    let h ← hi.eval env
    if rangeTooLarge l h inc then .error .overflow     -- TooLarge
    else pure ((rangeVals l h inc).map (fun i => [i]))
  | .arr xs => .ok (xs.map (fun x => [x]))
  | .enumArr xs => .ok ((enumerate xs).map (fun p => [p.1, (p.2 : Int)]))
  | .zip2 xs ys => .ok (zip [xs, ys])

/-- strict declaration of the iteration variables (`declare_variable(name, Undefined, true)`) -/
def declareAll (env : Env) : List String → Except IErr Unit
  | [] => .ok ()
  | v :: vs => if v == "_" then declareAll env vs
    else if (env.get v).isSome || vs.contains v then .error .alreadyDeclared else declareAll env vs

/-- `apply_tuple` / `update_variable`: bind the variables to the components of one row -/
def bindRow (env : Env) : List String → List Int → Except IErr Env
  | [], _ => .ok env
  | _ :: _, [] => .error .destructure
  | v :: vs, x :: xs => do
    let env' ← bindRow env vs xs
    pure (if v == "_" then env' else (v, x) :: env')

/-- `recursive_set_resolver`, the environments of the leaf calls: one per combination of iteration
values, first iterator outermost, in the order of the iterables.  (The Rust interleaves the leaf
callback with the enumeration; the callback does not touch the bindings, so the results — and whether
anything fails — are the same; which error is reported first is not modelled.) -/
def envs : List It → Env → Except IErr (List Env)
  | [], env => .ok [env]
  | it :: rest, env => do
    if !it.shapeOk then throw .destructure
    declareAll env it.vars
    let rows ← it.src.rows env
    let parts ← mapE (fun row => do envs rest (← bindRow env it.vars row)) rows
    pure parts.flatten

/-- the leaf callback `k` applied to every environment, results in iteration order -/
def iterate {β : Type} (k : Env → Except IErr β) (its : List It) (env : Env) : Except IErr (List β) := do
  let es ← envs its env
  mapE k es

section expand
variable {α : Type} [Arith α]

/-- the `BinaryOperation` arm of `into_exp` -/
def mkBin (op : BinOp) (l r : Exp α) : Exp α :=
  match op with
  | .and => .and [l, r]
  | .or => .or [l, r]
  | .xor => .xor l r
  | .implies => .implies l r
  | .iff => .iff l r
  | op => .bin op l r

mutual
def expand (env : Env) : ME → Except IErr (Exp α)
  | .lit i => .ok (.num (Arith.ofInt i))
  | .var n => match env.get n with
    | some v => .ok (.num (Arith.ofInt v))
    | none => .ok (.var n)
  | .cvar base idx => do
    let frags ← mapE (idxFrag env) idx
    pure (.var (flattenCompound base frags))
  | .bin op a b => do
    let l ← expand env a
    let r ← expand env b
    pure (mkBin op l r)
  | .blk k es => do
    let xs ← expandList env es
    match aggregate k xs with
    | some e => pure e
    | none => .error .arity
  | .agg k its body => do
    let xs ← iterate (fun env' => expand env' body) its env
    match aggregate k xs with
    | some e => pure e
    | none => .error .arity
def expandList (env : Env) : List ME → Except IErr (List (Exp α))
  | [] => .ok []
  | e :: es => do
    let x ← expand env e
    let xs ← expandList env es
    pure (x :: xs)
end
end expand

/-! ### the hand-unrolled text -/

def foldRightME (op : BinOp) (empty : ME) : List ME → ME
  | [] => empty
  | [x] => x
  | x :: y :: rest => .bin op x (foldRightME op empty (y :: rest))

/-- the explicit expression a scoped aggregate stands for (`sum` / `prod` nest to the right, `avg`
divides by the count, `xor` folds from the left, `min` / `max` / `all` / `any` become the block form) -/
def explicit (k : AggKind) (xs : List ME) : ME :=
  match k with
  | .sum => foldRightME .add (.lit 0) xs
  | .prod => foldRightME .mul (.lit 1) xs
  | .avg => .bin .div (foldRightME .add (.lit 0) xs) (.lit xs.length)
  | .xor => (match xs with | [] => .lit 0 | x :: rest => rest.foldl (fun acc e => .bin .xor acc e) x)
  | k => .blk k xs

/-- a literal index: the value, or the unbound identifier itself -/
def unrollIdx (env : Env) : CE → Except IErr CE
  | .var n => match env.get n with | some v => .ok (.lit v) | none => .ok (.var n)
  | c => (c.eval env).map .lit

mutual
def unroll (env : Env) : ME → Except IErr ME
  | .lit i => .ok (.lit i)
  | .var n => match env.get n with
    | some v => .ok (.lit v)
    | none => .ok (.var n)
  | .cvar base idx => do pure (.cvar base (← mapE (unrollIdx env) idx))
  | .bin op a b => do pure (.bin op (← unroll env a) (← unroll env b))
  | .blk k es => do pure (.blk k (← unrollList env es))
  | .agg k its body => do
    let xs ← iterate (fun env' => unroll env' body) its env
    pure (explicit k xs)
def unrollList (env : Env) : List ME → Except IErr (List ME)
  | [] => .ok []
  | e :: es => do
    let x ← unroll env e
    let xs ← unrollList env es
    pure (x :: xs)
end

mutual
/-- free of iteration constructs -/
def ME.flat : ME → Bool
  | .agg _ _ _ => false
  | .bin _ a b => a.flat && b.flat
  | .blk _ es => ME.flatList es
  | _ => true
def ME.flatList : List ME → Bool
  | [] => true
  | e :: es => e.flat && ME.flatList es
end

/-- number of elements of an iterator whose source does not depend on the environment -/
def Src.count? : Src → Option Nat
  | .range (.lit a) (.lit b) inc => some (rangeVals a b inc).length
  | .range _ _ _ => none
  | .arr xs => some xs.length
  | .enumArr xs => some xs.length
  | .zip2 xs ys => some (zip [xs, ys]).length
/-- product of the sizes of the iteration sets (`none` if one of them depends on the environment) -/
def iterProduct : List It → Option Nat
  | [] => some 1
  | it :: rest => do
    let n ← it.src.count?
    let m ← iterProduct rest
    pure (n * m)

mutual
/-- the parser's static arity rule (`parse_block_function`: `abs` takes exactly one expression),
checked on the whole text before anything is expanded -/
def ME.arityOk : ME → Bool
  | .blk k es => (match k with | .abs => es.length == 1 | _ => true) && ME.arityOkList es
  | .bin _ a b => a.arityOk && b.arityOk
  | .agg _ _ body => body.arityOk
  | _ => true
def ME.arityOkList : List ME → Bool
  | [] => true
  | e :: es => e.arityOk && ME.arityOkList es
end

/-- parse (arity rule) then expand in the empty environment -/
def expandChecked {α : Type} [Arith α] (e : ME) : Except IErr (Exp α) :=
  if e.arityOk then expand [] e else .error .arity
def unrollChecked (e : ME) : Except IErr ME :=
  if e.arityOk then unroll [] e else .error .arity

end Rooc.Pre
