/-
M9 (part 8) — iteration scopes over typed values: `name_{idx…}: … for vars in iterator, …`.

Static side: `impl TypeCheckable for PreConstraint` (for every iteration: type check the iterator in the
CURRENT scope, open a scope, `IterableSet::variable_types`, `add_token_type` = strict declaration of every
variable; then `check_compound_variable` on the indexes of the constraint's name).  Dynamic side:
`transform_constraint_with_iteration` / `recursive_set_resolver` (open a scope, declare every variable
strictly as `Undefined`, THEN evaluate the iterator, `as_iterator`, for every element: `update_variable` or
`to_primitive_set` + `apply_tuple`; at the leaf `CompoundVariable::compute_indexes` and
`flatten_variable_name`).  The compile-time expressions are the ones of `Rooc/Pre/Lets.lean`.  Import-free.
-/
import Rooc.Model
import Rooc.Pre.Lets
import Rooc.Pre.Program
namespace Rooc.Pre
open Rooc

/-- one `vars in iterator`; `tuple` = written `(a, b, …)` -/
structure TIt (α : Type) where
  vars : List String
  tuple : Bool
  over : TE α
  deriving Repr, Inhabited

/-- a quantified, named constraint reduced to its compile-time part -/
structure TFor (α : Type) where
  its : List (TIt α)
  idx : List (TE α)
  deriving Repr, Inhabited

/-- `PreVariableType` with typed bound expressions -/
inductive TTy (α : Type) where
  | bool
  | real (lo hi : Option (TE α))
  | nnreal (lo hi : Option (TE α))
  | int (lo hi : TE α)
  deriving Repr, Inhabited

/-- `VariablesDomainDeclaration`: `vars as ty for its`; a variable is a plain name (`none`) or a compound
name with index expressions -/
structure TDecl (α : Type) where
  its : List (TIt α)
  vars : List (String × Option (List (TE α)))
  ty : TTy α
  deriving Repr, Inhabited

/-! ### static side -/
section static
variable {α : Type}

/-- the fragment of `Props/C19.lean`: expressions of the `where` fragment, and a pattern without parentheses
names exactly one variable (grammar) -/
def TIt.wf (it : TIt α) : Bool := it.over.wf && (it.tuple || it.vars.length == 1)
def TFor.wf (f : TFor α) : Bool := f.its.all TIt.wf && wfList f.idx
def optWf : Option (TE α) → Bool
  | none => true
  | some e => e.wf
def TTy.wf : TTy α → Bool
  | .bool => true
  | .real lo hi | .nnreal lo hi => optWf lo && optWf hi
  | .int lo hi => lo.wf && hi.wf
def TDecl.wf (d : TDecl α) : Bool :=
  d.its.all TIt.wf && d.ty.wf && d.vars.all (fun v => match v.2 with | none => true | some idx => wfList idx)

/-- `IterableSet::variable_types` -/
def variableTypes (g : Ctx) (it : TIt α) : Except TErr (List (String × Kind)) :=
  match it.over.typeOf g with
  | .iter elem =>
    if !it.tuple then .ok (it.vars.map (fun v => (v, elem)))
    else match elem with
      | .iter k => .ok (it.vars.map (fun v => (v, k)))      -- rows: the arity is not static
      | e => match e.canSpreadInto with
        | none => .error .unspreadable
        | some ts => if it.vars.length > ts.length then .error .spreadError else .ok (it.vars.zip ts)
  | _ => .error .wrongArgument

/-- `add_token_type` for every variable of the pattern: strict, `_` declares nothing -/
def declareKinds : Ctx → List (String × Kind) → Except TErr Ctx
  | g, [] => .ok g
  | g, (n, k) :: rest =>
    if n == "_" then declareKinds g rest
    else if (g.get n).isSome then .error .other          -- AlreadyDeclaredVariable
    else if reservedNames.contains n then .error .other  -- AlreadyDefined
    else declareKinds ((n, k) :: g) rest

def indexKindOk : Kind → Bool
  | .number | .integer | .pint | .string | .node => true
  | _ => false

/-- `check_compound_variable`, one index: an unbound identifier is a literal name fragment -/
def checkIndex (g : Ctx) : TE α → Except TErr Unit
  | .var v => if indexKindOk ((g.get v).getD .string) then .ok () else .error .wrongExpectedArgument
  | .lit v => if indexKindOk v.kind then .ok () else .error .wrongExpectedArgument
  | e => do
    e.typeCheck g
    if indexKindOk (e.typeOf g) then .ok () else .error .wrongExpectedArgument

def checkIndexes (g : Ctx) : List (TE α) → Except TErr Unit
  | [] => .ok ()
  | e :: es => do
    checkIndex g e
    checkIndexes g es

/-- the scope part shared by `PreConstraint::type_check` and `VariablesDomainDeclaration::type_check`: every
iterator is checked in the scope opened so far, its variables are declared strictly, `leaf` runs in the
innermost scope -/
def typeCheckIts (leaf : Ctx → Except TErr Unit) : Ctx → List (TIt α) → Except TErr Unit
  | g, [] => leaf g
  | g, it :: rest => do
    it.over.typeCheck g
    let tys ← variableTypes g it
    let g' ← declareKinds g tys
    typeCheckIts leaf g' rest

/-- a `Real` / `NonNegativeReal` bound: any numeric kind -/
def checkNumBound (g : Ctx) : Option (TE α) → Except TErr Unit
  | none => .ok ()
  | some e => do
    e.typeCheck g
    if (e.typeOf g).isNumeric then .ok () else .error .wrongArgument

def isIntKind : Kind → Bool
  | .integer | .pint => true
  | _ => false

/-- `impl TypeCheckable for PreVariableType` -/
def TTy.typeCheck (g : Ctx) : TTy α → Except TErr Unit
  | .bool => .ok ()
  | .real lo hi | .nnreal lo hi => do
    checkNumBound g lo
    checkNumBound g hi
  | .int lo hi => do
    lo.typeCheck g
    hi.typeCheck g
    if !isIntKind (lo.typeOf g) then .error .wrongArgument
    else if !isIntKind (hi.typeOf g) then .error .wrongArgument
    else .ok ()

/-- the declared names: a plain name must not be a compile-time value, the indexes of a compound name follow
`check_compound_variable` -/
def checkDeclVars (g : Ctx) : List (String × Option (List (TE α))) → Except TErr Unit
  | [] => .ok ()
  | (n, none) :: rest => if (g.get n).isSome then .error .other else checkDeclVars g rest
  | (_, some idx) :: rest => do
    checkIndexes g idx
    checkDeclVars g rest

/-- `VariablesDomainDeclaration::type_check` -/
def typeCheckDecl (g : Ctx) (d : TDecl α) : Except TErr Unit :=
  typeCheckIts (fun g => do checkDeclVars g d.vars; d.ty.typeCheck g) g d.its

/-- `PreConstraint::type_check`, the part about scopes and the name -/
def typeCheckFor (g : Ctx) (its : List (TIt α)) (idx : List (TE α)) : Except TErr Unit :=
  typeCheckIts (fun g => checkIndexes g idx) g its
end static

/-! ### dynamic side -/
section dynamic
variable {α : Type} [Arith α] [ToU64 α]

/-- `iter().map(f).collect::<Result<Vec<_>, _>>()` -/
def mapT {X β : Type} (f : X → Except TErr β) : List X → Except TErr (List β)
  | [] => .ok []
  | x :: xs => do
    let y ← f x
    let ys ← mapT f xs
    pure (y :: ys)

def undefinedV : TVal α := .scalar (.other .undefined)

/-- `declare_variable(name, Undefined, strict = true)` for every variable of the pattern -/
def declareUndef : VEnv α → List String → Except TErr (VEnv α)
  | r, [] => .ok r
  | r, n :: rest =>
    if n == "_" then declareUndef r rest
    else if (r.get n).isSome then .error .other
    else if reservedNames.contains n then .error .other
    else declareUndef ((n, undefinedV) :: r) rest

/-- `update_variable` (the binding is replaced; modelled by a newer binding in front) -/
def updateVar (r : VEnv α) (n : String) (v : TVal α) : VEnv α := if n == "_" then r else (n, v) :: r

/-- `apply_tuple`: too few components is an error, surplus components are ignored -/
def applyTuple : VEnv α → List String → List (TVal α) → VEnv α
  | r, n :: ns, v :: vs => applyTuple (updateVar r n v) ns vs
  | r, _, _ => r

/-- `to_primitive_set` -/
def toPrimitiveSet : TVal α → Except TErr (List (TVal α))
  | .arr _ vs => .ok vs
  | .scalar _ => .error .unspreadable

/-- one element bound to the pattern -/
def bindElem (r : VEnv α) (it : TIt α) (x : TVal α) : Except TErr (VEnv α) :=
  if !it.tuple then
    match it.vars with
    | [n] => .ok (updateVar r n x)
    | _ => .ok r
  else do
    let parts ← toPrimitiveSet x
    if it.vars.length > parts.length then .error .other else .ok (applyTuple r it.vars parts)

/-- `compute_indexes`, one index -/
def indexValue (r : VEnv α) : TE α → Except TErr (TVal α)
  | .var v => match r.get v with | some x => .ok x | none => .ok (.scalar (.string v))
  | e => e.eval r

/-- `flatten_variable_name`, one index: which values can be part of a name -/
def fragmentValue : TVal α → Except TErr (Prim α)
  | .scalar (.other _) => .error .wrongExpectedArgument
  | .scalar p => .ok p
  | .arr _ _ => .error .wrongExpectedArgument

/-- `recursive_set_resolver`: `leaf` once per combination of elements, results in generation order -/
def runIts {β : Type} (leaf : VEnv α → Except TErr β) : VEnv α → List (TIt α) → Except TErr (List β)
  | r, [] => do
    let b ← leaf r
    pure [b]
  | r, it :: rest => do
    let r0 ← declareUndef r it.vars
    match (← it.over.eval r0) with
    | .scalar _ => .error .wrongArgument      -- `as_iterator`
    | .arr _ elems =>
      let leaves ← mapT (fun x => do
        let r1 ← bindElem r0 it x
        runIts leaf r1 rest) elems
      pure leaves.flatten

/-- `compute_indexes` + `flatten_variable_name`: the index values of a name -/
def nameIndexLeaf (idx : List (TE α)) (r : VEnv α) : Except TErr (List (Prim α)) := do
  let vs ← mapT (indexValue r) idx
  mapT fragmentValue vs

/-- `transform_constraint_with_iteration` with `transform_constraint`'s name as leaf: the index values of every
generated constraint, in generation order -/
def runFor (r : VEnv α) (its : List (TIt α)) (idx : List (TE α)) : Except TErr (List (List (Prim α))) :=
  runIts (nameIndexLeaf idx) r its

/-- `PreExp::as_number_cast` of a bound -/
def numOf (v : TVal α) : Except TErr α :=
  match v with
  | .scalar p => match asNumberCast p with | .ok x => .ok x | .error _ => .error .wrongArgument
  | .arr _ _ => .error .wrongArgument

def evalNumBound (r : VEnv α) (dflt : α) : Option (TE α) → Except TErr α
  | none => .ok dflt
  | some e => do numOf (← e.eval r)

/-- `PreVariableType::to_variable_type` -/
def TTy.eval (r : VEnv α) : TTy α → Except TErr (VarType α)
  | .bool => .ok .bool
  | .nnreal lo hi => do
    let a ← evalNumBound r (Arith.ofInt 0) lo
    let b ← evalNumBound r Arith.posInf hi
    if Arith.lt a (Arith.ofInt 0) then .error .other
    else if Arith.gt a b then .error .other
    else .ok (.nnreal a b)
  | .real lo hi => do
    let a ← evalNumBound r Arith.negInf lo
    let b ← evalNumBound r Arith.posInf hi
    if Arith.gt a b then .error .other else .ok (.real a b)
  | .int lo hi => do
    let a ← intOf (← lo.eval r)
    let b ← intOf (← hi.eval r)
    if a < -2147483648 || a > 2147483647 then .error .other          -- TooLarge
    else if b < -2147483648 || b > 2147483647 then .error .other
    else if a > b then .error .other
    else .ok (.int a b)

/-- `compute_domain_values`: for every declared variable its index values, then the type -/
def declValuesLeaf (d : TDecl α) (r : VEnv α) : Except TErr (List (String × List (Prim α) × VarType α)) :=
  mapT (fun (v : String × Option (List (TE α))) => do
    let frags ← match v.2 with
      | none => pure []
      | some idx => nameIndexLeaf idx r
    let t ← d.ty.eval r
    pure (v.1, frags, t)) d.vars

/-- `compute_domain` -/
def runDecl (r : VEnv α) (d : TDecl α) : Except TErr (List (String × List (Prim α) × VarType α)) := do
  pure (← runIts (declValuesLeaf d) r d.its).flatten

/-- `assert_no_duplicates_in_domain` + `IndexMap::from_iter` on the declared names: `key` renders one index
value the way `flatten_variable_name` prints it (the `f64` Display text is not modelled: it is a parameter).
Two declarations of one name must carry the same type; the first position is kept. -/
def dedupDecls (key : Prim α → String) :
    List (String × List (Prim α) × VarType α) → List (String × List (Prim α) × VarType α) →
    Except TErr (List (String × List (Prim α) × VarType α))
  | acc, [] => .ok acc.reverse
  | acc, d :: rest =>
    match acc.find? (fun p => p.1 == d.1 && p.2.1.map key == d.2.1.map key) with
    | some p => if VarType.same p.2.2 d.2.2 then dedupDecls key acc rest else .error .other   -- AlreadyDeclaredDomainVariable
    | none => dedupDecls key (d :: acc) rest

/-- what `transform` computes from the compile-time parts of a program: the declared domain and the index
values of every generated constraint -/
structure ProgramOut (α : Type) where
  domain : List (String × List (Prim α) × VarType α)
  names : List (List (List (Prim α)))

/-- `new_from_constants` (constants, every declaration, the duplicate check), then every quantified
constraint, all in the environment of the constants -/
def runProgram (key : Prim α → String) (lets : List (String × TE α)) (decls : List (TDecl α)) (fors : List (TFor α)) :
    Except TErr (ProgramOut α) := do
  let r ← evalWhere lets
  let dom ← mapT (runDecl r) decls
  let domain ← dedupDecls key [] dom.flatten
  let names ← mapT (fun (f : TFor α) => runFor r f.its f.idx) fors
  pure { domain := domain, names := names }
end dynamic

section staticProgram
variable {α : Type} [Arith α]
def typeCheckFors (g : Ctx) : List (TFor α) → Except TErr Unit
  | [] => .ok ()
  | f :: fs => do
    typeCheckFor g f.its f.idx
    typeCheckFors g fs
def typeCheckDecls (g : Ctx) : List (TDecl α) → Except TErr Unit
  | [] => .ok ()
  | d :: ds => do
    typeCheckDecl g d
    typeCheckDecls g ds
/-- `create_type_checker`: the constants, then every declaration, then every constraint, each in the context
of the constants (its scopes are closed again before the next one) -/
def typeCheckProgram (lets : List (String × TE α)) (decls : List (TDecl α)) (fors : List (TFor α)) : Except TErr Unit := do
  let g ← typeCheckWhere lets
  typeCheckDecls g decls
  typeCheckFors g fors
end staticProgram

end Rooc.Pre
