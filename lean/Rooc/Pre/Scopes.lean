/-
M9 (part 8) — iteration scopes over typed values: `name_{idx…}: … for vars in iterator, …`.

Static side: `impl TypeCheckable for PreConstraint` (for every iteration: type check the iterator in the
CURRENT scope, open a scope, `IterableSet::variable_types`, `add_token_type` = strict declaration of every
variable; then `check_compound_variable` on the indexes of the constraint's name).  Dynamic side:
`transform_constraint_with_iteration` / `recursive_set_resolver` (open a scope, declare every variable
strictly as `Undefined`, THEN evaluate the iterator, `as_iterator`, for every element: `update_variable` or
`to_primitive_set` + `apply_tuple`; at the leaf `CompoundVariable::compute_indexes` and
`flatten_variable_name`).  The compile-time expressions are the ones of `Rooc/Pre/Lets.lean`.  Import-free.
-/
import Rooc.Pre.Lets
namespace Rooc.Pre
open Rooc

/-- one `vars in iterator`; `tuple` = written `(a, b, …)` -/
structure TIt (α : Type) where
  vars : List String
  tuple : Bool
  over : TE α
  deriving Repr, Inhabited

/-- a quantified, named constraint reduced to its compile-time part -/
structure TFor (α : Type) where
  its : List (TIt α)
  idx : List (TE α)
  deriving Repr, Inhabited

/-! ### static side -/
section static
variable {α : Type}

/-- the fragment of `Props/C19.lean`: expressions of the `where` fragment, and a pattern without parentheses
names exactly one variable (grammar) -/
def TIt.wf (it : TIt α) : Bool := it.over.wf && (it.tuple || it.vars.length == 1)
def TFor.wf (f : TFor α) : Bool := f.its.all TIt.wf && wfList f.idx

/-- `IterableSet::variable_types` -/
def variableTypes (g : Ctx) (it : TIt α) : Except TErr (List (String × Kind)) :=
  match it.over.typeOf g with
  | .iter elem =>
    if !it.tuple then .ok (it.vars.map (fun v => (v, elem)))
    else match elem with
      | .iter k => .ok (it.vars.map (fun v => (v, k)))      -- rows: the arity is not static
      | e => match e.canSpreadInto with
        | none => .error .unspreadable
        | some ts => if it.vars.length > ts.length then .error .spreadError else .ok (it.vars.zip ts)
  | _ => .error .wrongArgument

/-- `add_token_type` for every variable of the pattern: strict, `_` declares nothing -/
def declareKinds : Ctx → List (String × Kind) → Except TErr Ctx
  | g, [] => .ok g
  | g, (n, k) :: rest =>
    if n == "_" then declareKinds g rest
    else if (g.get n).isSome then .error .other          -- AlreadyDeclaredVariable
    else if reservedNames.contains n then .error .other  -- AlreadyDefined
    else declareKinds ((n, k) :: g) rest

def indexKindOk : Kind → Bool
  | .number | .integer | .pint | .string | .node => true
  | _ => false

/-- `check_compound_variable`, one index: an unbound identifier is a literal name fragment -/
def checkIndex (g : Ctx) : TE α → Except TErr Unit
  | .var v => if indexKindOk ((g.get v).getD .string) then .ok () else .error .wrongExpectedArgument
  | .lit v => if indexKindOk v.kind then .ok () else .error .wrongExpectedArgument
  | e => do
    e.typeCheck g
    if indexKindOk (e.typeOf g) then .ok () else .error .wrongExpectedArgument

def checkIndexes (g : Ctx) : List (TE α) → Except TErr Unit
  | [] => .ok ()
  | e :: es => do
    checkIndex g e
    checkIndexes g es

/-- `PreConstraint::type_check`, the part about scopes and the name -/
def typeCheckFor (g : Ctx) : List (TIt α) → List (TE α) → Except TErr Unit
  | [], idx => checkIndexes g idx
  | it :: rest, idx => do
    it.over.typeCheck g
    let tys ← variableTypes g it
    let g' ← declareKinds g tys
    typeCheckFor g' rest idx
end static

/-! ### dynamic side -/
section dynamic
variable {α : Type} [Arith α] [ToU64 α]

/-- `iter().map(f).collect::<Result<Vec<_>, _>>()` -/
def mapT {X β : Type} (f : X → Except TErr β) : List X → Except TErr (List β)
  | [] => .ok []
  | x :: xs => do
    let y ← f x
    let ys ← mapT f xs
    pure (y :: ys)

def undefinedV : TVal α := .scalar (.other .undefined)

/-- `declare_variable(name, Undefined, strict = true)` for every variable of the pattern -/
def declareUndef : VEnv α → List String → Except TErr (VEnv α)
  | r, [] => .ok r
  | r, n :: rest =>
    if n == "_" then declareUndef r rest
    else if (r.get n).isSome then .error .other
    else if reservedNames.contains n then .error .other
    else declareUndef ((n, undefinedV) :: r) rest

/-- `update_variable` (the binding is replaced; modelled by a newer binding in front) -/
def updateVar (r : VEnv α) (n : String) (v : TVal α) : VEnv α := if n == "_" then r else (n, v) :: r

/-- `apply_tuple`: too few components is an error, surplus components are ignored -/
def applyTuple : VEnv α → List String → List (TVal α) → VEnv α
  | r, n :: ns, v :: vs => applyTuple (updateVar r n v) ns vs
  | r, _, _ => r

/-- `to_primitive_set` -/
def toPrimitiveSet : TVal α → Except TErr (List (TVal α))
  | .arr _ vs => .ok vs
  | .scalar _ => .error .unspreadable

/-- one element bound to the pattern -/
def bindElem (r : VEnv α) (it : TIt α) (x : TVal α) : Except TErr (VEnv α) :=
  if !it.tuple then
    match it.vars with
    | [n] => .ok (updateVar r n x)
    | _ => .ok r
  else do
    let parts ← toPrimitiveSet x
    if it.vars.length > parts.length then .error .other else .ok (applyTuple r it.vars parts)

/-- `compute_indexes`, one index -/
def indexValue (r : VEnv α) : TE α → Except TErr (TVal α)
  | .var v => match r.get v with | some x => .ok x | none => .ok (.scalar (.string v))
  | e => e.eval r

/-- `flatten_variable_name`, one index: which values can be part of a name -/
def fragmentValue : TVal α → Except TErr (Prim α)
  | .scalar (.other _) => .error .wrongExpectedArgument
  | .scalar p => .ok p
  | .arr _ _ => .error .wrongExpectedArgument

/-- `recursive_set_resolver` with `transform_constraint`'s name as leaf: the index values of every
generated constraint, in generation order -/
def runFor (r : VEnv α) : List (TIt α) → List (TE α) → Except TErr (List (List (Prim α)))
  | [], idx => do
    let vs ← mapT (indexValue r) idx
    let fs ← mapT fragmentValue vs
    pure [fs]
  | it :: rest, idx => do
    let r0 ← declareUndef r it.vars
    match (← it.over.eval r0) with
    | .scalar _ => .error .wrongArgument      -- `as_iterator`
    | .arr _ elems =>
      let leaves ← mapT (fun x => do
        let r1 ← bindElem r0 it x
        runFor r1 rest idx) elems
      pure leaves.flatten

/-- `new_from_constants`, then every quantified constraint in the environment of the constants -/
def runProgram (lets : List (String × TE α)) (fors : List (TFor α)) : Except TErr (List (List (List (Prim α)))) := do
  let r ← evalWhere lets
  mapT (fun (f : TFor α) => runFor r f.its f.idx) fors
end dynamic

section staticProgram
variable {α : Type} [Arith α]
def typeCheckFors (g : Ctx) : List (TFor α) → Except TErr Unit
  | [] => .ok ()
  | f :: fs => do
    typeCheckFor g f.its f.idx
    typeCheckFors g fs
/-- `create_type_checker`: the constants, then every constraint in the context of the constants (its
scopes are closed again before the next one) -/
def typeCheckProgram (lets : List (String × TE α)) (fors : List (TFor α)) : Except TErr Unit := do
  let g ← typeCheckWhere lets
  typeCheckFors g fors
end staticProgram

end Rooc.Pre
