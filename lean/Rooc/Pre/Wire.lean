/- Protocol encoding of kinds and primitive values (harness side: `harness/src/pre_reflect.rs`). Import-free. -/
import Rooc.Wire
import Rooc.Pre.Types
import Rooc.Pre.Expand
import Rooc.Pre.Lets
import Rooc.Pre.Scopes
namespace Rooc.Pre
open Rooc Sexp

partial def Kind.enc : Kind → Sexp
  | .number => .atom "number" | .integer => .atom "integer" | .pint => .atom "pint" | .string => .atom "string"
  | .iter k => app "iter" [k.enc]
  | .graph => .atom "graph" | .edge => .atom "edge" | .node => .atom "node"
  | .tuple ks => app "tuple" (ks.map Kind.enc)
  | .boolean => .atom "boolean" | .undefined => .atom "undefined" | .any => .atom "any"

partial def Kind.dec : Sexp → Option Kind
  | .atom "number" => some .number | .atom "integer" => some .integer | .atom "pint" => some .pint
  | .atom "string" => some .string | .atom "graph" => some .graph | .atom "edge" => some .edge
  | .atom "node" => some .node | .atom "boolean" => some .boolean | .atom "undefined" => some .undefined
  | .atom "any" => some .any
  | .list [.atom "iter", k] => (Kind.dec k).map .iter
  | .list (.atom "tuple" :: ks) => (optAll (ks.map Kind.dec)).map .tuple
  | _ => none

def decIntStr (s : String) : Option Int :=
  match s.toList with
  | '-' :: ds => (String.ofList ds).toNat?.map (fun n => -(n : Int))
  | _ => s.toNat?.map (fun n => (n : Int))

variable {α : Type} [Wire α]

def Prim.enc : Prim α → Sexp
  | .number x => app "num" [encNum x]
  | .integer i => app "int" [.atom (toString i)]
  | .pint n => app "pint" [.atom (toString n)]
  | .boolean b => app "bool" [.atom (if b then "true" else "false")]
  | .string s => app "str" [.str s]
  | .other k => app "other" [k.enc]

def Prim.dec : Sexp → Option (Prim α)
  | .list [.atom "num", n] => (decNumS n).map .number
  | .list [.atom "int", .atom s] => (decIntStr s).map .integer
  | .list [.atom "pint", .atom s] => s.toNat?.map .pint
  | .list [.atom "bool", .atom "true"] => some (.boolean true)
  | .list [.atom "bool", .atom "false"] => some (.boolean false)
  | .list [.atom "str", .str s] => some (.string s)
  | .list [.atom "other", k] => (Kind.dec k).map .other
  | _ => none

partial def PExp.dec : Sexp → Option (PExp α)
  | .list [.atom "lit", p] => (Prim.dec p).map .lit
  | .list [.atom "un", .atom op, e] => do pure (.un (← UnOp.ofName op) (← PExp.dec e))
  | .list [.atom "bin", .atom op, a, b] => do pure (.bin (← BinOp.ofName op) (← PExp.dec a) (← PExp.dec b))
  | _ => none

partial def TVal.dec : Sexp → Option (TVal α)
  | .list (.atom "arr" :: vs) => (optAll (vs.map TVal.dec)).map mkArr
  | s => (Prim.dec s).map .scalar
partial def TVal.enc : TVal α → Sexp
  | .scalar p => p.enc
  | .arr _ vs => app "arr" (vs.map TVal.enc)
partial def TE.dec : Sexp → Option (TE α)
  | .list [.atom "lit", v] => (TVal.dec v).map .lit
  | .list [.atom "var", .str n] => some (.var n)
  | .list [.atom "un", .atom op, e] => do pure (.un (← UnOp.ofName op) (← TE.dec e))
  | .list [.atom "bin", .atom op, a, b] => do pure (.bin (← BinOp.ofName op) (← TE.dec a) (← TE.dec b))
  | .list (.atom "acc" :: .str n :: idx) => (optAll (idx.map TE.dec)).map (.access n)
  | .list (.atom "call" :: .str f :: args) => (optAll (args.map TE.dec)).map (.call f)
  | _ => none

/-- `(it ("a" "b") single|tuple TE)` -/
def TIt.dec : Sexp → Option (TIt α)
  | .list [.atom "it", .list vs, .atom form, e] => do
    let names ← optAll (vs.map fun | .str n => some n | _ => none)
    pure { vars := names, tuple := form == "tuple", over := ← TE.dec e }
  | _ => none
/-- `(for (its IT…) (idx TE…))` -/
def TFor.dec : Sexp → Option (TFor α)
  | .list [.atom "for", .list (.atom "its" :: its), .list (.atom "idx" :: idx)] => do
    pure { its := ← optAll (its.map TIt.dec), idx := ← optAll (idx.map TE.dec) }
  | _ => none

def optTE : Sexp → Option (Option (TE α))
  | .atom "none" => some none
  | e => (TE.dec e).map some
/-- `(bool)`, `(real LO HI)`, `(nnreal LO HI)`, `(int LO HI)`; an absent bound is `none` -/
def TTy.dec : Sexp → Option (TTy α)
  | .list [.atom "bool"] => some .bool
  | .list [.atom "real", a, b] => do pure (.real (← optTE a) (← optTE b))
  | .list [.atom "nnreal", a, b] => do pure (.nnreal (← optTE a) (← optTE b))
  | .list [.atom "int", a, b] => do pure (.int (← TE.dec a) (← TE.dec b))
  | _ => none
/-- `(decl (its IT…) (vars (v "n") | (cv "n" TE…) …) TY)` -/
def TDecl.dec : Sexp → Option (TDecl α)
  | .list [.atom "decl", .list (.atom "its" :: its), .list (.atom "vars" :: vs), ty] => do
    let vars ← optAll (vs.map fun
      | .list [.atom "v", .str n] => some (n, none)
      | .list (.atom "cv" :: .str n :: idx) => (optAll (idx.map TE.dec)).map (fun ix => (n, some ix))
      | _ => none)
    pure { its := ← optAll (its.map TIt.dec), vars := vars, ty := ← TTy.dec ty }
  | _ => none

def encRes (r : Except OpErr (Prim α)) : Sexp :=
  match r with
  | .ok v => app "ok" [v.enc]
  | .error .panic => app "panic" []
  | .error e => app "err" [.atom e.name]

def boolAtom (b : Bool) : Sexp := .atom (if b then "true" else "false")

def AggKind.ofName : String → Option AggKind
  | "sum" => some .sum | "prod" => some .prod | "min" => some .min | "max" => some .max | "avg" => some .avg
  | "all" => some .all | "any" => some .any | "xor" => some .xor | "abs" => some .abs | _ => none

end Rooc.Pre
