/- Protocol encoding + source-text printer for the iteration fragment (`Rooc/Pre/Iter.lean`). Import-free. -/
import Rooc.Pre.Wire
import Rooc.Pre.Iter
import Rooc.Pre.Program
import Rooc.WireModel
namespace Rooc.Pre
open Rooc Sexp

partial def CE.dec : Sexp → Option CE
  | .list [.atom "lit", .atom s] => (decIntStr s).map .lit
  | .list [.atom "var", .str n] => some (.var n)
  | .list [.atom "add", a, b] => do pure (.add (← CE.dec a) (← CE.dec b))
  | .list [.atom "sub", a, b] => do pure (.sub (← CE.dec a) (← CE.dec b))
  | .list [.atom "mul", a, b] => do pure (.mul (← CE.dec a) (← CE.dec b))
  | _ => none

def decIntList (xs : List Sexp) : Option (List Int) := optAll (xs.map fun | .atom s => decIntStr s | _ => none)

def Src.dec : Sexp → Option Src
  | .list [.atom "range", lo, hi, .atom inc] => do pure (.range (← CE.dec lo) (← CE.dec hi) (inc == "true"))
  | .list (.atom "arr" :: xs) => (decIntList xs).map .arr
  | .list (.atom "enum" :: xs) => (decIntList xs).map .enumArr
  | .list [.atom "zip", .list xs, .list ys] => do pure (.zip2 (← decIntList xs) (← decIntList ys))
  | _ => none

def It.dec : Sexp → Option It
  | .list [.atom "it", .list vs, src] => do
    let vars ← optAll (vs.map fun | .str s => some s | _ => none)
    pure { vars := vars, src := (← Src.dec src) }
  | _ => none

partial def ME.dec : Sexp → Option ME
  | .list [.atom "lit", .atom s] => (decIntStr s).map .lit
  | .list [.atom "var", .str n] => some (.var n)
  | .list (.atom "cvar" :: .str b :: idx) => (optAll (idx.map CE.dec)).map (.cvar b)
  | .list [.atom "bin", .atom op, a, b] => do pure (.bin (← BinOp.ofName op) (← ME.dec a) (← ME.dec b))
  | .list (.atom "blk" :: .atom k :: es) => do pure (.blk (← AggKind.ofName k) (← optAll (es.map ME.dec)))
  | .list [.atom "agg", .atom k, .list its, body] => do pure (.agg (← AggKind.ofName k) (← optAll (its.map It.dec)) (← ME.dec body))
  | _ => none

/-! source text of an unrolled (iteration-free) expression -/
def AggKind.text : AggKind → String
  | .sum => "sum" | .prod => "prod" | .min => "min" | .max => "max" | .avg => "avg" | .all => "all" | .any => "any" | .xor => "xor" | .abs => "abs"
def binText : BinOp → String
  | .add => "+" | .sub => "-" | .mul => "*" | .div => "/" | .and => "and" | .or => "or" | .xor => "xor" | .implies => "implies" | .iff => "iff"
def intText (i : Int) : String := if i < 0 then "-" ++ toString (-i) else toString i

partial def CE.text : CE → String
  | .lit i => intText i
  | .var n => n
  | .add a b => "(" ++ a.text ++ " + " ++ b.text ++ ")"
  | .sub a b => "(" ++ a.text ++ " - " ++ b.text ++ ")"
  | .mul a b => "(" ++ a.text ++ " * " ++ b.text ++ ")"
def idxText : CE → String
  | .lit i => if i < 0 then "_{" ++ intText i ++ "}" else "_" ++ toString i
  | .var n => "_" ++ n
  | c => "_{" ++ c.text ++ "}"
partial def ME.text : ME → String
  | .lit i => intText i
  | .var n => n
  | .cvar b idx => b ++ String.join (idx.map idxText)
  | .bin op a b =>
    -- chains of `+` / `*` are written flat (`a + b + c`): the parser needs time exponential in the
    -- parenthesis depth; the comparison flattens such chains on both sides
    let assoc : Bool := (match op with | .add | .mul => true | _ => false)
    let leftAssoc : Bool := (match op with | .implies => false | _ => true)
    let left (e : ME) : String :=
      match e with
      | .bin op' _ _ => if leftAssoc && op' == op then e.text else "(" ++ e.text ++ ")"
      | _ => e.text
    let right (e : ME) : String :=
      match e with
      | .bin op' _ _ => if assoc && op' == op then e.text else "(" ++ e.text ++ ")"
      | _ => e.text
    left a ++ " " ++ binText op ++ " " ++ right b
  | .blk k es => k.text ++ "{ " ++ ", ".intercalate (es.map ME.text) ++ " }"
  | .agg k _ body => k.text ++ "(?) { " ++ body.text ++ " }"

/-! ### whole programs -/

def NameM.dec : Sexp → Option NameM
  | .list [.atom "plain", .str n] => some (.plain n)
  | .list (.atom "cv" :: .str b :: idx) => (optAll (idx.map CE.dec)).map (.cv b)
  | _ => none
def TyM.dec : Sexp → Option TyM
  | .atom "bool" => some .bool
  | .list [.atom "real"] => some (.real none)
  | .list [.atom "real", a, b] => do pure (.real (some (← CE.dec a, ← CE.dec b)))
  | .list [.atom "nnreal"] => some (.nnreal none)
  | .list [.atom "nnreal", a, b] => do pure (.nnreal (some (← CE.dec a, ← CE.dec b)))
  | .list [.atom "int", a, b] => do pure (.int (← CE.dec a) (← CE.dec b))
  | _ => none
def DeclM.dec : Sexp → Option DeclM
  | .list [.atom "decl", .list vars, ty, .list its] => do
    pure { vars := ← optAll (vars.map NameM.dec), ty := ← TyM.dec ty, its := ← optAll (its.map It.dec) }
  | _ => none
def ConsM.dec : Sexp → Option ConsM
  | .list [.atom "con", name, lhs, rel, .list its] => do
    let name ← (match name with | .atom "none" => some none | n => (NameM.dec n).map some)
    let rel ← (match rel with
      | .atom "none" => some none
      | .list [.atom k, r] => do pure (some (← Cmp.ofName k, ← ME.dec r))
      | _ => none)
    pure { name := name, lhs := ← ME.dec lhs, rel := rel, its := ← optAll (its.map It.dec) }
  | _ => none
def ProgM.dec : Sexp → Option ProgM
  | .list [.atom "prog", .list (.atom "consts" :: cs), obj, .list (.atom "cons" :: cons), .list (.atom "decls" :: ds)] => do
    let consts ← optAll (cs.map fun | .list [.str n, c] => (CE.dec c).map (fun c => (n, c)) | _ => none)
    let obj ← (match obj with
      | .atom "solve" => some none
      | .list [.atom t, e] => do pure (some (← OptType.ofName t, ← ME.dec e))
      | _ => none)
    pure { consts := consts, obj := obj, cons := ← optAll (cons.map ConsM.dec), decls := ← optAll (ds.map DeclM.dec) }
  | _ => none

def NameM.text : NameM → String
  | .plain n => n
  | .cv b idx => b ++ String.join (idx.map idxText)
def cmpText : Cmp → String | .le => "<=" | .ge => ">=" | .eq => "=" | .lt => "<" | .gt => ">"
def TyM.text : TyM → String
  | .bool => "Boolean"
  | .real none => "Real"
  | .nnreal none => "NonNegativeReal"
  | .real (some (a, b)) => "Real(" ++ a.text ++ ", " ++ b.text ++ ")"
  | .nnreal (some (a, b)) => "NonNegativeReal(" ++ a.text ++ ", " ++ b.text ++ ")"
  | .int a b => "IntegerRange(" ++ a.text ++ ", " ++ b.text ++ ")"
def ConsM.text (c : ConsM) : String :=
  (match c.name with | some n => n.text ++ ": " | none => "") ++ c.lhs.text ++
  (match c.rel with | some (k, r) => " " ++ cmpText k ++ " " ++ r.text | none => "")
def DeclM.text (d : DeclM) : String := ", ".intercalate (d.vars.map NameM.text) ++ " as " ++ d.ty.text
/-- source text of an unrolled program (no `where`, no `for`) -/
def ProgM.text (p : ProgM) : String :=
  (match p.obj with
   | some (t, e) => OptType.name t ++ " " ++ e.text
   | none => "solve") ++ "\ns.t.\n" ++
  String.join (p.cons.map (fun c => "    " ++ c.text ++ "\n")) ++
  (if p.decls.isEmpty then "" else "define\n" ++ String.join (p.decls.map (fun d => "    " ++ d.text ++ "\n")))

end Rooc.Pre
