/-
M9 (part 6) — whole programs of the iteration fragment.

`transformProg` ports `transform_parsed_problem` for programs whose expressions lie in the fragment of
`Rooc/Pre/Iter.lean`: `TransformerContext::new_from_constants` (the `where` constants are evaluated in
order into the outermost frame, strict declaration; every `define` declaration is expanded over its
iterations into `(name, type)` pairs with `compute_domain`, the bounds evaluated by
`PreVariableType::to_variable_type`; `assert_no_duplicates_in_domain`; `IndexMap::from_iter`),
`transform_objective`, `transform_constraint_with_iteration` (one constraint per combination of iteration
values, named by `flatten_compound_variable`), the usage count of every declared variable
(`increment_domain_variable_usage`, `UndeclaredVariableDomain` for a reference outside the domain), and
produces the shared `Model`.  `unrollProg` is the syntactic hand-unrolling of a whole program: no
`where` section, no iteration, every value a literal.  Import-free.
-/
import Rooc.Model
import Rooc.Pre.Iter
namespace Rooc.Pre
open Rooc

/-- a name in declaration / constraint-name position: `z` or `x_i_{j+1}` -/
inductive NameM where
  | plain (n : String)
  | cv (base : String) (idx : List CE)
  deriving Repr, Inhabited

/-- `PreVariableType` with integer bound expressions -/
inductive TyM where
  | bool
  | real (b : Option (CE × CE))
  | nnreal (b : Option (CE × CE))
  | int (lo hi : CE)
  deriving Repr, Inhabited

structure DeclM where
  vars : List NameM
  ty : TyM
  its : List It
  deriving Repr, Inhabited

structure ConsM where
  name : Option NameM
  lhs : ME
  /-- `none` = bare logic assertion -/
  rel : Option (Cmp × ME)
  its : List It
  deriving Repr, Inhabited

/-- the grammar's `domain_variables`: at least one variable per declaration -/
def DeclM.wf (d : DeclM) : Bool := !d.vars.isEmpty

structure ProgM where
  consts : List (String × CE)
  /-- `none` = `solve` -/
  obj : Option (OptType × ME)
  cons : List ConsM
  decls : List DeclM
  deriving Repr, Inhabited

/-- `new_from_constants`, first loop: constants in order, strict declaration -/
def evalConsts : List (String × CE) → Env → Except IErr Env
  | [], env => .ok env
  | (n, c) :: rest, env => do
    let v ← c.eval env
    if n == "_" then evalConsts rest env
    else if (env.get n).isSome then .error .alreadyDeclared
    else evalConsts rest ((n, v) :: env)

def NameM.flatten (env : Env) : NameM → Except IErr String
  | .plain n => .ok n
  | .cv base idx => do pure (flattenCompound base (← mapE (idxFrag env) idx))

section
variable {α : Type} [Arith α]

/-- `to_variable_type`: bounds evaluated, `min ≤ max`, non-negative lower bound, `i32` range -/
def TyM.eval (env : Env) : TyM → Except IErr (VarType α)
  | .bool => .ok .bool
  | .real none => .ok (.real Arith.negInf Arith.posInf)
  | .real (some (a, b)) => do
    let lo ← a.eval env
    let hi ← b.eval env
    if lo > hi then .error .overflow else pure (.real (Arith.ofInt lo) (Arith.ofInt hi))
  | .nnreal none => .ok (.nnreal (Arith.ofInt 0) Arith.posInf)
  | .nnreal (some (a, b)) => do
    let lo ← a.eval env
    let hi ← b.eval env
    if lo < 0 || lo > hi then .error .overflow else pure (.nnreal (Arith.ofInt lo) (Arith.ofInt hi))
  | .int a b => do
    let lo ← a.eval env
    let hi ← b.eval env
    if lo < -2147483648 || lo > 2147483647 || hi < -2147483648 || hi > 2147483647 || lo > hi then .error .overflow
    else pure (.int lo hi)

/-- `compute_domain_values`: the `(name, type)` pairs of one declaration in one environment -/
def declLeaf (d : DeclM) (env : Env) : Except IErr (List (String × VarType α)) :=
  mapE (fun v => do
    let n ← v.flatten env
    let t ← d.ty.eval (α := α) env
    pure (n, t)) d.vars

def VarType.same : VarType α → VarType α → Bool
  | .bool, .bool => true
  | .real a b, .real c d | .nnreal a b, .nnreal c d => Arith.eq a c && Arith.eq b d
  | .int a b, .int c d => a == c && b == d
  | _, _ => false

/-- `assert_no_duplicates_in_domain` + `IndexMap::from_iter`: a name declared twice must carry the same
type; the first position is kept -/
def dedupDomain : List (String × VarType α) → List (String × VarType α) → Except IErr (List (String × VarType α))
  | acc, [] => .ok acc.reverse
  | acc, (n, t) :: rest =>
    match acc.find? (fun p => p.1 == n) with
    | some (_, t0) => if VarType.same t0 t then dedupDomain acc rest else .error .alreadyDeclared
    | none => dedupDomain ((n, t) :: acc) rest

def relLeaf (rel : Option (Cmp × ME)) (env : Env) : Except IErr (Exp α) :=
  match rel with
  | some (_, r) => expand env r
  | none => pure (.num (Arith.ofInt 1))
def nameLeaf (name : Option NameM) (env : Env) : Except IErr String :=
  match name with
  | some n => n.flatten env
  | none => pure ""
def cmpOf (rel : Option (Cmp × ME)) : Cmp := match rel with | some (k, _) => k | none => .eq

/-- one constraint in one environment (`transform_constraint`: lhs, rhs, then the name) -/
def consLeaf (c : ConsM) (env : Env) : Except IErr (Constraint α) := do
  let lhs ← expand env c.lhs
  let rhs ← relLeaf c.rel env
  let name ← nameLeaf c.name env
  pure { name := name, lhs := lhs, cmp := cmpOf c.rel, rhs := rhs, isAssert := c.rel.isNone }

/-- every item (constraint / declaration) expanded over its own iterations, results in source order -/
def expandItems {X β : Type} (leaf : X → Env → Except IErr β) (its : X → List It) (env : Env) (xs : List X) :
    Except IErr (List β) := do
  pure (← mapE (fun x => iterate (leaf x) (its x) env) xs).flatten

mutual
/-- every occurrence of a variable, in evaluation order (one usage increment each) -/
def varOccs : Exp α → List String
  | .num _ => []
  | .var n => [n]
  | .abs e | .not e | .un _ e => varOccs e
  | .min es | .max es | .and es | .or es => varOccsList es
  | .xor a b | .implies a b | .iff a b | .bin _ a b => varOccs a ++ varOccs b
def varOccsList : List (Exp α) → List String
  | [] => []
  | e :: es => varOccs e ++ varOccsList es
end

/-- the raw result: objective, constraints, deduplicated domain (before the usage pass) -/
structure RawModel (α : Type) where
  optType : OptType
  objective : Exp α
  constraints : List (Constraint α)
  domain : List (String × VarType α)

def objLeaf (o : Option (OptType × ME)) (env : Env) : Except IErr (Exp α) :=
  match o with
  | some (_, e) => expand env e
  | none => pure (.num (Arith.ofInt 1))
def optTypeOf (o : Option (OptType × ME)) : OptType := match o with | some (t, _) => t | none => .satisfy

/-- `compute_domain` of every declaration, `assert_no_duplicates_in_domain`, `IndexMap::from_iter` -/
def domainOf (env : Env) (decls : List DeclM) : Except IErr (List (String × VarType α)) := do
  let dom ← expandItems (declLeaf (α := α)) DeclM.its env decls
  dedupDomain [] dom.flatten

/-- everything after the `where` section, in the environment of the constants -/
def transformIn (env : Env) (obj : Option (OptType × ME)) (cons : List ConsM) (decls : List DeclM) : Except IErr (RawModel α) := do
  let domain ← domainOf env decls
  let o ← objLeaf obj env
  let cs ← expandItems (consLeaf (α := α)) ConsM.its env cons
  pure { optType := optTypeOf obj, objective := o, constraints := cs, domain := domain }

def transformRaw (p : ProgM) : Except IErr (RawModel α) := do
  let env ← evalConsts p.consts []
  transformIn env p.obj p.cons p.decls

/-- usage counts; a reference outside the domain is `UndeclaredVariableDomain` -/
def finish (r : RawModel α) : Except IErr (Model α) :=
  let occs := varOccs r.objective ++ (r.constraints.flatMap (fun c => varOccs c.lhs ++ varOccs c.rhs))
  if occs.all (fun n => r.domain.any (fun p => p.1 == n)) then
    .ok { optType := r.optType, objective := r.objective, constraints := r.constraints,
          domain := r.domain.map (fun p => { name := p.1, ty := p.2, usage := (occs.filter (· == p.1)).length }) }
  else .error .undeclared

def ProgM.wf (p : ProgM) : Bool := p.decls.all DeclM.wf

def ProgM.arityOk (p : ProgM) : Bool :=
  (match p.obj with | some (_, e) => e.arityOk | none => true) &&
  p.cons.all (fun c => c.lhs.arityOk && (match c.rel with | some (_, r) => r.arityOk | none => true))

/-- transform proper (after parsing) -/
def transformCore (p : ProgM) : Except IErr (Model α) := transformRaw p >>= finish
/-- parse (arity rule) → transform -/
def transformProg (p : ProgM) : Except IErr (Model α) :=
  if p.arityOk then transformCore p else .error .arity
end

/-! ### the hand-unrolled program -/

def NameM.unroll (env : Env) : NameM → Except IErr NameM
  | .plain n => .ok (.plain n)
  | .cv base idx => do pure (.cv base (← mapE (unrollIdx env) idx))

def litCE (c : CE) (env : Env) : Except IErr CE := (c.eval env).map .lit

def TyM.unroll (env : Env) : TyM → Except IErr TyM
  | .bool => .ok .bool
  | .real none => .ok (.real none)
  | .nnreal none => .ok (.nnreal none)
  | .real (some (a, b)) => do pure (.real (some (← litCE a env, ← litCE b env)))
  | .nnreal (some (a, b)) => do pure (.nnreal (some (← litCE a env, ← litCE b env)))
  | .int a b => do pure (.int (← litCE a env) (← litCE b env))

def declUnrollLeaf (d : DeclM) (env : Env) : Except IErr DeclM := do
  pure { vars := ← mapE (NameM.unroll env) d.vars, ty := ← d.ty.unroll env, its := [] }

def relUnroll (rel : Option (Cmp × ME)) (env : Env) : Except IErr (Option (Cmp × ME)) :=
  match rel with
  | some (k, r) => do pure (some (k, ← unroll env r))
  | none => pure none
def nameUnroll (name : Option NameM) (env : Env) : Except IErr (Option NameM) :=
  match name with
  | some n => do pure (some (← n.unroll env))
  | none => pure none

def consUnrollLeaf (c : ConsM) (env : Env) : Except IErr ConsM := do
  let lhs ← unroll env c.lhs
  let rel ← relUnroll c.rel env
  let name ← nameUnroll c.name env
  pure { name := name, lhs := lhs, rel := rel, its := [] }

/-- no `where` section, no iteration: every constraint / declaration once per combination of values -/
def objUnroll (o : Option (OptType × ME)) (env : Env) : Except IErr (Option (OptType × ME)) :=
  match o with
  | some (t, e) => do pure (some (t, ← unroll env e))
  | none => pure none

def unrollProg (p : ProgM) : Except IErr ProgM := do
  let env ← evalConsts p.consts []
  let decls ← expandItems declUnrollLeaf DeclM.its env p.decls
  let obj ← objUnroll p.obj env
  let cons ← expandItems consUnrollLeaf ConsM.its env p.cons
  pure { consts := [], obj := obj, cons := cons, decls := decls }

end Rooc.Pre
