/-
Tolerance predicates of `math/math_utils.rs` (`float_eq`, `float_ne`, `float_lt`, `float_gt`, `float_le`,
`float_ge`).  The tolerance `10_f64.powi(-NEAR_ZERO_PRECISION)` is a PARAMETER `tol` of every model
function: the harness measures it on the real code (bisection through `verif_hooks::float_lt_hook`) and
sends its bit pattern; the driver cross-checks it against `Gen.nearZeroPrecision`; theorems quantify
over it.  Import-free.
-/
import Rooc.Num
namespace Rooc
namespace Tol
variable {α : Type} [Arith α]
open Arith

/-- `float_eq_precision`: `(a - b).abs() < tol`. -/
@[inline] def feq (tol a b : α) : Bool := lt (abs (sub a b)) tol
/-- `float_ne_precision`. -/
@[inline] def fne (tol a b : α) : Bool := !(feq tol a b)
/-- `float_lt_precision`: `a < b && !float_eq(a, b)`. -/
@[inline] def flt (tol a b : α) : Bool := lt a b && !(feq tol a b)
/-- `float_gt_precision`: `a > b && !float_eq(a, b)`. -/
@[inline] def fgt (tol a b : α) : Bool := lt b a && !(feq tol a b)
/-- `float_le_precision`: `a < b || float_eq(a, b)`. -/
@[inline] def fle (tol a b : α) : Bool := lt a b || feq tol a b
/-- `float_ge_precision`: `a > b || float_eq(a, b)`. -/
@[inline] def fge (tol a b : α) : Bool := lt b a || feq tol a b

end Tol
end Rooc
