/-
The staged pipe runner (port of packages/rooc/src/pipe/{pipe_runner.rs, pipe_executors.rs, pipe_definitions.rs}):
`run_pipe` as a pure function over arbitrary stages, the typing table of the eleven built-in pipes (`as_X()?` on the
input: `InvalidData { expected, got }` on a tag mismatch; the variant of `PipeableData` they produce; the `PipeError`
variant their own failure is wrapped in).  The stage FUNCTIONS are parameters.  Import-free.
-/
namespace Rooc
namespace Pipes

/-- `run_pipe`: the results so far are kept; the first failing pipe stops the run and hands back its error together with
the results accumulated before it.  (The Rust special-cases the empty pipe list; the general loop gives the same.) -/
def runPipe {D E : Type} (pipes : List (D → Except E D)) (data : D) : Except (E × List D) (List D) :=
  let rec go (ps : List (D → Except E D)) (last : D) (results : List D) : Except (E × List D) (List D) :=
    match ps with
    | [] => .ok results
    | p :: ps =>
      match p last with
      | .error e => .error (e, results)
      | .ok d => go ps d (results ++ [d])
  if pipes.isEmpty then .ok [data] else go pipes data [data]

/-- `PipeDataType` / the variants of `PipeableData`. -/
inductive DataTy
  | string | parser | preModel | model | linearModel | standardLinearModel | tableau | optimalTableau
  | optimalTableauWithSteps | realSolution | milpSolution
  deriving Repr, DecidableEq, Inhabited

def DataTy.name : DataTy → String
  | .string => "String" | .parser => "Parser" | .preModel => "PreModel" | .model => "Model"
  | .linearModel => "LinearModel" | .standardLinearModel => "StandardLinearModel" | .tableau => "Tableau"
  | .optimalTableau => "OptimalTableau" | .optimalTableauWithSteps => "OptimalTableauWithSteps"
  | .realSolution => "RealSolution" | .milpSolution => "MILPSolution"

def DataTy.ofName : String → Option DataTy
  | "String" => some .string | "Parser" => some .parser | "PreModel" => some .preModel | "Model" => some .model
  | "LinearModel" => some .linearModel | "StandardLinearModel" => some .standardLinearModel | "Tableau" => some .tableau
  | "OptimalTableau" => some .optimalTableau | "OptimalTableauWithSteps" => some .optimalTableauWithSteps
  | "RealSolution" => some .realSolution | "MILPSolution" => some .milpSolution | _ => none

/-- the built-in pipes of `pipe_executors.rs` (`dual` is the private, never exported `DualPipe`: modelled from the source,
not reachable by the correspondence run). -/
inductive PipeKind
  | compiler | preModel | model | linearModel | standardLinearModel | tableau | realSolver | stepByStepSimplex
  | dual | milpSolver | autoSolver
  deriving Repr, DecidableEq, Inhabited

def PipeKind.ofName : String → Option PipeKind
  | "CompilerPipe" => some .compiler | "PreModelPipe" => some .preModel | "ModelPipe" => some .model
  | "LinearModelPipe" => some .linearModel | "StandardLinearModelPipe" => some .standardLinearModel
  | "TableauPipe" => some .tableau | "RealSolver" => some .realSolver
  | "StepByStepSimplexPipe" => some .stepByStepSimplex | "DualPipe" => some .dual
  | "MILPSolverPipe" => some .milpSolver | "AutoSolverPipe" => some .autoSolver | _ => none

/-- the variant the pipe reads with `data.as_X()?`. -/
def PipeKind.input : PipeKind → DataTy
  | .compiler => .string | .preModel => .parser | .model => .preModel | .linearModel => .model
  | .standardLinearModel => .linearModel | .tableau => .standardLinearModel | .realSolver => .linearModel
  | .stepByStepSimplex => .tableau | .dual => .linearModel | .milpSolver => .linearModel | .autoSolver => .linearModel

/-- the variant it produces (`none`: `DualPipe` always fails with `PipeError::Other`). -/
def PipeKind.output : PipeKind → Option DataTy
  | .compiler => some .parser | .preModel => some .preModel | .model => some .model
  | .linearModel => some .linearModel | .standardLinearModel => some .standardLinearModel | .tableau => some .tableau
  | .realSolver => some .realSolution | .stepByStepSimplex => some .optimalTableauWithSteps | .dual => none
  | .milpSolver => some .milpSolution | .autoSolver => some .milpSolution

/-- the `PipeError` variant its own failure is wrapped in (`CompilerPipe` cannot fail: it only stores the text). -/
def PipeKind.errVariant : PipeKind → String
  | .compiler => "-" | .preModel => "CompilationError" | .model => "TransformError"
  | .linearModel => "LinearizationError" | .standardLinearModel => "StandardizationError"
  | .tableau => "CanonicalizationError" | .realSolver => "SolverError"
  | .stepByStepSimplex => "StepByStepSimplexError" | .dual => "Other" | .milpSolver => "SolverError"
  | .autoSolver => "SolverError"

def PipeKind.structName : PipeKind → String
  | .compiler => "CompilerPipe" | .preModel => "PreModelPipe" | .model => "ModelPipe"
  | .linearModel => "LinearModelPipe" | .standardLinearModel => "StandardLinearModelPipe" | .tableau => "TableauPipe"
  | .realSolver => "RealSolver" | .stepByStepSimplex => "StepByStepSimplexPipe" | .dual => "DualPipe"
  | .milpSolver => "MILPSolverPipe" | .autoSolver => "AutoSolverPipe"

/-- in the order of `pipe_executors.rs`. -/
def PipeKind.all : List PipeKind :=
  [.compiler, .preModel, .model, .linearModel, .standardLinearModel, .tableau, .realSolver, .stepByStepSimplex, .dual,
   .milpSolver, .autoSolver]

/-- the model's typing table in the shape `tools/extract.py` re-reads from the Rust source (`Rooc/Gen/PipeTable.lean`);
`Rooc.Props.C16.pipe_table_agrees` is the proof obligation that the two coincide. -/
def modelTable : List (String × String × String × String) :=
  PipeKind.all.map fun k => (k.structName, k.input.name, (k.output.map DataTy.name).getD "", k.errVariant)

inductive PipeErr
  | invalidData (expected got : DataTy)
  | stage (variant : String)
  deriving Repr, DecidableEq

/-- a built-in pipe over tagged data `(tag, payload)`: the tag check first, then the stage function `f` (its error, if
any, wrapped in the pipe's variant), the result tagged with the pipe's output variant. -/
def builtin {P : Type} (k : PipeKind) (f : P → Option P) : DataTy × P → Except PipeErr (DataTy × P)
  | (t, p) =>
    if t != k.input then .error (.invalidData k.input t) else
    match k.output, f p with
    | some o, some q => .ok (o, q)
    | _, _ => .error (.stage k.errVariant)

/-- the abstract run used by the correspondence check: payloads are `Unit`, the position of a failing stage function (if
any was observed) is an input. -/
def runTags (kinds : List PipeKind) (start : DataTy) (failAt : Option Nat) : Except (PipeErr × List DataTy) (List DataTy) :=
  let stages := (kinds.zip (List.range kinds.length)).map fun (k, i) =>
    builtin (P := Unit) k (fun _ => if failAt == some i then none else some ())
  match runPipe stages (start, ()) with
  | .ok rs => .ok (rs.map (·.1))
  | .error (e, rs) => .error (e, rs.map (·.1))

end Pipes
end Rooc
