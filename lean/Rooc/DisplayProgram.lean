/-
C12 ⇄ C11: what a whole rendered model denotes for the program-level parser model.

* `Line` — one rendered constraint line (optional name, tokens and tree of the left side, optional comparison with
  tokens and tree of the right side); `progToksOf` / `progOf` — the token list of a whole program text
  (`objective NL s.t. NL line NL … define NL decl NL …`) and the `PreModel` it stands for;
* `modelToks` / `modelProgram` — token twin of `impl Display for Model` and the `PreModel` it stands for;
* `linToks` / `linProgram` — token twin of `impl Display for LinearModel` (`format_var`: sign token, magnitude
  token omitted for ±1, implicit product `3x`; objective offset; right sides; `define` block grouped by
  printed type) and the `PreModel` it stands for.
The driver checks per case that the lexer model cuts the rendered TEXT into exactly these tokens.  Import-free.
-/
import Rooc.DisplayParse
namespace Rooc.Display
open Rooc Rooc.Syntax Arith

/-! ### program skeleton -/

/-- comparison part of a constraint line: comparison, tree and tokens of the right side -/
abbrev LineTail := Option (Syntax.Cmp × PExp × List Tok)

def tailToks : LineTail → List Tok
  | some (c, _, rt) => cmpTok c :: rt
  | none => []

def tailCmp : LineTail → Syntax.Cmp
  | some (c, _, _) => c
  | none => .eq

def tailRhs : LineTail → PExp
  | some (_, r, _) => r
  | none => .bool true

/-- a rendered constraint line: optional plain name, a rendering of the left side, and either nothing (bare
logic assertion) or a comparison and a rendering of the right side -/
structure Line where
  name : Option String
  lhs : PExp
  ltoks : List Tok
  cmp : LineTail

def Line.toks (l : Line) : List Tok :=
  (match l.name with | some n => [.word n, .colon] | none => []) ++ l.ltoks ++ tailToks l.cmp

/-- the `PreConstraint` a line stands for (`parse_constraint`: no comparison = logic assertion `lhs = true`) -/
def Line.pc (l : Line) : PConstraint :=
  { name := l.name.map .plain, lhs := l.lhs, cmp := tailCmp l.cmp, rhs := tailRhs l.cmp,
    logic := l.cmp.isNone, iterVars := [], iters := [] }

def linesToks : List Line → List Tok
  | [] => []
  | l :: ls => l.toks ++ .nl :: linesToks ls

/-- the objective line: `solve`, or `min`/`max` and a rendering of the objective -/
def objToks (kind : ObjKind) (otoks : List Tok) : List Tok :=
  match kind with
  | .solve => [.word "solve"]
  | .min => .word "min" :: otoks
  | .max => .word "max" :: otoks

def declToks (ds : List PDomain) : List Tok :=
  if ds.isEmpty then [] else .word "define" :: .nl :: domainsToks ds

def progToksOf (kind : ObjKind) (otoks : List Tok) (ls : List Line) (ds : List PDomain) : List Tok :=
  objToks kind otoks ++ .nl :: .st :: .nl :: (linesToks ls ++ declToks ds)

def progOf (kind : ObjKind) (obj : PExp) (ls : List Line) (ds : List PDomain) : PModel :=
  { objKind := kind, objective := obj, constraints := ls.map Line.pc, constants := [], domains := ds }

def optKind : OptType → ObjKind
  | .min => .min | .max => .max | .satisfy => .solve

section
variable {α : Type} [Arith α]

/-! ### numbers with a sign, domain types -/

/-- a printed number that may be negative: `-3` is lexed as minus and `3` -/
def signedToks (tok : α → String) (v : α) : List Tok :=
  if Arith.lt v zero then [.minus, numTok (tok (Arith.abs v))] else [numTok (tok v)]
def signedP (tok : α → String) (v : α) : PExp :=
  if Arith.lt v zero then .un .neg (numP (tok (Arith.abs v))) else numP (tok v)

/-- `domain_bound_to_string` as a tree -/
def boundP (tok : α → String) (v : α) : PExp :=
  if Arith.eq v posInf then .var "Infinity" else if Arith.eq v negInf then .var "MinusInfinity" else signedP tok v

def intP (i : Int) : PExp := if i < 0 then .un .neg (.int i.natAbs) else .int i.natAbs

/-- the `PreVariableType` the printed type stands for -/
def ptyOf (tok : α → String) : VarType α → PVarType
  | .bool => .boolean
  | .nnreal lo hi =>
    if Arith.eq lo zero && Arith.eq hi posInf then .nonNegReal none none
    else .nonNegReal (some (boundP tok lo)) (some (boundP tok hi))
  | .real lo hi =>
    if Arith.eq lo negInf && Arith.eq hi posInf then .real none none
    else .real (some (boundP tok lo)) (some (boundP tok hi))
  | .int lo hi => .intRange (intP lo) (intP hi)

/-- `groupInsert` that also keeps the type of the group (the first variable's; equal printed types) -/
def groupInsertT (key : String) (ty : VarType α) (name : String) :
    List (String × VarType α × List String) → List (String × VarType α × List String)
  | [] => [(key, ty, [name])]
  | (k, t, ns) :: rest =>
    if k == key then (k, t, ns ++ [name]) :: rest else (k, t, ns) :: groupInsertT key ty name rest

/-- the declarations of the `define` block (`format_domain`) -/
def domainDecls (tok : α → String) (domain : List (DomVar α)) : List PDomain :=
  let groups := domain.foldl (fun g d => groupInsertT (varTypeStr tok d.ty) d.ty d.name g) []
  groups.map fun (_, ty, ns) => { vars := ns.map .plain, ty := ptyOf tok ty, iterVars := [], iters := [] }

/-! ### `Display for Model` -/

def constraintLine (tok : α → String) (c : Constraint α) : Line :=
  { name := if c.name.isEmpty then none else some c.name,
    lhs := toP tok c.lhs, ltoks := dToks tok none c.lhs,
    cmp := if c.isAssert then none else some (cmpOf c.cmp, toP tok c.rhs, dToks tok none c.rhs) }

def modelToks (tok : α → String) (m : Model α) : List Tok :=
  progToksOf (optKind m.optType) (dToks tok none m.objective) (m.constraints.map (constraintLine tok))
    (domainDecls tok m.domain)

def modelProgram (tok : α → String) (m : Model α) : PModel :=
  progOf (optKind m.optType) (match m.optType with | .satisfy => .bool true | _ => toP tok m.objective)
    (m.constraints.map (constraintLine tok)) (domainDecls tok m.domain)

/-! ### `Display for LinearModel` -/

/-- the terms a coefficient vector is printed as: `(variable, coefficient)` for the non-zero coefficients
(`none`: `self.variables[i]` out of range) -/
def termList : List α → List String → Option (List (String × α))
  | [], _ => some []
  | c :: cs, vs =>
    if isZero c then termList cs vs.tail
    else match vs with
      | [] => none
      | v :: vs' => (termList cs vs').map ((v, c) :: ·)

/-- `format_var` without the sign: `x` or the implicit product `3x` -/
def termBodyToks (tok : α → String) (name : String) : Option α → List Tok
  | none => [.word name]
  | some m => [numTok (tok m), .word name]
def termBodyP (tok : α → String) (name : String) : Option α → PExp
  | none => .var name
  | some m => .bin .mul (numP (tok m)) (.var name)

def restToks (tok : α → String) : List (String × α) → List Tok
  | [] => []
  | (v, c) :: ts =>
    (if (formatVarParts c).1 then Tok.minus else Tok.plus) :: (termBodyToks tok v (formatVarParts c).2 ++ restToks tok ts)
def restP (tok : α → String) (acc : PExp) : List (String × α) → PExp
  | [] => acc
  | (v, c) :: ts =>
    restP tok (.bin (if (formatVarParts c).1 then .sub else .add) acc (termBodyP tok v (formatVarParts c).2)) ts

/-- a printed linear expression: `0` when empty, else `[-] t₁ (+|-) t₂ …` read left to right -/
def linExpToks (tok : α → String) : List (String × α) → List Tok
  | [] => [.int "0"]
  | (v, c) :: ts =>
    (if (formatVarParts c).1 then [Tok.minus] else []) ++ termBodyToks tok v (formatVarParts c).2 ++ restToks tok ts
def linExpP (tok : α → String) : List (String × α) → PExp
  | [] => .int 0
  | (v, c) :: ts =>
    restP tok (if (formatVarParts c).1 then .un .neg (termBodyP tok v (formatVarParts c).2)
               else termBodyP tok v (formatVarParts c).2) ts

/-- right side of a row: `0` or the (signed) number -/
def rhsToks (tok : α → String) (v : α) : List Tok := if isZero v then [.int "0"] else signedToks tok v
def rhsP (tok : α → String) (v : α) : PExp := if isZero v then .int 0 else signedP tok v

def rowLineOf (tok : α → String) (vars : List String) (r : LinRow α) : Option Line :=
  (termList r.coeffs vars).map fun ts =>
    { name := if r.name.isEmpty then none else some r.name,
      lhs := linExpP tok ts, ltoks := linExpToks tok ts,
      cmp := some (cmpOf r.cmp, rhsP tok r.rhs, rhsToks tok r.rhs) }

/-- the objective offset appended to the objective expression -/
def offsetToks (tok : α → String) (off : α) : List Tok :=
  if isZero off then [] else if floatLt off zero then [.minus, numTok (tok (Arith.abs off))] else [.plus, numTok (tok off)]
def offsetP (tok : α → String) (off : α) (acc : PExp) : PExp :=
  if isZero off then acc else if floatLt off zero then .bin .sub acc (numP (tok (Arith.abs off)))
  else .bin .add acc (numP (tok off))

structure LinParts where
  kind : ObjKind
  obj : PExp
  otoks : List Tok
  lines : List Line
  decls : List PDomain

def linParts (tok : α → String) (lm : LinModel α) : Option LinParts :=
  match allSome (lm.rows.map (rowLineOf tok lm.vars)), termList lm.objective lm.vars with
  | some lines, some ots =>
    some { kind := optKind lm.optType,
           obj := (match lm.optType with | .satisfy => .bool true | _ => offsetP tok lm.offset (linExpP tok ots)),
           otoks := linExpToks tok ots ++ offsetToks tok lm.offset,
           lines := lines, decls := domainDecls tok lm.domain }
  | _, _ => none

def linToks (tok : α → String) (lm : LinModel α) : Option (List Tok) :=
  (linParts tok lm).map fun p => progToksOf p.kind p.otoks p.lines p.decls

def linProgram (tok : α → String) (lm : LinModel α) : Option PModel :=
  (linParts tok lm).map fun p => progOf p.kind p.obj p.lines p.decls

/-! ### reading a printed linear expression back -/

/-- value of a number leaf (`Primitive::Integer(i) => i as f64`, `str::parse::<f64>`) -/
def leafVal (numOf : String → α) : PExp → Option α
  | .int n => some (Arith.ofInt (n : Int))
  | .num s => some (numOf s)
  | _ => none

/-- one printed term: `x` or `3x` -/
def readTerm (numOf : String → α) : PExp → Option (String × α)
  | .var v => some (v, one)
  | .bin .mul n (.var v) => (leafVal numOf n).map fun c => (v, c)
  | _ => none

/-- a printed sum of terms read left to right as `(variable, signed coefficient)`; `0` is the empty sum -/
def readSum (numOf : String → α) : PExp → Option (List (String × α))
  | .int 0 => some []
  | .bin .add l r =>
    match readSum numOf l, readTerm numOf r with
    | some ts, some t => some (ts ++ [t])
    | _, _ => none
  | .bin .sub l r =>
    match readSum numOf l, readTerm numOf r with
    | some ts, some (v, c) => some (ts ++ [(v, Arith.neg c)])
    | _, _ => none
  | .un .neg t => (readTerm numOf t).map fun (v, c) => [(v, Arith.neg c)]
  | t => (readTerm numOf t).map fun t => [t]

/-- a printed right side: a number or minus a number -/
def readSigned (numOf : String → α) : PExp → Option α
  | .un .neg n => (leafVal numOf n).map Arith.neg
  | n => leafVal numOf n

/-- what reading a printed row back gives: the row's name and comparison, the non-zero coefficients paired with
their variables (`termList`), the right side -/
def RowReads (numOf : String → α) (vars : List String) (r : LinRow α) (pc : PConstraint) : Prop :=
  pc.name = (if r.name.isEmpty then none else some (.plain r.name)) ∧ pc.cmp = cmpOf r.cmp ∧ pc.logic = false
  ∧ (∃ ts, termList r.coeffs vars = some ts ∧ readSum numOf pc.lhs = some ts)
  ∧ readSigned numOf pc.rhs = some r.rhs

end
end Rooc.Display
