/-
LP / MILP certificates: an executable CHECKER (polymorphic in the exact field, the thing the soundness theorems
of `Rooc/Props/C04.lean`, `C05.lean`, `C20.lean` are about) and an exact two-phase Bland simplex over `Rat`
that EMITS certificates (the search is not verified: every verdict it produces is re-checked by the checker,
so each oracle answer is kernel-justified per instance through `optimal_cert_sound`, `infeasible_cert_sound`,
`unbounded_cert_sound`).

Vocabulary (DESIGN.md appendix A): a problem is `minimise / maximise / satisfy  obj·x + offset` subject to rows
`a·x ⋈ rhs` (⋈ ∈ ≤, ≥, =) and a domain per variable (continuous with optional bounds, integer range, 0/1).

Import-free.
-/
import Rooc.Model
namespace Rooc
namespace Cert

inductive Rel | le | ge | eq
  deriving Repr, DecidableEq, Inhabited

structure Row (K : Type) where
  coeffs : List K
  rel : Rel
  rhs : K
  deriving Repr, Inhabited

/-- bounds of the LP relaxation; `none` = infinite. -/
structure Bnd (K : Type) where
  lo : Option K
  hi : Option K
  deriving Repr, Inhabited

inductive Dom (K : Type) where
  | cont (lo hi : Option K)
  | int (lo hi : Int)
  | bool
  deriving Repr, Inhabited

/-- a linear / mixed-integer problem with its optimisation sense. -/
structure Prob (K : Type) where
  sense : OptType
  obj : List K
  offset : K
  rows : List (Row K)
  doms : List (Dom K)
  deriving Repr, Inhabited

/-- the continuous problem the certificates speak about: minimise `obj·x`. -/
structure LP (K : Type) where
  obj : List K
  rows : List (Row K)
  bnds : List (Bnd K)
  deriving Repr, Inhabited

section Checker
variable {K : Type} [ExactField K]
open ExactField

def zero : K := ofInt 0

def dot : List K → List K → K
  | a :: as, x :: xs => add (mul a x) (dot as xs)
  | _, _ => ofInt 0

def absK (a : K) : K := if lt a (ofInt 0) then neg a else a

/-- nearest integer (`⌊x + 1/2⌋`). -/
def roundK (x : K) : Int := floor (add x (div (ofInt 1) (ofInt 2)))

/-! ### feasibility within a tolerance -/

def rowHolds (tol : K) (x : List K) (r : Row K) : Bool :=
  let v := dot r.coeffs x
  match r.rel with
  | .le => le v (add r.rhs tol)
  | .ge => le (sub r.rhs tol) v
  | .eq => le v (add r.rhs tol) && le (sub r.rhs tol) v

def loHolds (tol : K) (x : K) : Option K → Bool
  | none => true
  | some l => le (sub l tol) x
def hiHolds (tol : K) (x : K) : Option K → Bool
  | none => true
  | some h => le x (add h tol)

def domHolds (tol : K) (x : K) : Dom K → Bool
  | .cont lo hi => loHolds tol x lo && hiHolds tol x hi
  | .int lo hi =>
    let n := roundK x
    le (absK (sub x (ofInt n))) tol && decide (lo ≤ n) && decide (n ≤ hi)
  | .bool => le (absK x) tol || le (absK (sub x (ofInt 1))) tol

def domsHold (tol : K) : List K → List (Dom K) → Bool
  | [], [] => true
  | x :: xs, d :: ds => domHolds tol x d && domsHold tol xs ds
  | _, _ => false

/-- `checkPoint p x tol`: one value per variable, every row and every domain (bounds, integrality, 0/1) holds
within `tol`. -/
def checkPoint (p : Prob K) (x : List K) (tol : K) : Bool :=
  p.rows.all (fun r => decide (r.coeffs.length = x.length) && rowHolds tol x r) && domsHold tol x p.doms

/-- objective of the model at `x`, constant offset included. -/
def objective (p : Prob K) (x : List K) : K := add (dot p.obj x) p.offset

/-! ### LP relaxation and exact LP feasibility -/

def Dom.bnd : Dom K → Bnd K
  | .cont lo hi => ⟨lo, hi⟩
  | .int lo hi => ⟨some (ofInt lo), some (ofInt hi)⟩
  | .bool => ⟨some (ofInt 0), some (ofInt 1)⟩

def negList (l : List K) : List K := l.map neg

/-- the minimisation LP relaxation of a problem (`max` is turned into `min −obj`, `satisfy` into `min 0`). -/
def Prob.relax (p : Prob K) : LP K :=
  { obj := match p.sense with
      | .min => p.obj
      | .max => negList p.obj
      | .satisfy => p.obj.map (fun _ => ofInt 0),
    rows := p.rows, bnds := p.doms.map Dom.bnd }

def bndHolds (x : K) (b : Bnd K) : Bool := loHolds (ofInt 0) x b.lo && hiHolds (ofInt 0) x b.hi

def bndsHold : List K → List (Bnd K) → Bool
  | [], [] => true
  | x :: xs, b :: bs => bndHolds x b && bndsHold xs bs
  | _, _ => false

def lpFeasible (lp : LP K) (x : List K) : Bool :=
  lp.rows.all (fun r => decide (r.coeffs.length = x.length) && rowHolds (ofInt 0) x r) && bndsHold x lp.bnds

/-! ### dual bound (weak duality), the heart of all three certificates

For multipliers `y` (one per row; `≤` rows need `y ≤ 0`, `≥` rows `y ≥ 0`) put `d = c − Σ yᵢ aᵢ`. Every feasible `x` has
`c·x = Σ yᵢ (aᵢ·x) + d·x ≥ Σ yᵢ bᵢ + Σ_j (dⱼ > 0 ? dⱼ·loⱼ : dⱼ < 0 ? dⱼ·hiⱼ : 0)`; the right-hand side is `dualBound`
(`none` when a needed bound is infinite or a sign condition fails). -/

/-- `r − f·t` componentwise. -/
def rowSub (f : K) : List K → List K → List K
  | a :: as, p :: ps => sub a (mul f p) :: rowSub f as ps
  | as, [] => as
  | [], _ => []

def signOk (rel : Rel) (y : K) : Bool :=
  match rel with
  | .le => le y (ofInt 0)
  | .ge => le (ofInt 0) y
  | .eq => true

/-- reduced costs `c − Σ yᵢ aᵢ`, together with `Σ yᵢ bᵢ`; `none` on a sign / shape error. -/
def reduce : List K → List (Row K) → List K → Option (List K × K)
  | c, [], [] => some (c, ofInt 0)
  | c, r :: rs, y :: ys =>
    if signOk r.rel y && decide (r.coeffs.length = c.length) then
      match reduce (rowSub y c r.coeffs) rs ys with
      | some (d, v) => some (d, add (mul y r.rhs) v)
      | none => none
    else none
  | _, _, _ => none

def bndTerm (d : K) (b : Bnd K) : Option K :=
  if lt (ofInt 0) d then b.lo.map (mul d)
  else if lt d (ofInt 0) then b.hi.map (mul d)
  else some (ofInt 0)

def bndSum : List K → List (Bnd K) → Option K
  | [], [] => some (ofInt 0)
  | d :: ds, b :: bs =>
    match bndTerm d b, bndSum ds bs with
    | some t, some s => some (add t s)
    | _, _ => none
  | _, _ => none

def dualBound (c : List K) (rows : List (Row K)) (bnds : List (Bnd K)) (y : List K) : Option K :=
  match reduce c rows y with
  | none => none
  | some (d, v) =>
    match bndSum d bnds with
    | none => none
    | some s => some (add v s)

/-! ### the three LP certificates -/

/-- optimal: a feasible point whose objective equals a dual bound. -/
def checkOptimal (lp : LP K) (x y : List K) : Bool :=
  decide (lp.obj.length = x.length) && lpFeasible lp x &&
  match dualBound lp.obj lp.rows lp.bnds y with
  | some v => le (dot lp.obj x) v
  | none => false

/-- the feasible set's optimum is at least `t` (used for MILP leaves that cannot beat the incumbent). -/
def checkLowerBound (lp : LP K) (y : List K) (t : K) : Bool :=
  match dualBound lp.obj lp.rows lp.bnds y with
  | some v => le t v
  | none => false

inductive InfeasCert (K : Type) where
  /-- Farkas multipliers: the dual bound of the zero objective is positive. -/
  | farkas (y : List K)
  /-- variable `j` has an empty range. -/
  | emptyBound (j : Nat)
  deriving Repr, Inhabited

def zerosLike (c : List K) : List K := c.map (fun _ => ofInt 0)

def emptyBnd (b : Bnd K) : Bool :=
  match b.lo, b.hi with
  | some l, some h => lt h l
  | _, _ => false

def checkInfeasible (lp : LP K) : InfeasCert K → Bool
  | .farkas y =>
    match dualBound (zerosLike lp.obj) lp.rows lp.bnds y with
    | some v => lt (ofInt 0) v
    | none => false
  | .emptyBound j =>
    match lp.bnds[j]? with
    | some b => emptyBnd b
    | none => false

def rayRow (r : List K) (row : Row K) : Bool :=
  decide (row.coeffs.length = r.length) &&
  let v := dot row.coeffs r
  match row.rel with
  | .le => le v (ofInt 0)
  | .ge => le (ofInt 0) v
  | .eq => le v (ofInt 0) && le (ofInt 0) v

def rayBnds : List K → List (Bnd K) → Bool
  | [], [] => true
  | r :: rs, b :: bs =>
    (match b.lo with | some _ => le (ofInt 0) r | none => true) &&
    (match b.hi with | some _ => le r (ofInt 0) | none => true) && rayBnds rs bs
  | _, _ => false

/-- unbounded: a feasible point and a recession direction along which the objective strictly decreases. -/
def checkUnbounded (lp : LP K) (x r : List K) : Bool :=
  decide (lp.obj.length = x.length) && decide (r.length = x.length) && lpFeasible lp x &&
  lp.rows.all (rayRow r) && rayBnds r lp.bnds && lt (dot lp.obj r) (ofInt 0)

/-! ### MILP: enumeration of the integer box, every leaf certified -/

/-- all integer points `lo..hi` (empty when `hi < lo`). -/
def intRange (lo hi : Int) : List Int :=
  (List.range (hi + 1 - lo).toNat).map (fun (k : Nat) => lo + Int.ofNat k)

/-- the leaves: one choice per integer / 0-1 variable (`none` for a continuous variable). -/
def leaves : List (Dom K) → List (List (Option Int))
  | [] => [[]]
  | .cont _ _ :: ds => (leaves ds).map (none :: ·)
  | .int lo hi :: ds => (intRange lo hi).flatMap fun v => (leaves ds).map (some v :: ·)
  | .bool :: ds => (intRange 0 1).flatMap fun v => (leaves ds).map (some v :: ·)

def fixBnd (b : Bnd K) : Option Int → Bnd K
  | none => b
  | some v => ⟨some (ofInt v), some (ofInt v)⟩

def fixBnds : List (Bnd K) → List (Option Int) → List (Bnd K)
  | b :: bs, f :: fs => fixBnd b f :: fixBnds bs fs
  | bs, _ => bs

def LP.fix (lp : LP K) (leaf : List (Option Int)) : LP K := { lp with bnds := fixBnds lp.bnds leaf }

inductive LeafCert (K : Type) where
  /-- the leaf LP has no point -/
  | infeasible (c : InfeasCert K)
  /-- every point of the leaf LP has objective ≥ the incumbent's -/
  | bound (y : List K)
  deriving Repr, Inhabited

def checkLeaf (lp : LP K) (target : K) (leaf : List (Option Int)) : LeafCert K → Bool
  | .infeasible c => checkInfeasible (lp.fix leaf) c
  | .bound y => checkLowerBound (lp.fix leaf) y target

def checkLeaves (lp : LP K) (target : K) : List (List (Option Int)) → List (LeafCert K) → Bool
  | [], [] => true
  | l :: ls, c :: cs => checkLeaf lp target l c && checkLeaves lp target ls cs
  | _, _ => false

/-- MILP optimum (in minimisation form): `x` satisfies the problem exactly and no leaf can do better. -/
def checkMilpOptimal (p : Prob K) (x : List K) (certs : List (LeafCert K)) : Bool :=
  decide (p.obj.length = x.length) && checkPoint p x (ofInt 0) &&
  checkLeaves p.relax (dot p.relax.obj x) (leaves p.doms) certs

/-- MILP infeasible: no leaf has a point. -/
def checkMilpInfeasible (p : Prob K) (certs : List (InfeasCert K)) : Bool :=
  let rec go : List (List (Option Int)) → List (InfeasCert K) → Bool
    | [], [] => true
    | l :: ls, c :: cs => checkInfeasible (p.relax.fix l) c && go ls cs
    | _, _ => false
  go (leaves p.doms) certs

/-- MILP unbounded: a point of the problem and a ray of the relaxation (integer variables are bounded, so the ray
does not move them). -/
def checkMilpUnbounded (p : Prob K) (x r : List K) : Bool :=
  checkPoint p x (ofInt 0) && checkUnbounded p.relax x r

end Checker

/-! ## Exact simplex over `Rat` (certificate producer; unverified search) -/

namespace Simplex

abbrev Vec := Array Rat
abbrev Mat := Array (Array Rat)

structure Tab where
  a : Mat
  b : Vec
  basis : Array Nat
  cost : Vec
  z : Rat
  deriving Inhabited

def axpy (f : Rat) (x y : Vec) : Vec :=   -- y − f·x
  if f == 0 then y else Array.ofFn (n := y.size) fun i => y[i] - f * x[i.val]!

def Tab.pivot (t : Tab) (r q : Nat) : Tab :=
  let p := t.a[r]![q]!
  let rowr : Vec := t.a[r]!.map (· / p)
  let br := t.b[r]! / p
  let a : Mat := Array.ofFn (n := t.a.size) fun i =>
    if i.val == r then rowr else axpy (t.a[i]![q]!) rowr t.a[i]
  let b : Vec := Array.ofFn (n := t.b.size) fun i =>
    if i.val == r then br else t.b[i] - t.a[i.val]![q]! * br
  let f := t.cost[q]!
  { a := a, b := b, basis := t.basis.set! r q, cost := axpy f rowr t.cost, z := t.z + f * br }

/-- Bland: lowest-index allowed column with negative reduced cost. -/
def Tab.entering (t : Tab) (allowed : Nat → Bool) : Option Nat :=
  (List.range t.cost.size).find? fun j => allowed j && t.cost[j]! < 0

/-- ratio test, ties broken by the lowest basic variable index. -/
def Tab.leaving (t : Tab) (q : Nat) : Option Nat :=
  (List.range t.a.size).foldl (fun (best : Option Nat) (i : Nat) =>
    let aiq := t.a[i]![q]!
    if aiq > 0 then
      let ratio := t.b[i]! / aiq
      match best with
      | none => some i
      | some k =>
        let rk := t.b[k]! / t.a[k]![q]!
        if ratio < rk || (ratio == rk && t.basis[i]! < t.basis[k]!) then some i else some k
    else best) none

inductive Stop | optimal | unbounded (q : Nat) | fuel
  deriving Repr, Inhabited

def Tab.run (allowed : Nat → Bool) : Nat → Tab → Tab × Stop
  | 0, t => (t, .fuel)
  | fuel + 1, t =>
    match t.entering allowed with
    | none => (t, .optimal)
    | some q =>
      match t.leaving q with
      | none => (t, .unbounded q)
      | some r => Tab.run allowed fuel (t.pivot r q)

/-- how an original variable is expressed in the non-negative columns of the standard form. -/
inductive ColMap where
  | const (k : Rat)                 -- lo = hi
  | shift (k : Rat) (col : Nat)     -- x = k + u
  | flip (k : Rat) (col : Nat)      -- x = k − u
  | split (p m : Nat)               -- x = u⁺ − u⁻
  deriving Repr, Inhabited

inductive LpResult where
  | optimal (x y : List Rat) (value : Rat) (unique nondegenerate : Bool)
  | infeasible (c : InfeasCert Rat)
  | unbounded (x r : List Rat)
  | failed (why : String)
  deriving Repr, Inhabited

structure Std where
  maps : Array ColMap
  ncols : Nat             -- structural columns
  /-- rows in u-space: coefficients over structural columns, relation, rhs; `orig` = index of the original row -/
  rows : Array (Vec × Rel × Rat × Option Nat)
  cst : Rat               -- constant of the objective
  cobj : Vec              -- objective over structural columns

def buildStd (lp : LP Rat) : Std := Id.run do
  let n := lp.bnds.length
  let mut maps : Array ColMap := #[]
  let mut ncols := 0
  let mut extra : Array (Nat × Rat) := #[]     -- (col, upper bound of u)
  for b in lp.bnds do
    match b.lo, b.hi with
    | some l, some h =>
      if l == h then maps := maps.push (.const l)
      else
        maps := maps.push (.shift l ncols); extra := extra.push (ncols, h - l); ncols := ncols + 1
    | some l, none => maps := maps.push (.shift l ncols); ncols := ncols + 1
    | none, some h => maps := maps.push (.flip h ncols); ncols := ncols + 1
    | none, none => maps := maps.push (.split ncols (ncols + 1)); ncols := ncols + 2
  let lin (coeffs : List Rat) : Vec × Rat := Id.run do
    let mut v : Vec := Array.replicate ncols 0
    let mut k : Rat := 0
    let cs := coeffs.toArray
    for j in [0:n] do
      let a := cs[j]?.getD 0
      match maps[j]! with
      | .const c => k := k + a * c
      | .shift c col => k := k + a * c; v := v.set! col (v[col]! + a)
      | .flip c col => k := k + a * c; v := v.set! col (v[col]! - a)
      | .split p m => v := v.set! p (v[p]! + a); v := v.set! m (v[m]! - a)
    return (v, k)
  let mut rows : Array (Vec × Rel × Rat × Option Nat) := #[]
  let mut i := 0
  for r in lp.rows do
    let (v, k) := lin r.coeffs
    rows := rows.push (v, r.rel, r.rhs - k, some i)
    i := i + 1
  for (col, ub) in extra do
    rows := rows.push ((Array.replicate ncols (0 : Rat)).set! col 1, .le, ub, none)
  let (cobj, cst) := lin lp.obj
  return { maps := maps, ncols := ncols, rows := rows, cst := cst, cobj := cobj }

def Std.back (s : Std) (u : Vec) (dir : Bool) : List Rat :=
  -- dir = false: a point; dir = true: a direction (constants dropped)
  s.maps.toList.map fun m =>
    match m with
    | .const k => if dir then 0 else k
    | .shift k c => (if dir then 0 else k) + u[c]!
    | .flip k c => (if dir then 0 else k) - u[c]!
    | .split p m => u[p]! - u[m]!

/-- exact solve of `min obj·x` with certificates. -/
def solveLP (lp : LP Rat) : LpResult := Id.run do
  -- empty ranges first (Farkas multipliers on rows cannot express them)
  let mut j := 0
  for b in lp.bnds do
    if emptyBnd b then return .infeasible (.emptyBound j)
    j := j + 1
  let s := buildStd lp
  let m := s.rows.size
  let nslack := (s.rows.toList.filter fun (_, rel, _, _) => rel != Rel.eq).length
  let ntot := s.ncols + nslack + m
  let artOf (i : Nat) : Nat := s.ncols + nslack + i
  -- rows with slack, sign-normalised, artificial identity
  let mut a : Mat := #[]
  let mut b : Vec := #[]
  let mut sgn : Array Rat := #[]
  let mut sl := 0
  let mut i := 0
  for (v, rel, rhs, _) in s.rows do
    let mut row : Vec := Array.replicate ntot 0
    for c in [0:s.ncols] do row := row.set! c v[c]!
    match rel with
    | .le => row := row.set! (s.ncols + sl) 1; sl := sl + 1
    | .ge => row := row.set! (s.ncols + sl) (-1); sl := sl + 1
    | .eq => pure ()
    let sg : Rat := if rhs < 0 then -1 else 1
    row := row.map (· * sg)
    row := row.set! (artOf i) 1
    a := a.push row; b := b.push (rhs * sg); sgn := sgn.push sg
    i := i + 1
  -- phase 1
  let mut cost1 : Vec := Array.replicate ntot 0
  let mut z1 : Rat := 0
  for r in [0:m] do
    cost1 := Array.ofFn (n := cost1.size) fun c => if c.val < s.ncols + nslack then cost1[c] - a[r]![c.val]! else cost1[c]
    z1 := z1 + b[r]!
  let t0 : Tab := { a := a, b := b, basis := Array.ofFn (n := m) fun i => artOf i.val, cost := cost1, z := z1 }
  let fuel := 200 + 50 * (ntot + m) * (ntot + m)
  let (t1, st1) := Tab.run (fun _ => true) fuel t0
  match st1 with
  | .fuel => return .failed "phase-1 fuel"
  | .unbounded _ => return .failed "phase-1 unbounded"
  | .optimal => pure ()
  let origDual (t : Tab) (phase1 : Bool) : List Rat := Id.run do
    -- multipliers of the ORIGINAL rows from the reduced costs of the artificial columns
    let mut y : Array Rat := Array.replicate lp.rows.length 0
    for i in [0:m] do
      let rc := t.cost[artOf i]!
      let yi := (if phase1 then 1 - rc else -rc) * sgn[i]!
      match s.rows[i]!.2.2.2 with
      | some k => y := y.set! k yi
      | none => pure ()
    return y.toList
  if t1.z > 0 then return .infeasible (.farkas (origDual t1 true))
  -- drive artificials out of the basis where possible
  let mut t := t1
  for r in [0:m] do
    if t.basis[r]! ≥ s.ncols + nslack then
      match (List.range (s.ncols + nslack)).find? (fun c => t.a[r]![c]! != 0) with
      | some c => t := t.pivot r c
      | none => pure ()
  -- phase 2 cost row
  let c2 (col : Nat) : Rat := if col < s.ncols then s.cobj[col]! else 0
  let mut cost2 : Vec := Array.ofFn (n := ntot) fun c => c2 c.val
  let mut z2 : Rat := s.cst
  for r in [0:m] do
    let cb := c2 t.basis[r]!
    cost2 := axpy cb t.a[r]! cost2
    z2 := z2 + cb * t.b[r]!
  let t2s : Tab := { t with cost := cost2, z := z2 }
  let (t2, st2) := Tab.run (fun c => c < s.ncols + nslack) fuel t2s
  let uOf (t : Tab) : Vec := Id.run do
    let mut u : Vec := Array.replicate ntot 0
    for r in [0:m] do u := u.set! t.basis[r]! t.b[r]!
    return u
  match st2 with
  | .fuel => return .failed "phase-2 fuel"
  | .unbounded q =>
    let mut d : Vec := Array.replicate ntot 0
    d := d.set! q 1
    for r in [0:m] do d := d.set! t2.basis[r]! (d[t2.basis[r]!]! - t2.a[r]![q]!)
    return .unbounded (s.back (uOf t2) false) (s.back d true)
  | .optimal =>
    let u := uOf t2
    let inBasis (c : Nat) : Bool := t2.basis.contains c
    let nondeg := (List.range m).all fun r => t2.b[r]! > 0 && t2.basis[r]! < s.ncols + nslack
    -- partner columns of a basic half of a free split carry reduced cost 0 by construction: skip them
    let partnerBasic (c : Nat) : Bool := s.maps.any fun mp =>
      match mp with
      | .split p mm => (c == p && inBasis mm) || (c == mm && inBasis p)
      | _ => false
    let uniq := (List.range (s.ncols + nslack)).all fun c => inBasis c || partnerBasic c || t2.cost[c]! > 0
    return .optimal (s.back u false) (origDual t2 false) t2.z uniq nondeg

end Simplex

/-! ## Verdicts of whole problems (LP or MILP), certified -/

inductive Verdict where
  | optimal (x : List Rat) (value : Rat)      -- value in the USER's sense, offset included
  | infeasible
  | unbounded
  | failed (why : String)
  deriving Repr, Inhabited

structure Solved where
  verdict : Verdict
  /-- the certificate passed the checker -/
  certified : Bool
  /-- LP only: multipliers of the rows in MINIMISATION form, uniqueness / non-degeneracy flags of the final basis -/
  duals : List Rat := []
  unique : Bool := false
  nondegenerate : Bool := false
  leavesCount : Nat := 1
  deriving Repr, Inhabited

def userValue (p : Prob Rat) (x : List Rat) : Rat := dot p.obj x + p.offset

def isMip (p : Prob Rat) : Bool := p.doms.any fun d => match d with | .cont _ _ => false | _ => true

def maxLeaves : Nat := 20000

def leafCount : List (Dom Rat) → Nat
  | [] => 1
  | .cont _ _ :: ds => leafCount ds
  | .int lo hi :: ds => (hi + 1 - lo).toNat * leafCount ds
  | .bool :: ds => 2 * leafCount ds

/-- exact, certified solve of a continuous problem. -/
def solveCont (p : Prob Rat) : Solved :=
  let lp := p.relax
  match Simplex.solveLP lp with
  | .optimal x y _ u nd =>
    { verdict := .optimal x (userValue p x), certified := checkOptimal lp x y, duals := y, unique := u, nondegenerate := nd }
  | .infeasible c => { verdict := .infeasible, certified := checkInfeasible lp c }
  | .unbounded x r => { verdict := .unbounded, certified := checkUnbounded lp x r }
  | .failed w => { verdict := .failed w, certified := false }

/-- exact, certified solve of a mixed-integer problem by enumeration of the integer box. -/
def solveMip (p : Prob Rat) : Solved := Id.run do
  let n := leafCount p.doms
  if n > maxLeaves then return { verdict := .failed "integer box too large", certified := false }
  let lp := p.relax
  let ls := leaves p.doms
  -- pass 1: solve every leaf
  let mut best : Option (List Rat × Rat) := none      -- point, minimisation value
  let mut results : Array Simplex.LpResult := #[]
  for l in ls do
    let r := Simplex.solveLP (lp.fix l)
    results := results.push r
    match r with
    | .optimal x _ v _ _ =>
      match best with
      | none => best := some (x, v)
      | some (_, bv) => if v < bv then best := some (x, v)
    | .unbounded x ray =>
      return { verdict := .unbounded, certified := checkMilpUnbounded p x ray, leavesCount := n }
    | .failed w => return { verdict := .failed w, certified := false }
    | .infeasible _ => pure ()
  match best with
  | none =>
    let certs := results.toList.map fun r => match r with
      | .infeasible c => c
      | _ => .emptyBound 0
    return { verdict := .infeasible, certified := checkMilpInfeasible p certs, leavesCount := n }
  | some (x, _) =>
    let certs : List (LeafCert Rat) := results.toList.map fun r => match r with
      | .infeasible c => .infeasible c
      | .optimal _ y _ _ _ => .bound y
      | _ => .bound []
    return { verdict := .optimal x (userValue p x), certified := checkMilpOptimal p x certs, leavesCount := n }

def solve (p : Prob Rat) : Solved := if isMip p then solveMip p else solveCont p

/-! ## From the shared `LinModel` -/

section OfLinModel
variable {K : Type}

def extLo : Ext K → Except String (Option K)
  | .ninf => .ok none
  | .fin v => .ok (some v)
  | _ => .error "bad-lower-bound"
def extHi : Ext K → Except String (Option K)
  | .pinf => .ok none
  | .fin v => .ok (some v)
  | _ => .error "bad-upper-bound"
def extFin : Ext K → Except String K
  | .fin v => .ok v
  | _ => .error "non-finite-coefficient"

def listM {ε α β : Type} (f : α → Except ε β) : List α → Except ε (List β)
  | [] => .ok []
  | x :: xs =>
    match f x with
    | .error e => .error e
    | .ok y =>
      match listM f xs with
      | .error e => .error e
      | .ok ys => .ok (y :: ys)

/-- the domain a `VariableType` denotes (`Real` / `NonNegativeReal` carry their bounds; a NaN or wrong-signed infinite
bound has no denotation). -/
def tyDom : VarType (Ext K) → Except String (Dom K)
  | .bool => .ok .bool
  | .int a b => .ok (.int a b)
  | .real a b | .nnreal a b =>
    match extLo a, extHi b with
    | .ok lo, .ok hi => .ok (.cont lo hi)
    | .error e, _ => .error e
    | _, .error e => .error e

def domOf (lm : LinModel (Ext K)) (v : String) : Except String (Dom K) :=
  match lm.domain.find? (·.name == v) with
  | none => .error "variable-without-domain"
  | some d => tyDom d.ty

def relOf : Cmp → Except String Rel
  | .le => .ok .le
  | .ge => .ok .ge
  | .eq => .ok .eq
  | _ => .error "strict-row"

def rowOf (nvars : Nat) (r : LinRow (Ext K)) : Except String (Row K) :=
  match relOf r.cmp, listM extFin r.coeffs, extFin r.rhs with
  | .ok rel, .ok cs, .ok rhs =>
    if r.coeffs.length != nvars then .error "row-length" else .ok { coeffs := cs, rel := rel, rhs := rhs }
  | .error e, _, _ => .error e
  | _, .error e, _ => .error e
  | _, _, .error e => .error e

/-- the mixed-integer problem a `LinearModel` denotes (appendix A); an error where it denotes none (missing domain,
strict row, non-finite data, shape mismatch). -/
def ofLinModel (lm : LinModel (Ext K)) : Except String (Prob K) :=
  match listM (domOf lm) lm.vars, listM (rowOf lm.vars.length) lm.rows, listM extFin lm.objective, extFin lm.offset with
  | .ok doms, .ok rows, .ok obj, .ok off =>
    if lm.objective.length != lm.vars.length then .error "objective-length"
    else .ok { sense := lm.optType, obj := obj, offset := off, rows := rows, doms := doms }
  | .error e, _, _, _ => .error e
  | _, .error e, _, _ => .error e
  | _, _, .error e, _ => .error e
  | _, _, _, .error e => .error e

end OfLinModel

end Cert
end Rooc
