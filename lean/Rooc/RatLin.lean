/-
Exact rational linear algebra for the C13 / C14 oracles (NOT part of the model; an independent,
deliberately naive reference): Gaussian elimination, rank, enumeration of basic solutions, brute-force
solution of tiny standard-form LPs `min c·x, A x = b, x ≥ 0`.  Import-free.
-/
namespace Rooc
namespace RatLin

def dot : List Rat → List Rat → Rat
  | a :: as, x :: xs => a * x + dot as xs
  | _, _ => 0

def col (A : List (List Rat)) (j : Nat) : List Rat := A.map (·.getD j 0)
def pickCols (A : List (List Rat)) (S : List Nat) : List (List Rat) := A.map fun r => S.map (r.getD · 0)

/-- all `k`-element sublists (order kept). -/
def choose {β : Type} : Nat → List β → List (List β)
  | 0, _ => [[]]
  | _+1, [] => []
  | k+1, x :: xs => (choose k xs).map (x :: ·) ++ choose (k+1) xs

/-- one elimination pass on augmented rows (`coeffs ++ [rhs]`); returns the reduced rows with the pivot
rows first, and the list of pivot columns.  `ncols` = number of coefficient columns. -/
def eliminate (ncols : Nat) (rows : List (List Rat)) : List (List Rat) × List Nat :=
  let rec go (fuel : Nat) (k : Nat) (done todo : List (List Rat)) (piv : List Nat) : List (List Rat) × List Nat :=
    match fuel with
    | 0 => (done ++ todo, piv)
    | fuel+1 =>
      if k ≥ ncols then (done ++ todo, piv) else
      match todo.find? (fun r => r.getD k 0 != 0) with
      | none => go fuel (k+1) done todo piv
      | some p =>
        let pk := p.getD k 0
        let pn := p.map (· / pk)
        let elim (r : List Rat) : List Rat :=
          let f := r.getD k 0
          if f == 0 then r else List.zipWith (fun a b => a - f * b) r pn
        let rest := (todo.eraseP (fun r => r.getD k 0 != 0)).map elim
        go fuel (k+1) (done.map elim ++ [pn]) rest (piv ++ [k])
  go (ncols + 1) 0 [] rows []

def rank (A : List (List Rat)) : Nat :=
  let n := (A.map List.length).foldl max 0
  (eliminate n (A.map fun r => r ++ List.replicate (n - r.length) 0 ++ [0])).2.length

/-- unique solution of `A x = b` (`A` has `n` columns); `none` if inconsistent or not unique. -/
def solveUnique (n : Nat) (A : List (List Rat)) (b : List Rat) : Option (List Rat) :=
  let aug := List.zipWith (fun r bi => (r ++ List.replicate (n - r.length) 0).take n ++ [bi]) A b
  let (rows, piv) := eliminate n aug
  if piv.length != n then none
  else if (rows.drop n).any (fun r => r.getD n 0 != 0) then none
  else some ((rows.take n).map (·.getD n 0))

/-- is `A x = b` consistent at all? -/
def consistent (n : Nat) (A : List (List Rat)) (b : List Rat) : Bool :=
  let aug := List.zipWith (fun r bi => (r ++ List.replicate (n - r.length) 0).take n ++ [bi]) A b
  let (rows, piv) := eliminate n aug
  !((rows.drop piv.length).any (fun r => r.getD n 0 != 0))

/-- scatter the values `xs` of the columns `S` into a vector of length `n` (zero elsewhere). -/
def scatter (n : Nat) (S : List Nat) (xs : List Rat) : List Rat :=
  (List.range n).map fun j =>
    match (S.zip xs).find? (·.1 == j) with
    | some p => p.2
    | none => 0

/-- all basic solutions of `A x = b` (`n` columns): for every set `S` of `rank A` columns that is
linearly independent, the unique solution supported on `S`.  Every vertex of `{A x = b, x ≥ 0}` is among
the non-negative ones. -/
def basicSolutions (n : Nat) (A : List (List Rat)) (b : List Rat) : List (List Nat × List Rat) :=
  let r := rank A
  (choose r (List.range n)).filterMap fun S =>
    match solveUnique r (pickCols A S) b with
    | some xs => some (S, scatter n S xs)
    | none => none

def vertices (n : Nat) (A : List (List Rat)) (b : List Rat) : List (List Nat × List Rat) :=
  (basicSolutions n A b).filter fun p => p.2.all (· ≥ 0)

inductive Verdict
  | infeasible
  | unbounded
  | optimal (v : Rat) (x : List Rat)
  deriving Repr

def minBy (f : List Rat → Rat) : List (List Rat) → Option (List Rat)
  | [] => none
  | x :: xs => some (xs.foldl (fun best y => if f y < f best then y else best) x)

/-- exact verdict for `min c·x, A x = b, x ≥ 0` by vertex enumeration (tiny instances only). -/
def bruteForce (n : Nat) (A : List (List Rat)) (b c : List Rat) : Verdict :=
  match minBy (dot c) ((vertices n A b).map (·.2)) with
  | none => .infeasible
  | some x =>
    -- recession cone `{A d = 0, d ≥ 0}` normalised by `Σ d = 1`: a polytope, so vertices decide
    let A' := A.map (fun r => (r ++ List.replicate (n - r.length) 0).take n) ++ [List.replicate n 1]
    let b' := A.map (fun _ => (0 : Rat)) ++ [1]
    match minBy (dot c) ((vertices n A' b').map (·.2)) with
    | some d => if dot c d < 0 then .unbounded else .optimal (dot c x) x
    | none => .optimal (dot c x) x

end RatLin
end Rooc
