/-
Semantics of source models and linear models (DESIGN.md appendix A): `srcFeasible`, `linFeasible`,
objective values.  Bool-valued and import-free: they run at `K = Rat` inside the oracles and are the
notions the theorems of C01/C02/C08/C13 are stated with (`= true`).
-/
import Rooc.Sem
import Rooc.Model
namespace Rooc
namespace Sem
variable {K : Type} [ExactField K]
open ExactField

def cmpK (c : Cmp) (a b : K) : Bool :=
  match c with
  | .le => le a b | .ge => le b a | .eq => ExactField.eq a b | .lt => lt a b | .gt => lt b a

/-- `x ≤ b` for an extended bound `b` (a NaN bound admits nothing). -/
def leExt (x : K) : Ext K → Bool
  | .pinf => true | .ninf => false | .nan => false | .fin b => le x b
def geExt (x : K) : Ext K → Bool
  | .ninf => true | .pinf => false | .nan => false | .fin b => le b x

def isIntK (x : K) : Bool := ExactField.eq (ofInt (floor x)) x

def inDomain (x : K) : VarType (Ext K) → Bool
  | .bool => ExactField.eq x kzero || ExactField.eq x kone
  | .int lo hi => isIntK x && le (ofInt lo) x && le x (ofInt hi)
  | .real lo hi => geExt x lo && leExt x hi
  | .nnreal lo hi => geExt x lo && leExt x hi

/-- a constraint holds at ρ (undefined sides make it fail). -/
def constraintHolds (ρ : String → K) (c : Constraint (Ext K)) : Bool :=
  if c.isAssert then
    match eval ρ c.lhs with
    | some v => ExactField.eq v kone
    | none => false
  else
    match eval ρ c.lhs, eval ρ c.rhs with
    | some a, some b => cmpK c.cmp a b
    | _, _ => false

/-- every constraint holds and every declared variable WITH A USAGE MARK is in its domain. -/
def srcFeasible (m : Model (Ext K)) (ρ : String → K) : Bool :=
  m.constraints.all (constraintHolds ρ) &&
    m.domain.all fun d => d.usage == 0 || inDomain (ρ d.name) d.ty

def dotK (ρ : String → K) : List (Ext K) → List String → Option K
  | [], _ => some kzero
  | _ :: _, [] => none
  | c :: cs, v :: vs =>
    match c, dotK ρ cs vs with
    | .fin k, some r => some (add (mul k (ρ v)) r)
    | _, _ => none

def rowHolds (ρ : String → K) (vars : List String) (r : LinRow (Ext K)) : Bool :=
  match dotK ρ r.coeffs vars, r.rhs with
  | some l, .fin b => cmpK r.cmp l b
  | _, _ => false

def linFeasible (lm : LinModel (Ext K)) (ρ : String → K) : Bool :=
  lm.rows.all (rowHolds ρ lm.vars) && lm.domain.all fun d => inDomain (ρ d.name) d.ty

def linObjective (lm : LinModel (Ext K)) (ρ : String → K) : Option K :=
  match dotK ρ lm.objective lm.vars, lm.offset with
  | some v, .fin o => some (add v o)
  | _, _ => none

end Sem
end Rooc
