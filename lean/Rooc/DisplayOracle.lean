/-
Exact oracle for C12: two linear models (the compiled one, and the one obtained by compiling its
own rendering again) are compared canonically — same sense, same variables and domains, same
objective and offset, same rows up to row order; numbers within 1e-9 relative (exact rationals of the
doubles).  A mismatch is classified by root cause where one of the known causes explains it.
Import-free.
-/
import Rooc.LpOracle
import Rooc.DisplayItems
namespace Rooc.DisplayOracle
open Rooc Sexp Rooc.LpOracle

def absQ (q : Rat) : Rat := if q < 0 then -q else q
def maxQ (a b : Rat) : Rat := if a < b then b else a

/-- equal up to 1e-9 relative; infinities only equal themselves; NaN equals nothing. -/
def close (x y : Ext Rat) : Bool :=
  match x, y with
  | .pinf, .pinf => true
  | .ninf, .ninf => true
  | .fin a, .fin b => decide (absQ (a - b) ≤ (1 / 1000000000 : Rat) * maxQ (absQ a) (absQ b))
  | _, _ => false

abbrev LM := LinModel (Ext Rat)

def toRat (lm : LinModel Bits) : LM :=
  let ty : VarType Bits → VarType (Ext Rat)
    | .bool => .bool
    | .int a b => .int a b
    | .nnreal a b => .nnreal a.val b.val
    | .real a b => .real a.val b.val
  { optType := lm.optType, objective := lm.objective.map (·.val), offset := lm.offset.val, vars := lm.vars,
    domain := lm.domain.map fun d => { name := d.name, ty := ty d.ty, usage := d.usage },
    rows := lm.rows.map fun r => { name := r.name, coeffs := r.coeffs.map (·.val), cmp := r.cmp, rhs := r.rhs.val } }

def isZeroQ : Ext Rat → Bool | .fin q => q == 0 | _ => false

/-- non-zero terms by variable name -/
def terms (cs : List (Ext Rat)) (vs : List String) : List (String × Ext Rat) :=
  (vs.zip cs).filter fun p => !isZeroQ p.2

def sameTermsQ (a b : List (String × Ext Rat)) : Bool :=
  a.length == b.length && a.all fun (v, c) => match b.find? (fun p => p.1 == v) with
    | some (_, c') => close c c'
    | none => false

def sameRow (va vb : List String) (ra rb : LinRow (Ext Rat)) : Bool :=
  ra.name == rb.name && ra.cmp == rb.cmp && close ra.rhs rb.rhs && sameTermsQ (terms ra.coeffs va) (terms rb.coeffs vb)

/-- remove the first element satisfying `p` -/
def removeFirst {β : Type} (p : β → Bool) : List β → Option (List β)
  | [] => none
  | x :: xs => if p x then some xs else (removeFirst p xs).map (x :: ·)

/-- rows equal as multisets -/
def sameRows (va vb : List String) : List (LinRow (Ext Rat)) → List (LinRow (Ext Rat)) → Bool
  | [], rb => rb.isEmpty
  | r :: ra, rb => match removeFirst (sameRow va vb r) rb with
    | none => false
    | some rb' => sameRows va vb ra rb'

def sameType : VarType (Ext Rat) → VarType (Ext Rat) → Bool
  | .bool, .bool => true
  | .int a b, .int c d => a == c && b == d
  | .nnreal a b, .nnreal c d => (close a c || (isZeroQ a && isZeroQ c)) && close b d
  | .real a b, .real c d => (close a c || (isZeroQ a && isZeroQ c)) && (close b d || (isZeroQ b && isZeroQ d))
  | _, _ => false

/-- variables that occur with a non-zero coefficient somewhere -/
def usedVars (lm : LM) : List String :=
  lm.vars.zipIdx.filterMap fun (v, i) =>
    if !isZeroQ (lm.objective.getD i (.fin 0)) || lm.rows.any (fun r => !isZeroQ (r.coeffs.getD i (.fin 0))) then some v else none

inductive DomMode | strict | subset | ignore
  deriving DecidableEq

def leE (x y : Ext Rat) : Bool := Arith.le x y || close x y

/-- the range of `b` lies inside the range of `a` and the kinds agree -/
def insideType : VarType (Ext Rat) → VarType (Ext Rat) → Bool
  | .bool, .bool => true
  | .int a b, .int c d => decide (a ≤ c) && decide (d ≤ b)
  | .nnreal a b, .nnreal c d => leE a c && leE d b
  | .real a b, .real c d => leE a c && leE d b
  | _, _ => false

def compare (mode : DomMode) (a b : LM) : Option String :=
  if a.optType != b.optType then some "sense-differs" else
  let ua := usedVars a
  let ub := usedVars b
  if !(ua.all ub.contains && ub.all ua.contains) then some "variables-differ" else
  if !sameTermsQ (terms a.objective a.vars) (terms b.objective b.vars) then some "objective-differs" else
  if !(close a.offset b.offset) then some "offset-differs" else
  if a.rows.length != b.rows.length then some "row-count-differs" else
  if !sameRows a.vars b.vars a.rows b.rows then some "rows-differ" else
  let domBad := ua.any fun v =>
    match a.domain.find? (·.name == v), b.domain.find? (·.name == v) with
    | some da, some db =>
      (match mode with
       | .strict => !sameType da.ty db.ty
       | .subset => !(sameType da.ty db.ty || insideType da.ty db.ty)
       | .ignore => false)
    | _, _ => true
  if domBad then some "domain-differs" else
  none

/-- what `format_var` does to the sign: a negative coefficient closer to zero than 1e-5 is shown
without its minus sign. -/
def signLost (c : Ext Rat) : Ext Rat :=
  match c with
  | .fin q => if q < 0 && decide (absQ q < (1 / 100000 : Rat)) then .fin (-q) else c
  | _ => c

def applySignLoss (a : LM) : LM :=
  { a with objective := a.objective.map signLost,
           rows := a.rows.map fun r => { r with coeffs := r.coeffs.map signLost } }

/-! ### folding away the rows that only restate or restrict one variable's range

The compiler emits helper rows such as `$iff_0 >= 0` (a Boolean), constant rows (`0 <= -6.8`) and
single-variable rows (`y <= 0`); compiling the rendering again drops the tautologies, rewrites
contradictions to `0 = 1`, turns `y <= 0` on a Boolean into `y = 0`, and folds such rows into the
variable's domain.  To tell these apart from a real difference both models are brought to a normal
form: constant and single-variable rows are removed and intersected with the domain ("effective
range"); an empty intersection or a false constant row sets the `infeasible` flag. -/

def rangeOfType : VarType (Ext Rat) → Ext Rat × Ext Rat
  | .bool => (.fin 0, .fin 1)
  | .int a b => (.fin a, .fin b)
  | .nnreal a b => (a, b)
  | .real a b => (a, b)

/-- 0 = continuous, 1 = Boolean, 2 = integer -/
def classOfType : VarType (Ext Rat) → Nat
  | .bool => 1 | .int _ _ => 2 | _ => 0

structure Folded where
  lm : LM                                              -- rows with at least two terms only
  ranges : List (String × Nat × Ext Rat × Ext Rat)     -- effective range of every declared variable
  infeasible : Bool

def maxE (a b : Ext Rat) : Ext Rat := if Arith.lt a b then b else a
def minE (a b : Ext Rat) : Ext Rat := if Arith.lt b a then b else a

/-- does a constant row `0 cmp rhs` hold? -/
def constRowHolds (cmp : Cmp) (rhs : Ext Rat) : Bool :=
  match cmp with
  | .le => Arith.le (.fin 0) rhs | .lt => Arith.lt (.fin 0) rhs
  | .ge => Arith.le rhs (.fin 0) | .gt => Arith.lt rhs (.fin 0)
  | .eq => Arith.eq rhs (.fin 0)

def fold (lm : LM) : Folded :=
  let init : List (String × Nat × Ext Rat × Ext Rat) :=
    lm.domain.map fun d => let (lo, hi) := rangeOfType d.ty; (d.name, classOfType d.ty, lo, hi)
  let step (st : List (LinRow (Ext Rat)) × List (String × Nat × Ext Rat × Ext Rat) × Bool) (r : LinRow (Ext Rat)) :=
    let (keep, ranges, bad) := st
    match terms r.coeffs lm.vars, r.rhs with
    | [], rhs => (keep, ranges, bad || !constRowHolds r.cmp rhs)
    | [(v, .fin c)], .fin rhs =>
      let q : Ext Rat := .fin (rhs / c)
      let upper : Bool := (r.cmp == .le || r.cmp == .lt) == decide (c > 0)   -- the row bounds `v` from above
      let isEq := r.cmp == .eq
      (keep, ranges.map (fun (n, k, lo, hi) =>
        if n == v then (n, k, (if isEq || !upper then maxE lo q else lo), (if isEq || upper then minE hi q else hi))
        else (n, k, lo, hi)), bad)
    | _, _ => (keep ++ [r], ranges, bad)
  let (keep, ranges, bad) := lm.rows.foldl step ([], init, false)
  -- integrality: round inwards
  let ranges := ranges.map fun (n, k, lo, hi) =>
    if k == 0 then (n, k, lo, hi) else (n, k, Arith.ceil lo, Arith.floor hi)
  let empty := ranges.any fun (_, _, lo, hi) => Arith.lt hi lo && !close hi lo
  { lm := { lm with rows := keep }, ranges := ranges, infeasible := bad || empty }

/-- sense, variables, objective, offset and the remaining rows agree -/
def coreEqual (a b : Folded) : Bool := (compare .ignore a.lm b.lm).isNone

inductive RangeRel | same | nested | other
  deriving DecidableEq

/-- relation between the effective ranges (variables unused on one side may be missing there). -/
def rangeRel (a b : Folded) : RangeRel :=
  let rel := a.ranges.map fun (n, k, lo, hi) =>
    match b.ranges.find? (fun (p : String × Nat × Ext Rat × Ext Rat) => p.1 == n) with
    | none => RangeRel.same
    | some (_, k', lo', hi') =>
      if k != k' then RangeRel.other
      else if (close lo lo' || (isZeroQ lo && isZeroQ lo')) && (close hi hi' || (isZeroQ hi && isZeroQ hi')) then RangeRel.same
      else if (leE lo lo' && leE hi' hi) || (leE lo' lo && leE hi hi') then RangeRel.nested
      else RangeRel.other
  if rel.any (· == .other) then .other else if rel.any (· == .nested) then .nested else .same

/-- `b`'s effective ranges lie inside `a`'s -/
def rangesInside (a b : Folded) : Bool :=
  a.ranges.all fun (n, k, lo, hi) =>
    match b.ranges.find? (fun (p : String × Nat × Ext Rat × Ext Rat) => p.1 == n) with
    | none => true
    | some (_, k', lo', hi') => k == k' && leE lo lo' && leE hi' hi

def viol (kind : String) (detail : List Sexp) : Sexp := app "violation" (.atom kind :: detail)

def hasNegZero (lm : LinModel Bits) : Bool :=
  let nz (b : Bits) : Bool := b.bits == 0x8000000000000000
  lm.domain.any fun d => match d.ty with
    | .nnreal a b => nz a || nz b
    | .real a b => nz a || nz b
    | _ => false

/-- The property on a compiled linear model `a` and the model `b` its rendering compiles to.
`api` : `a` was built through the public API and has not been through the compiler yet, so that the
first compilation tightens its domains and normalises its trivial rows is expected, not a finding. -/
def sameLin (api : Bool) (a0 b0 : LinModel Bits) (t1 t2 : String) : Sexp :=
  let a := toRat a0
  let b := toRat b0
  match compare .strict a b with
  | none =>
    if api || t1 == t2 then app "ok" []
    else if (a.vars.filter fun v => !(usedVars a).contains v).any (fun v => !b.vars.contains v) then
      viol "fixpoint-unused-variable-dropped" []
    else if hasNegZero a0 then viol "fixpoint-negative-zero-bound" []
    else if
            (a0.domain.zip b0.domain).any (fun (da, db) => Wire.enc (α := Bits) (match da.ty with | .nnreal x _ => x | .real x _ => x | _ => ⟨0⟩)
                 != Wire.enc (α := Bits) (match db.ty with | .nnreal x _ => x | .real x _ => x | _ => ⟨0⟩)
              || Wire.enc (α := Bits) (match da.ty with | .nnreal _ y => y | .real _ y => y | _ => ⟨0⟩)
                 != Wire.enc (α := Bits) (match db.ty with | .nnreal _ y => y | .real _ y => y | _ => ⟨0⟩)) then
      viol "derived-domain-differs-on-recompile" [.atom "display-not-fixpoint", .atom "within-1e-9"]
    else viol "display-not-fixpoint" []
  | some kind =>
    let fb := fold b
    -- feasibility agrees, or the second compilation's tighter domains expose an infeasibility
    let feasOk (f : Folded) : Bool := f.infeasible == fb.infeasible || fb.infeasible
    let rel (f : Folded) : RangeRel := if fb.infeasible then .same else rangeRel f fb
    let explained (f : Folded) : Bool :=
      coreEqual f fb && feasOk f && (if api then fb.infeasible || rangesInside f fb else rel f != .other)
    let fa := fold a
    if explained fa then
      if api then app "ok" [.atom "first-compilation-normalised"]
      else
        let rowsChanged := (compare .ignore a b).isSome
        match rel fa with
        | .same => if rowsChanged then viol "trivial-rows-renormalised" [.atom kind]
                   else viol "derived-domain-differs-on-recompile" [.atom kind, .atom "same-effective-range"]
        | _ => viol "derived-domain-differs-on-recompile"
                       (.atom kind :: (if rowsChanged then [.atom "and-trivial-rows-renormalised"] else []))
    else
      -- the sign of a tiny negative coefficient is not shown; domains derived from the changed rows
      -- are only comparable when `b` was compiled from exactly those rows (API case)
      let sa := applySignLoss a
      let fs := fold sa
      if (compare .ignore sa a).isSome && coreEqual fs fb && feasOk fs && (!api || fb.infeasible || rangesInside fs fb) then
        viol "sign-lost-below-display-tolerance" [.atom kind]
      else viol kind []

def modelExps (m : Model (Ext Rat)) : List (Exp (Ext Rat)) :=
  m.objective :: m.constraints.flatMap fun c => if c.isAssert then [c.lhs] else [c.lhs, c.rhs]

/-- The property on a compiled model `m`: `a` = linearize m, `b` = linearize (parse (display m)). -/
def sameLinModel (m : Model (Ext Rat)) (a b : LinModel Bits) : Sexp :=
  match sameLin false a b "" "" with
  | .list (.atom "violation" :: .atom kind :: rest) =>
    if kind == "trivial-rows-renormalised" || kind == "derived-domain-differs-on-recompile" then viol kind rest
    else if (modelExps m).any Display.logicUnderArith then viol "display-logic-operand-unparenthesised" [.atom kind]
    else if (modelExps m).any Display.subDivDefect then viol "display-drops-needed-parens" [.atom kind]
    else viol kind rest
  | r => r

end Rooc.DisplayOracle
