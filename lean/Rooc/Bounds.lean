/-
M3 — `Bounds` (port of packages/rooc/src/transformers/bounds.rs, the whole non-test part):
interval arithmetic with NaN-free infinite sums, `AffineForm`, `BoundsAnalyzer`
(`bounds_of`, `apply_to_domain`, the propagation work-list, `tighten_*`).
Import-free; polymorphic in the number type (`Float` for the bit-exact diff, `Ext K` for the proofs).

Conventions of the port
* `IndexMap<String, V>` = association list in insertion order (`AList`), `IndexSet<String>` = list
  without duplicates in insertion order (`insertSet`).
* `&mut self` functions return the new analyzer; `changed: &mut IndexSet` is threaded (`TState`).
* The work-list loop takes `max_steps - steps` as its fuel (`propagateLoop`).
* `suffixes[index + 1]` of `tighten_affine_form` is recomputed as the same right-nested sum
  (`suffixSum`) instead of being read from a table: same floating-point operations in the same order.
-/
import Rooc.Model
namespace Rooc
open Arith

/-! ### IndexMap / IndexSet as lists -/
namespace AList
variable {β : Type}
def get? : List (String × β) → String → Option β
  | [], _ => none
  | (k', v) :: r, k => if k' == k then some v else get? r k
/-- `IndexMap::insert`: replaces the value in place, or appends. -/
def insert : List (String × β) → String → β → List (String × β)
  | [], k, v => [(k, v)]
  | (k', v') :: r, k, v => if k' == k then (k', v) :: r else (k', v') :: insert r k v
/-- `IndexMap::shift_remove`. -/
def remove : List (String × β) → String → List (String × β)
  | [], _ => []
  | (k', v') :: r, k => if k' == k then r else (k', v') :: remove r k
end AList

/-- `IndexSet::insert`. -/
def insertSet (xs : List String) (x : String) : List String := if xs.contains x then xs else xs ++ [x]

/-! ### `Bounds` -/
structure Bounds (α : Type) where
  lower : α
  upper : α
  deriving Repr, Inhabited

namespace Bounds
variable {α : Type} [Arith α]

def unbounded : Bounds α := ⟨negInf, posInf⟩
def singleton (v : α) : Bounds α := ⟨v, v⟩
def zeroOne : Bounds α := ⟨zero, one⟩

def ofVarType : VarType α → Bounds α
  | .bool => ⟨zero, one⟩
  | .int lo hi => ⟨ofInt lo, ofInt hi⟩
  | .nnreal lo hi => ⟨lo, hi⟩
  | .real lo hi => ⟨lo, hi⟩

def intersection (a b : Bounds α) (tol : α) : Option (Bounds α) :=
  let lower := fmax a.lower b.lower
  let upper := fmin a.upper b.upper
  if le lower upper then some ⟨lower, upper⟩
  else if le (sub lower upper) tol then some a
  else none

def lowerSum (l r : α) : α :=
  let v := add l r
  if isNaN v then negInf else v
def upperSum (l r : α) : α :=
  let v := add l r
  if isNaN v then posInf else v

def add (a b : Bounds α) : Bounds α := ⟨lowerSum a.lower b.lower, upperSum a.upper b.upper⟩
def neg (a : Bounds α) : Bounds α := ⟨Arith.neg a.upper, Arith.neg a.lower⟩
def sub (a b : Bounds α) : Bounds α := a.add b.neg

def scale (a : Bounds α) (c : α) : Bounds α :=
  if Arith.eq c zero then singleton zero
  else if Arith.gt c zero then ⟨mul a.lower c, mul a.upper c⟩
  else ⟨mul a.upper c, mul a.lower c⟩

/-- `div_by` (fix 6650688): the endpoints are divided; scaling by `1.0 / d` overflowed for a subnormal `d`. -/
def divBy (a : Bounds α) (d : α) : Bounds α :=
  if Arith.eq d zero then unbounded
  else if Arith.gt d zero then ⟨div a.lower d, div a.upper d⟩
  else ⟨div a.upper d, div a.lower d⟩

def abs (a : Bounds α) : Bounds α :=
  if ge a.lower zero then a
  else if le a.upper zero then a.neg
  else ⟨zero, fmax (Arith.neg a.lower) a.upper⟩

/-- the fold step of `bounds_of(Min)`. -/
def minStep (cur nxt : Bounds α) : Bounds α := ⟨fmin cur.lower nxt.lower, fmin cur.upper nxt.upper⟩
/-- the fold step of `bounds_of(Max)`. -/
def maxStep (cur nxt : Bounds α) : Bounds α := ⟨fmax cur.lower nxt.lower, fmax cur.upper nxt.upper⟩

def required : Cmp → Bounds α
  | .le | .lt => ⟨negInf, zero⟩
  | .ge | .gt => ⟨zero, posInf⟩
  | .eq => singleton zero
end Bounds

/-! ### `AffineForm` -/
structure AffineForm (α : Type) where
  coefficients : List (String × α)
  constant : α
  deriving Repr, Inhabited

/-- `if let Exp::Number(v) = e`. -/
def Exp.asNum {α : Type} : Exp α → Option α
  | .num v => some v
  | _ => none

namespace AffineForm
variable {α : Type} [Arith α]

/-- the `for` loop of `merge`. -/
def mergeCoeffs (self : List (String × α)) : List (String × α) → α → List (String × α)
  | [], _ => self
  | (name, c) :: rest, m =>
    let c' := add ((AList.get? self name).getD zero) (mul c m)
    let self' := if Arith.eq c' zero then AList.remove self name else AList.insert self name c'
    mergeCoeffs self' rest m

def merge (self other : AffineForm α) (m : α) : AffineForm α :=
  { coefficients := mergeCoeffs self.coefficients other.coefficients m
    constant := add self.constant (mul other.constant m) }

/-- `retain(|_, value| { *value *= coefficient; *value != 0.0 })`. -/
def scaleCoeffs : List (String × α) → α → List (String × α)
  | [], _ => []
  | (name, v) :: rest, c =>
    let v' := mul v c
    if Arith.ne v' zero then (name, v') :: scaleCoeffs rest c else scaleCoeffs rest c

def scale (self : AffineForm α) (c : α) : AffineForm α :=
  { coefficients := scaleCoeffs self.coefficients c, constant := mul self.constant c }

def fromExp : Exp α → Option (AffineForm α)
  | .num v => some { coefficients := [], constant := v }
  | .var name => some { coefficients := [(name, one)], constant := zero }
  | .bin .add l r =>
    match fromExp l with
    | none => none
    | some fl => match fromExp r with
      | none => none
      | some fr => some (fl.merge fr one)
  | .bin .sub l r =>
    match fromExp l with
    | none => none
    | some fl => match fromExp r with
      | none => none
      | some fr => some (fl.merge fr (Arith.neg one))
  | .bin .mul l r =>
    match l.asNum with
    | some c => (fromExp r).map (·.scale c)
    | none => match r.asNum with
      | some c => (fromExp l).map (·.scale c)
      | none => none
  | .bin .div l r =>
    match r.asNum with
    | some d => if Arith.eq d zero then none else (fromExp l).map (·.scale (div one d))
    | none => none
  | .bin _ _ _ => none
  | .un .neg e => (fromExp e).map (·.scale (Arith.neg one))
  | .un .not _ => none
  | _ => none

/-- `from_constraint`; since fix 48f25ce a form whose constant or some coefficient is not finite is rejected
(an overflowed coefficient cannot be divided back: `1.0 / inf == 0.0` pinned the variable to `[0, 0]`). -/
def fromConstraint (c : Constraint α) : Option (AffineForm α) :=
  match fromExp c.lhs with
  | none => none
  | some fl => match fromExp c.rhs with
    | none => none
    | some fr =>
      let f := fl.merge fr (Arith.neg one)
      if !(isFinite f.constant) || f.coefficients.any (fun p => !(isFinite p.2)) then none else some f
end AffineForm

/-! ### `collect_variables` -/
mutual
def collectVariables {α : Type} : Exp α → List String → List String
  | .num _, acc => acc
  | .var name, acc => insertSet acc name
  | .abs e, acc | .not e, acc | .un _ e, acc => collectVariables e acc
  | .min es, acc | .max es, acc | .and es, acc | .or es, acc => collectVariablesList es acc
  | .xor a b, acc | .implies a b, acc | .iff a b, acc | .bin _ a b, acc =>
    collectVariables b (collectVariables a acc)
def collectVariablesList {α : Type} : List (Exp α) → List String → List String
  | [], acc => acc
  | e :: es, acc => collectVariablesList es (collectVariables e acc)
end

/-! ### `BoundsAnalyzer` -/
structure Analyzer (α : Type) where
  variableBounds : List (String × Bounds α)
  /-- names whose domain type is `Boolean`: a Boolean domain cannot carry a tightened range, so these
  keep `[0, 1]` (`tighten_variable` returns early). -/
  booleanVariables : List String
  tolerance : α
  reachedIterationLimit : Bool
  detectedInfeasible : Bool
  deriving Repr, Inhabited

/-- analyzer + the `changed: &mut IndexSet<String>` argument. -/
structure TState (α : Type) where
  an : Analyzer α
  changed : List String
  deriving Repr, Inhabited

namespace Analyzer
variable {α : Type} [Arith α]

def varBounds (vb : List (String × Bounds α)) (name : String) : Bounds α :=
  (AList.get? vb name).getD Bounds.unbounded

/-- `from_domain` (collect into an IndexMap) with the given tolerance. -/
def fromDomain (domain : List (DomVar α)) (tol : α) : Analyzer α :=
  { variableBounds := domain.foldl (fun m d => AList.insert m d.name (Bounds.ofVarType d.ty)) []
    booleanVariables := domain.foldl (fun s d => match d.ty with | .bool => insertSet s d.name | _ => s) []
    tolerance := tol, reachedIterationLimit := false, detectedInfeasible := false }

mutual
/-- `bounds_of`. -/
def boundsOf (vb : List (String × Bounds α)) : Exp α → Bounds α
  | .num v => Bounds.singleton v
  | .var name => varBounds vb name
  | .abs e => (boundsOf vb e).abs
  | .min es =>
    match boundsOfList vb es with
    | [] => Bounds.unbounded
    | first :: rest => rest.foldl Bounds.minStep first
  | .max es =>
    match boundsOfList vb es with
    | [] => Bounds.unbounded
    | first :: rest => rest.foldl Bounds.maxStep first
  | .and _ | .or _ | .not _ | .xor _ _ | .implies _ _ | .iff _ _ => Bounds.zeroOne
  | .bin .add l r => (boundsOf vb l).add (boundsOf vb r)
  | .bin .sub l r => (boundsOf vb l).sub (boundsOf vb r)
  | .bin .mul l r =>
    match l.asNum with
    | some v => (boundsOf vb r).scale v
    | none => match r.asNum with
      | some v => (boundsOf vb l).scale v
      | none => Bounds.unbounded
  | .bin .div l r =>
    match r.asNum with
    | some v => if Arith.ne v zero then (boundsOf vb l).divBy v else Bounds.unbounded
    | none => Bounds.unbounded
  | .bin _ _ _ => Bounds.zeroOne
  | .un .neg e => (boundsOf vb e).neg
  | .un .not _ => Bounds.zeroOne
def boundsOfList (vb : List (String × Bounds α)) : List (Exp α) → List (Bounds α)
  | [] => []
  | e :: es => boundsOf vb e :: boundsOfList vb es
end

/-- `insert_variable` (used by the linearizer when it declares an auxiliary variable). -/
def insertVariable (an : Analyzer α) (name : String) (ty : VarType α) : Analyzer α :=
  { an with
    booleanVariables := match ty with | .bool => insertSet an.booleanVariables name | _ => an.booleanVariables
    variableBounds := AList.insert an.variableBounds name (Bounds.ofVarType ty) }

def markInfeasible (an : Analyzer α) : Analyzer α := { an with detectedInfeasible := true }

/-- `tighten_variable`. -/
def tightenVariable (an : Analyzer α) (name : String) (candidate : Bounds α) : Analyzer α × Bool :=
  if an.booleanVariables.contains name then (an, false) else
  let current := varBounds an.variableBounds name
  match current.intersection candidate an.tolerance with
  | none => (an.markInfeasible, false)
  | some t =>
    let changed := Arith.gt t.lower (add current.lower an.tolerance)
                || Arith.lt t.upper (sub current.upper an.tolerance)
    if changed then ({ an with variableBounds := AList.insert an.variableBounds name t }, true)
    else (an, false)

/-- `if self.tighten_variable(name, b) { changed.insert(name) }`. -/
def tightenVar (s : TState α) (name : String) (candidate : Bounds α) : TState α :=
  let r := tightenVariable s.an name candidate
  if r.2 then ⟨r.1, insertSet s.changed name⟩ else ⟨r.1, s.changed⟩

mutual
/-- `tighten_expression`. -/
def tightenExpression (e : Exp α) (requested : Bounds α) (s : TState α) : TState α :=
  if s.an.detectedInfeasible then s else
  match (boundsOf s.an.variableBounds e).intersection requested s.an.tolerance with
  | none => ⟨s.an.markInfeasible, s.changed⟩
  | some required =>
    match e with
    | .num _ => s
    | .var name => tightenVar s name required
    | .abs inner =>
      if isFinite required.upper then
        tightenExpression inner ⟨Arith.neg required.upper, required.upper⟩ s
      else s
    | .min es =>
      if isFinite required.lower then tightenList es ⟨required.lower, posInf⟩ s else s
    | .max es =>
      if isFinite required.upper then tightenList es ⟨negInf, required.upper⟩ s else s
    | .and _ | .or _ | .not _ | .xor _ _ | .implies _ _ | .iff _ _ => s
    | .bin .add l r =>
      let lb := boundsOf s.an.variableBounds l
      let rb := boundsOf s.an.variableBounds r
      tightenExpression r (requested.sub lb) (tightenExpression l (requested.sub rb) s)
    | .bin .sub l r =>
      let lb := boundsOf s.an.variableBounds l
      let rb := boundsOf s.an.variableBounds r
      tightenExpression r (lb.sub requested) (tightenExpression l (requested.add rb) s)
    | .bin .mul l r =>
      match l.asNum with
      | some c => if Arith.ne c zero then tightenExpression r (requested.divBy c) s else s
      | none => match r.asNum with
        | some c => if Arith.ne c zero then tightenExpression l (requested.divBy c) s else s
        | none => s
    | .bin .div l r =>
      match r.asNum with
      | some d => if Arith.ne d zero then tightenExpression l (requested.scale d) s else s
      | none => s
    | .bin _ _ _ => s
    | .un .neg inner => tightenExpression inner requested.neg s
    | .un .not _ => s
/-- `for exp in exps { self.tighten_expression(exp, b, changed) }`. -/
def tightenList (es : List (Exp α)) (required : Bounds α) (s : TState α) : TState α :=
  match es with
  | [] => s
  | e :: rest => tightenList rest required (tightenExpression e required s)
end

/-- `tighten_constraint_expression`. -/
def tightenConstraintExpression (c : Constraint α) (required : Bounds α) (s : TState α) : TState α :=
  let lb := boundsOf s.an.variableBounds c.lhs
  let rb := boundsOf s.an.variableBounds c.rhs
  let current := lb.sub rb
  match current.intersection required s.an.tolerance with
  | none => ⟨s.an.markInfeasible, s.changed⟩
  | some _ =>
    -- fix 4e5bd4b: the reverse step uses the comparison's own interval, not its intersection with `lhs - rhs`
    tightenExpression c.rhs (lb.sub required) (tightenExpression c.lhs (required.add rb) s)

/-- `suffixes[i]` for the term list starting at `i`: `t_i + (t_{i+1} + (… + [0,0]))`. -/
def suffixSum : List (Bounds α) → Bounds α
  | [] => Bounds.singleton zero
  | t :: ts => t.add (suffixSum ts)

/-- the `for (index, (name, coefficient))` loop of `tighten_affine_form`; `pre = prefixes[index]`,
`terms = terms[index..]`. -/
def affineLoop (required : Bounds α) :
    List (String × α) → List (Bounds α) → Bounds α → TState α → TState α
  | (name, c) :: cs, t :: ts, pre, s =>
    let others := pre.add (suffixSum ts)
    let candidate := (required.sub others).divBy c
    let s' := tightenVar s name candidate
    if s'.an.detectedInfeasible then s' else affineLoop required cs ts (pre.add t) s'
  | _, _, _, s => s

/-- `tighten_affine_form` (returns the analyzer and the `changed` set). -/
def tightenAffineForm (an : Analyzer α) (form : AffineForm α) (cmp : Cmp) : TState α :=
  let required : Bounds α := Bounds.required cmp
  let terms := form.coefficients.map fun p => (varBounds an.variableBounds p.1).scale p.2
  let s := affineLoop required form.coefficients terms (Bounds.singleton form.constant) ⟨an, []⟩
  let current := terms.foldl Bounds.add (Bounds.singleton form.constant)
  match current.intersection required s.an.tolerance with
  | none => ⟨s.an.markInfeasible, s.changed⟩
  | some _ => s

/-! #### the work-list -/

/-- `dependencies.entry(name).or_default().push(index)`. -/
def depPush : List (String × List Nat) → String → Nat → List (String × List Nat)
  | [], k, i => [(k, [i])]
  | (k', v) :: r, k, i => if k' == k then (k', v ++ [i]) :: r else (k', v) :: depPush r k i

def constraintNames (c : Constraint α) (form : Option (AffineForm α)) : List String :=
  match form with
  | some f => f.coefficients.map (·.1)
  | none => collectVariables c.rhs (collectVariables c.lhs [])

def buildDeps : List (Constraint α) → List (Option (AffineForm α)) → Nat →
    List (String × List Nat) → List (String × List Nat)
  | c :: cs, f :: fs, index, deps =>
    buildDeps cs fs (index + 1) ((constraintNames c f).foldl (fun d name => depPush d name index) deps)
  | _, _, _, deps => deps

def setAt : List Bool → Nat → Bool → List Bool
  | [], _, _ => []
  | _ :: r, 0, v => v :: r
  | b :: r, n+1, v => b :: setAt r n v

/-- `for dependent in dependent_constraints { if !queued[d] { queue.push_back(d); queued[d] = true } }`. -/
def enqueueDeps : List Nat → List Nat × List Bool → List Nat × List Bool
  | [], q => q
  | d :: ds, (queue, queued) =>
    if !(queued.getD d true) then enqueueDeps ds (queue ++ [d], setAt queued d true)
    else enqueueDeps ds (queue, queued)

def enqueueChanged (deps : List (String × List Nat)) : List String → List Nat × List Bool → List Nat × List Bool
  | [], q => q
  | name :: rest, q =>
    match AList.get? deps name with
    | some ds => enqueueChanged deps rest (enqueueDeps ds q)
    | none => enqueueChanged deps rest q

/-- one constraint visit: the body of the `while` loop between `steps += 1` and the freeze test. -/
def stepConstraint (an : Analyzer α) (c : Constraint α) (form : Option (AffineForm α)) : TState α :=
  match form with
  | some f => tightenAffineForm an f c.cmp
  | none => tightenConstraintExpression c (Bounds.required c.cmp) ⟨an, []⟩

/-- `while let Some(index) = queue.pop_front()`; the fuel is `max_steps - steps`. -/
def propagateLoop (cs : List (Constraint α)) (forms : List (Option (AffineForm α)))
    (deps : List (String × List Nat)) : Nat → Analyzer α → List Nat → List Bool → Analyzer α
  | _, an, [], _ => an
  | 0, an, _ :: _, _ => { an with reachedIterationLimit := true }
  | fuel+1, an, index :: queue, queued =>
    let queued := setAt queued index false
    match cs[index]?, forms[index]? with
    | some c, some form =>
      let s := stepConstraint an c form
      if s.an.detectedInfeasible then s.an
      else
        let q := enqueueChanged deps s.changed (queue, queued)
        propagateLoop cs forms deps fuel s.an q.1 q.2
    | _, _ => propagateLoop cs forms deps fuel an queue queued

/-- `propagate_affine_constraints`. -/
def propagate (an : Analyzer α) (cs : List (Constraint α)) (maxSteps : Nat) : Analyzer α :=
  let forms := cs.map AffineForm.fromConstraint
  let deps := buildDeps cs forms 0 []
  propagateLoop cs forms deps maxSteps an (List.range cs.length) (cs.map fun _ => true)

/-- `analyze_with_options`. -/
def analyze (domain : List (DomVar α)) (cs : List (Constraint α)) (tol : α) (maxSteps : Nat) : Analyzer α :=
  (fromDomain domain tol).propagate cs maxSteps

/-- the `any` of `enforceable`: an `IntegerRange` variable whose inferred range holds no integer (after the
tolerant rounding `apply_to_domain` uses). -/
def emptyIntegerRange (an : Analyzer α) (domain : List (DomVar α)) : Bool :=
  domain.any fun d =>
    match d.ty with
    | .int _ _ =>
      match AList.get? an.variableBounds d.name with
      | some b => Arith.gt (ceil (sub b.lower an.tolerance)) (floor (add b.upper an.tolerance))
      | none => false
    | _ => false

/-- the body of the `for` loop of `enforceable` (fix b9d407a): the stored bounds of an `IntegerRange` variable
become the tolerantly rounded ones, i.e. the range `apply_to_domain` publishes (`get_mut`: the entry keeps its
position). -/
def roundStep (a : Analyzer α) (d : DomVar α) : Analyzer α :=
  match d.ty with
  | .int _ _ =>
    match AList.get? a.variableBounds d.name with
    | some b =>
      let rounded : Bounds α := ⟨ceil (sub b.lower a.tolerance), floor (add b.upper a.tolerance)⟩
      { a with variableBounds := AList.insert a.variableBounds d.name rounded }
    | none => a
  | _ => a

def roundIntegerRanges (an : Analyzer α) (domain : List (DomVar α)) : Analyzer α :=
  domain.foldl roundStep an

/-- `enforceable` (fixes cce0e38, b9d407a): when the analysis proved the model infeasible — a contradiction froze
it, or an integer variable is left without an integral point — the inferred ranges are dropped (the declared
domains are kept by `apply_to_domain`, so nothing would enforce them) and the declared ones are used; otherwise
integer ranges are rounded to what `apply_to_domain` publishes, so that pruning and big-M constants use the
range that is actually enforced. -/
def enforceable (an : Analyzer α) (domain : List (DomVar α)) : Analyzer α :=
  if an.detectedInfeasible || an.emptyIntegerRange domain then
    { fromDomain domain an.tolerance with
      detectedInfeasible := an.detectedInfeasible, reachedIterationLimit := an.reachedIterationLimit }
  else an.roundIntegerRanges domain

/-- the per-variable body of `apply_to_domain`. -/
def applyToVar (an : Analyzer α) (d : DomVar α) : DomVar α :=
  match AList.get? an.variableBounds d.name with
  | none => d
  | some b =>
    match d.ty with
    | .bool => d
    | .int _ _ =>
      let lower := ceil (sub b.lower an.tolerance)
      let upper := floor (add b.upper an.tolerance)
      if Arith.gt lower upper then d
      else { d with ty := .int (toI32 lower) (toI32 upper) }
    | .nnreal _ _ =>
      -- `bounds.lower.max(0.0)`: with the constant right operand rustc/LLVM emit `lower > 0.0 ? lower : 0.0`
      -- (a NaN or a zero of either sign gives `+0.0`), which is `f64::max` up to the sign of zero
      { d with ty := .nnreal (if Arith.gt b.lower zero then b.lower else zero) b.upper }
    | .real _ _ => { d with ty := .real b.lower b.upper }

/-- `apply_to_domain`. -/
def applyToDomain (an : Analyzer α) (domain : List (DomVar α)) : List (DomVar α) :=
  domain.map an.applyToVar

end Analyzer

/-- what `rooc::verif_hooks::analyze_bounds` returns. -/
structure BoundsReport (α : Type) where
  variables : List (String × Bounds α)
  expressions : List (Bounds α)
  domain : List (DomVar α)

def analyzeBounds {α : Type} [Arith α] (domain : List (DomVar α)) (cs : List (Constraint α))
    (exprs : List (Exp α)) (tol : α) (maxSteps : Nat) : BoundsReport α :=
  let an := Analyzer.analyze domain cs tol maxSteps
  { variables := domain.map fun d => (d.name, Analyzer.boundsOf an.variableBounds (.var d.name))
    expressions := exprs.map (Analyzer.boundsOf an.variableBounds)
    domain := an.applyToDomain domain }

/-- what `rooc::verif_hooks::linearizer_bounds` returns, given the constraints as `normalized_for_bounds`
prepared them: `analyze(..).enforceable(&domain)`, then `apply_to_domain` — exactly what `Linearizer::linearize` uses. -/
def linearizerBounds {α : Type} [Arith α] (domain : List (DomVar α)) (normalized : List (Constraint α))
    (tol : α) (maxSteps : Nat) : BoundsReport α :=
  let an := (Analyzer.analyze domain normalized tol maxSteps).enforceable domain
  { variables := domain.map fun d => (d.name, Analyzer.boundsOf an.variableBounds (.var d.name))
    expressions := []
    domain := an.applyToDomain domain }

end Rooc
