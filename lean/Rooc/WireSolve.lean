/- Protocol encoding of solver outcomes and wrapper results (used by C04, C05, C15, C20). Import-free.

```
val      ::= (real N) | (int I) | (bool true|false)
solution ::= (ok (status optimal|feasible|infeasible|unbounded) (value N) (assign (NAME val)*)
                 (byname (NAME val|none)*) (rows (NAME N)*) (duals (NAME N)*))
result   ::= solution | (err VARIANT) | (panic) | (hang)
mlp      ::= (mok optimal|feasible|interrupted N (N*)) | (merr VARIANT) | (mhang) | (mpanic)
clarabel ::= (cok STATUS (N*) ((NAME N)*)) | (cerr VARIANT) | (chang) | (cpanic)
```
-/
import Rooc.SolverWrap
import Rooc.WireModel
namespace Rooc
namespace SolverWrap
open Sexp
variable {α : Type} [Wire α]

def Val.enc : Val α → Sexp
  | .real v => app "real" [encNum v]
  | .int i => app "int" [encInt i]
  | .bool b => app "bool" [.atom (if b then "true" else "false")]
def Val.dec : Sexp → Option (Val α)
  | .list [.atom "real", v] => (decNumS v).map .real
  | .list [.atom "int", i] => (decInt i).map .int
  | .list [.atom "bool", .atom "true"] => some (.bool true)
  | .list [.atom "bool", .atom "false"] => some (.bool false)
  | _ => none

def Status.name : Status → String
  | .optimal => "optimal" | .feasible => "feasible" | .infeasible => "infeasible" | .unbounded => "unbounded"
def Status.ofName : String → Option Status
  | "optimal" => some .optimal | "feasible" => some .feasible | "infeasible" => some .infeasible
  | "unbounded" => some .unbounded | _ => none

def encPairs (l : List (String × α)) : List Sexp := l.map fun (n, v) => .list [.str n, encNum v]
def decPairs (l : List Sexp) : Option (List (String × α)) :=
  optAll (l.map fun | .list [.str n, v] => (decNumS v).map (n, ·) | _ => none)

/-- `names` = `LinearModel::variables()`: the `byname` section is `value_of(name)` for each of them. -/
def Solution.enc [Arith α] (names : List String) (s : Solution α) : Sexp :=
  app "ok" [app "status" [.atom s.status.name], app "value" [encNum s.value],
    app "assign" (s.assignment.map fun (n, v) => .list [.str n, v.enc]),
    app "byname" (names.map fun n => .list [.str n, match s.valueOf n with | some v => v.enc | none => .atom "none"]),
    app "rows" (encPairs s.constraints), app "duals" (encPairs s.shadow)]

def Res.enc [Arith α] (names : List String) : Res α → Sexp
  | .ok s => s.enc names
  | .err v => app "err" [.atom v]
  | .panic => app "panic" []

/-- what the implementation answered (decoded for the oracles). -/
inductive ImplRes (α : Type) where
  | ok (s : Solution α) (byname : List (String × Option (Val α)))
  | err (variant : String)
  | panic
  | hang
  deriving Inhabited

def ImplRes.dec : Sexp → Option (ImplRes α)
  | .list [.atom "ok", .list [.atom "status", .atom st], .list [.atom "value", v], .list (.atom "assign" :: as),
           .list (.atom "byname" :: bs), .list (.atom "rows" :: rs), .list (.atom "duals" :: ds)] => do
    let assignment ← optAll (as.map fun | .list [.str n, v] => (Val.dec v).map (n, ·) | _ => none)
    let byname ← optAll (bs.map fun
      | .list [.str n, .atom "none"] => some (n, none)
      | .list [.str n, v] => (Val.dec v).map (fun x => (n, some x))
      | _ => none)
    pure (.ok { status := ← Status.ofName st, value := ← decNumS v, assignment := assignment,
                constraints := ← decPairs rs, shadow := ← decPairs ds } byname)
  | .list (.atom "err" :: .atom v :: _) => some (.err v)
  | .list [.atom "panic"] => some .panic
  | .list [.atom "hang"] => some .hang
  | _ => none

def MlpStatus.ofName : String → Option MlpStatus
  | "optimal" => some .optimal | "feasible" => some .feasible | "interrupted" => some .interrupted | _ => none

def MlpOutcome.dec : Sexp → Option (MlpOutcome α)
  | .list [.atom "mok", .atom st, obj, .list vs] => do
    pure (.ok (← MlpStatus.ofName st) (← decNumS obj) (← optAll (vs.map decNumS)))
  | .list [.atom "merr", .atom v] => some (.err v)
  | _ => none

def ClarabelOutcome.dec : Sexp → Option (ClarabelOutcome α)
  | .list [.atom "cok", .atom st, .list xs, .list ds] => do
    pure (.ok st (← optAll (xs.map decNumS)) (← decPairs ds))
  | .list [.atom "cerr", .atom v] => some (.err v)
  | _ => none

end SolverWrap
end Rooc
