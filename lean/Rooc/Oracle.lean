/- Exact-arithmetic helpers for the failing-input searches (run at `Ext Rat`). Import-free. -/
import Rooc.Sem
import Rooc.Wire
namespace Rooc
namespace Oracle
open Sem

partial def vars {α : Type} : Exp α → List String
  | .num _ => []
  | .var s => [s]
  | .abs e | .not e | .un _ e => vars e
  | .min es | .max es | .and es | .or es => es.flatMap vars
  | .xor a b | .implies a b | .iff a b | .bin _ a b => vars a ++ vars b

def dedup (xs : List String) : List String :=
  xs.foldl (fun acc x => if acc.contains x then acc else acc ++ [x]) []

/-- all assignments of `vs` over `vals` (as association lists). -/
def assignments (vals : List Rat) : List String → List (List (String × Rat))
  | [] => [[]]
  | v :: vs => (assignments vals vs).flatMap fun rest => vals.map fun x => (v, x) :: rest

def lookup (a : List (String × Rat)) (s : String) : Rat :=
  match a.find? (·.1 == s) with
  | some p => p.2
  | none => 0

def encAssign (a : List (String × Rat)) : Sexp :=
  .list (a.map fun (s, v) => .list [.str s, .atom (Wire.enc (Ext.fin v : Ext Rat))])

def encOptRat : Option Rat → Sexp
  | none => .atom "undef"
  | some v => .atom (Wire.enc (Ext.fin v : Ext Rat))

def smallVals : List Rat := [0, 1, -1, 2, -2, 1/2]

/-- constant value of a closed term (none if it mentions a variable or is undefined). -/
def constVal (e : Exp (Ext Rat)) : Option Rat :=
  if (vars e).isEmpty then eval (fun _ => 0) e else none

/-- "divisor is a non-zero constant", semantically: defined, equal and non-zero at every small assignment. -/
def constNonzero (b : Exp (Ext Rat)) : Bool :=
  let vs := (dedup (vars b)).take 4
  match (assignments smallVals vs).map (fun a => eval (lookup a) b) with
  | some k :: rest => k != 0 && rest.all (· == some k)
  | _ => false

/-- does the tree contain a division whose divisor is not a non-zero constant? -/
partial def hasBadDiv : Exp (Ext Rat) → Bool
  | .num _ | .var _ => false
  | .abs e | .not e | .un _ e => hasBadDiv e
  | .min es | .max es | .and es | .or es => es.any hasBadDiv
  | .xor a b | .implies a b | .iff a b => hasBadDiv a || hasBadDiv b
  | .bin .div a b =>
    hasBadDiv a || hasBadDiv b ||
      !(constNonzero b)
  | .bin _ a b => hasBadDiv a || hasBadDiv b

partial def hasNonFinite : Exp (Ext Rat) → Bool
  | .num (.fin _) => false
  | .num _ => true
  | .var _ => false
  | .abs e | .not e | .un _ e => hasNonFinite e
  | .min es | .max es | .and es | .or es => es.any hasNonFinite
  | .xor a b | .implies a b | .iff a b | .bin _ a b => hasNonFinite a || hasNonFinite b

/-- value in {0,1} when defined. -/
def is01 : Option Rat → Bool
  | some v => v == 0 || v == 1
  | none => true

mutual
/-- hypothesis of `simplify_sound_partial`: every operand of an and/or node has a value in {0,1}.
Total (structural on the tree) so that `Rooc.Props.C10.logicOperands01_reflects` can relate it to the
Prop `LogicOperands01` the theorems use. -/
def logicOperands01 (ρ : String → Rat) : Exp (Ext Rat) → Bool
  | .num _ | .var _ => true
  | .abs e | .not e | .un _ e => logicOperands01 ρ e
  | .min es | .max es => logicOperands01All ρ es
  | .and es | .or es => logicOperands01Ops ρ es
  | .xor a b | .implies a b | .iff a b => logicOperands01 ρ a && logicOperands01 ρ b
  | .bin .and a b | .bin .or a b =>
    logicOperands01 ρ a && logicOperands01 ρ b && is01 (eval ρ a) && is01 (eval ρ b)
  | .bin _ a b => logicOperands01 ρ a && logicOperands01 ρ b
/-- `es.all (logicOperands01 ρ)` -/
def logicOperands01All (ρ : String → Rat) : List (Exp (Ext Rat)) → Bool
  | [] => true
  | e :: es => logicOperands01 ρ e && logicOperands01All ρ es
/-- `es.all fun o => logicOperands01 ρ o && is01 (eval ρ o)` -/
def logicOperands01Ops (ρ : String → Rat) : List (Exp (Ext Rat)) → Bool
  | [] => true
  | o :: es => (logicOperands01 ρ o && is01 (eval ρ o)) && logicOperands01Ops ρ es
end

/-- literal that absorbs its context: 0 under `*`/`and`, truthy under `or`. -/
def simplifiesTo (e : Exp (Ext Rat)) (p : Rat → Bool) : Bool :=
  match Exp.simplify e with
  | .num (.fin k) => p k
  | _ => false

/-- bad divisions that are NOT below an absorbing constant (`0 * _`, `0 and _`, `1 or _`). -/
partial def hasBadDivOutsideAbsorbing : Exp (Ext Rat) → Bool
  | .num _ | .var _ => false
  | .abs e | .not e | .un _ e => hasBadDivOutsideAbsorbing e
  | .min es | .max es => es.any hasBadDivOutsideAbsorbing
  | .and es => !(es.any (simplifiesTo · (· == 0))) && es.any hasBadDivOutsideAbsorbing
  | .or es => !(es.any (simplifiesTo · (· != 0))) && es.any hasBadDivOutsideAbsorbing
  | .xor a b | .implies a b | .iff a b => hasBadDivOutsideAbsorbing a || hasBadDivOutsideAbsorbing b
  | .bin .mul a b =>
    !(simplifiesTo a (· == 0) || simplifiesTo b (· == 0)) &&
      (hasBadDivOutsideAbsorbing a || hasBadDivOutsideAbsorbing b)
  | .bin .and a b =>
    !(simplifiesTo a (· == 0) || simplifiesTo b (· == 0)) &&
      (hasBadDivOutsideAbsorbing a || hasBadDivOutsideAbsorbing b)
  | .bin .or a b =>
    !(simplifiesTo a (· != 0) || simplifiesTo b (· != 0)) &&
      (hasBadDivOutsideAbsorbing a || hasBadDivOutsideAbsorbing b)
  | .bin .div a b => hasBadDivOutsideAbsorbing a || hasBadDivOutsideAbsorbing b || hasBadDiv (.bin .div (.num (.fin 0)) b) && !(hasBadDiv b)
  | .bin _ a b => hasBadDivOutsideAbsorbing a || hasBadDivOutsideAbsorbing b

/-- value preservation of a rewrite `e ↦ e'` on all small assignments.  Violations are classified by
whether they lie inside the region covered by the `_partial` theorems (kind `value` / `division-erased`)
or only outside it (kinds `value-nonbinary-logic-operand`, `division-erased-under-absorbing-constant`). -/
def checkRewrite (e e' : Exp (Ext Rat)) : Sexp :=
  let vs := (dedup (vars e ++ vars e')).take 4
  let asg := assignments smallVals vs
  -- IEEE rounding / overflow are outside the exact-arithmetic statement: compare with a relative
  -- tolerance and skip cases in which folding overflowed to a non-finite literal
  let close (v w : Rat) : Bool :=
    let d := if v < w then w - v else v - w
    let m := max 1 (max (if v < 0 then -v else v) (if w < 0 then -w else w))
    d ≤ m / 1000000000
  let bad (a : List (String × Rat)) : Bool :=
    match eval (lookup a) e with
    | some v => (match eval (lookup a) e' with
      | some w => !(close v w)
      | none => true)
    | none => false
  let report (kind : String) (a : List (String × Rat)) : Sexp :=
    Sexp.app "violation" [.atom kind, encAssign a, encOptRat (eval (lookup a) e), encOptRat (eval (lookup a) e')]
  if hasNonFinite e' && !(hasNonFinite e) then Sexp.app "ok" [.atom "skipped-float-overflow"] else
  match asg.find? (fun a => logicOperands01 (lookup a) e && bad a) with
  | some a => report "value" a
  | none =>
    if hasBadDivOutsideAbsorbing e && !(hasBadDiv e') && !(hasNonFinite e) then Sexp.app "violation" [.atom "division-erased"]
    else match asg.find? bad with
    | some a => report "value-nonbinary-logic-operand" a
    | none =>
      if hasBadDiv e && !(hasBadDiv e') && !(hasNonFinite e) then Sexp.app "violation" [.atom "division-erased-under-absorbing-constant"]
      else Sexp.app "ok" [.atom (toString asg.length)]

end Oracle
end Rooc
