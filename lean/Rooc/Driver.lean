/- Line-protocol driver: `<PROP> <float|rat|oracle> <sexp...>` per line, one answer line each. -/
import Rooc.Drv.C01
import Rooc.Drv.C02
import Rooc.Drv.C03
import Rooc.Drv.C04
import Rooc.Drv.C05
import Rooc.Drv.C06
import Rooc.Drv.C07
import Rooc.Drv.C08
import Rooc.Drv.C09
import Rooc.Drv.C10
import Rooc.Drv.C11
import Rooc.Drv.C12
import Rooc.Drv.C13
import Rooc.Drv.C14
import Rooc.Drv.C15
import Rooc.Drv.C16
import Rooc.Drv.C17
import Rooc.Drv.C18
import Rooc.Drv.C19
import Rooc.Drv.C20
namespace Rooc
open Sexp

def dispatch (prop : String) (α : Type) [Arith α] [Wire α] (args : List Sexp) : Sexp :=
  match prop with
  | "C01" => Drv.C01.handle α args
  | "C02" => Drv.C02.handle α args
  | "C03" => Drv.C03.handle α args
  | "C04" => Drv.C04.handle α args
  | "C05" => Drv.C05.handle α args
  | "C06" => Drv.C06.handle α args
  | "C07" => Drv.C07.handle α args
  | "C08" => Drv.C08.handle α args
  | "C09" => Drv.C09.handle α args
  | "C10" => Drv.C10.handle α args
  | "C11" => Drv.C11.handle α args
  | "C12" => Drv.C12.handle α args
  | "C13" => Drv.C13.handle α args
  | "C14" => Drv.C14.handle α args
  | "C15" => Drv.C15.handle α args
  | "C16" => Drv.C16.handle α args
  | "C17" => Drv.C17.handle α args
  | "C18" => Drv.C18.handle α args
  | "C19" => Drv.C19.handle α args
  | "C20" => Drv.C20.handle α args
  | _ => app "err" [.atom "unknown-property"]

def oracle (prop : String) (args : List Sexp) : Sexp :=
  match prop with
  | "C01" => Drv.C01.oracle args
  | "C02" => Drv.C02.oracle args
  | "C03" => Drv.C03.oracle args
  | "C04" => Drv.C04.oracle args
  | "C05" => Drv.C05.oracle args
  | "C06" => Drv.C06.oracle args
  | "C07" => Drv.C07.oracle args
  | "C08" => Drv.C08.oracle args
  | "C09" => Drv.C09.oracle args
  | "C10" => Drv.C10.oracle args
  | "C11" => Drv.C11.oracle args
  | "C12" => Drv.C12.oracle args
  | "C13" => Drv.C13.oracle args
  | "C14" => Drv.C14.oracle args
  | "C15" => Drv.C15.oracle args
  | "C16" => Drv.C16.oracle args
  | "C17" => Drv.C17.oracle args
  | "C18" => Drv.C18.oracle args
  | "C19" => Drv.C19.oracle args
  | "C20" => Drv.C20.oracle args
  | _ => app "err" [.atom "unknown-property"]

def answer (line : String) : String :=
  match Sexp.parse ("(" ++ line ++ ")") with
  | some (.list (.atom prop :: .atom "float" :: args)) => toString (dispatch prop Float args)
  | some (.list (.atom prop :: .atom "rat" :: args)) => toString (dispatch prop (Ext Rat) args)
  | some (.list (.atom prop :: .atom "oracle" :: args)) => toString (oracle prop args)
  | _ => "(err bad-line)"

partial def loop (h : IO.FS.Stream) (out : IO.FS.Stream) : IO Unit := do
  let line ← h.getLine
  if line.isEmpty then return ()
  out.putStrLn (answer line)
  loop h out

def driverMain : IO Unit := do
  let out ← IO.getStdout
  loop (← IO.getStdin) out
  out.flush
end Rooc
