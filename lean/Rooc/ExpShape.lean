/-
The decidable region in which `Exp::simplify` may change a value (C10's remaining known finding,
`C10-nary-singleton-nonbinary`): port of the harness predicate `collapses_nonbinary`
(harness/src/props/c01.rs).  Import-free: used by the exact oracle (`OracleC10`) and by the theorems
(`Rooc.Props.C10.simplify_eval_eq`) alike.
-/
import Rooc.Exp
namespace Rooc
namespace Exp
variable {α : Type} [Arith α]

/-- the shapes the harness accepts as result of an and/or node:
`And | Or | Number | Not | Xor | Implies | Iff`, and a variable `x` with `B x` (the harness passes
"x is declared Boolean"; `B := fun _ => false` is the domain-independent predicate). -/
def logicShaped (B : String → Bool) : Exp α → Bool
  | .and _ | .or _ | .num _ | .not _ | .xor _ _ | .implies _ _ | .iff _ _ => true
  | .var x => B x
  | _ => false

mutual
/-- port of `collapses_nonbinary`; `B` says which variables are Boolean. -/
def collapsesNonbinary (B : String → Bool) : Exp α → Bool
  | .num _ => false
  | .var _ => false
  | .abs e => collapsesNonbinary B e
  | .not e => collapsesNonbinary B e
  | .un _ e => collapsesNonbinary B e
  | .min es => collapsesAny B es
  | .max es => collapsesAny B es
  | .and es => !(logicShaped B (simplify (.and es))) || collapsesAny B es
  | .or es => !(logicShaped B (simplify (.or es))) || collapsesAny B es
  | .xor a b => collapsesNonbinary B a || collapsesNonbinary B b
  | .implies a b => collapsesNonbinary B a || collapsesNonbinary B b
  | .iff a b => collapsesNonbinary B a || collapsesNonbinary B b
  | .bin op a b =>
    ((op == .and || op == .or) && !(logicShaped B (simplify (.bin op a b)))) ||
      collapsesNonbinary B a || collapsesNonbinary B b
def collapsesAny (B : String → Bool) : List (Exp α) → Bool
  | [] => false
  | e :: es => collapsesNonbinary B e || collapsesAny B es
end

end Exp
end Rooc
