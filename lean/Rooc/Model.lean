/-
Shared data types of the compiler pipeline: variable domains, source `Model`, `LinearModel`.
Ports of `math_enums.rs` (`VariableType`, `Comparison`, `OptimizationType`),
`model.rs` (`Constraint`, `Objective`, `Model`) and `linear_model.rs` (`LinearConstraint`, `LinearModel`).
Import-free.
-/
import Rooc.Exp
namespace Rooc

inductive Cmp | le | ge | eq | lt | gt
  deriving Repr, DecidableEq, Inhabited
inductive OptType | min | max | satisfy
  deriving Repr, DecidableEq, Inhabited

/-- `VariableType` — `IntegerRange` carries `i32` endpoints (here `Int`). -/
inductive VarType (α : Type) where
  | bool
  | nnreal (lo hi : α)
  | real (lo hi : α)
  | int (lo hi : Int)
  deriving Repr, Inhabited

/-- `DomainVariable`: type + usage count (spans are not modelled). -/
structure DomVar (α : Type) where
  name : String
  ty : VarType α
  usage : Nat
  deriving Repr, Inhabited

structure Constraint (α : Type) where
  name : String
  lhs : Exp α
  cmp : Cmp
  rhs : Exp α
  isAssert : Bool
  deriving Repr, Inhabited

/-- source model; `domain` is an IndexMap in insertion order. -/
structure Model (α : Type) where
  optType : OptType
  objective : Exp α
  constraints : List (Constraint α)
  domain : List (DomVar α)
  deriving Repr, Inhabited

structure LinRow (α : Type) where
  name : String
  coeffs : List α
  cmp : Cmp
  rhs : α
  deriving Repr, Inhabited

structure LinModel (α : Type) where
  optType : OptType
  objective : List α
  offset : α
  vars : List String
  domain : List (DomVar α)
  rows : List (LinRow α)
  deriving Repr, Inhabited

end Rooc
