/-
The builder front door as a STATE MACHINE (port of packages/rooc/src/builder/{model.rs, solution.rs, expr.rs}):
`ModelBuilder::{new, add_var, add_vars, with, with_all, maximize, minimize, satisfy, into_model, linearize, solve_with}`,
`BuilderConstraint::{new, new_logic_assertion}`, the expression helper `sum`, and the read-backs of
`BuilderSolution::{value, var_value, numeric_value, eval, constraint_value, shadow_price}`.
A builder call history is a list of `Op`s; where the Rust panics the model answers with an explicit outcome and the state
the (unwound) builder is left in.  Import-free.
-/
import Rooc.Builder
import Rooc.SolverWrap
import Rooc.Compile
namespace Rooc
namespace Builder
variable {α : Type} [Arith α]
open Arith

/-! ### `BuilderConstraint` constructors and expression helpers -/

/-- `BuilderConstraint::new`. -/
def bcNew (lhs : Exp α) (cmp : Cmp) (rhs : Exp α) (name : String) : Constraint α :=
  { name := name, lhs := lhs, cmp := cmp, rhs := rhs, isAssert := false }

/-- `BuilderConstraint::new_logic_assertion`. -/
def bcAssert (lhs : Exp α) (name : String) : Constraint α :=
  { name := name, lhs := lhs, cmp := .eq, rhs := .num one, isAssert := true }

/-- `builder::sum`: left-nested additions, `0` for the empty iterator. -/
def sumExprs : List (Exp α) → Exp α
  | [] => .num zero
  | e :: es => es.foldl (fun acc x => .bin .add acc x) e

/-- a `bool` operand of `&` / `|` becomes the literal 1 / 0. -/
def boolLit (b : Bool) : Exp α := .num (if b then one else zero)

/-! ### `ModelBuilder` -/

/-- `ModelBuilder`: `variable_names`, `domain` (an IndexMap in insertion order; usage counts are all 0 until
`into_model`), `constraints`, `objective`. -/
structure BState (α : Type) where
  variableNames : List String
  domain : List (String × VarType α)
  constraints : List (Constraint α)
  objective : Option (OptType × Exp α)

/-- `ModelBuilder::new`. -/
def BState.new : BState α := { variableNames := [], domain := [], constraints := [], objective := none }

/-- one builder call. -/
inductive Op (α : Type) where
  | addVar (name : String) (ty : VarType α)
  | addVars (name : String) (count : Nat) (ty : VarType α)
  | with_ (c : Constraint α)
  | withAll (cs : List (Constraint α))
  | maximize (e : Exp α)
  | minimize (e : Exp α)
  | satisfy

/-- what a call hands back: the minted handles, or the panic of `add_var` on a repeated name. -/
inductive Outcome where
  | handles (hs : List Nat)
  | unit
  | duplicate (name : String)
  deriving Repr, DecidableEq

/-- `add_var`: `Err name` = the panic (nothing has been mutated at that point). -/
def addVar (s : BState α) (name : String) (ty : VarType α) : Except String (BState α × Nat) :=
  if s.domain.any (·.1 == name) then .error name
  else .ok ({ s with variableNames := s.variableNames ++ [name], domain := s.domain ++ [(name, ty)] },
            s.variableNames.length)

/-- the member names of an indexed family: `format!("{name}_{i}")`. -/
def familyName (name : String) (i : Nat) : String := name ++ "_" ++ toString i

/-- `add_vars`: members are added one by one; a collision panics and leaves the EARLIER members in the builder. -/
def addVarsFrom (s : BState α) (name : String) (ty : VarType α) : List Nat → List Nat → BState α × Outcome
  | [], acc => (s, .handles acc.reverse)
  | i :: is, acc =>
    match addVar s (familyName name i) ty with
    | .error n => (s, .duplicate n)
    | .ok (s', h) => addVarsFrom s' name ty is (h :: acc)

def addVars (s : BState α) (name : String) (count : Nat) (ty : VarType α) : BState α × Outcome :=
  addVarsFrom s name ty (List.range count) []

/-- one call; the state after a panic is the state the unwound builder is left in. -/
def step (s : BState α) : Op α → BState α × Outcome
  | .addVar name ty =>
    match addVar s name ty with
    | .error n => (s, .duplicate n)
    | .ok (s', h) => (s', .handles [h])
  | .addVars name count ty => addVars s name count ty
  | .with_ c => ({ s with constraints := s.constraints ++ [c] }, .unit)
  | .withAll cs => ({ s with constraints := s.constraints ++ cs }, .unit)
  | .maximize e => ({ s with objective := some (.max, e) }, .unit)
  | .minimize e => ({ s with objective := some (.min, e) }, .unit)
  | .satisfy => ({ s with objective := some (.satisfy, .num zero) }, .unit)

/-- a call history (the harness wraps every call in `catch_unwind` and goes on with the builder). -/
def run (s : BState α) : List (Op α) → BState α × List Outcome
  | [] => (s, [])
  | op :: ops =>
    let (s', o) := step s op
    let (s'', os) := run s' ops
    (s'', o :: os)

/-- `ModelBuilder::into_model`, field by field: names for `to_exp` come from `variable_names`, the domain from the
IndexMap with every usage count incremented once.  `none` = the index panic of `to_exp`. -/
def BState.intoModel (s : BState α) : Option (Model α) := do
  let cs ← s.constraints.foldr (fun c acc => do
      let rest ← acc
      let c' ← toConstraint s.variableNames c
      pure (c' :: rest)) (some [])
  let (ot, oe) := s.objective.getD (OptType.satisfy, Exp.num zero)
  let o ← toExp s.variableNames oe
  pure { optType := ot, objective := o, constraints := cs,
         domain := s.domain.map fun (n, t) => { name := n, ty := t, usage := 1 } }

/-! ### `solve_with` and `BuilderSolution` -/

/-- `BuilderSolution`. -/
structure BSolution (α : Type) where
  solution : SolverWrap.Solution α
  variableNames : List String

inductive BRes (α : Type) where
  | ok (s : BSolution α)
  | indexPanic
  | linearization (e : Lin.LinErr)
  | solver (variant : String)
  | solverPanic

/-- `solve_with(solver)`: `linearize()?`, `solver.solve(&linearized)?`, wrap with the names.  The solver is a parameter
(its answer on the compiled model is an input); tolerance and step limit are those of the bound analyzer. -/
def BState.solveWith (s : BState α) (tol : α) (maxSteps : Nat)
    (solver : LinModel α → SolverWrap.Res α) : BRes α :=
  match s.intoModel with
  | none => .indexPanic
  | some m =>
    match Compile.linearize m tol maxSteps with
    | .error e => .linearization e
    | .ok lm =>
      match solver lm with
      | .ok sol => .ok { solution := sol, variableNames := s.variableNames }
      | .err v => .solver v
      | .panic => .solverPanic

namespace BSolution
open SolverWrap

/-- `value()`. -/
def value (b : BSolution α) : α := b.solution.value

/-- `var_value(var)`: `None` for a handle that does not belong to this model. -/
def varValue (b : BSolution α) (h : Nat) : Option (Val α) :=
  match b.variableNames[h]? with
  | some n => b.solution.valueOf n
  | none => none

/-- `numeric_value(var)`. -/
def numericValue (b : BSolution α) (h : Nat) : Option α := (b.varValue h).map Val.toNum

/-- the resolver `eval` hands to `eval_expr`: a handle without a value reads as `0.0`. -/
def resolver (b : BSolution α) (i : Nat) : α := (b.numericValue i).getD zero

/-- `eval(expr)`. -/
def eval (b : BSolution α) (e : Exp α) : α := evalExpr b.resolver e

/-- `constraint_value(name)`. -/
def constraintValue (b : BSolution α) (name : String) : Option α := imGet b.solution.constraints name

/-- `shadow_price(name)`. -/
def shadowPrice (b : BSolution α) (name : String) : Option α := imGet b.solution.shadow name

end BSolution
end Builder
end Rooc
