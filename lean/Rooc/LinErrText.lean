/-
`impl Display for LinearizationError` (linearizer.rs): the message templates and the rendering of the
`variables` payload of `MissingFiniteBounds` (`"none identified"` for an empty list, otherwise the names joined
with `", "`).  The texts of the payloads the model does not carry — the offending expression, the requirement
description and the two derived bounds — are parameters.  Import-free.
-/
import Rooc.Linearize
namespace Rooc
namespace Lin

def LinErr.text (expr requirement lower upper : String) : LinErr → String
  | .nonLinear => "Non linear expression: \"" ++ expr ++ "\""
  | .divisionByZero => "Division by zero in expression: \"" ++ expr ++ "\""
  | .emptyAggregation kind => "Numeric " ++ kind ++ " aggregation requires at least one operand"
  | .varAlreadyDeclared name => "Variable \"" ++ name ++ "\" already declared"
  | .unimplemented => "Unimplemented expression: \"" ++ expr ++ "\""
  | .nonBinaryLogicOperand => "Logic operands must be boolean values, got: \"" ++ expr ++ "\""
  | .missingFiniteBounds vars =>
    let variables := if vars.isEmpty then "none identified" else ", ".intercalate vars
    "Cannot linearize \"" ++ expr ++ "\" in " ++ requirement ++ " with derived bounds [" ++ lower ++ ", " ++ upper ++
      "]. Variables without finite bounds: " ++ variables ++
      ". Declare finite bounds or add constraints from which finite bounds can be inferred"
  | .fuel => "fuel"

end Lin
end Rooc
