/-
`impl Display for LinearizationError` (linearizer.rs): the message templates (`LinErr.template`, the `write!` format
strings — `Props.C08.error_templates_are_the_rust_ones` compares them with the ones `tools/extract.py` reads from the
Rust source), the arguments (`LinErr.args`; the `variables` payload of `MissingFiniteBounds` is rendered as
`"none identified"` for an empty list, otherwise the names joined with `", "`) and `format!`'s substitution of
successive `{}` (`fill`).  The texts of the payloads the model does not carry — the offending expression, the
requirement description and the two derived bounds — are parameters.  Import-free.
-/
import Rooc.Linearize
namespace Rooc
namespace Lin

/-- replace the successive `{}` of the template by the arguments (`format!` with positional arguments). -/
def fillAux : List Char → List String → List Char
  | '{' :: '}' :: rest, a :: as => a.toList ++ fillAux rest as
  | c :: rest, as => c :: fillAux rest as
  | [], _ => []

def fill (template : String) (args : List String) : String := String.ofList (fillAux template.toList args)

def LinErr.template : LinErr → String
  | .nonLinear => "Non linear expression: \"{}\""
  | .divisionByZero => "Division by zero in expression: \"{}\""
  | .emptyAggregation _ => "Numeric {} aggregation requires at least one operand"
  | .varAlreadyDeclared _ => "Variable \"{}\" already declared"
  | .unimplemented => "Unimplemented expression: \"{}\""
  | .nonBinaryLogicOperand => "Logic operands must be boolean values, got: \"{}\""
  | .missingFiniteBounds _ =>
    "Cannot linearize \"{}\" in {} with derived bounds [{}, {}]. Variables without finite bounds: {}. Declare finite bounds or add constraints from which finite bounds can be inferred"
  | .fuel => "fuel"

def LinErr.args (expr requirement lower upper : String) : LinErr → List String
  | .nonLinear | .divisionByZero | .unimplemented | .nonBinaryLogicOperand => [expr]
  | .emptyAggregation kind => [kind]
  | .varAlreadyDeclared name => [name]
  | .missingFiniteBounds vars =>
    [expr, requirement, lower, upper, if vars.isEmpty then "none identified" else ", ".intercalate vars]
  | .fuel => []

def LinErr.text (expr requirement lower upper : String) (e : LinErr) : String :=
  fill e.template (e.args expr requirement lower upper)

/-- the templates in the order of the Rust enum. -/
def linErrTemplates : List String :=
  [LinErr.template .nonLinear, LinErr.template .divisionByZero, LinErr.template (.emptyAggregation ""),
   LinErr.template (.varAlreadyDeclared ""), LinErr.template .unimplemented, LinErr.template .nonBinaryLogicOperand,
   LinErr.template (.missingFiniteBounds [])]

end Lin
end Rooc
