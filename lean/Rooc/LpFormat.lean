/-
M5 (LP part) — CPLEX-LP export of a `LinearModel` and an independent CPLEX-LP reader.

* `Lp.writeLP` is a line-by-line port of `LinearModel::to_lp_format` (+ `lp_terms`, `lp_num`,
  `lp_bound`) in `packages/rooc/src/transformers/linear_model.rs`.  Numbers are OPAQUE TOKENS: the
  writer is handed `tok : α → List Char`, the string Rust's `f64` `Display` produced for that value
  (the harness ships the table); the writer only decides *where* a token goes.
* `Lp.readLP` is written from the definition of the LP file format, not from the writer: a character
  level lexer (numbers with optional exponent, names, `\` comments, `<= =< < >= => > =`), and a
  token-level parser for the sections `Minimize|Maximize`, objective (optional label, constant terms
  allowed), `Subject To` (labelled rows), `Bounds` (`l <= x <= u`, `x <= u`, `x >= l`, `x = v`,
  `x free`, `±inf[inity]`), `Binary`, `General`, `End`.  Whitespace and line breaks are insignificant.
  The reader is parameterised by the number lexer `lexN : List Char → Option α`.
* `Lp.denote` is what the text is supposed to mean, read off the model directly.

Import-free.  Everything works on `List Char`; the driver converts with `String.ofList` / `toList`.
-/
import Rooc.Model
namespace Rooc.Lp
open Rooc Arith

/-! ### The writer (port of `to_lp_format`) -/
section Writer
variable {α : Type} [Arith α]

/-- `f64::is_zero` (num_traits): `*self == 0.0`. -/
def isZero (c : α) : Bool := Arith.eq c zero

/-- decimal digits of a natural number (what Rust's integer `Display` prints). -/
def natChars (n : Nat) : List Char := Nat.toDigits 10 n
/-- Rust `i32` `Display`. -/
def intChars (i : Int) : List Char := if i < 0 then '-' :: natChars i.natAbs else natChars i.natAbs

/-- `lp_num`: `format!("{}", n)` — the opaque token. -/
def lpNum (tok : α → List Char) (n : α) : List Char := tok n

/-- `lp_bound`. -/
def lpBound (tok : α → List Char) (n : α) : List Char :=
  if Arith.eq n posInf then "+infinity".toList
  else if Arith.eq n negInf then "-infinity".toList
  else lpNum tok n

/-- loop body of `lp_terms`; `s` is the string built so far. -/
def lpTermsAux (tok : α → List Char) : List α → List String → List Char → List Char
  | c :: cs, v :: vs, s =>
    if isZero c then lpTermsAux tok cs vs s
    else
      let magnitude := Arith.abs c
      let coeff := if Arith.eq magnitude one then [] else lpNum tok magnitude ++ [' ']
      if s.isEmpty then
        if Arith.lt c zero then lpTermsAux tok cs vs (s ++ ("- ".toList ++ coeff ++ v.toList))
        else lpTermsAux tok cs vs (s ++ (coeff ++ v.toList))
      else
        let sign := if Arith.lt c zero then '-' else '+'
        lpTermsAux tok cs vs (s ++ ([' ', sign, ' '] ++ coeff ++ v.toList))
  | _, _, s => s

/-- `lp_terms`. -/
def lpTerms (tok : α → List Char) (coeffs : List α) (vars : List String) : List Char :=
  let s := lpTermsAux tok coeffs vars []
  if s.isEmpty then ['0'] else s

def direction : OptType → List Char
  | .max => "Maximize".toList
  | .min | .satisfy => "Minimize".toList

def relChars : Cmp → List Char
  | .le | .lt => "<=".toList
  | .ge | .gt => ">=".toList
  | .eq => "=".toList

/-- the `k`-th candidate for a generated name: `base`, `base_1`, `base_2`, … -/
def candidate (base : List Char) (k : Nat) : List Char :=
  if k = 0 then base else base ++ '_' :: natChars k

/-- `while !used.insert(name) { name = format!("{}_{}", base, suffix); suffix += 1 }`:
the first candidate from the `k`-th on that is not taken (`fuel` bounds the search; `used.length + 1`
candidates always contain a free one). -/
def freshName (used : List (List Char)) (base : List Char) : Nat → Nat → List Char
  | 0, k => candidate base k
  | fuel + 1, k => if used.contains (candidate base k) then freshName used base fuel (k + 1) else candidate base k

/-- the user-given (non-empty) row names: the initial `used` set -/
def userNames {α : Type} : List (LinRow α) → List (List Char)
  | [] => []
  | r :: rs => if r.name.toList.isEmpty then userNames rs else r.name.toList :: userNames rs

/-- the names the export gives to the rows, in order: a user name is kept, an unnamed row `i` (0-based)
gets the first free one of `c{i+1}`, `c{i+1}_1`, `c{i+1}_2`, … -/
def rowNamesFrom {α : Type} (used : List (List Char)) : Nat → List (LinRow α) → List (List Char)
  | _, [] => []
  | i, r :: rs =>
    if r.name.toList.isEmpty then
      let n := freshName used ('c' :: natChars (i + 1)) (used.length + 1) 0
      n :: rowNamesFrom (n :: used) (i + 1) rs
    else r.name.toList :: rowNamesFrom used (i + 1) rs

def rowNames {α : Type} (rows : List (LinRow α)) : List (List Char) := rowNamesFrom (userNames rows) 0 rows

def objectiveLine (tok : α → List Char) (lm : LinModel α) : List Char :=
  let objective := lpTerms tok lm.objective lm.vars
  let objective :=
    if !(isZero lm.offset) then
      let sign := if Arith.lt lm.offset zero then '-' else '+'
      objective ++ ([' ', sign, ' '] ++ lpNum tok (Arith.abs lm.offset))
    else objective
  " obj: ".toList ++ objective ++ ['\n']

def rowLine (tok : α → List Char) (vars : List String) (name : List Char) (r : LinRow α) : List Char :=
  [' '] ++ name ++ ": ".toList ++ lpTerms tok r.coeffs vars ++ [' '] ++ relChars r.cmp ++ [' ']
    ++ lpNum tok r.rhs ++ ['\n']

def rowLines (tok : α → List Char) (vars : List String) : List (List Char) → List (LinRow α) → List Char
  | n :: ns, r :: rs => rowLine tok vars n r ++ rowLines tok vars ns rs
  | _, _ => []

def rangeLine (lo : List Char) (name : String) (hi : List Char) : List Char :=
  [' '] ++ lo ++ " <= ".toList ++ name.toList ++ " <= ".toList ++ hi

/-- the `bounds` vector of the domain loop (one entry = one line without the newline). -/
def boundLines (tok : α → List Char) : List (DomVar α) → List (List Char)
  | [] => []
  | d :: ds =>
    match d.ty with
    | .bool => boundLines tok ds
    | .int lo hi => rangeLine (intChars lo) d.name (intChars hi) :: boundLines tok ds
    | .nnreal lo hi =>
      if !(Arith.eq lo zero && Arith.eq hi posInf) then
        rangeLine (lpBound tok lo) d.name (lpBound tok hi) :: boundLines tok ds
      else boundLines tok ds
    | .real lo hi =>
      if Arith.eq lo negInf && Arith.eq hi posInf then
        ([' '] ++ d.name.toList ++ " free".toList) :: boundLines tok ds
      else rangeLine (lpBound tok lo) d.name (lpBound tok hi) :: boundLines tok ds

def binaryNames : List (DomVar α) → List String
  | [] => []
  | d :: ds => match d.ty with
    | .bool => d.name :: binaryNames ds
    | _ => binaryNames ds
def generalNames : List (DomVar α) → List String
  | [] => []
  | d :: ds => match d.ty with
    | .int _ _ => d.name :: generalNames ds
    | _ => generalNames ds

/-- `xs.join(" ")`. -/
def joinSp : List String → List Char
  | [] => []
  | [x] => x.toList
  | x :: xs => x.toList ++ ' ' :: joinSp xs

def linesNl : List (List Char) → List Char
  | [] => []
  | l :: ls => l ++ '\n' :: linesNl ls

/-- Port of `LinearModel::to_lp_format`. -/
def writeLP (tok : α → List Char) (lm : LinModel α) : List Char :=
  let bounds := boundLines tok lm.domain
  let binaries := binaryNames lm.domain
  let generals := generalNames lm.domain
  direction lm.optType ++ ['\n']
    ++ objectiveLine tok lm
    ++ "Subject To\n".toList
    ++ rowLines tok lm.vars (rowNames lm.rows) lm.rows
    ++ (if !bounds.isEmpty then "Bounds\n".toList ++ linesNl bounds else [])
    ++ (if !binaries.isEmpty then "Binary\n".toList ++ ([' '] ++ joinSp binaries ++ ['\n']) else [])
    ++ (if !generals.isEmpty then "General\n".toList ++ ([' '] ++ joinSp generals ++ ['\n']) else [])
    ++ "End\n".toList

end Writer

/-! ### The reader -/

inductive Tok where
  | num (s : List Char)
  | name (s : List Char)
  | colon | plus | minus | le | ge | eq
  deriving DecidableEq, Repr, Inhabited

def isWs (c : Char) : Bool := c == ' ' || c == '\n' || c == '\t' || c == '\r'
def isDig (c : Char) : Bool := decide ('0' ≤ c) && decide (c ≤ '9')
def isNumChar (c : Char) : Bool := isDig c || c == '.'
def isLetter (c : Char) : Bool :=
  (decide ('a' ≤ c) && decide (c ≤ 'z')) || (decide ('A' ≤ c) && decide (c ≤ 'Z'))
/-- the non-alphanumeric characters the LP format allows in names. -/
def isNameSym (c : Char) : Bool :=
  c == '!' || c == '"' || c == '#' || c == '$' || c == '%' || c == '&' || c == '(' || c == ')' ||
  c == ',' || c == ';' || c == '?' || c == '@' || c == '_' || c == '\'' || c == '`' || c == '{' ||
  c == '}' || c == '~' || c == '[' || c == ']' || c == '/' || c == '|'
/-- a name may not start with a digit or a period. -/
def isNameStart (c : Char) : Bool := isLetter c || isNameSym c
def isNameChar (c : Char) : Bool := isNameStart c || isDig c || c == '.'

/-- lexer state (a word being read keeps its characters reversed). -/
inductive LSt where
  | idle
  | num (acc : List Char) | expStart (acc : List Char) | expSign (acc : List Char) | exp (acc : List Char)
  | name (acc : List Char)
  | lt | gt | eq
  | comment
  deriving Repr, Inhabited

def stepIdle (c : Char) : Option (List Tok × LSt) :=
  if isWs c then some ([], .idle)
  else if isNumChar c then some ([], .num [c])
  else if isNameStart c then some ([], .name [c])
  else if c == ':' then some ([.colon], .idle)
  else if c == '+' then some ([.plus], .idle)
  else if c == '-' then some ([.minus], .idle)
  else if c == '<' then some ([], .lt)
  else if c == '>' then some ([], .gt)
  else if c == '=' then some ([], .eq)
  else if c == '\\' then some ([], .comment)
  else none

def emitThen (t : Tok) (c : Char) : Option (List Tok × LSt) :=
  match stepIdle c with
  | none => none
  | some (ts, st) => some (t :: ts, st)

def step : LSt → Char → Option (List Tok × LSt)
  | .idle, c => stepIdle c
  | .num acc, c =>
    if isNumChar c then some ([], .num (c :: acc))
    else if c == 'e' || c == 'E' then some ([], .expStart (c :: acc))
    else emitThen (.num acc.reverse) c
  | .expStart acc, c =>
    if isDig c then some ([], .exp (c :: acc))
    else if c == '+' || c == '-' then some ([], .expSign (c :: acc))
    else none
  | .expSign acc, c => if isDig c then some ([], .exp (c :: acc)) else none
  | .exp acc, c => if isDig c then some ([], .exp (c :: acc)) else emitThen (.num acc.reverse) c
  | .name acc, c => if isNameChar c then some ([], .name (c :: acc)) else emitThen (.name acc.reverse) c
  | .lt, c => if c == '=' then some ([.le], .idle) else emitThen .le c
  | .gt, c => if c == '=' then some ([.ge], .idle) else emitThen .ge c
  | .eq, c =>
    if c == '<' then some ([.le], .idle) else if c == '>' then some ([.ge], .idle) else emitThen .eq c
  | .comment, c => if c == '\n' then some ([], .idle) else some ([], .comment)

def finish : LSt → Option (List Tok)
  | .idle | .comment => some []
  | .num acc | .exp acc => some [.num acc.reverse]
  | .name acc => some [.name acc.reverse]
  | .lt => some [.le]
  | .gt => some [.ge]
  | .eq => some [.eq]
  | .expStart _ | .expSign _ => none

def lexGo : List Char → LSt → Option (List Tok)
  | [], st => finish st
  | c :: cs, st =>
    match step st c with
    | none => none
    | some (ts, st') =>
      match lexGo cs st' with
      | none => none
      | some r => some (ts ++ r)

def lexLP (cs : List Char) : Option (List Tok) := lexGo cs .idle

/-! #### token-level parser -/

def lowerChar (c : Char) : Char :=
  if decide ('A' ≤ c) && decide (c ≤ 'Z') then Char.ofNat (c.toNat + 32) else c
def lower (s : List Char) : List Char := s.map lowerChar

def kwMin : List (List Char) := ["minimize".toList, "minimum".toList, "min".toList]
def kwMax : List (List Char) := ["maximize".toList, "maximum".toList, "max".toList]
def kwSt1 : List (List Char) := ["st".toList, "s.t.".toList, "st.".toList]      -- one-word spellings
def kwBounds : List (List Char) := ["bounds".toList, "bound".toList]
def kwBinary : List (List Char) := ["binary".toList, "binaries".toList, "bin".toList]
def kwGeneral : List (List Char) := ["general".toList, "generals".toList, "gen".toList]
def kwEnd : List (List Char) := ["end".toList]
def kwFree : List (List Char) := ["free".toList]
def kwInf : List (List Char) := ["inf".toList, "infinity".toList]

/-- words that cannot be used as variable or row names. -/
def reserved : List (List Char) :=
  kwMin ++ kwMax ++ kwSt1 ++ ["subject".toList, "such".toList] ++ kwBounds ++ kwBinary ++ kwGeneral ++ kwEnd
    ++ kwFree ++ kwInf

def isKw (kws : List (List Char)) (w : List Char) : Bool := kws.contains (lower w)
def isReserved (w : List Char) : Bool := isKw reserved w

inductive Sense | min | max
  deriving DecidableEq, Repr, Inhabited
inductive Rel | le | ge | eq
  deriving DecidableEq, Repr, Inhabited

structure LpRow (α : Type) where
  name : String
  terms : List (String × α)
  /-- sum of the constants written among the terms (`0` in a well-formed file) -/
  lhsConst : α
  rel : Rel
  rhs : α
  deriving Repr, Inhabited

/-- one entry of the `Bounds` section; `none` = that side is not mentioned. -/
structure LpBound (α : Type) where
  var : String
  lo : Option α
  hi : Option α
  deriving Repr, Inhabited

structure LpProblem (α : Type) where
  sense : Sense
  obj : List (String × α)
  objConst : α
  rows : List (LpRow α)
  bounds : List (LpBound α)
  binaries : List String
  generals : List String
  deriving Repr, Inhabited

section Reader
variable {α : Type} [Arith α]

def signed (neg : Bool) (q : α) : α := if neg then Arith.neg q else q

/-- A linear expression after its first item: `(+|-) [number] name | (+|-) number`, repeated.
Stops (successfully) at the first token that is not a sign.  Returns terms, the sum of the constants
and the remaining tokens. -/
def parseTail (lexN : List Char → Option α) : List Tok → Option (List (String × α) × α × List Tok)
  | .plus :: .num s :: .name v :: rest =>
    match lexN s with
    | none => none
    | some q =>
      if isReserved v then some ([], Arith.add q zero, .name v :: rest)
      else match parseTail lexN rest with
        | none => none
        | some (ts, k, r) => some ((String.ofList v, q) :: ts, k, r)
  | .minus :: .num s :: .name v :: rest =>
    match lexN s with
    | none => none
    | some q =>
      if isReserved v then some ([], Arith.add (Arith.neg q) zero, .name v :: rest)
      else match parseTail lexN rest with
        | none => none
        | some (ts, k, r) => some ((String.ofList v, Arith.neg q) :: ts, k, r)
  | .plus :: .num s :: rest =>
    match lexN s with
    | none => none
    | some q => match parseTail lexN rest with
      | none => none
      | some (ts, k, r) => some (ts, Arith.add q k, r)
  | .minus :: .num s :: rest =>
    match lexN s with
    | none => none
    | some q => match parseTail lexN rest with
      | none => none
      | some (ts, k, r) => some (ts, Arith.add (Arith.neg q) k, r)
  | .plus :: .name v :: rest =>
    if isReserved v then none
    else match parseTail lexN rest with
      | none => none
      | some (ts, k, r) => some ((String.ofList v, one) :: ts, k, r)
  | .minus :: .name v :: rest =>
    if isReserved v then none
    else match parseTail lexN rest with
      | none => none
      | some (ts, k, r) => some ((String.ofList v, Arith.neg one) :: ts, k, r)
  | .plus :: _ => none
  | .minus :: _ => none
  | toks => some ([], zero, toks)

/-- A linear expression: the first item may come without a sign. -/
def parseExpr (lexN : List Char → Option α) : List Tok → Option (List (String × α) × α × List Tok)
  | .num s :: .name v :: rest =>
    match lexN s with
    | none => none
    | some q =>
      if isReserved v then some ([], Arith.add q zero, .name v :: rest)
      else match parseTail lexN rest with
        | none => none
        | some (ts, k, r) => some ((String.ofList v, q) :: ts, k, r)
  | .num s :: rest =>
    match lexN s with
    | none => none
    | some q => match parseTail lexN rest with
      | none => none
      | some (ts, k, r) => some (ts, Arith.add q k, r)
  | .name v :: rest =>
    if isReserved v then some ([], zero, .name v :: rest)     -- empty expression before a keyword
    else match parseTail lexN rest with
      | none => none
      | some (ts, k, r) => some ((String.ofList v, one) :: ts, k, r)
  | toks => parseTail lexN toks

/-- `[+|-] number` -/
def parseSignedNum (lexN : List Char → Option α) : List Tok → Option (α × List Tok)
  | .num s :: rest => (lexN s).map fun q => (q, rest)
  | .plus :: .num s :: rest => (lexN s).map fun q => (q, rest)
  | .minus :: .num s :: rest => (lexN s).map fun q => (Arith.neg q, rest)
  | _ => none

/-- a bound value: `[+|-] number` or `[+|-] inf[inity]`. -/
def parseBoundVal (lexN : List Char → Option α) : List Tok → Option (α × List Tok)
  | .name w :: rest => if isKw kwInf w then some (posInf, rest) else none
  | .plus :: .name w :: rest => if isKw kwInf w then some (posInf, rest) else none
  | .minus :: .name w :: rest => if isKw kwInf w then some (negInf, rest) else none
  | toks => parseSignedNum lexN toks

def relOf : Tok → Option Rel
  | .le => some .le | .ge => some .ge | .eq => some .eq | _ => none

def isSectionKw (w : List Char) : Bool :=
  isKw kwBounds w || isKw kwBinary w || isKw kwGeneral w || isKw kwEnd w

/-- optional `name :` label. -/
def parseLabel : List Tok → String × List Tok
  | .name l :: .colon :: rest => (String.ofList l, rest)
  | toks => ("", toks)

/-- The rows of `Subject To`, up to the next section keyword.  `fuel` bounds the number of rows. -/
def parseRows (lexN : List Char → Option α) : Nat → List Tok → Option (List (LpRow α) × List Tok)
  | 0, _ => none
  | fuel + 1, toks =>
    match toks with
    | [] => none
    | .name w :: rest0 =>
      if isSectionKw w then some ([], .name w :: rest0) else parseRow fuel (.name w :: rest0)
    | toks => parseRow fuel toks
where
  parseRow (fuel : Nat) (toks : List Tok) : Option (List (LpRow α) × List Tok) :=
    let (label, toks) := parseLabel toks
    match parseExpr lexN toks with
    | none => none
    | some (ts, k, r :: rest) =>
      match relOf r with
      | none => none
      | some rel =>
        match parseSignedNum lexN rest with
        | none => none
        | some (rhs, rest') =>
          match parseRows lexN fuel rest' with
          | none => none
          | some (rows, rest'') => some ({ name := label, terms := ts, lhsConst := k, rel := rel, rhs := rhs } :: rows, rest'')
    | some (_, _, []) => none

/-- One entry of the `Bounds` section starting at a bound value: `l <= x [<= u]` or `l >= x`. -/
def parseBoundsEntryVal (lexN : List Char → Option α) (toks : List Tok) : Option (LpBound α × List Tok) :=
  match parseBoundVal lexN toks with
  | none => none
  | some (l, .le :: .name x :: .le :: rest) =>
    if isReserved x then none else
    match parseBoundVal lexN rest with
    | none => none
    | some (u, rest') => some ({ var := String.ofList x, lo := some l, hi := some u }, rest')
  | some (l, .le :: .name x :: rest) =>
    if isReserved x then none else some ({ var := String.ofList x, lo := some l, hi := none }, rest)
  | some (u, .ge :: .name x :: rest) =>
    if isReserved x then none else some ({ var := String.ofList x, lo := none, hi := some u }, rest)
  | some _ => none

/-- The `Bounds` section, up to the next section keyword. -/
def parseBounds (lexN : List Char → Option α) : Nat → List Tok → Option (List (LpBound α) × List Tok)
  | 0, _ => none
  | fuel + 1, toks =>
    match toks with
    | [] => none
    | .name x :: rest =>
      if isSectionKw x then some ([], .name x :: rest)
      else if isKw kwInf x then entryVal fuel (.name x :: rest)
      else if isReserved x then none
      else match rest with
        | .name f :: rest' =>
          if isKw kwFree f then cont fuel { var := String.ofList x, lo := some negInf, hi := some posInf } rest'
          else none
        | .le :: rest' =>
          match parseBoundVal lexN rest' with
          | none => none
          | some (u, rest'') => cont fuel { var := String.ofList x, lo := none, hi := some u } rest''
        | .ge :: rest' =>
          match parseBoundVal lexN rest' with
          | none => none
          | some (l, rest'') => cont fuel { var := String.ofList x, lo := some l, hi := none } rest''
        | .eq :: rest' =>
          match parseBoundVal lexN rest' with
          | none => none
          | some (v, rest'') => cont fuel { var := String.ofList x, lo := some v, hi := some v } rest''
        | _ => none
    | toks => entryVal fuel toks
where
  cont (fuel : Nat) (b : LpBound α) (rest : List Tok) : Option (List (LpBound α) × List Tok) :=
    match parseBounds lexN fuel rest with
    | none => none
    | some (bs, rest') => some (b :: bs, rest')
  entryVal (fuel : Nat) (toks : List Tok) : Option (List (LpBound α) × List Tok) :=
    match parseBoundsEntryVal lexN toks with
    | none => none
    | some (b, rest) => cont fuel b rest

/-- a list of variable names up to the next section keyword. -/
def parseNames : List Tok → Option (List String × List Tok)
  | .name x :: rest =>
    if isSectionKw x then some ([], .name x :: rest)
    else if isReserved x then none
    else match parseNames rest with
      | none => none
      | some (ns, r) => some (String.ofList x :: ns, r)
  | _ => none

def parseSense : List Tok → Option (Sense × List Tok)
  | .name w :: rest => if isKw kwMin w then some (.min, rest) else if isKw kwMax w then some (.max, rest) else none
  | _ => none

/-- `Subject To` | `such that` | `st` | `s.t.` | `st.` -/
def parseSubjectTo : List Tok → Option (List Tok)
  | .name a :: .name b :: rest =>
    if lower a == "subject".toList && lower b == "to".toList then some rest
    else if lower a == "such".toList && lower b == "that".toList then some rest
    else if isKw kwSt1 a then some (.name b :: rest)
    else none
  | .name a :: rest => if isKw kwSt1 a then some rest else none
  | _ => none

/-- an optional section: if the next token is one of the section's keywords run `parse` on what
follows it, otherwise the section is absent. -/
def optSection {β : Type} (kws : List (List Char)) (parse : List Tok → Option (β × List Tok)) (dflt : β)
    (toks : List Tok) : Option (β × List Tok) :=
  match toks with
  | .name w :: rest => if isKw kws w then parse rest else some (dflt, toks)
  | _ => some (dflt, toks)

/-- the optional sections in the order `Bounds`, `Binary`, `General`, then `End`. -/
def parseSections (lexN : List Char → Option α) (toks : List Tok) :
    Option (List (LpBound α) × List String × List String) :=
  match optSection kwBounds (fun rest => parseBounds lexN (rest.length + 1) rest) [] toks with
  | none => none
  | some (bounds, toks) =>
    match optSection kwBinary parseNames [] toks with
    | none => none
    | some (bins, toks) =>
      match optSection kwGeneral parseNames [] toks with
      | none => none
      | some (gens, toks) =>
        match toks with
        | [.name w] => if isKw kwEnd w then some (bounds, bins, gens) else none
        | _ => none

def parseLP (lexN : List Char → Option α) (toks : List Tok) : Option (LpProblem α) :=
  match parseSense toks with
  | none => none
  | some (sense, toks) =>
    let (_, toks) := parseLabel toks
    match parseExpr lexN toks with
    | none => none
    | some (obj, k, toks) =>
      match parseSubjectTo toks with
      | none => none
      | some toks =>
        match parseRows lexN (toks.length + 1) toks with
        | none => none
        | some (rows, toks) =>
          match parseSections lexN toks with
          | none => none
          | some (bounds, bins, gens) =>
            some { sense := sense, obj := obj, objConst := k, rows := rows, bounds := bounds,
                   binaries := bins, generals := gens }

/-- The independent LP reader. -/
def readLP (lexN : List Char → Option α) (text : List Char) : Option (LpProblem α) :=
  match lexLP text with
  | none => none
  | some toks => parseLP lexN toks

/-! #### what a problem says about one variable -/

/-- one `Bounds` entry applied to the range known so far for variable `v`. -/
def rangeStep (v : String) (acc : α × α) (b : LpBound α) : α × α :=
  if b.var == v then
    ((match b.lo with | some l => l | none => acc.1), (match b.hi with | some u => u | none => acc.2))
  else acc

/-- the default range of a variable that has no `Bounds` entry is `[0, +inf)`; later entries
override earlier ones side by side; a `Binary` variable has range `[0, 1]`. -/
def rangeOf (p : LpProblem α) (v : String) : α × α :=
  if p.binaries.contains v then (zero, one) else p.bounds.foldl (rangeStep v) (zero, posInf)

inductive Kind | continuous | binary | general
  deriving DecidableEq, Repr, Inhabited

def kindOf (p : LpProblem α) (v : String) : Kind :=
  if p.binaries.contains v then .binary else if p.generals.contains v then .general else .continuous

/-! ### What the export is supposed to denote -/

/-- non-zero terms `coefficient · variable`, in variable order. -/
def denoteTerms : List α → List String → List (String × α)
  | c :: cs, v :: vs => if isZero c then denoteTerms cs vs else (v, c) :: denoteTerms cs vs
  | _, _ => []

def denoteRel : Cmp → Rel
  | .le | .lt => .le
  | .ge | .gt => .ge
  | .eq => .eq

def denoteRows (vars : List String) : List (List Char) → List (LinRow α) → List (LpRow α)
  | n :: ns, r :: rs =>
    { name := String.ofList n, terms := denoteTerms r.coeffs vars, lhsConst := zero,
      rel := denoteRel r.cmp, rhs := r.rhs } :: denoteRows vars ns rs
  | _, _ => []

def denoteBounds : List (DomVar α) → List (LpBound α)
  | [] => []
  | d :: ds =>
    match d.ty with
    | .bool => denoteBounds ds
    | .int lo hi => { var := d.name, lo := some (ofInt lo), hi := some (ofInt hi) } :: denoteBounds ds
    | .nnreal lo hi =>
      if !(Arith.eq lo zero && Arith.eq hi posInf) then { var := d.name, lo := some lo, hi := some hi } :: denoteBounds ds
      else denoteBounds ds
    | .real lo hi => { var := d.name, lo := some lo, hi := some hi } :: denoteBounds ds

/-- The LP problem a linear model stands for.  `Satisfy` has no counterpart in the LP format; the
export (and every solver front end of rooc) treats it as `Minimize`. -/
def denote (lm : LinModel α) : LpProblem α :=
  { sense := match lm.optType with | .max => .max | _ => .min
    obj := denoteTerms lm.objective lm.vars
    objConst := lm.offset
    rows := denoteRows lm.vars (rowNames lm.rows) lm.rows
    bounds := denoteBounds lm.domain
    binaries := binaryNames lm.domain
    generals := generalNames lm.domain }

/-- the range a domain gives its variable. -/
def domainRange : VarType α → α × α
  | .bool => (zero, one)
  | .int lo hi => (ofInt lo, ofInt hi)
  | .nnreal lo hi => (lo, hi)
  | .real lo hi => (lo, hi)

def domainKind : VarType α → Kind
  | .bool => .binary
  | .int _ _ => .general
  | _ => .continuous

end Reader
end Rooc.Lp
