/-
Shadow arithmetic for the C07 oracle (import-free): every number is a pair (`Float` value, exact value of the SAME
operation sequence).  All decisions (comparisons, `isNaN`, `max`/`min` selection, the integer cast) are taken on the
`Float` component, so a run of the analyzer at `Shadow` follows exactly the control path of the run at `Float`
(and of the implementation, when model and implementation agree) and its second components are what that
path computes in exact arithmetic.

Why: the theorems of `Rooc/Props/C07*.lean` say that the analysis is sound in exact arithmetic.  So, when the
implementation publishes a range that misses an exactly feasible point, either
 (a) the exact value of the same operation sequence contains the point — the escape is the accumulated rounding error
     of that one end point (`…-float-rounding`; the oracle reports the two values), or
 (b) it does not — then some branch was decided on a rounded value differently from exact arithmetic (a coefficient
     that underflowed to zero and was dropped, a sign, a tolerance gate), `…-float-decision`.
There is no third case while model and implementation agree bit for bit.
-/
import Rooc.Bounds
import Rooc.Wire
namespace Rooc

structure Shadow where
  f : Float
  e : Ext Rat

namespace Shadow
def sel (c : Bool) (a b : Shadow) : Shadow := if c then a else b

instance : Arith Shadow where
  ofInt i := ⟨Arith.ofInt i, Arith.ofInt i⟩
  posInf := ⟨Arith.posInf, Arith.posInf⟩
  negInf := ⟨Arith.negInf, Arith.negInf⟩
  nan := ⟨Arith.nan, Arith.nan⟩
  add a b := ⟨Arith.add a.f b.f, Arith.add a.e b.e⟩
  sub a b := ⟨Arith.sub a.f b.f, Arith.sub a.e b.e⟩
  mul a b := ⟨Arith.mul a.f b.f, Arith.mul a.e b.e⟩
  div a b := ⟨Arith.div a.f b.f, Arith.div a.e b.e⟩
  neg a := ⟨Arith.neg a.f, Arith.neg a.e⟩
  abs a := ⟨Arith.abs a.f, Arith.abs a.e⟩
  floor a := ⟨Arith.floor a.f, Arith.floor a.e⟩
  ceil a := ⟨Arith.ceil a.f, Arith.ceil a.e⟩
  -- selection by the Float component (same rule as `floatMax` / `floatMin`)
  fmax a b := if a.f.isNaN then b else if b.f.isNaN then a else if a.f < b.f then b else a
  fmin a b := if a.f.isNaN then b else if b.f.isNaN then a else if b.f < a.f then b else a
  lt a b := Arith.lt a.f b.f
  le a b := Arith.le a.f b.f
  eq a b := Arith.eq a.f b.f
  isNaN a := Arith.isNaN a.f
  isFinite a := Arith.isFinite a.f
  toI32 a := Arith.toI32 a.f
  toI64 a := Arith.toI64 a.f

instance : Wire Shadow where
  ofBits b := ⟨Wire.ofBits b, Wire.ofBits b⟩
  enc a := Wire.enc a.f
end Shadow
end Rooc
