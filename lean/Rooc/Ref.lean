/-
M10 — reference interpreter: exhaustive enumeration of the declared discrete domains and direct
evaluation with `Sem.eval` / `Sem.srcFeasible`.  Runs at `K = Rat`.  Import-free.
-/
import Rooc.SemModel
namespace Rooc
namespace Ref
variable {K : Type} [ExactField K]
open ExactField Sem

/-- the finitely many values of a discrete domain (`none` for a continuous one). -/
def domainValues : VarType (Ext K) → Option (List K)
  | .bool => some [kzero, kone]
  | .int lo hi => some ((List.range (hi - lo + 1).toNat).map fun (i : Nat) => ofInt (lo + (i : Int)))
  | _ => none

/-- all assignments of the USED declared variables (association lists), `none` if one is continuous. -/
def assignments : List (DomVar (Ext K)) → Option (List (List (String × K)))
  | [] => some [[]]
  | d :: ds =>
    if d.usage == 0 then assignments ds else
    match domainValues d.ty, assignments ds with
    | some vs, some rest => some (rest.flatMap fun a => vs.map fun v => (d.name, v) :: a)
    | _, _ => none

def lookup (a : List (String × K)) (s : String) : K :=
  match a.find? (·.1 == s) with
  | some p => p.2
  | none => kzero

inductive Verdict (K : Type) where
  | infeasible
  | feasibleAny (witness : List (String × K))              -- satisfy objective
  | optimal (value : K) (witness : List (String × K))
  | undefinedObjective
  | continuous                                             -- not enumerable
  deriving Repr

def better (o : OptType) (a b : K) : Bool :=
  match o with
  | .min => lt a b
  | .max => lt b a
  | .satisfy => false

/-- best (value, witness) of a list of feasible points, first-best wins. -/
def best (o : OptType) : List (K × List (String × K)) → Option (K × List (String × K))
  | [] => none
  | p :: ps => some (ps.foldl (fun acc q => if better o q.1 acc.1 then q else acc) p)

def refSolve (m : Model (Ext K)) : Verdict K :=
  match assignments m.domain with
  | none => .continuous
  | some asg =>
    let feas := asg.filter fun a => srcFeasible m (lookup a)
    match feas with
    | [] => .infeasible
    | w :: _ =>
      match m.optType with
      | .satisfy => .feasibleAny w
      | o =>
        let vals := feas.map fun a => (eval (lookup a) m.objective, a)
        if vals.any (fun p => p.1.isNone) then .undefinedObjective else
        match best o (vals.filterMap fun p => p.1.map fun v => (v, p.2)) with
        | some (v, w) => .optimal v w
        | none => .infeasible

end Ref
end Rooc
