/- Exact-arithmetic oracle for C07 (run at `Ext Rat`). Import-free. -/
import Rooc.Bounds
import Rooc.Oracle
import Rooc.WireModel
namespace Rooc
namespace BoundsOracle
open Sexp
def check (_tol : Sexp) (_d _cs _es _vs _bs _d' : List Sexp) : Sexp := app "err" [.atom "not-built"]
end BoundsOracle
end Rooc
