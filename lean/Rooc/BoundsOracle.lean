/-
Exact-arithmetic oracle for C07 (runs at `Ext Rat`).  Import-free.

It evaluates the PROPERTY on the implementation's published ranges, independently of the model's
propagation rules:
 A. source-feasible points (exact `Sem.eval` of every constraint, declared domains) are enumerated on a
    grid of candidate values per variable and each must lie inside every published variable range and
    inside the tightened domain;
 B. points of the published variable box are sampled and `eval e` must lie inside the published
    `bounds_of(e)` for every listed expression.
The model is used in one place only: an exact run with a small step cap supplies *candidate coordinates*
(e.g. the exact `1/3`); whether a candidate point is feasible is decided by `Sem.eval` alone.

The implementation rounds to nearest and not outwards, so an exact feasible point may sit a few ulps
outside a published range.  An escape whose size relative to the magnitude of the data of the instance is
at most `floatSlack` is counted (and the worst one reported in the answer) but is not a violation.
-/
import Rooc.Bounds
import Rooc.BoundsShadow
import Rooc.Oracle
import Rooc.WireModel
namespace Rooc
namespace BoundsOracle
open Sexp Sem

abbrev E := Ext Rat

def floatSlack : Rat := 1 / 1000000000000   -- 1e-12, relative

section enc
variable {α : Type} [Arith α] [Wire α]
/-- NaN payloads are not part of the protocol: every NaN crosses as `#x7ff8000000000000`. -/
def canon (v : α) : α := if Arith.isNaN v then Wire.ofBits 0x7ff8000000000000 else v
def canonTy : VarType α → VarType α
  | .nnreal a b => .nnreal (canon a) (canon b)
  | .real a b => .real (canon a) (canon b)
  | t => t
def encBounds (b : Bounds α) : Sexp := app "b" [encNum (canon b.lower), encNum (canon b.upper)]
def encReport (r : BoundsReport α) : Sexp :=
  app "ok" [app "vars" (r.variables.map fun p => encBounds p.2),
            app "exprs" (r.expressions.map encBounds),
            app "domain" (r.domain.map fun d => DomVar.enc { d with ty := canonTy d.ty })]
def decInstance (d cs es : List Sexp) : Option (List (DomVar α) × List (Constraint α) × List (Exp α)) := do
  let d ← optAll (d.map DomVar.dec)
  let cs ← optAll (cs.map Constraint.dec)
  let es ← optAll (es.map Exp.dec)
  pure (d, cs, es)
end enc

/-- does the model, run at `Float` on the same request, reproduce the implementation's answer bit for bit? -/
def floatModelAgrees (lin : Bool) (maxSteps : Nat) (tol : Sexp) (d cs es : List Sexp) (impl : Sexp) : Bool :=
  match (decNumS tol : Option Float), decInstance (α := Float) d cs es with
  | some tol, some (d, cs, es) =>
    let r := if lin then linearizerBounds d cs tol maxSteps else analyzeBounds d cs es tol maxSteps
    encReport r == impl
  | _, _ => false

/-- the analyzer state of the same run at `Shadow` (Float control path, exact values of the same operations),
provided its `Float` components reproduce the implementation's answer bit for bit. -/
def shadowAnalyzer (lin : Bool) (maxSteps : Nat) (tol : Sexp) (d cs es : List Sexp) (impl : Sexp) : Option (Analyzer Shadow) :=
  match (decNumS tol : Option Shadow), decInstance (α := Shadow) d cs es with
  | some tol, some (d, cs, es) =>
    let an0 := Analyzer.analyze d cs tol maxSteps
    let an := if lin then an0.enforceable d else an0
    let r : BoundsReport Shadow :=
      { variables := d.map fun dv => (dv.name, Analyzer.boundsOf an.variableBounds (.var dv.name))
        expressions := if lin then [] else es.map (Analyzer.boundsOf an.variableBounds)
        domain := an.applyToDomain d }
    if encReport r == impl then some an else none
  | _, _ => none

def rabs (q : Rat) : Rat := if q < 0 then -q else q
def rmax (a b : Rat) : Rat := if a < b then b else a

/-- `d.dd e±k` rendering of a non-negative rational (reporting only). -/
def sci (q : Rat) : String :=
  if q ≤ 0 then "0" else
  let rec up (fuel : Nat) (q : Rat) (e : Int) : Rat × Int :=
    match fuel with
    | 0 => (q, e)
    | f+1 => if q < 1 then up f (q * 10) (e - 1) else (q, e)
  let rec down (fuel : Nat) (q : Rat) (e : Int) : Rat × Int :=
    match fuel with
    | 0 => (q, e)
    | f+1 => if q ≥ 10 then down f (q / 10) (e + 1) else (q, e)
  let (q1, e1) := up 700 q 0
  let (q2, e2) := down 700 q1 e1
  let m := (q2 * 100).floor
  s!"{m / 100}.{if m % 100 < 10 then "0" else ""}{m % 100}e{e2}"

def decB : Sexp → Option (Bounds E)
  | .list [.atom "b", lo, hi] => do pure ⟨← decNumS lo, ← decNumS hi⟩
  | _ => none

def finVal : E → Option Rat
  | .fin q => some q
  | _ => none

def within (x : Rat) (b : Bounds E) : Bool := Ext.le b.lower (.fin x) && Ext.le (.fin x) b.upper

/-- how far `x` lies outside `b` (`none` = a NaN endpoint: nothing is inside). -/
def escape (x : Rat) (b : Bounds E) : Option Rat :=
  match b.lower, b.upper with
  | .nan, _ | _, .nan => none
  | lo, hi =>
    let below : Rat := match lo with
      | .fin l => if x < l then l - x else 0
      | .pinf => 1000000000000000000000000000000    -- lower = +inf: nothing is inside
      | _ => 0
    let above : Rat := match hi with
      | .fin h => if h < x then x - h else 0
      | .ninf => 1000000000000000000000000000000
      | _ => 0
    some (rmax below above)

/-- `InDomain` of DESIGN.md appendix A; `NonNegativeReal(a,b)` is read as `0 ≤ x ∧ a ≤ x ≤ b`. -/
def inDomain (t : VarType E) (x : Rat) : Bool :=
  match t with
  | .bool => x == 0 || x == 1
  | .int lo hi => x.den == 1 && (lo : Rat) ≤ x && x ≤ (hi : Rat)
  | .real lo hi => within x ⟨lo, hi⟩
  | .nnreal lo hi => 0 ≤ x && within x ⟨lo, hi⟩

def holds (ρ : String → Rat) (c : Constraint E) : Bool :=
  match eval ρ c.lhs, eval ρ c.rhs with
  | some l, some r =>
    match c.cmp with
    | .le => l ≤ r | .ge => l ≥ r | .eq => l == r | .lt => l < r | .gt => l > r
  | _, _ => false

partial def literals : Exp E → List Rat
  | .num (.fin q) => [q]
  | .num _ | .var _ => []
  | .abs e | .not e | .un _ e => literals e
  | .min es | .max es | .and es | .or es => es.flatMap literals
  | .xor a b | .implies a b | .iff a b | .bin _ a b => literals a ++ literals b

/-- `1.0 / d` overflows to ±inf in IEEE double (round to nearest): `1/|d| ≥ 2^1024 − 2^970`. -/
def reciprocalOverflows (d : Rat) : Bool :=
  d != 0 && 1 / rabs d ≥ (2 : Rat) ^ (1024 : Nat) - (2 : Rat) ^ (970 : Nat)

partial def hasReciprocalOverflow : Exp E → Bool
  | .num _ | .var _ => false
  | .abs e | .not e | .un _ e => hasReciprocalOverflow e
  | .min es | .max es | .and es | .or es => es.any hasReciprocalOverflow
  | .bin .div a (.num (.fin d)) => reciprocalOverflows d || hasReciprocalOverflow a
  | .xor a b | .implies a b | .iff a b | .bin _ a b => hasReciprocalOverflow a || hasReciprocalOverflow b

def f64Overflows (q : Rat) : Bool := rabs q ≥ (2 : Rat) ^ (1024 : Nat) - (2 : Rat) ^ (970 : Nat)

/-- some affine sub-expression has (exactly) a coefficient, a constant or a reciprocal of a divisor that
overflows IEEE double: `AffineForm::from_exp` then carries an infinite coefficient. -/
partial def formOverflows (e : Exp E) : Bool :=
  let here : Bool := match AffineForm.fromExp e with
    | some f => f.coefficients.any (fun p => match p.2 with | .fin q => f64Overflows q | _ => false)
                || (match f.constant with | .fin q => f64Overflows q | _ => false)
    | none => false
  here || match e with
    | .num _ | .var _ => false
    | .abs a | .not a | .un _ a => formOverflows a
    | .min es | .max es | .and es | .or es => es.any formOverflows
    | .bin .div a (.num (.fin d)) => reciprocalOverflows d || formOverflows a
    | .xor a b | .implies a b | .iff a b | .bin _ a b => formOverflows a || formOverflows b

def dedupQ (xs : List Rat) : List Rat :=
  xs.foldl (fun acc x => if acc.contains x then acc else acc ++ [x]) []

/-- largest `k` with `k^n ≤ budget` (at least 2, at most 48). -/
def perVar (budget n : Nat) : Nat :=
  let rec go (k : Nat) (fuel : Nat) : Nat :=
    match fuel with
    | 0 => k
    | f+1 => if (k + 1) ^ n ≤ budget then go (k + 1) f else k
  if n == 0 then 1 else Nat.min 48 (Nat.max 2 (go 1 64))

def around (p : Rat) : List Rat := [p, p + 1, p - 1, p + 1/2, p - 1/2, p + 1/1000000, p - 1/1000000]

def endpoints (b : Bounds E) : List Rat := (finVal b.lower).toList ++ (finVal b.upper).toList

def midpoint (b : Bounds E) : List Rat :=
  match b.lower, b.upper with
  | .fin l, .fin h => [(l + h) / 2]
  | _, _ => []

/-- candidate coordinates for the feasible-point search, most promising first. -/
def feasCandidates (ty : Option (VarType E)) (pub exact : Bounds E) (lits : List Rat) (cap : Nat) : List Rat :=
  let decl : Bounds E := match ty with
    | some t => Bounds.ofVarType t
    | none => Bounds.unbounded
  let raw : List Rat :=
    endpoints exact ++ endpoints pub ++ midpoint exact ++ endpoints decl
      ++ (endpoints pub).flatMap around ++ [0, 1, -1] ++ midpoint decl ++ lits ++ (endpoints decl).flatMap around
      ++ [2, -2, 1/2, 1000, -1000]
  let isInt := match ty with | some (.int _ _) | some .bool => true | _ => false
  let raw := if isInt then raw.flatMap fun q => [((q.floor : Int) : Rat), ((q.ceil : Int) : Rat)] else raw
  -- a small integer range is enumerated completely
  let raw := match ty with
    | some (.int lo hi) => if hi - lo + 1 ≤ (cap : Int) ∧ lo ≤ hi then (List.range (hi - lo + 1).toNat).map (fun (i : Nat) => ((lo + (i : Int) : Int) : Rat)) else raw
    | some .bool => [0, 1]
    | _ => raw
  let ok := match ty with
    | some t => raw.filter (inDomain t)
    | none => raw
  (dedupQ ok).take cap

/-- sample coordinates inside a published range. -/
def boxCandidates (b : Bounds E) (lits : List Rat) (cap : Nat) : List Rat :=
  let raw : List Rat := match b.lower, b.upper with
    | .fin l, .fin h => [l, h, (l + h) / 2, l + (h - l) / 3, 0, l + 1, h - 1, 1, -1] ++ lits
    | .fin l, .pinf => [l, l + 1, l + 1000, 0, l + 7/2] ++ lits
    | .ninf, .fin h => [h, h - 1, h - 1000, 0, h - 7/2] ++ lits
    | .ninf, .pinf => [0, 1, -1, 1000, -1000, 7/2, -5/3] ++ lits
    | _, _ => []
  (dedupQ (raw.filter (within · b))).take cap

def grid : List (String × List Rat) → List (List (String × Rat))
  | [] => [[]]
  | (v, xs) :: rest => (grid rest).flatMap fun a => xs.map fun x => (v, x) :: a

def magnitude (xs : List Rat) : Rat := xs.foldl (fun m x => rmax m (rabs x)) 1

structure Acc where
  points : Nat := 0
  feasible : Nat := 0
  boxPoints : Nat := 0
  worstVar : Rat := 0
  worstExpr : Rat := 0
  violation : Option Sexp := none

def ratAtom (q : Rat) : Sexp := .atom (Wire.enc (Ext.fin q : E))

def check (lin : Bool) (maxSteps : Nat) (tolS : Sexp) (d csS esS : List Sexp) (impl : Sexp) (vs bs d' : List Sexp) : Sexp :=
  match (decNumS tolS : Option E), optAll (d.map (DomVar.dec (α := E))), optAll (csS.map (Constraint.dec (α := E))),
        optAll (esS.map (Exp.dec (α := E))), optAll (vs.map decB), optAll (bs.map decB), optAll (d'.map (DomVar.dec (α := E))) with
  | some tol, some dom, some cs, some es, some vs, some bs, some dom' =>
    if vs.length != dom.length || bs.length != es.length || dom'.length != dom.length then app "err" [.atom "shape"] else
    let declared := dom.map (·.name)
    let inCs := Oracle.dedup (cs.flatMap fun c => Oracle.vars c.lhs ++ Oracle.vars c.rhs)
    let inEs := Oracle.dedup (es.flatMap Oracle.vars)
    let undeclared := (Oracle.dedup (inCs ++ inEs)).filter (fun v => !(declared.contains v))
    -- published range of every variable: declared ones from `vars`, undeclared ones from a `(var u)` expression
    let pubOf (name : String) : Bounds E :=
      match (dom.zip vs).find? (·.1.name == name) with
      | some p => p.2
      | none =>
        match (es.zip bs).find? (fun p => match p.1 with | .var n => n == name | _ => false) with
        | some p => p.2
        | none => Bounds.unbounded
    let lits := dedupQ ((cs.flatMap fun c => literals c.lhs ++ literals c.rhs) ++ es.flatMap literals)
    let coefOverflow := cs.any fun c => formOverflows c.lhs || formOverflows c.rhs
    -- evaluated only when an escape was found (see `Rooc/BoundsShadow.lean` for the case distinction)
    let agrees (_ : Unit) : Bool := floatModelAgrees lin maxSteps tolS d csS esS impl
    let shadowKind (contained : Analyzer Shadow → Bool) : String :=
      if !(agrees ()) then "" else
      match shadowAnalyzer lin maxSteps tolS d csS esS impl with
      | some an =>
        if contained an then "-float-rounding"
        else if coefOverflow then "-coefficient-overflow" else "-float-decision"
      | none => ""
    let causeVar (name : String) (x : Rat) : String :=
      shadowKind fun an =>
        let b := Analyzer.varBounds an.variableBounds name
        within x ⟨b.lower.e, b.upper.e⟩
    let causeExpr (e : Option (Exp Shadow)) (x : Rat) : String :=
      shadowKind fun an =>
        match e with
        | some e => let b := Analyzer.boundsOf an.variableBounds e; within x ⟨b.lower.e, b.upper.e⟩
        | none => false
    let cause (_ : Unit) : String := if agrees () then "-float-rounding" else ""
    -- the exact value of the same operation sequence, reported next to the published range
    let samePath (f : Analyzer Shadow → Bounds Shadow) : List Sexp :=
      if !(agrees ()) then [] else
      match shadowAnalyzer lin maxSteps tolS d csS esS impl with
      | some an => let b := f an; [app "exact-of-same-path" [encNum b.lower.e, encNum b.upper.e]]
      | none => []
    let esSh : List (Option (Exp Shadow)) := esS.map (Exp.dec (α := Shadow))
    -- exact run of the model with a small step cap: candidate coordinates only
    let exact := Analyzer.analyze dom cs tol 40
    -- A. feasible points
    let relevant := dom.filter (fun dv => inCs.contains dv.name)
    let free := undeclared.filter (inCs.contains ·)
    let nA := relevant.length + free.length
    let capA := perVar 3000 nA
    let axesA : List (String × List Rat) :=
      (relevant.map fun dv => (dv.name, feasCandidates (some dv.ty) (pubOf dv.name) (Analyzer.varBounds exact.variableBounds dv.name) lits capA))
      ++ (free.map fun u => (u, feasCandidates none (pubOf u) (Analyzer.varBounds exact.variableBounds u) lits capA))
    let accA : Acc := (grid axesA).foldl (fun (acc : Acc) a =>
      if acc.violation.isSome then acc else
      let ρ := Oracle.lookup a
      let acc := { acc with points := acc.points + 1 }
      if !(cs.all (holds ρ)) then acc else
      let acc := { acc with feasible := acc.feasible + 1 }
      -- every published range (declared and undeclared) and every tightened domain
      a.foldl (fun (acc : Acc) (p : String × Rat) =>
        if acc.violation.isSome then acc else
        let pb := pubOf p.1
        match escape p.2 pb with
        | none =>
          { acc with violation := some (app "violation" [.atom "nan-range", .str p.1, Oracle.encAssign a]) }
        | some esc =>
          let rel := esc / rmax 1 (rabs p.2)
          if rel > floatSlack then
            { acc with violation := some (app "violation" ([.atom ("var-escape" ++ causeVar p.1 p.2), .str p.1, ratAtom p.2, encNum pb.lower, encNum pb.upper,
                .atom (sci rel), Oracle.encAssign a] ++ samePath fun an => Analyzer.varBounds an.variableBounds p.1)) }
          else
            let acc := { acc with worstVar := rmax acc.worstVar rel }
            match dom'.find? (·.name == p.1) with
            | none => acc
            | some dv =>
              -- tightened domain: same test, integrality included
              let tb : Bounds E := Bounds.ofVarType dv.ty
              match escape p.2 tb with
              | none => { acc with violation := some (app "violation" [.atom "nan-domain", .str p.1, Oracle.encAssign a]) }
              | some esc2 =>
                let rel2 := esc2 / rmax 1 (rabs p.2)
                -- a NonNegativeReal lower bound of the tightened domain is max(lower, 0): x ≥ 0 is part of the type
                if rel2 > floatSlack then
                  { acc with violation := some (app "violation" [.atom ("domain-escape" ++ cause ()), .str p.1, ratAtom p.2, dv.ty.enc,
                      .atom (sci rel2), Oracle.encAssign a]) }
                else { acc with worstVar := rmax acc.worstVar rel2 }) acc) {}
    match accA.violation with
    | some v => v
    | none =>
    -- B. expression enclosure on the published box
    let allVars := Oracle.dedup (declared.filter (inEs.contains ·) ++ undeclared.filter (inEs.contains ·))
    let capB := perVar 1500 allVars.length
    let axesB := allVars.map fun v => (v, boxCandidates (pubOf v) lits capB)
    let accB : Acc := (grid axesB).foldl (fun (acc : Acc) a =>
      if acc.violation.isSome then acc else
      let ρ := Oracle.lookup a
      let acc := { acc with boxPoints := acc.boxPoints + 1 }
      ((es.zip bs).zip esSh).foldl (fun (acc : Acc) (pq : (Exp E × Bounds E) × Option (Exp Shadow)) =>
        let p := pq.1
        if acc.violation.isSome then acc else
        match eval ρ p.1 with
        | none => acc
        | some val =>
          match escape val p.2 with
          | none =>
            -- root cause: a division by a literal whose reciprocal overflows in f64 (`div_by` scales by `1.0 / d`)
            let kind := if hasReciprocalOverflow p.1 then "nan-expr-range-divby-subnormal" else "nan-expr-range"
            { acc with violation := some (app "violation" [.atom kind, p.1.enc, Oracle.encAssign a]) }
          | some esc =>
            let rel := esc / rmax 1 (rabs val)
            if rel > floatSlack then
              { acc with violation := some (app "violation" [.atom ("expr-escape" ++ causeExpr pq.2 val), p.1.enc, ratAtom val, encNum p.2.lower, encNum p.2.upper,
                  .atom (sci rel), Oracle.encAssign a]) }
            else { acc with worstExpr := rmax acc.worstExpr rel }) acc) accA
    match accB.violation with
    | some v => v
    | none => app "ok" [.atom (toString accB.points), .atom (toString accB.feasible), .atom (toString accB.boxPoints),
                        .atom (sci accB.worstVar), .atom (sci accB.worstExpr)]
  | _, _, _, _, _, _, _ => app "err" [.atom "decode"]

/-! ### auxiliary ranges of a compiled model

`Linearizer::linearize` declares auxiliaries (`$max_k`, `$min_k`, `$abs_k`, selectors …) whose declared range is the
compiler's claim about a sub-expression.  Without knowing that sub-expression: every row of the compiled model in
which exactly ONE auxiliary occurs (all other variables being source variables) bounds that auxiliary at a given
source point; any feasible extension of a source-feasible point has to satisfy all of them AND lie in the declared
range.  So if, at some source-feasible point, the rows leave no value inside the published range, the published range
misses the value the auxiliary stands for (e.g. `$max_0 - x >= 0` at `x = 9` against `$max_0 ∈ [0, 5]`). -/

def isAux (n : String) : Bool := n.startsWith "$"

structure AuxIv where
  lo : E := .ninf
  hi : E := .pinf

def emax (a b : E) : E := if Ext.lt a b then b else a
def emin (a b : E) : E := if Ext.lt b a then b else a

/-- the interval a single-auxiliary row leaves for its auxiliary at `ρ` (`none`: not such a row). -/
def rowBound (vars : List String) (assigned : List (String × Rat)) (r : LinRow E) : Option (String × AuxIv) :=
  let terms := (vars.zip r.coeffs).filter fun p => match p.2 with | .fin c => c != 0 | _ => true
  let auxs := terms.filter (fun p => isAux p.1)
  match auxs, r.rhs with
  | [(a, .fin c)], .fin rhs =>
    let others := terms.filter (fun p => !(isAux p.1))
    let vals := others.map fun p => match p.2, assigned.find? (·.1 == p.1) with
      | .fin cj, some q => some (cj * q.2)
      | _, _ => none
    if vals.any Option.isNone then none else
    let s : Rat := vals.foldl (fun acc v => acc + v.getD 0) 0
    let b : Rat := (rhs - s) / c
    let upper : AuxIv := { hi := .fin b }
    let lower : AuxIv := { lo := .fin b }
    match r.cmp, decide (c > 0) with
    | .le, true | .lt, true | .ge, false | .gt, false => some (a, upper)
    | .ge, true | .gt, true | .le, false | .lt, false => some (a, lower)
    | .eq, _ => some (a, { lo := .fin b, hi := .fin b })
  | _, _ => none

def checkAux (tolS : Sexp) (d csS : List Sexp) (lmS : Sexp) : Sexp :=
  match (decNumS tolS : Option E), optAll (d.map (DomVar.dec (α := E))), optAll (csS.map (Constraint.dec (α := E))),
        (LinModel.dec lmS : Option (LinModel E)) with
  | some tol, some dom, some cs, some lm =>
    let inCs := Oracle.dedup (cs.flatMap fun c => Oracle.vars c.lhs ++ Oracle.vars c.rhs)
    let lits := dedupQ (cs.flatMap fun c => literals c.lhs ++ literals c.rhs)
    let exact := Analyzer.analyze dom cs tol 40
    let relevant := dom.filter (fun dv => inCs.contains dv.name)
    if inCs.any (fun v => !(dom.any (·.name == v))) then app "ok" [.atom "skipped-undeclared"] else
    let cap := perVar 3000 relevant.length
    let axes := relevant.map fun dv =>
      (dv.name, feasCandidates (some dv.ty) (Bounds.ofVarType dv.ty) (Analyzer.varBounds exact.variableBounds dv.name) lits cap)
    let auxDoms := lm.domain.filter (fun dv => isAux dv.name)
    let res : Nat × Nat × Option Sexp := (grid axes).foldl (fun (acc : Nat × Nat × Option Sexp) a =>
      if acc.2.2.isSome then acc else
      let ρ := Oracle.lookup a
      if !(cs.all (holds ρ)) then (acc.1 + 1, acc.2.1, none) else
      let ivs := lm.rows.filterMap (rowBound lm.vars a)
      let bad := auxDoms.findSome? fun dv =>
        let decl : Bounds E := Bounds.ofVarType dv.ty
        let mine := ivs.filter (·.1 == dv.name)
        let lo := mine.foldl (fun acc p => emax acc p.2.lo) decl.lower
        let hi := mine.foldl (fun acc p => emin acc p.2.hi) decl.upper
        let integral := match dv.ty with | .bool | .int _ _ => true | _ => false
        match lo, hi with
        | .fin l, .fin h =>
          let slack : Rat := rmax 1 (rmax (rabs l) (rabs h)) / 1000000000
          let empty := if integral then ((l - slack).ceil : Int) > ((h + slack).floor : Int) else l > h + slack
          if empty then some (app "violation" [.atom "aux-range-excludes-defining-value", .str dv.name, dv.ty.enc,
            app "rows-need" [ratAtom l, ratAtom h], Oracle.encAssign a]) else none
        | .pinf, _ | _, .ninf | .nan, _ | _, .nan =>
          some (app "violation" [.atom "aux-range-excludes-defining-value", .str dv.name, dv.ty.enc, Oracle.encAssign a])
        | _, _ => none
      (acc.1 + 1, acc.2.1 + 1, bad)) (0, 0, none)
    match res.2.2 with
    | some v => v
    | none => app "ok" [.atom (toString res.1), .atom (toString res.2.1), .atom (toString auxDoms.length)]
  | _, _, _, _ => app "err" [.atom "decode"]

end BoundsOracle
end Rooc
