/-
Textual renderings of compiled models (C12).  Ports of
* `impl Display for Exp`, `Exp::to_string_with_precedence`, `Exp::is_leaf`, `logic_operand_to_string`,
  `impl Display for Objective / Constraint / Model`  (parser/model_transformer/model.rs),
* `impl Display for LinearModel` (transformers/linear_model.rs), `format_var`
  (transformers/standard_linear_model.rs), `float_lt` (math/math_utils.rs),
* `format_domain` (parser/domain_declaration.rs), `impl Display for VariableType`, `Comparison`,
  `OptimizationType` (math/math_enums.rs), `BinOp`, `UnOp` (math/operators.rs).
Numbers are OPAQUE TOKENS: `tok v` is the string Rust's `f64` `Display` printed for `v`.
Import-free.
-/
import Rooc.Model
import Rooc.Gen.Prec
import Rooc.Gen.Consts
namespace Rooc.Display
open Rooc Arith

def binOpStr : BinOp → String
  | .add => "+" | .sub => "-" | .mul => "*" | .div => "/" | .and => "and" | .or => "or"
  | .xor => "xor" | .implies => "implies" | .iff => "iff"
/-- `impl Display for UnOp` (note the blank after `not`). -/
def unOpStr : UnOp → String | .neg => "-" | .not => "not "
def cmpStr : Cmp → String | .le => "<=" | .ge => ">=" | .eq => "=" | .lt => "<" | .gt => ">"
def optStr : OptType → String | .min => "min" | .max => "max" | .satisfy => "solve"

/-- `xs.join(sep)` -/
def joinWith (sep : String) : List String → String
  | [] => ""
  | [x] => x
  | x :: xs => x ++ sep ++ joinWith sep xs

section
variable {α : Type}

/-- `Exp::is_leaf`. -/
def isLeaf : Exp α → Bool
  | .bin _ _ _ | .un _ _ | .and _ | .or _ | .not _ | .xor _ _ | .implies _ _ | .iff _ _ => false
  | _ => true

/-- `logic_operand_to_string`, given the operand's own rendering `s`. -/
def logicOperand (e : Exp α) (s : String) : String :=
  if isLeaf e then s
  else match e with
    | .not inner => if isLeaf inner then s else "(" ++ s ++ ")"
    | _ => "(" ++ s ++ ")"

/-- `needs_parens` of `Exp::operand_to_string`: the operand `op` binds weaker than `parent`, or
equally and sits on the side the associativity does not favour. -/
def parensRule (parent : BinOp) (isRhs : Bool) (op : BinOp) : Bool :=
  let sameLevelNeedsParens := if isRhs then Gen.binLeftAssoc parent else !Gen.binLeftAssoc op
  decide (Gen.binPrec op < Gen.binPrec parent) || (Gen.binPrec op == Gen.binPrec parent && sameLevelNeedsParens)

/-- the `Exp::And | Or | Xor | Implies | Iff` arm of `operand_to_string`: as an operand of a `BinOp` the
dedicated logic nodes are parenthesised (their own `Display` prints no parentheses). -/
def logicWrap (ctx : Option (BinOp × Bool)) (s : String) : String :=
  match ctx with
  | none => s
  | some _ => "(" ++ s ++ ")"

/-- `ctx = none`: `impl Display for Exp`;  `ctx = some (parent, isRhs)`: `operand_to_string(parent, is_rhs)`
(which falls back to `Display` for everything but a `BinOp`; `to_string_with_precedence(last)` is
`operand_to_string(last, false)`). -/
def showE (tok : α → String) : Option (BinOp × Bool) → Exp α → String
  | ctx, .bin op lhs rhs =>
    let rendered := showE tok (some (op, false)) lhs ++ " " ++ binOpStr op ++ " " ++ showE tok (some (op, true)) rhs
    match ctx with
    | none => rendered
    | some (parent, isRhs) => if parensRule parent isRhs op then "(" ++ rendered ++ ")" else rendered
  | _, .num v => tok v
  | _, .var n => n
  | _, .abs e => "abs{ " ++ showE tok none e ++ " }"
  | ctx, .and es => logicWrap ctx (joinWith " and " (es.map fun e => logicOperand e (showE tok none e)))
  | ctx, .or es => logicWrap ctx (joinWith " or " (es.map fun e => logicOperand e (showE tok none e)))
  | _, .not e => if isLeaf e then "not " ++ showE tok none e else "not (" ++ showE tok none e ++ ")"
  | ctx, .xor a b => logicWrap ctx (logicOperand a (showE tok none a) ++ " xor " ++ logicOperand b (showE tok none b))
  | ctx, .implies a b => logicWrap ctx (logicOperand a (showE tok none a) ++ " implies " ++ logicOperand b (showE tok none b))
  | ctx, .iff a b => logicWrap ctx (logicOperand a (showE tok none a) ++ " iff " ++ logicOperand b (showE tok none b))
  | _, .min es => "min{ " ++ joinWith ", " (es.map fun e => showE tok none e) ++ " }"
  | _, .max es => "max{ " ++ joinWith ", " (es.map fun e => showE tok none e) ++ " }"
  | _, .un op e =>
    if isLeaf e then unOpStr op ++ showE tok none e else unOpStr op ++ "(" ++ showE tok none e ++ ")"

/-- `impl Display for Exp`. -/
def displayExp (tok : α → String) (e : Exp α) : String := showE tok none e

/-- `impl Display for Constraint`. -/
def displayConstraint (tok : α → String) (c : Constraint α) : String :=
  let name := if c.name.isEmpty then "" else c.name ++ ": "
  if c.isAssert then name ++ displayExp tok c.lhs
  else name ++ displayExp tok c.lhs ++ " " ++ cmpStr c.cmp ++ " " ++ displayExp tok c.rhs
end

section Numeric
variable {α : Type} [Arith α]

def intStr (i : Int) : String := toString i

/-- `domain_bound_to_string`: the infinities are the constants `Infinity` / `MinusInfinity` on either side. -/
def domainBoundStr (tok : α → String) (v : α) : String :=
  if Arith.eq v posInf then "Infinity" else if Arith.eq v negInf then "MinusInfinity" else tok v

/-- `impl Display for VariableType`. -/
def varTypeStr (tok : α → String) : VarType α → String
  | .bool => "Boolean"
  | .nnreal lo hi =>
    if Arith.eq lo zero && Arith.eq hi posInf then "NonNegativeReal"
    else "NonNegativeReal(" ++ domainBoundStr tok lo ++ ", " ++ domainBoundStr tok hi ++ ")"
  | .real lo hi =>
    if Arith.eq lo negInf && Arith.eq hi posInf then "Real"
    else "Real(" ++ domainBoundStr tok lo ++ ", " ++ domainBoundStr tok hi ++ ")"
  | .int lo hi => "IntegerRange(" ++ intStr lo ++ ", " ++ intStr hi ++ ")"

/-- `domain_groups.entry(type_str).or_default().push(name)` on an insertion-ordered map. -/
def groupInsert (ty name : String) : List (String × List String) → List (String × List String)
  | [] => [(ty, [name])]
  | (t, ns) :: rest => if t == ty then (t, ns ++ [name]) :: rest else (t, ns) :: groupInsert ty name rest

/-- `format_domain`. -/
def formatDomain (tok : α → String) (domain : List (DomVar α)) : String :=
  let groups := domain.foldl (fun g d => groupInsert (varTypeStr tok d.ty) d.name g) []
  joinWith "\n" (groups.map fun (t, ns) => joinWith ", " ns ++ " as " ++ t)

/-- split a string at `'\n'` (Rust `str::split("\n")`). -/
def splitNl (s : String) : List String :=
  let rec go : List Char → List Char → List String
    | [], cur => [String.ofList cur.reverse]
    | c :: cs, cur => if c == '\n' then String.ofList cur.reverse :: go cs [] else go cs (c :: cur)
  go s.toList []

/-- the `define` block shared by `Model` and `LinearModel` Display. -/
def domainBlock (tok : α → String) (domain : List (DomVar α)) : String :=
  if !domain.isEmpty then "\ndefine\n    " ++ joinWith "\n    " (splitNl (formatDomain tok domain)) else ""

/-- `impl Display for Model`. -/
def displayModel (tok : α → String) (m : Model α) : String :=
  -- `impl Display for Objective`: `solve` takes no expression
  (match m.optType with
   | .satisfy => optStr m.optType
   | _ => optStr m.optType ++ " " ++ displayExp tok m.objective) ++ "\ns.t.\n    "
    ++ joinWith "\n    " (m.constraints.map (displayConstraint tok)) ++ domainBlock tok m.domain

/-- `10_f64.powi(-(NEAR_ZERO_PRECISION as i32))` -/
def nearZeroTol : α := Arith.div one (ofInt (10 ^ Gen.nearZeroPrecision : Nat))

/-- `float_lt`: `a < b && !((a - b).abs() < tol)`. -/
def floatLt (a b : α) : Bool := Arith.lt a b && !(Arith.lt (Arith.abs (Arith.sub a b)) nearZeroTol)

/-- `f64::is_zero`. -/
def isZero (c : α) : Bool := Arith.eq c zero

/-- the two decisions of `format_var`: is a minus sign shown, and which magnitude token (none for ±1). -/
def formatVarParts (value : α) : Bool × Option α :=
  (Arith.lt value zero,
   if Arith.eq value one || Arith.eq value (Arith.neg one) then none else some (Arith.abs value))

/-- `format_var`. -/
def formatVar (tok : α → String) (name : String) (value : α) (isFirst : Bool) : String :=
  let parts := formatVarParts value
  let sign := if parts.1 then "- " else if isFirst then "" else "+ "
  let num := match parts.2 with | none => "" | some m => tok m
  sign ++ num ++ name

/-- the coefficient a reader takes from a rendered term: sign times magnitude (1 when omitted). -/
def termValue (parts : Bool × Option α) : α :=
  let m := match parts.2 with | none => one | some m => m
  if parts.1 then Arith.neg m else m

/-- the `enumerate().flat_map(..)` loop over a coefficient vector; `none` = `self.variables[i]` out of range
(index panic). -/
def termStrings (tok : α → String) : List α → List String → Bool → Option (List String)
  | [], _, _ => some []
  | c :: cs, vs, isFirst =>
    if isZero c then termStrings tok cs vs.tail isFirst
    else match vs with
      | [] => none
      | v :: vs' => (termStrings tok cs vs' false).map (formatVar tok v c isFirst :: ·)

def lhsString (tok : α → String) (coeffs : List α) (vars : List String) : Option String :=
  (termStrings tok coeffs vars true).map fun ts =>
    let s := joinWith " " ts
    if s.isEmpty then "0" else s

def rowString (tok : α → String) (vars : List String) (r : LinRow α) : Option String :=
  (lhsString tok r.coeffs vars).map fun lhs =>
    let rhs := if isZero r.rhs then "0" else tok r.rhs
    let name := if r.name.isEmpty then "" else r.name ++ ": "
    "    " ++ name ++ lhs ++ " " ++ cmpStr r.cmp ++ " " ++ rhs

def allSome {β : Type} : List (Option β) → Option (List β)
  | [] => some []
  | none :: _ => none
  | some x :: xs => (allSome xs).map (x :: ·)

/-- `impl Display for LinearModel`. -/
def displayLin (tok : α → String) (lm : LinModel α) : Option String :=
  match allSome (lm.rows.map (rowString tok lm.vars)), lhsString tok lm.objective lm.vars with
  | some rows, some objective =>
    let offset :=
      if isZero lm.offset then ""
      else if floatLt lm.offset zero then " - " ++ tok (Arith.abs lm.offset)
      else " + " ++ tok lm.offset
    -- `solve` takes no expression in the grammar
    let objective := match lm.optType with
      | .satisfy => ""
      | _ => " " ++ objective ++ offset
    some (optStr lm.optType ++ objective ++ "\ns.t.\n" ++ joinWith "\n" rows ++ domainBlock tok lm.domain)
  | _, _ => none

end Numeric
end Rooc.Display
