/-
Builder front door (port of packages/rooc/src/builder/{expr.rs, model.rs}):
index-based `Expr`, `to_exp`, `eval_expr`, `into_model`.  Import-free.
Builder expressions are represented as `Exp α` whose variable names are decimal indices.
-/
import Rooc.Model
namespace Rooc
namespace Builder
variable {α : Type} [Arith α]
open Arith

def idx (s : String) : Option Nat := s.toNat?

mutual
/-- `to_exp`: replaces every index by the declared name; `none` where the Rust would index out of range. -/
def toExp (names : List String) : Exp α → Option (Exp α)
  | .num v => some (.num v)
  | .var s => match idx s with
    | some i => (names[i]?).map .var
    | none => none
  | .abs e => (toExp names e).map .abs
  | .min es => (toExpList names es).map .min
  | .max es => (toExpList names es).map .max
  | .and es => (toExpList names es).map .and
  | .or es => (toExpList names es).map .or
  | .not e => (toExp names e).map .not
  | .xor a b => do pure (.xor (← toExp names a) (← toExp names b))
  | .implies a b => do pure (.implies (← toExp names a) (← toExp names b))
  | .iff a b => do pure (.iff (← toExp names a) (← toExp names b))
  | .bin op a b => do pure (.bin op (← toExp names a) (← toExp names b))
  | .un op e => (toExp names e).map (.un op)
def toExpList (names : List String) : List (Exp α) → Option (List (Exp α))
  | [] => some []
  | e :: es => do
    let x ← toExp names e
    let xs ← toExpList names es
    pure (x :: xs)
end

def truthy (x : α) : Bool := Arith.ne x zero
def boolNum (b : Bool) : α := if b then one else zero

mutual
/-- `eval_expr`: total on floats (division by zero gives ±inf/NaN, empty min/max give ±inf). -/
def evalExpr (var : Nat → α) : Exp α → α
  | .num v => v
  | .var s => match idx s with
    | some i => var i
    | none => zero
  | .abs e => Arith.abs (evalExpr var e)
  | .min es => (evalList var es).foldl fmin posInf
  | .max es => (evalList var es).foldl fmax negInf
  | .and es => boolNum ((evalList var es).all truthy)
  | .or es => boolNum ((evalList var es).any truthy)
  | .not e => boolNum (!(truthy (evalExpr var e)))
  | .xor a b => boolNum (truthy (evalExpr var a) != truthy (evalExpr var b))
  | .implies a b => boolNum (!(truthy (evalExpr var a)) || truthy (evalExpr var b))
  | .iff a b => boolNum (truthy (evalExpr var a) == truthy (evalExpr var b))
  | .bin op a b =>
    let l := evalExpr var a
    let r := evalExpr var b
    match op with
    | .add => add l r | .sub => sub l r | .mul => mul l r | .div => div l r
    | .and => boolNum (truthy l && truthy r)
    | .or => boolNum (truthy l || truthy r)
    | .xor => boolNum (truthy l != truthy r)
    | .implies => boolNum (!(truthy l) || truthy r)
    | .iff => boolNum (truthy l == truthy r)
  | .un .neg e => neg (evalExpr var e)
  | .un .not e => boolNum (!(truthy (evalExpr var e)))
def evalList (var : Nat → α) : List (Exp α) → List α
  | [] => []
  | e :: es => evalExpr var e :: evalList var es
end

/-- a builder: declared variables (in order), constraints over indices, optional objective. -/
structure BModel (α : Type) where
  vars : List (String × VarType α)
  constraints : List (Constraint α)
  objective : Option (OptType × Exp α)

/-- `BuilderConstraint::to_constraint`: a logic assertion goes through `Constraint::new_logic_assertion`, which
stores `lhs = 1` whatever the (public) `constraint_type` / `rhs` fields of the builder constraint hold. -/
def toConstraint (names : List String) (c : Constraint α) : Option (Constraint α) :=
  if c.isAssert then
    (toExp names c.lhs).map fun l => { name := c.name, lhs := l, cmp := .eq, rhs := .num one, isAssert := true }
  else do
    let l ← toExp names c.lhs
    let r ← toExp names c.rhs
    pure { name := c.name, lhs := l, cmp := c.cmp, rhs := r, isAssert := false }

/-- `ModelBuilder::into_model`: every declared variable gets a usage mark; default objective `satisfy 0`. -/
def intoModel (b : BModel α) : Option (Model α) := do
  let names := b.vars.map (·.1)
  let cs ← b.constraints.foldr (fun c acc => do
      let rest ← acc
      let c' ← toConstraint names c
      pure (c' :: rest)) (some [])
  let (ot, oe) := b.objective.getD (OptType.satisfy, Exp.num zero)
  let o ← toExp names oe
  pure { optType := ot, objective := o, constraints := cs,
         domain := b.vars.map fun (n, t) => { name := n, ty := t, usage := 1 } }

end Builder
end Rooc
