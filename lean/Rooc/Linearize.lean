/-
M4 — port of packages/rooc/src/transformers/linearizer.rs.
`Exp::linearize`, `linearize_extreme`, logic-assertion lowering, directional witnesses, the work-list
of `Linearizer::linearize`, name de-duplication and coefficient extraction.  Import-free, polymorphic
in the number type.  Same evaluation order, same fresh-name counters, same deque discipline
(`add_constraint` pushes to the FRONT) as the Rust.
-/
import Rooc.Model
namespace Rooc
namespace Lin
open Arith

variable {α : Type} [Arith α]

/-! ### `Bounds` (the part of bounds.rs the linearizer calls into) -/

structure Bounds (α : Type) where
  lower : α
  upper : α
  deriving Repr

namespace Bounds
def unbounded : Bounds α := ⟨negInf, posInf⟩
def singleton (v : α) : Bounds α := ⟨v, v⟩
def lowerSum (a b : α) : α := let v := add a b; if isNaN v then negInf else v
def upperSum (a b : α) : α := let v := add a b; if isNaN v then posInf else v
def neg (b : Bounds α) : Bounds α := ⟨Arith.neg b.upper, Arith.neg b.lower⟩
def add (a b : Bounds α) : Bounds α := ⟨lowerSum a.lower b.lower, upperSum a.upper b.upper⟩
def sub (a b : Bounds α) : Bounds α := add a (neg b)
def scale (b : Bounds α) (c : α) : Bounds α :=
  if Arith.eq c zero then singleton zero
  else if Arith.gt c zero then ⟨mul b.lower c, mul b.upper c⟩
  else ⟨mul b.upper c, mul b.lower c⟩
/-- `Bounds::div_by` (after fix 6650688: the endpoints are divided, no reciprocal). -/
def divBy (b : Bounds α) (d : α) : Bounds α :=
  if Arith.eq d zero then unbounded
  else if Arith.gt d zero then ⟨div b.lower d, div b.upper d⟩
  else ⟨div b.upper d, div b.lower d⟩
def abs (b : Bounds α) : Bounds α :=
  if Arith.ge b.lower zero then b
  else if Arith.le b.upper zero then neg b
  else ⟨zero, fmax (Arith.neg b.lower) b.upper⟩
def ofVarType : VarType α → Bounds α
  | .bool => ⟨zero, one⟩
  | .int lo hi => ⟨ofInt lo, ofInt hi⟩
  | .nnreal lo hi => ⟨lo, hi⟩
  | .real lo hi => ⟨lo, hi⟩
end Bounds

abbrev BoundsMap (α : Type) := List (String × Bounds α)

def lookupB (m : BoundsMap α) (name : String) : Option (Bounds α) :=
  (m.find? (·.1 == name)).map (·.2)

mutual
/-- `BoundsAnalyzer::bounds_of`. -/
def boundsOf (m : BoundsMap α) : Exp α → Bounds α
  | .num v => Bounds.singleton v
  | .var n => (lookupB m n).getD Bounds.unbounded
  | .abs e => (boundsOf m e).abs
  | .min es => match boundsOfList m es with
    | [] => Bounds.unbounded
    | b :: bs => bs.foldl (fun c n => ⟨fmin c.lower n.lower, fmin c.upper n.upper⟩) b
  | .max es => match boundsOfList m es with
    | [] => Bounds.unbounded
    | b :: bs => bs.foldl (fun c n => ⟨fmax c.lower n.lower, fmax c.upper n.upper⟩) b
  | .and _ | .or _ | .not _ | .xor _ _ | .implies _ _ | .iff _ _ => ⟨zero, one⟩
  | .bin .add a b => (boundsOf m a).add (boundsOf m b)
  | .bin .sub a b => (boundsOf m a).sub (boundsOf m b)
  | .bin .mul (.num v) b => (boundsOf m b).scale v
  | .bin .mul a (.num v) => (boundsOf m a).scale v
  | .bin .mul _ _ => Bounds.unbounded
  | .bin .div a (.num v) => if Arith.ne v zero then (boundsOf m a).divBy v else Bounds.unbounded
  | .bin .div _ _ => Bounds.unbounded
  | .bin _ _ _ => ⟨zero, one⟩
  | .un .neg e => (boundsOf m e).neg
  | .un .not _ => ⟨zero, one⟩
def boundsOfList (m : BoundsMap α) : List (Exp α) → List (Bounds α)
  | [] => []
  | e :: es => boundsOf m e :: boundsOfList m es
end

/-! ### requirements, contexts, state -/

inductive Req | lower | higher | exact
  deriving Repr, DecidableEq, Inhabited

def Req.reversed : Req → Req | .lower => .higher | .higher => .lower | .exact => .exact
def Req.throughScale (r : Req) (c : α) : Req := if Arith.lt c zero then r.reversed else r

inductive ExtKind | min | max
  deriving Repr, DecidableEq, Inhabited
def ExtKind.name : ExtKind → String | .min => "min" | .max => "max"

/-- `LinearizationContext`: IndexMap (insertion order) + constant. -/
structure Ctx (α : Type) where
  vars : List (String × α)
  rhs : α
  deriving Repr, Inhabited

namespace Ctx
def addVar (c : Ctx α) (name : String) (m : α) : Ctx α :=
  if c.vars.any (·.1 == name) then
    { c with vars := c.vars.map fun (n, v) => if n == name then (n, add v m) else (n, v) }
  else { c with vars := c.vars ++ [(name, m)] }
def addRhs (c : Ctx α) (r : α) : Ctx α := { c with rhs := add c.rhs r }
def new : Ctx α := ⟨[], zero⟩
def fromVar (name : String) (m : α) : Ctx α := (new : Ctx α).addVar name m
def fromRhs (r : α) : Ctx α := (new : Ctx α).addRhs r
def mergeAdd (c o : Ctx α) : Ctx α :=
  (o.vars.foldl (fun acc (n, m) => acc.addVar n m) c).addRhs o.rhs
def mergeSub (c o : Ctx α) : Ctx α :=
  (o.vars.foldl (fun acc (n, m) => acc.addVar n (neg m)) c).addRhs (neg o.rhs)
def mulBy (c : Ctx α) (m : α) : Ctx α := ⟨c.vars.map fun (n, v) => (n, mul v m), mul c.rhs m⟩
def divBy (c : Ctx α) (d : α) : Ctx α := ⟨c.vars.map fun (n, v) => (n, div v d), div c.rhs d⟩
end Ctx

inductive LinErr where
  | nonLinear | divisionByZero | emptyAggregation (kind : String) | varAlreadyDeclared (name : String)
  | unimplemented | nonBinaryLogicOperand | missingFiniteBounds (vars : List String)
  | fuel
  deriving Repr, Inhabited

structure MidRow (α : Type) where
  name : String
  lhs : List (String × α)
  rhs : α
  cmp : Cmp
  deriving Repr, Inhabited

/-- the `Linearizer` struct. `queue` head = front of the VecDeque; `rows` in push order. -/
structure St (α : Type) where
  queue : List (Constraint α) := []
  rows : List (MidRow α) := []
  minCount : Nat := 0
  maxCount : Nat := 0
  absCount : Nat := 0
  andCount : Nat := 0
  orCount : Nat := 0
  xorCount : Nat := 0
  impliesCount : Nat := 0
  iffCount : Nat := 0
  witnessCount : Nat := 0
  domain : List (DomVar α) := []
  bounds : BoundsMap α := []
  deriving Inhabited

abbrev M (α : Type) := StateT (St α) (Except LinErr)

def fail {β : Type} (e : LinErr) : M α β := fun _ => .error e

def addConstraint (c : Constraint α) : M α Unit := modify fun s => { s with queue := c :: s.queue }

def mkC (lhs : Exp α) (cmp : Cmp) (rhs : Exp α) : Constraint α :=
  { name := "", lhs := lhs, cmp := cmp, rhs := rhs, isAssert := false }

def domainType (d : List (DomVar α)) (name : String) : Option (VarType α) :=
  (d.find? (·.name == name)).map (·.ty)

def isBoolVar (d : List (DomVar α)) (name : String) : Bool :=
  match domainType d name with | some .bool => true | _ => false

/-- `Linearizer::declare_variable`. -/
def declareVariable (name : String) (ty : VarType α) : M α Unit := do
  let s ← get
  if s.domain.any (·.name == name) then fail (.varAlreadyDeclared name)
  else
    -- IndexMap::insert on the bounds map: replace in place if present, else append
    let b := Bounds.ofVarType ty
    let bounds := if s.bounds.any (·.1 == name)
      then s.bounds.map fun (n, x) => if n == name then (n, b) else (n, x)
      else s.bounds ++ [(name, b)]
    set { s with bounds := bounds, domain := s.domain ++ [({ name := name, ty := ty, usage := 1 } : DomVar α)] }

def addExp (a b : Exp α) : Exp α := .bin .add a b
def subExp (a b : Exp α) : Exp α := .bin .sub a b
def mulExp (a b : Exp α) : Exp α := .bin .mul a b
def sumExps : List (Exp α) → Exp α
  | [] => .num zero
  | e :: es => es.foldl addExp e

/-- `context_to_exp`. -/
def ctxToExp (c : Ctx α) : Exp α :=
  c.vars.foldl (fun e (n, k) => .bin .add e (.bin .mul (.num k) (.var n))) (.num c.rhs)

/-- `is_binary_context`. -/
def isBinaryCtx (c : Ctx α) (d : List (DomVar α)) : Bool :=
  match c.vars with
  | [] => Arith.eq c.rhs zero || Arith.eq c.rhs one
  | [(n, k)] =>
    isBoolVar d n && ((Arith.eq k one && Arith.eq c.rhs zero) || (Arith.eq k (ofInt (-1)) && Arith.eq c.rhs one))
  | _ => false

def expVars : Exp α → List String
  | .num _ => []
  | .var s => [s]
  | .abs e | .not e | .un _ e => expVars e
  | .min es | .max es | .and es | .or es => es.flatMap expVars
  | .xor a b | .implies a b | .iff a b | .bin _ a b => expVars a ++ expVars b

def insertSorted (x : String) : List String → List String
  | [] => [x]
  | y :: ys => if x < y then x :: y :: ys else if x == y then y :: ys else y :: insertSorted x ys
def sortDedup (xs : List String) : List String := xs.foldl (fun acc x => insertSorted x acc) []

/-- stable sort keeping duplicates (Rust `Vec<String>::sort`). -/
def insertSortedDup (x : String) : List String → List String
  | [] => [x]
  | y :: ys => if x < y then x :: y :: ys else y :: insertSortedDup x ys
def sortStr (xs : List String) : List String := xs.foldl (fun acc x => insertSortedDup x acc) []

/-- `variables_without_finite_bounds`. -/
def varsWithoutFiniteBounds (e : Exp α) (m : BoundsMap α) : List String :=
  sortDedup ((expVars e).filter fun n =>
    let b := boundsOf m (.var n : Exp α)
    !(isFinite b.lower) || !(isFinite b.upper))

/-- dominated-operand pruning of `linearize_extreme`: flags of retained operands. -/
def retainedFlags (kind : ExtKind) (bs : List (Bounds α)) : List Bool :=
  let n := bs.length
  (List.range n).map fun i =>
    let b := bs.getD i Bounds.unbounded
    let dominated := (List.range n).any fun j =>
      if i == j then false else
      let o := bs.getD j Bounds.unbounded
      let otherDominates := match kind with
        | .max => Arith.ge o.lower b.upper
        | .min => Arith.le o.upper b.lower
      if !otherDominates then false else
      let equalFixed := Arith.eq b.lower b.upper && Arith.eq o.lower o.upper && Arith.eq b.lower o.lower
      (!equalFixed || j < i)
    !dominated

/-- fix 46b0121: an operand whose evaluation may fail is never pruned (lowering it is what reports the error):
retained iff not dominated or `may_be_undefined`. -/
def retainedFlagsE (kind : ExtKind) (es : List (Exp α)) (bs : List (Bounds α)) : List Bool :=
  List.zipWith (fun f e => f || Exp.mayBeUndefined e) (retainedFlags kind bs) es

def selectFlagged {β : Type} : List β → List Bool → List β
  | x :: xs, f :: fs => if f then x :: selectFlagged xs fs else selectFlagged xs fs
  | _, _ => []

def cmpForReq : Cmp → Req
  | .le | .lt => .lower
  | .ge | .gt => .higher
  | .eq => .exact

mutual
/-- `Exp::linearize`. -/
def linExp : Exp α → Req → M α (Ctx α)
  | .bin .add l r, req => do
    let a ← linExp l req
    let b ← linExp r req
    pure (a.mergeAdd b)
  | .bin .sub l r, req => do
    let a ← linExp l req
    let b ← linExp r req.reversed
    pure (a.mergeSub b)
  | .bin .mul (.num c) r, req =>
    -- fix 5a25b35: a factor that may be undefined is still lowered so that its error is reported
    if Arith.eq c zero && !(Exp.mayBeUndefined r) then pure (Ctx.fromRhs zero) else do
      let x ← linExp r (req.throughScale c)
      pure (x.mulBy c)
  | .bin .mul l (.num c), req =>
    if Arith.eq c zero && !(Exp.mayBeUndefined l) then pure (Ctx.fromRhs zero) else do
      let x ← linExp l (req.throughScale c)
      pure (x.mulBy c)
  | .bin .mul _ _, _ => fail .nonLinear
  | .bin .div l (.num d), req =>
    if Arith.eq d zero then fail .divisionByZero else do
      let x ← linExp l (req.throughScale (div one d))
      pure (x.divBy d)
  | .bin .div _ _, _ => fail .nonLinear
  | .bin _ _ _, _ => fail .unimplemented
  | .un .neg e, req => do
    let x ← linExp e req.reversed
    pure (x.mulBy (ofInt (-1)))
  | .un .not _, _ => fail .unimplemented
  | .num v, _ => pure (Ctx.fromRhs v)
  | .var n, _ => pure (Ctx.fromVar n one)
  | .min es, req => linExtreme .min es req
  | .max es, req => linExtreme .max es req
  | .not e, _ => do
    let c ← linExp e .exact
    let s ← get
    if !(isBinaryCtx c s.domain) then fail .nonBinaryLogicOperand
    else pure ((c.mulBy (ofInt (-1))).addRhs one)
  | .and es, _ =>
    if es.isEmpty then pure (Ctx.fromRhs one) else do
      let ops ← linBinaryOperands es
      let s ← get
      let id := s.andCount
      set { s with andCount := id + 1 }
      let v := s!"$and_{id}"
      let cs := ops.map (fun o => (Cmp.le, o)) ++
        [(Cmp.ge, subExp (sumExps ops) (.num (ofInt ((ops.length : Int) - 1))))]
      reify v cs
  | .or es, _ =>
    if es.isEmpty then pure (Ctx.fromRhs zero) else do
      let ops ← linBinaryOperands es
      let s ← get
      let id := s.orCount
      set { s with orCount := id + 1 }
      let v := s!"$or_{id}"
      let cs := ops.map (fun o => (Cmp.ge, o)) ++ [(Cmp.le, sumExps ops)]
      reify v cs
  | .implies l r, _ => do
    let a ← linBinaryOperand l
    let b ← linBinaryOperand r
    let s ← get
    let id := s.impliesCount
    set { s with impliesCount := id + 1 }
    reify s!"$implies_{id}"
      [(.ge, subExp (.num one) a), (.ge, b), (.le, addExp (subExp (.num one) a) b)]
  | .iff l r, _ => do
    let a ← linBinaryOperand l
    let b ← linBinaryOperand r
    let s ← get
    let id := s.iffCount
    set { s with iffCount := id + 1 }
    reify s!"$iff_{id}"
      [(.ge, subExp (addExp a b) (.num one)), (.ge, subExp (subExp (.num one) a) b),
       (.le, addExp (subExp (.num one) a) b), (.le, subExp (addExp (.num one) a) b)]
  | .xor l r, _ => do
    let a ← linBinaryOperand l
    let b ← linBinaryOperand r
    let s ← get
    let id := s.xorCount
    set { s with xorCount := id + 1 }
    reify s!"$xor_{id}"
      [(.le, addExp a b), (.ge, subExp a b), (.ge, subExp b a),
       (.le, subExp (subExp (.num (ofInt 2)) a) b)]
  | .abs e, req => do
    let s ← get
    let ib := boundsOf s.bounds e
    if Arith.ge ib.lower zero then linExp e req
    else if Arith.le ib.upper zero then do
      let v ← linExp e req.reversed
      pure (v.mulBy (ofInt (-1)))
    else
      let needsExact := req != .lower
      if needsExact && (!(isFinite ib.lower) || !(isFinite ib.upper)) then
        fail (.missingFiniteBounds (varsWithoutFiniteBounds e s.bounds))
      else do
        let inner ← linExp e .exact
        let inner := ctxToExp inner
        let s ← get
        let id := s.absCount
        set { s with absCount := id + 1 }
        let v := s!"$abs_{id}"
        declareVariable v (.nnreal zero (fmax (neg ib.lower) ib.upper))
        addConstraint (mkC (.var v) .ge inner)
        addConstraint (mkC (.var v) .ge (.un .neg inner))
        if needsExact then do
          let p := s!"$abs_{id}_positive"
          declareVariable p .bool
          addConstraint (mkC (.var v) .le
            (subExp inner (mulExp (.num (mul (ofInt 2) ib.lower)) (subExp (.num one) (.var p)))))
          addConstraint (mkC (.var v) .le
            (addExp (.un .neg inner) (mulExp (.num (mul (ofInt 2) ib.upper)) (.var p))))
        pure (Ctx.fromVar v one)

/-- `linearize_binary_operands` on one operand. -/
def linBinaryOperand (e : Exp α) : M α (Exp α) := do
  let c ← linExp e .exact
  let s ← get
  if !(isBinaryCtx c s.domain) then fail .nonBinaryLogicOperand
  else pure (ctxToExp c)

def linBinaryOperands : List (Exp α) → M α (List (Exp α))
  | [] => pure []
  | e :: es => do
    let x ← linBinaryOperand e
    let xs ← linBinaryOperands es
    pure (x :: xs)

/-- linearize exactly the operands whose flag is set, in order (retained operands of `linearize_extreme`). -/
def linFlagged : List (Exp α) → List Bool → Req → M α (List (Exp α))
  | e :: es, f :: fs, req =>
    if f then do
      let c ← linExp e req
      let xs ← linFlagged es fs req
      pure (ctxToExp c :: xs)
    else linFlagged es fs req
  | _, _, _ => pure []

/-- the single retained operand is linearized with the caller's requirement. -/
def linFirstFlagged : List (Exp α) → List Bool → Req → M α (Ctx α)
  | e :: es, f :: fs, req => if f then linExp e req else linFirstFlagged es fs req
  | _, _, _ => fail (.emptyAggregation "")

/-- `reify_logic_variable`. -/
def reify (v : String) (cs : List (Cmp × Exp α)) : M α (Ctx α) := do
  for (c, rhs) in cs do
    addConstraint (mkC (.var v) c rhs)
  declareVariable v .bool
  pure (Ctx.fromVar v one)

/-- `linearize_extreme`. -/
def linExtreme (kind : ExtKind) (es : List (Exp α)) (req : Req) : M α (Ctx α) := do
  if es.isEmpty then fail (.emptyAggregation kind.name) else
  let s ← get
  let obs := boundsOfList s.bounds es
  let flags := retainedFlagsE kind es obs
  let nRet := (flags.filter id).length
  if nRet == 0 then fail (.emptyAggregation kind.name)
  else if nRet == 1 then linFirstFlagged es flags req
  else
    let retExps := selectFlagged es flags
    let retBounds := selectFlagged obs flags
    let extExp : Exp α := match kind with | .min => .min retExps | .max => .max retExps
    let eb := boundsOf s.bounds extExp
    let oneSided := (kind == .max && req == .lower) || (kind == .min && req == .higher)
    let hasFinite := match kind with
      | .max => isFinite eb.upper && retBounds.all (fun b => isFinite b.lower)
      | .min => isFinite eb.lower && retBounds.all (fun b => isFinite b.upper)
    if !oneSided && !hasFinite then
      fail (.missingFiniteBounds (varsWithoutFiniteBounds extExp s.bounds))
    else do
      let id := match kind with | .min => s.minCount | .max => s.maxCount
      match kind with
        | .min => set { s with minCount := id + 1 }
        | .max => set { s with maxCount := id + 1 }
      let v := s!"${kind.name}_{id}"
      declareVariable v (.real eb.lower eb.upper)
      let opReq : Req := if oneSided then (match kind with | .max => .lower | .min => .higher) else .exact
      let operands ← linFlagged es flags opReq
      if oneSided then do
        for o in operands do
          addConstraint (mkC (.var v) (match kind with | .min => .le | .max => .ge) o)
        pure (Ctx.fromVar v one)
      else do
        let idxs := List.range operands.length
        let selNames := idxs.map fun i => s!"${kind.name}_{id}_select_{i}"
        for sn in selNames do
          declareVariable sn .bool
        let sels : List (Exp α) := selNames.map .var
        for ((o, b), sel) in (operands.zip retBounds).zip sels do
          match kind with
          | .max =>
            addConstraint (mkC (.var v) .ge o)
            addConstraint (mkC (.var v) .le
              (addExp o (mulExp (.num (sub eb.upper b.lower)) (subExp (.num one) sel))))
          | .min =>
            addConstraint (mkC (.var v) .le o)
            addConstraint (mkC (.var v) .ge
              (subExp o (mulExp (.num (sub b.upper eb.lower)) (subExp (.num one) sel))))
        addConstraint (mkC (sumExps sels) .eq (.num one))
        pure (Ctx.fromVar v one)
end


/-! ### constraint emission and logic assertions -/

def flattenFuel : Nat := 1000000

/-- `normalize` (linearizer.rs): `exp.simplify().flatten().simplify()` — constants are folded before the
distribution. `none` = flatten fuel exhausted. -/
def normalizeExp (e : Exp α) : Option (Exp α) :=
  (Exp.flattenF flattenFuel (Exp.simplify e)).map Exp.simplify

/-- `Linearizer::emit_constraint`. -/
def emitConstraint (lhs : Exp α) (cmp : Cmp) (rhs : Exp α) (name : String) : M α Unit := do
  match normalizeExp (.bin .sub lhs rhs) with
  | none => fail .fuel
  | some e =>
    let v ← linExp e (cmpForReq cmp)
    modify fun s => { s with rows := s.rows ++ [{ name := name, lhs := v.vars, rhs := neg v.rhs, cmp := cmp }] }

/-- `binary_affine_value`. -/
def binaryAffineValue (d : List (DomVar α)) : Exp α → Option (Ctx α)
  | .num v => if Arith.eq v zero || Arith.eq v one then some (Ctx.fromRhs v) else none
  | .var n => if isBoolVar d n then some (Ctx.fromVar n one) else none
  | .not e => (binaryAffineValue d e).map fun c => (c.mulBy (ofInt (-1))).addRhs one
  | .un .not e => (binaryAffineValue d e).map fun c => (c.mulBy (ofInt (-1))).addRhs one
  | _ => none

def allSome {β : Type} : List (Option β) → Option (List β)
  | [] => some []
  | none :: _ => none
  | some x :: xs => (allSome xs).map (x :: ·)

/-- `try_lower_affine_logic_assertion`. -/
def tryLowerAffine : Exp α → Bool → String → M α Bool
  | .not e, t, name => tryLowerAffine e (!t) name
  | .un .not e, t, name => tryLowerAffine e (!t) name
  | .and es, t, name => do
    let s ← get
    match allSome (es.map fun e => (binaryAffineValue s.domain e).map ctxToExp) with
    | none => pure false
    | some ops =>
      let n : Int := ops.length
      if t then emitConstraint (sumExps ops) .eq (.num (ofInt n)) name
      else emitConstraint (sumExps ops) .le (.num (sub (ofInt n) one)) name
      pure true
  | .or es, t, name => do
    let s ← get
    match allSome (es.map fun e => (binaryAffineValue s.domain e).map ctxToExp) with
    | none => pure false
    | some ops =>
      emitConstraint (sumExps ops) (if t then .ge else .eq) (.num (if t then one else zero)) name
      pure true
  | .implies l r, t, name => do
    let s ← get
    match binaryAffineValue s.domain l with
    | none => pure false
    | some a => match binaryAffineValue s.domain r with
      | none => pure false
      | some b =>
        let a := ctxToExp a
        let b := ctxToExp b
        if t then emitConstraint a .le b name
        else emitConstraint (subExp a b) .eq (.num one) name
        pure true
  | .iff l r, t, name => do
    let s ← get
    match binaryAffineValue s.domain l with
    | none => pure false
    | some a => match binaryAffineValue s.domain r with
      | none => pure false
      | some b =>
        let a := ctxToExp a
        let b := ctxToExp b
        if t then emitConstraint a .eq b name
        else emitConstraint (addExp a b) .eq (.num one) name
        pure true
  | .xor l r, t, name => do
    let s ← get
    match binaryAffineValue s.domain l with
    | none => pure false
    | some a => match binaryAffineValue s.domain r with
      | none => pure false
      | some b =>
        let a := ctxToExp a
        let b := ctxToExp b
        if t then emitConstraint (addExp a b) .eq (.num one) name
        else emitConstraint a .eq b name
        pure true
  | .num v, t, name => do
    let s ← get
    match binaryAffineValue s.domain (.num v) with
    | none => pure false
    | some c =>
      emitConstraint (ctxToExp c) .eq (.num (if t then one else zero)) name
      pure true
  | .var v, t, name => do
    let s ← get
    match binaryAffineValue s.domain (.var v) with
    | none => pure false
    | some c =>
      emitConstraint (ctxToExp c) .eq (.num (if t then one else zero)) name
      pure true
  | _, _, _ => pure false

def freshWitness : M α String := do
  let s ← get
  let id := s.witnessCount
  set { s with witnessCount := id + 1 }
  let w := s!"$logic_witness_{id}"
  declareVariable w .bool
  pure w

def negateCtx (c : Ctx α) : Ctx α := (c.mulBy (ofInt (-1))).addRhs one

mutual
/-- `directional_logic_witness`. -/
def dirWitness : Exp α → Bool → M α (Exp α)
  | .and es, t => do
    let s ← get
    match binaryAffineValue s.domain (.and es) with
    | some v => pure (ctxToExp (if t then v else negateCtx v))
    | none =>
      let children ← dirWitnessList es t
      let w ← freshWitness
      if t then
        for c in children do emitConstraint (.var w) .le c ""
      else emitConstraint (.var w) .le (sumExps children) ""
      pure (.var w)
  | .or es, t => do
    let children ← dirWitnessList es t
    let w ← freshWitness
    if t then emitConstraint (.var w) .le (sumExps children) ""
    else
      for c in children do emitConstraint (.var w) .le c ""
    pure (.var w)
  | .not e, t => do
    let s ← get
    match binaryAffineValue s.domain (.not e) with
    | some v => pure (ctxToExp (if t then v else negateCtx v))
    | none => dirWitness e (!t)
  | .un .not e, t => do
    let s ← get
    match binaryAffineValue s.domain (.un .not e) with
    | some v => pure (ctxToExp (if t then v else negateCtx v))
    | none => dirWitness e (!t)
  | .implies l r, t => do
    -- `directional_logic_witness(&Or[Not lhs, rhs], t)`
    let s ← get
    let c1 ← (match binaryAffineValue s.domain (.not l) with
      | some v => pure (ctxToExp (if t then v else negateCtx v))
      | none => dirWitness l (!t))
    let c2 ← dirWitness r t
    let children := [c1, c2]
    let w ← freshWitness
    if t then emitConstraint (.var w) .le (sumExps children) ""
    else
      for c in children do emitConstraint (.var w) .le c ""
    pure (.var w)
  | .iff l r, t => iffWitness l r t
  | .xor l r, t => iffWitness l r (!t)
  | .num v, t => do
    let s ← get
    match binaryAffineValue s.domain (.num v) with
    | some c => pure (ctxToExp (if t then c else negateCtx c))
    | none => fail .nonBinaryLogicOperand
  | .var v, t => do
    let s ← get
    match binaryAffineValue s.domain (.var v) with
    | some c => pure (ctxToExp (if t then c else negateCtx c))
    | none => fail .nonBinaryLogicOperand
  | _, _ => fail .nonBinaryLogicOperand
def dirWitnessList : List (Exp α) → Bool → M α (List (Exp α))
  | [], _ => pure []
  | e :: es, t => do
    let x ← dirWitness e t
    let xs ← dirWitnessList es t
    pure (x :: xs)
def iffWitness (l r : Exp α) (t : Bool) : M α (Exp α) := do
  let a ← linBinaryOperand l
  let b ← linBinaryOperand r
  let w ← freshWitness
  let ubs : List (Exp α) :=
    if t then [addExp (subExp (.num one) a) b, subExp (addExp (.num one) a) b]
    else [addExp a b, subExp (subExp (.num (ofInt 2)) a) b]
  for ub in ubs do emitConstraint (.var w) .le ub ""
  pure (.var w)
end

mutual
/-- `lower_logic_assertion`. -/
def lowerAssertion : Exp α → Bool → String → M α Unit
  | .num v, t, name =>
    if Arith.ne v zero && Arith.ne v one then fail .nonBinaryLogicOperand
    else
      let valueIsTrue := Arith.eq v one
      if valueIsTrue != t then emitConstraint (.num zero) .eq (.num one) name else pure ()
  | .and es, t, name => do
    if (← tryLowerAffine (.and es) t name) then pure () else
    if t then lowerAssertionList es true name
    else do
      let ws ← dirWitnessList es false
      emitConstraint (sumExps ws) .ge (.num one) name
  | .or es, t, name => do
    if (← tryLowerAffine (.or es) t name) then pure () else
    if t then do
      let ws ← dirWitnessList es true
      emitConstraint (sumExps ws) .ge (.num one) name
    else lowerAssertionList es false name
  | .not e, t, name => do
    if (← tryLowerAffine (.not e) t name) then pure () else lowerAssertion e (!t) name
  | .un .not e, t, name => do
    if (← tryLowerAffine (.un .not e) t name) then pure () else lowerAssertion e (!t) name
  | .implies l r, t, name => do
    if (← tryLowerAffine (.implies l r) t name) then pure () else
    if t then do
      let w1 ← dirWitness l false
      let w2 ← dirWitness r true
      emitConstraint (sumExps [w1, w2]) .ge (.num one) name
    else do
      lowerAssertion l true name
      lowerAssertion r false name
  | .iff l r, t, name => do
    if (← tryLowerAffine (.iff l r) t name) then pure () else
    let a ← linBinaryOperand l
    let b ← linBinaryOperand r
    if t then emitConstraint a .eq b name
    else emitConstraint (addExp a b) .eq (.num one) name
  | .xor l r, t, name => do
    if (← tryLowerAffine (.xor l r) t name) then pure () else
    let a ← linBinaryOperand l
    let b ← linBinaryOperand r
    if t then emitConstraint (addExp a b) .eq (.num one) name
    else emitConstraint a .eq b name
  | .var v, t, name => do
    if (← tryLowerAffine (.var v) t name) then pure () else fail .nonBinaryLogicOperand
  | e, t, name => do
    if (← tryLowerAffine e t name) then pure () else fail .nonBinaryLogicOperand
def lowerAssertionList : List (Exp α) → Bool → String → M α Unit
  | [], _, _ => pure ()
  | e :: es, t, name => do
    lowerAssertion e t name
    lowerAssertionList es t name
end

/-! ### comparison normalisation against a constant -/

def cmpHolds (l : α) (c : Cmp) (r : α) : Bool :=
  match c with
  | .le => Arith.le l r | .ge => Arith.ge l r | .eq => Arith.eq l r | .lt => Arith.lt l r | .gt => Arith.gt l r

def Cmp.reversed : Cmp → Cmp
  | .le => .ge | .ge => .le | .eq => .eq | .lt => .gt | .gt => .lt

/-- `is_logic_value`. -/
def isLogicValue (d : List (DomVar α)) : Exp α → Bool
  | .num v => Arith.eq v zero || Arith.eq v one
  | .var n => isBoolVar d n
  | .and _ | .or _ | .xor _ _ | .implies _ _ | .iff _ _ => true
  | .not e => isLogicValue d e
  | .bin op _ _ => match op with
    | .and | .or | .xor | .implies | .iff => true
    | _ => false
  | .un .not e => isLogicValue d e
  | .un .neg _ => false
  | .abs _ | .min _ | .max _ => false

inductive Normalized (α : Type) where
  | assertion (e : Exp α) (mustBeTrue : Bool)
  | tautology
  | contradiction

/-- `try_normalize_logic_constraint`. -/
def tryNormalize (d : List (DomVar α)) (lhs : Exp α) (cmp : Cmp) (rhs : Exp α) : Option (Normalized α) :=
  let pick : Option (Exp α × Cmp × α) :=
    match rhs with
    | .num c => if isLogicValue d lhs then some (lhs, cmp, c) else none
    | _ => match lhs with
      | .num c => if isLogicValue d rhs then some (rhs, Cmp.reversed cmp, c) else none
      | _ => none
  match pick with
  | none => none
  | some (e, cmp, c) =>
    match e with
    | .num v => some (if cmpHolds v cmp c then .tautology else .contradiction)
    | _ =>
      match cmpHolds zero cmp c, cmpHolds one cmp c with
      | false, true => some (.assertion e true)
      | true, false => some (.assertion e false)
      -- fix ba14904: a logic value whose evaluation may fail is not decided from the constant alone — the
      -- generic path lowers it and reports the error
      | true, true => if Exp.mayBeUndefined e then none else some .tautology
      | false, false => if Exp.mayBeUndefined e then none else some .contradiction

/-! ### `check_collapsing_logic_operands` (fixes 81a4b76, e35561f) -/

/-- the test at one and/or node: `simplify` may hand a single operand back as it is (`x and 1` ↦ `x`); unless the
simplified node is a logic value it is lowered (in the scratch context of the check) and must be a 0/1 context. -/
def collapseNode (e : Exp α) : M α Unit := do
  let collapsed := Exp.simplify e
  let s ← get
  if isLogicValue s.domain collapsed then pure ()
  else do
    let lowered ← linExp collapsed .exact
    let s ← get
    if !(isBinaryCtx lowered s.domain) then fail .nonBinaryLogicOperand else pure ()

mutual
/-- `check_collapsing_logic_operands`: post-order walk of the RAW expression. -/
def collapseCheck : Exp α → M α Unit
  | .num _ => pure ()
  | .var _ => pure ()
  | .abs e => collapseCheck e
  | .not e => collapseCheck e
  | .un _ e => collapseCheck e
  | .min es => collapseCheckList es
  | .max es => collapseCheckList es
  | .and es => do collapseCheckList es; collapseNode (.and es)
  | .or es => do collapseCheckList es; collapseNode (.or es)
  | .xor l r => do collapseCheck l; collapseCheck r
  | .implies l r => do collapseCheck l; collapseCheck r
  | .iff l r => do collapseCheck l; collapseCheck r
  | .bin op l r => do
    collapseCheck l
    collapseCheck r
    match op with
    | .and | .or => collapseNode (.bin op l r)
    | _ => pure ()
def collapseCheckList : List (Exp α) → M α Unit
  | [] => pure ()
  | e :: es => do collapseCheck e; collapseCheckList es
end

/-- the collapse check on the sides of the source constraints, in order: always the left side, the right side unless
the constraint is a logic assertion. -/
def collapseCheckConstraints : List (Constraint α) → M α Unit
  | [] => pure ()
  | c :: cs => do
    collapseCheck c.lhs
    if !c.isAssert then collapseCheck c.rhs
    collapseCheckConstraints cs

/-- everything `Linearizer::linearize` checks up front, on its scratch context (fix e35561f). -/
def collapseCheckAll (m : Model α) : M α Unit := do
  collapseCheck m.objective
  collapseCheckConstraints m.constraints

/-! ### `Linearizer::linearize` -/

def simplifyFlat (e : Exp α) : M α (Exp α) :=
  match normalizeExp e with
  | none => fail .fuel
  | some f => pure f

/-- the `while let Some(constraint) = context.pop_constraint()` loop (fuel = iteration bound). -/
def drain : Nat → M α Unit
  | 0 => fail .fuel
  | n+1 => do
    let s ← get
    match s.queue with
    | [] => pure ()
    | c :: rest =>
      set { s with queue := rest }
      let lhs ← simplifyFlat c.lhs
      let rhs ← simplifyFlat c.rhs
      if c.isAssert then lowerAssertion lhs true c.name
      else
        let s ← get
        match tryNormalize s.domain lhs c.cmp rhs with
        | some .tautology => pure ()
        | some .contradiction => emitConstraint (.num zero) .eq (.num one) c.name
        | some (.assertion e t) => lowerAssertion e t c.name
        | none => emitConstraint lhs c.cmp rhs c.name
      drain n

/-- name de-duplication of the emitted rows. -/
def dedupNames (rows : List (MidRow α)) : List (MidRow α) :=
  let sourceNames := rows.filterMap fun r => if r.name.isEmpty then none else some r.name
  let step (acc : List String × List (MidRow α)) (r : MidRow α) : List String × List (MidRow α) :=
    let (assigned, out) := acc
    if r.name.isEmpty then (assigned, out ++ [r])
    else if !(assigned.contains r.name) then (assigned ++ [r.name], out ++ [r])
    else
      -- first counter ≥ 2 whose candidate is free; bounded by the number of taken names
      let bound := sourceNames.length + assigned.length + 3
      let cand := (List.range bound).findSome? fun k =>
        let c := s!"{r.name}__{k + 2}"
        if !(sourceNames.contains c) && !(assigned.contains c) then some c else none
      match cand with
      | some c => (assigned ++ [c], out ++ [{ r with name := c }])
      | none => (assigned, out ++ [r])
  (rows.foldl step ([], [])).2

def indexOf (xs : List String) (x : String) : Option Nat :=
  let rec go : List String → Nat → Option Nat
    | [], _ => none
    | y :: ys, i => if y == x then some i else go ys (i + 1)
  go xs 0

/-- `extract_coeffs`. -/
def extractCoeffs (e : List (String × α)) (vars : List String) : List α :=
  e.foldl (fun vec (n, v) => match indexOf vars n with
    | some i => vec.set i v
    | none => vec) (List.replicate vars.length zero)

def drainFuel : Nat := 1000000

/-- `Linearizer::linearize`, given the result of bound inference (`bounds`, tightened `domain`). -/
def linearizeWith (m : Model α) (bounds : BoundsMap α) (domain : List (DomVar α)) :
    Except LinErr (LinModel α) :=
  let prog : M α (LinModel α) := do
    let objExp ← simplifyFlat m.objective
    let objReq : Req := match m.optType with | .min => .lower | .max => .higher | .satisfy => .exact
    let obj ← linExp objExp objReq
    drain drainFuel
    let s ← get
    let rows := dedupNames s.rows
    let vars := sortStr ((s.domain.filter (fun d => d.usage > 0)).map (·.name))
    let dom := s.domain.filter fun d => vars.contains d.name
    pure { optType := m.optType
           objective := extractCoeffs obj.vars vars
           offset := obj.rhs
           vars := vars
           domain := dom
           rows := rows.map fun r => { name := r.name, coeffs := extractCoeffs r.lhs vars, cmp := r.cmp, rhs := r.rhs } }
  match prog { queue := m.constraints, domain := domain, bounds := bounds } with
  | .ok (lm, _) => .ok lm
  | .error e => .error e

end Lin
end Rooc
