/-
Denotational semantics used by the property statements (DESIGN.md appendix A).
`eval ρ e : Option K` — `none` means "undefined" (non-finite literal, division by zero,
empty min/max).  Import-free: runs at `K = Rat` as the exact oracle, and is the object the
theorems in `Rooc/Props` talk about (there `K` is any ordered field).
-/
import Rooc.Exp
namespace Rooc
namespace Sem
variable {K : Type} [ExactField K]
open ExactField

def kzero : K := ofInt 0
def kone : K := ofInt 1
def truthy (x : K) : Bool := !(ExactField.eq x kzero)
def ofBool (b : Bool) : K := if b then kone else kzero
def kmax (a b : K) : K := if lt a b then b else a
def kmin (a b : K) : K := if lt b a then b else a
def kabs (a : K) : K := if lt a kzero then neg a else a

def binVal (op : BinOp) (a b : K) : Option K :=
  match op with
  | .add => some (add a b)
  | .sub => some (sub a b)
  | .mul => some (mul a b)
  | .div => if ExactField.eq b kzero then none else some (div a b)
  | .and => some (ofBool (truthy a && truthy b))
  | .or => some (ofBool (truthy a || truthy b))
  | .xor => some (ofBool (truthy a != truthy b))
  | .implies => some (ofBool (!(truthy a) || truthy b))
  | .iff => some (ofBool (truthy a == truthy b))

mutual
def eval (ρ : String → K) : Exp (Ext K) → Option K
  | .num (.fin k) => some k
  | .num _ => none
  | .var v => some (ρ v)
  | .abs e => (eval ρ e).map kabs
  | .min es => match evalList ρ es with
    | some (x :: xs) => some (xs.foldl kmin x)
    | _ => none
  | .max es => match evalList ρ es with
    | some (x :: xs) => some (xs.foldl kmax x)
    | _ => none
  | .and es => (evalList ρ es).map (fun vs => ofBool (vs.all truthy))
  | .or es => (evalList ρ es).map (fun vs => ofBool (vs.any truthy))
  | .not e => (eval ρ e).map (fun v => ofBool (!(truthy v)))
  | .xor a b => do binVal .xor (← eval ρ a) (← eval ρ b)
  | .implies a b => do binVal .implies (← eval ρ a) (← eval ρ b)
  | .iff a b => do binVal .iff (← eval ρ a) (← eval ρ b)
  | .bin op a b => do binVal op (← eval ρ a) (← eval ρ b)
  | .un .neg e => (eval ρ e).map neg
  | .un .not e => (eval ρ e).map (fun v => ofBool (!(truthy v)))
def evalList (ρ : String → K) : List (Exp (Ext K)) → Option (List K)
  | [] => some []
  | e :: es => do
    let v ← eval ρ e
    let vs ← evalList ρ es
    pure (v :: vs)
end

end Sem
end Rooc
