/-
The whole of `Linearizer::linearize` as one model function:
  normalise the constraints for bound inference (flatten + simplify, fix c360e70) →
  `BoundsAnalyzer::analyze` → `apply_to_domain` → the work-list lowering (`Lin.linearizeWith`).
This is what ties C07's theorems (the published box encloses every feasible point) to C01/C02/C08.
Import-free.
-/
import Rooc.Bounds
import Rooc.Linearize
namespace Rooc
namespace Compile
variable {α : Type} [Arith α]

/-- `normalized_for_bounds` (linearizer.rs). `none` = flatten fuel exhausted. -/
def normalizedForBounds (cs : List (Constraint α)) : Option (List (Constraint α)) :=
  cs.foldr (fun c acc => do
    let rest ← acc
    let l ← Lin.normalizeExp c.lhs
    if c.isAssert then pure ({ c with lhs := l } :: rest)
    else do
      let r ← Lin.normalizeExp c.rhs
      pure ({ c with lhs := l, rhs := r } :: rest)) (some [])

open Arith in
/-- `BoundsAnalyzer::enforceable` (fixes cce0e38, b9d407a): the port lives in `Rooc/Bounds.lean`. -/
def enforceable (an : Analyzer α) (domain : List (DomVar α)) : Analyzer α := an.enforceable domain

def toLinBounds (vb : List (String × Bounds α)) : Lin.BoundsMap α :=
  vb.map fun (n, b) => (n, ⟨b.lower, b.upper⟩)

/-- the scratch context of the up-front collapse check (fix e35561f): the DECLARED domains, the bounds
`BoundsAnalyzer::analyze(&domain, &[])` stores for them (no constraint, no `enforceable`, no `apply_to_domain`),
an empty work list. -/
def scratchState (m : Model α) (tol : α) (maxSteps : Nat) : Lin.St α :=
  { queue := [], domain := m.domain,
    bounds := toLinBounds (Analyzer.analyze m.domain [] tol maxSteps).variableBounds }

/-- `Linearizer::linearize(model)` with the analyzer's tolerance and step limit as parameters. -/
def linearize (m : Model α) (tol : α) (maxSteps : Nat) : Except Lin.LinErr (LinModel α) :=
  -- the collapse check comes first, on the scratch context, which is then dropped
  match Lin.collapseCheckAll m (scratchState m tol maxSteps) with
  | .error e => .error e
  | .ok _ =>
    match normalizedForBounds m.constraints with
    | none => .error .fuel
    | some cs =>
      let an := enforceable (Analyzer.analyze m.domain cs tol maxSteps) m.domain
      let domain := Analyzer.applyToDomain an m.domain
      Lin.linearizeWith m (toLinBounds an.variableBounds) domain

end Compile
end Rooc
