/-
The glue of `RoocSolver::solve_with_data_using` / `solve_using` (`lib.rs`) AFTER `transform`, specialised to the default
solver `auto_solver`:

    let linearized = Linearizer::linearize(compiled).map_err(RoocSolverError::Linearization)?;
    let result = func(&linearized).map_err(RoocSolverError::Solver)?;

`Compile.linearize` is the port of `Linearizer::linearize`, `SolverWrap.wrapAuto` the port of `auto_solver` around the
external solver (microlp), whose raw answer is the parameter `mlp`.  Import-free; polymorphic in the number type.
-/
import Rooc.Compile
import Rooc.SolverWrap
namespace Rooc
namespace Pipeline
variable {α : Type} [Arith α]
open SolverWrap

/-- `Result<LpSolution, RoocSolverError<SolverError>>` without the `Transform` arm (the input is the transformed model). -/
inductive Outcome (α : Type) where
  /-- `Ok(result)`; the compiled model is kept for the by-name view of the solution -/
  | solved (lm : LinModel α) (s : Solution α)
  /-- `Err(RoocSolverError::Linearization(e))` -/
  | linearization (e : Lin.LinErr)
  /-- `Err(RoocSolverError::Solver(e))`, `e` by variant name -/
  | solver (variant : String)
  /-- a panic inside the solver path propagates -/
  | panic
  deriving Inhabited

/-- `solve_using(auto_solver)` on a transformed model; `mlp lm` = what microlp answers for the compiled model. -/
def solveUsingAuto (m : Model α) (tol : α) (maxSteps : Nat) (mlp : LinModel α → MlpOutcome α) : Outcome α :=
  match Compile.linearize m tol maxSteps with
  | .error e => .linearization e
  | .ok lm =>
    match wrapAuto lm (mlp lm) with
    | .ok s => .solved lm s
    | .err v => .solver v
    | .panic => .panic

end Pipeline
end Rooc
