/-
The glue of `RoocSolver::solve_with_data_using` / `solve_using` (`lib.rs`) AFTER `transform`, specialised to the default
solver `auto_solver`:

    let linearized = Linearizer::linearize(compiled).map_err(RoocSolverError::Linearization)?;
    let result = func(&linearized).map_err(RoocSolverError::Solver)?;

`Compile.linearize` is the port of `Linearizer::linearize`, `SolverWrap.wrapAuto` the port of `auto_solver` around the
external solver (microlp), whose raw answer is the parameter `mlp`.  Import-free; polymorphic in the number type.
-/
import Rooc.Compile
import Rooc.SolverWrap
import Rooc.Pre.Program
namespace Rooc
namespace Pipeline
variable {α : Type} [Arith α]
open SolverWrap

/-- `Result<LpSolution, RoocSolverError<SolverError>>` without the `Transform` arm (the input is the transformed model). -/
inductive Outcome (α : Type) where
  /-- `Ok(result)`; the compiled model is kept for the by-name view of the solution -/
  | solved (lm : LinModel α) (s : Solution α)
  /-- `Err(RoocSolverError::Linearization(e))` -/
  | linearization (e : Lin.LinErr)
  /-- `Err(RoocSolverError::Solver(e))`, `e` by variant name -/
  | solver (variant : String)
  /-- a panic inside the solver path propagates -/
  | panic
  deriving Inhabited

/-- `solve_using(auto_solver)` on a transformed model; `mlp lm` = what microlp answers for the compiled model. -/
def solveUsingAuto (m : Model α) (tol : α) (maxSteps : Nat) (mlp : LinModel α → MlpOutcome α) : Outcome α :=
  match Compile.linearize m tol maxSteps with
  | .error e => .linearization e
  | .ok lm =>
    match wrapAuto lm (mlp lm) with
    | .ok s => .solved lm s
    | .err v => .solver v
    | .panic => .panic

/-! ### the whole default path from a program: `RoocSolver::try_new(text)?.solve_using(auto_solver)`

    let model = parser.parse()?;                                      // CompilationError
    self.model.create_type_checker(..).map_err(Transform)?;           // RoocSolverError::Transform
    let compiled = self.model.transform(..).map_err(Transform)?;      // RoocSolverError::Transform
    Linearizer::linearize(compiled).map_err(Linearization)?;  func(&linearized).map_err(Solver)?

on the iteration fragment of `Rooc/Pre/Program.lean` (`ProgM`: `where` constants, `define` declarations with iterations,
objective, constraints with iterations; the text is the harness's rendering of the same abstract program).  Error sources
of the front end on the fragment: the parser's static arity rule (`ProgM.arityOk`, a `CompilationError` of `try_new`); the
TYPE CHECKER (`create_type_checker`), which is NOT modelled for whole programs (C19 models its tables and rules) and is a
PARAMETER here — `typeChecks` = the verdict of `RoocParser::type_check` on the text; it is stricter than `transform`
(`parse_and_transform` skips it: e.g. an iteration over a literal `[]` or a destructuring `(v)` of pairs transforms but
does not type-check); and the transform errors `IErr` (undeclared / redeclared names, destructuring, overflow).  Both of
the latter surface as `RoocSolverError::Transform`. -/

/-- answer of the one-shot entry point on a program. -/
inductive TextOutcome (α : Type) where
  /-- `RoocSolver::try_new` failed: `Err(CompilationError)` -/
  | parseError
  /-- `Err(RoocSolverError::Transform(_))` raised by `create_type_checker` -/
  | typeError
  /-- `Err(RoocSolverError::Transform(_))` raised by `transform` -/
  | transformError (e : Pre.IErr)
  /-- everything after `transform` -/
  | compiled (o : Outcome α)
  deriving Inhabited

/-- `RoocSolver::try_new(text)?.solve_using(auto_solver)` as ONE function of the abstract program (type checker and
external solver as parameters). -/
def solveProg (p : Pre.ProgM) (typeChecks : Bool) (tol : α) (maxSteps : Nat) (mlp : LinModel α → MlpOutcome α) :
    TextOutcome α :=
  if !p.arityOk then .parseError else
  if !typeChecks then .typeError else
  match (Pre.transformCore p : Except Pre.IErr (Model α)) with
  | .error e => .transformError e
  | .ok m => .compiled (solveUsingAuto m tol maxSteps mlp)

end Pipeline
end Rooc
