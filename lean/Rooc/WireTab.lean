/- Protocol encoding of `Tab` (DESIGN.md appendix B, `tableau`).  Import-free. -/
import Rooc.Tableau
import Rooc.WireStd
namespace Rooc
open Sexp
variable {α : Type} [Wire α]

def encNat (n : Nat) : Sexp := .atom (toString n)

def Tab.enc (T : Tab α) : Sexp :=
  app "tab" [app "c" (T.c.map encNum), app "a" (T.a.map fun r => .list (r.map encNum)), app "b" (T.b.map encNum),
             app "basis" (T.basis.map encNat), encNum T.value, encNum T.offset, .atom (if T.flip then "flip" else "noflip")]
def Tab.dec : Sexp → Option (Tab α)
  | .list [.atom "tab", .list (.atom "c" :: cs), .list (.atom "a" :: rows), .list (.atom "b" :: bs),
           .list (.atom "basis" :: is), v, off, .atom fl] => do
    let flip ← (match fl with | "flip" => some true | "noflip" => some false | _ => none)
    pure { c := ← optAll (cs.map decNumS),
           a := ← optAll (rows.map fun | .list r => optAll (r.map decNumS) | _ => none),
           b := ← optAll (bs.map decNumS), basis := ← optAll (is.map decNat),
           value := ← decNumS v, offset := ← decNumS off, flip := flip }
  | _ => none

def decNats : Sexp → Option (List Nat)
  | .list xs => optAll (xs.map decNat)
  | _ => none

end Rooc
