/-
Exact oracle for C17: the independent reader `Lp.readLP` (with an exact decimal number lexer) is run
on the text the IMPLEMENTATION produced and what it reads is compared with the model it came from.
Numbers of the model arrive as IEEE bit patterns; a decimal literal `q` of the text "is" the double
`v` when `v` is a double nearest to `q` (what any correctly rounding reader would store).
Import-free.
-/
import Rooc.LpFormat
import Rooc.WireModel
namespace Rooc.LpOracle
open Rooc Rooc.Lp Sexp

/-! ### exact decimal lexer -/

def digitVal (c : Char) : Nat := c.toNat - 48

def natOfDigits (ds : List Char) : Nat := ds.foldl (fun a c => a * 10 + digitVal c) 0

/-- `digits [. digits] [(e|E) [+|-] digits]`, at least one digit in the mantissa. -/
def decLexRat (s : List Char) : Option Rat :=
  let (ip, r1) := s.span isDig
  let (fp, r2) : List Char × List Char :=
    match r1 with
    | '.' :: r => r.span isDig
    | r => ([], r)
  if ip.isEmpty && fp.isEmpty then none else
  let mant : Rat := (natOfDigits (ip ++ fp) : Nat)
  let scale : Int := -(fp.length : Int)
  let expo : Option Int :=
    match r2 with
    | [] => some 0
    | c :: r =>
      if c == 'e' || c == 'E' then
        match r with
        | '+' :: ds => if !ds.isEmpty && ds.all isDig then some (natOfDigits ds : Nat) else none
        | '-' :: ds => if !ds.isEmpty && ds.all isDig then some (-(natOfDigits ds : Nat) : Int) else none
        | ds => if !ds.isEmpty && ds.all isDig then some (natOfDigits ds : Nat) else none
      else none
  match expo with
  | none => none
  | some e =>
    let t := scale + e
    some (if t ≥ 0 then mant * ((10 : Rat) ^ t.toNat) else mant / ((10 : Rat) ^ (-t).toNat))

def decLex (s : List Char) : Option (Ext Rat) := (decLexRat s).map .fin

/-! ### numbers that keep their bit pattern -/

structure Bits where
  bits : UInt64
  deriving Inhabited

instance : Wire Bits where
  ofBits b := ⟨b⟩
  enc b := "#x" ++ hex16 b.bits

def Bits.val (b : Bits) : Ext Rat := bitsToExtRat b.bits

def absRat (q : Rat) : Rat := if q < 0 then -q else q

/-- magnitude (as a rational) of the double whose non-sign bits are `m`; `2^1024` for the first
pattern past the finite ones. -/
def magOf (m : Nat) : Rat :=
  if m ≥ 0x7FF0000000000000 then (2 : Rat) ^ (1024 : Nat)
  else match bitsToExtRat (UInt64.ofNat m) with
    | .fin q => q
    | _ => 0

/-- `v` (given by its bits, finite) is a double nearest to the rational `q`. -/
def sameDouble (b : Bits) (q : Rat) : Bool :=
  let n := b.bits.toNat
  let neg := n / 2 ^ 63 == 1
  let m := n % 2 ^ 63
  if m ≥ 0x7FF0000000000000 then false else
  let mag := magOf m
  let lo : Rat := if m == 0 then 0 else (magOf (m - 1) + mag) / 2
  let hi : Rat := (mag + magOf (m + 1)) / 2
  let a := absRat q
  decide (lo ≤ a) && decide (a ≤ hi) && (q == 0 || (decide (q < 0) == neg))

/-- a value read from the text against a model value (finite or infinite). -/
def sameExt (b : Bits) (x : Ext Rat) : Bool :=
  match b.val, x with
  | .pinf, .pinf => true
  | .ninf, .ninf => true
  | .fin _, .fin q => sameDouble b q
  | _, _ => false

def isZeroB (b : Bits) : Bool := match b.val with | .fin q => q == 0 | _ => false
def isFiniteB (b : Bits) : Bool := match b.val with | .fin _ => true | _ => false
def isNaNB (b : Bits) : Bool := match b.val with | .nan => true | _ => false

/-! ### comparison -/

def viol (kind : String) (detail : List Sexp) : Sexp := app "violation" (.atom kind :: detail)

def modelTerms : List Bits → List String → List (String × Bits)
  | c :: cs, v :: vs => if isZeroB c then modelTerms cs vs else (v, c) :: modelTerms cs vs
  | _, _ => []

/-- same terms: same length and every model term has its counterpart (names are distinct). -/
def sameTerms (mt : List (String × Bits)) (rt : List (String × Ext Rat)) : Bool :=
  mt.length == rt.length &&
  mt.all fun (v, c) => match rt.find? (fun p => p.1 == v) with
    | some (_, x) => sameExt c x
    | none => false

def encExt : Ext Rat → Sexp := fun x => .atom (Wire.enc x)
def encTerms (ts : List (String × Ext Rat)) : Sexp := .list (ts.map fun (v, c) => .list [.str v, encExt c])
def encOpt : Option (Ext Rat) → Sexp | none => .atom "-" | some x => encExt x

def encProblem (p : LpProblem (Ext Rat)) : Sexp :=
  app "lp" [.atom (match p.sense with | .min => "min" | .max => "max"),
    app "obj" [encTerms p.obj, encExt p.objConst],
    app "rows" (p.rows.map fun r => .list [.str r.name, encTerms r.terms, encExt r.lhsConst,
      .atom (match r.rel with | .le => "le" | .ge => "ge" | .eq => "eq"), encExt r.rhs]),
    app "bounds" (p.bounds.map fun b => .list [.str b.var, encOpt b.lo, encOpt b.hi]),
    app "binary" (p.binaries.map .str), app "general" (p.generals.map .str)]

def hasDup : List String → Bool
  | [] => false
  | x :: xs => xs.contains x || hasDup xs

def sameSet (a b : List String) : Bool := a.all b.contains && b.all a.contains

def rangeDefault (lo hi : Bits) : Bool :=
  isZeroB lo && (match hi.val with | .pinf => true | _ => false)

/-- The property, evaluated on the implementation's text. -/
def checkLP (lm : LinModel Bits) (text : List Char) : Sexp :=
  match readLP decLex text with
  | none =>
    -- narrow classification of one known cause: a name that is a word of the LP format itself
    let names := lm.vars ++ (lm.rows.map (·.name)).filter (fun n => !n.isEmpty)
    match names.find? (fun n => isReserved n.toList) with
    | some n => viol "lp-keyword-name" [.str n]
    | none => viol "lp-unreadable" []
  | some p =>
    -- sense
    let wantMax := match lm.optType with | .max => true | _ => false
    if (match p.sense with | .max => true | .min => false) != wantMax then viol "sense-differs" [] else
    -- objective
    if !sameTerms (modelTerms lm.objective lm.vars) p.obj then viol "objective-differs" [encTerms p.obj] else
    if !(if isZeroB lm.offset then p.objConst == .fin 0 else sameExt lm.offset p.objConst) then
      viol "objective-constant-differs" [encExt p.objConst] else
    -- rows
    if p.rows.length != lm.rows.length then viol "row-count-differs" [] else
    let rowBad := (lm.rows.zip p.rows).zipIdx.findSome? fun ((r, pr), i) =>
      if !r.name.isEmpty && r.name != pr.name then some (viol "row-name-differs" [.atom (toString i), .str pr.name])
      else if pr.name.isEmpty then some (viol "row-unnamed" [.atom (toString i)])
      else if !sameTerms (modelTerms r.coeffs lm.vars) pr.terms then some (viol "row-coefficients-differ" [.atom (toString i)])
      else if pr.lhsConst != .fin 0 then some (viol "row-constant-on-lhs" [.atom (toString i)])
      else if denoteRel r.cmp != pr.rel then some (viol "row-relation-differs" [.atom (toString i)])
      else if !sameExt r.rhs pr.rhs then some (viol "row-rhs-differs" [.atom (toString i), encExt pr.rhs])
      else none
    match rowBad with
    | some v => v
    | none =>
    -- bounds and integrality, variable by variable
    let domBad := lm.domain.findSome? fun d =>
      let (lo, hi) := rangeOf p d.name
      let want : Kind := domainKind d.ty
      let listed := p.bounds.any (·.var == d.name)
      let okRange : Bool := match d.ty with
        | .bool => lo == .fin 0 && hi == .fin 1
        | .int a b => lo == .fin (a : Rat) && hi == .fin (b : Rat)
        | .nnreal a b => sameExt a lo && sameExt b hi
        | .real a b => sameExt a lo && sameExt b hi
      let nonDefault : Bool := match d.ty with
        | .bool => false
        | .int _ _ => true
        | .nnreal a b => !rangeDefault a b
        | .real a b => !rangeDefault a b
      if nonDefault && !listed then some (viol "nondefault-bound-missing" [.str d.name])
      else if !okRange then some (viol "bounds-differ" [.str d.name, encExt lo, encExt hi])
      else if kindOf p d.name != want then
        some (viol (match want with | .binary => "binary-marking-differs" | .general => "general-marking-differs"
                                     | .continuous => "integrality-marking-differs") [.str d.name])
      else none
    match domBad with
    | some v => v
    | none =>
    let domNames := lm.domain.map (·.name)
    if !(p.binaries.all domNames.contains && p.generals.all domNames.contains) then viol "unknown-variable-marked" [] else
    if hasDup p.binaries || hasDup p.generals then viol "variable-marked-twice" [] else
    -- exported row names unique (two user rows with one name are the user's business)
    let names := p.rows.map (·.name)
    let clash := (names.zipIdx.findSome? fun (n, i) =>
      (names.zipIdx.find? fun (n', j) => i < j && n == n' &&
          ((lm.rows.getD i default).name.isEmpty || (lm.rows.getD j default).name.isEmpty)).map fun (_, j) => (i, j, n))
    match clash with
    | some (i, j, n) =>
      let ui := !(lm.rows.getD i default).name.isEmpty
      let uj := !(lm.rows.getD j default).name.isEmpty
      if ui || uj then viol "generated-name-equals-user-name" [.str n, .atom (toString i), .atom (toString j)]
      else viol "generated-names-collide" [.str n, .atom (toString i), .atom (toString j)]
    | none => app "ok" []

/-- is the model inside the region the property talks about (finite coefficients, no NaN bounds,
distinct variable names, every variable declared)? -/
def wellFormed (lm : LinModel Bits) : Bool :=
  lm.objective.all isFiniteB && isFiniteB lm.offset &&
  lm.rows.all (fun r => r.coeffs.all isFiniteB && isFiniteB r.rhs) &&
  lm.domain.all (fun d => match d.ty with
    | .nnreal a b => !isNaNB a && !isNaNB b
    | .real a b => !isNaNB a && !isNaNB b
    | _ => true) &&
  !hasDup lm.vars && lm.vars.all (fun v => lm.domain.any (·.name == v))

end Rooc.LpOracle
