/-
An INDEPENDENT exact sub-solver for the continuous residuals of `Ref.refSolveMixed` (oracle side only, `K = Rat`):
after the discrete values are substituted, variable-free subexpressions are evaluated with `Sem.eval`, the rest must be
AFFINE in the continuous variables (`affOf`: literals, variables, `+ - unary-`, `*` / `/` by a constant) — anything else
answers `unknown`.  The resulting box-constrained LP is solved by the naive vertex enumeration of `Rooc/RatLin.lean`
(`bruteForce`), which shares nothing with rooc's compiler or solvers.  Also: a tolerant feasibility check of a returned
(floating-point) point against the SOURCE model.  Import-free.
-/
import Rooc.RefMixed
import Rooc.RatLin
namespace Rooc
namespace RefResidual
open Sem Ref

mutual
def hasVar : Exp (Ext Rat) → Bool
  | .num _ => false
  | .var _ => true
  | .abs e | .not e | .un _ e => hasVar e
  | .min es | .max es | .and es | .or es => hasVarList es
  | .xor a b | .implies a b | .iff a b | .bin _ a b => hasVar a || hasVar b
def hasVarList : List (Exp (Ext Rat)) → Bool
  | [] => false
  | e :: es => hasVar e || hasVarList es
end

/-- affine form `Σ cᵢ·xᵢ + k` (names may repeat). -/
structure Aff where
  coeffs : List (String × Rat)
  const : Rat
  deriving Repr

def Aff.scale (a : Aff) (k : Rat) : Aff := ⟨a.coeffs.map fun (n, c) => (n, c * k), a.const * k⟩
def Aff.add (a b : Aff) : Aff := ⟨a.coeffs ++ b.coeffs, a.const + b.const⟩
def Aff.coeffOf (a : Aff) (n : String) : Rat := (a.coeffs.filter (·.1 == n)).foldl (fun s p => s + p.2) 0

inductive AffRes where
  | ok (a : Aff)
  | undefined          -- a variable-free subexpression has no value (division by zero, empty min/max, non-finite literal)
  | nonAffine

/-- `none`-free constant folding: the value of a variable-free expression. -/
def constOf (e : Exp (Ext Rat)) : Option Rat := eval (fun _ => 0) e

def affOf : Exp (Ext Rat) → AffRes
  | e@(.bin op a b) =>
    if !(hasVar e) then (match constOf e with | some k => .ok ⟨[], k⟩ | none => .undefined) else
    match op, affOf a, affOf b with
    | _, .undefined, _ | _, _, .undefined => .undefined
    | .add, .ok x, .ok y => .ok (x.add y)
    | .sub, .ok x, .ok y => .ok (x.add (y.scale (-1)))
    | .mul, .ok x, .ok y =>
      if x.coeffs.isEmpty then .ok (y.scale x.const) else if y.coeffs.isEmpty then .ok (x.scale y.const) else .nonAffine
    | .div, .ok x, .ok y =>
      if y.coeffs.isEmpty then (if y.const == 0 then .undefined else .ok (x.scale (1 / y.const))) else .nonAffine
    | _, _, _ => .nonAffine
  | e@(.un .neg a) =>
    if !(hasVar e) then (match constOf e with | some k => .ok ⟨[], k⟩ | none => .undefined) else
    match affOf a with
    | .ok x => .ok (x.scale (-1))
    | r => r
  | .var s => .ok ⟨[(s, 1)], 0⟩
  | e => if hasVar e then .nonAffine else match constOf e with | some k => .ok ⟨[], k⟩ | none => .undefined

/-- one row `Σ aᵢ xᵢ  cmp  r` over the continuous variables. -/
structure Row where
  a : List Rat
  cmp : Cmp
  r : Rat

inductive Prep where
  | lp (rows : List Row)
  | infeasible     -- a variable-free constraint fails (or is undefined: an undefined side makes a constraint fail)
  | unknown

def finOf : Ext Rat → Option Rat | .fin q => some q | _ => none

/-- the residual constraints as rows over `vars`. -/
def prepRows (vars : List String) : List (Constraint (Ext Rat)) → Prep
  | [] => .lp []
  | c :: cs =>
    let rest := prepRows vars cs
    if c.isAssert then
      if hasVar c.lhs then .unknown else
      match constOf c.lhs, rest with
      | some v, rest => if v == 1 then rest else (match rest with | .unknown => .unknown | _ => .infeasible)
      | none, .unknown => .unknown
      | none, _ => .infeasible
    else
      match affOf c.lhs, affOf c.rhs, rest with
      | .nonAffine, _, _ | _, .nonAffine, _ => .unknown
      | _, _, .unknown => .unknown
      | .undefined, _, _ | _, .undefined, _ => .infeasible
      | _, _, .infeasible => .infeasible
      | .ok l, .ok r, .lp rows =>
        let d := l.add (r.scale (-1))          -- d cmp 0
        if d.coeffs.any (fun p => !(vars.contains p.1)) then .unknown else
        match c.cmp with
        | .lt | .gt => .unknown
        | cmp => .lp (⟨vars.map d.coeffOf, cmp, -d.const⟩ :: rows)

/-- bounds of the continuous declarations (`Sem.inDomain`: `lo ≤ x ≤ hi` for both Real kinds); `none` unless finite. -/
def boxOf : List (DomVar (Ext Rat)) → Option (List (String × Rat × Rat))
  | [] => some []
  | d :: ds =>
    if d.usage == 0 then boxOf ds else
    match d.ty, boxOf ds with
    | .real lo hi, some rest | .nnreal lo hi, some rest =>
      (match finOf lo, finOf hi with | some l, some h => some ((d.name, l, h) :: rest) | _, _ => none)
    | _, _ => none

def unit (n j : Nat) (v : Rat) : List Rat := (List.range n).map fun k => if k == j then v else 0

/-- the sub-solver: standard form `min c·y, A y = b, y ≥ 0` with `y = (x − lo, hi − x, slacks)`, then vertex enumeration. -/
def sub (m : Model (Ext Rat)) : SubVerdict Rat :=
  match boxOf m.domain with
  | none => .unknown
  | some box =>
    let vars := box.map (·.1)
    if vars.length > 3 then .unknown else
    match affOf m.objective with
    | .nonAffine | .undefined => .unknown
    | .ok obj =>
      if obj.coeffs.any (fun p => !(vars.contains p.1)) then .unknown else
      match prepRows vars m.constraints with
      | .unknown => .unknown
      | .infeasible => .infeasible
      | .lp rows =>
        if box.any (fun b => b.2.2 < b.2.1) then .infeasible else
        if rows.length > 5 then .unknown else
        let n := vars.length
        let ineq := rows.filter (fun r => r.cmp != .eq)
        let k := ineq.length
        let ncols := 2 * n + k
        let los := box.map (·.2.1)
        -- x = lo + y ;  y_i + u_i = hi_i - lo_i
        let boxRows : List (List Rat × Rat) := (List.range n).map fun i =>
          ((List.range ncols).map (fun j => if j == i || j == n + i then (1 : Rat) else 0),
           (box.getD i ("", 0, 0)).2.2 - (box.getD i ("", 0, 0)).2.1)
        let shift (a : List Rat) : Rat := RatLin.dot a los
        let conRows : List (List Rat × Rat) := (rows.foldl (fun (acc : List (List Rat × Rat) × Nat) r =>
            let base := r.a ++ List.replicate n 0
            match r.cmp with
            | .eq => (acc.1 ++ [(base ++ List.replicate k 0, r.r - shift r.a)], acc.2)
            | .le => (acc.1 ++ [(base ++ unit k acc.2 1, r.r - shift r.a)], acc.2 + 1)
            | _ => (acc.1 ++ [(base ++ unit k acc.2 (-1), r.r - shift r.a)], acc.2 + 1)) ([], 0)).1
        let all := boxRows ++ conRows
        let sign : Rat := match m.optType with | .max => -1 | _ => 1
        let c := (vars.map fun v => sign * obj.coeffOf v) ++ List.replicate (n + k) 0
        let cvec := match m.optType with | .satisfy => List.replicate ncols (0 : Rat) | _ => c
        match RatLin.bruteForce ncols (all.map (·.1)) (all.map (·.2)) cvec with
        | .infeasible => .infeasible
        | .unbounded => .unknown
        | .optimal _ y =>
          let x := (List.range n).map fun i => los.getD i 0 + y.getD i 0
          let w := vars.zip x
          .optimal (obj.const + RatLin.dot (vars.map obj.coeffOf) x) w

/-! ### tolerant feasibility of a returned floating-point point -/

def tol : Rat := 1 / 1000000
def absQ (q : Rat) : Rat := if q < 0 then -q else q
def slack (a b : Rat) : Rat := tol * (if absQ a < 1 && absQ b < 1 then 1 else if absQ a < absQ b then absQ b else absQ a)

def holdsTol (ρ : String → Rat) (c : Constraint (Ext Rat)) : Bool :=
  if c.isAssert then
    match eval ρ c.lhs with | some v => absQ (v - 1) ≤ tol | none => false
  else
    match eval ρ c.lhs, eval ρ c.rhs with
    | some a, some b =>
      (match c.cmp with
       | .le => a ≤ b + slack a b | .ge => b ≤ a + slack a b | .eq => absQ (a - b) ≤ slack a b
       | .lt => a < b + slack a b | .gt => b < a + slack a b)
    | _, _ => false

def inDomainTol (x : Rat) : VarType (Ext Rat) → Bool
  | .bool => x == 0 || x == 1
  | .int lo hi => x.den == 1 && (lo : Rat) ≤ x && x ≤ (hi : Rat)
  | .real lo hi | .nnreal lo hi =>
    (match lo with | .fin l => l ≤ x + slack l x | .ninf => true | _ => false) &&
    (match hi with | .fin h => x ≤ h + slack h x | .pinf => true | _ => false)

/-- every constraint holds within 1e-6 (relative) and every used declaration is in its domain (continuous bounds within
tolerance; discrete values are snapped beforehand). -/
def srcFeasibleTol (m : Model (Ext Rat)) (ρ : String → Rat) : Bool :=
  m.constraints.all (holdsTol ρ) && m.domain.all fun d => d.usage == 0 || inDomainTol (ρ d.name) d.ty

end RefResidual
end Rooc
