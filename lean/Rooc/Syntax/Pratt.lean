/-
M8 (part 3) — pest's Pratt driver (`pest::pratt_parser`, the `expr / nud / led / lbp` loop) over the
operator table that `PrattParser::new().op(…)…` builds from the REGENERATED chain
(`Rooc/Gen/Pratt.lean`), with the `map_primary / map_infix / map_prefix` closures of
`parse_exp` (parser/rules_parser/exp_parser.rs).  Where pest would panic the model answers
`.error .panic`.  Import-free.
-/
import Rooc.Gen.Pratt
import Rooc.Syntax.PExp
namespace Rooc.Syntax

inductive PErr where
  | reject          -- `Err(CompilationError)` (PEG failure or `err_unexpected_token!`)
  | panic           -- a `panic!`/`expect` of pest's Pratt driver would fire
  | fuel            -- model ran out of fuel (never with the fuel the entry points pass)
  deriving Repr, DecidableEq, Inhabited

/-- a pest `Pair` as the Pratt driver sees it: an operator pair (by rule name) or any other pair,
already mapped by `parse_exp_leaf`. -/
inductive Item where
  | op (rule : String)
  | leaf (t : PExp)
  deriving Repr, Inhabited

inductive Affix where
  | pre | post | inL | inR
  deriving Repr, DecidableEq, Inhabited

def Affix.ofString : String → Option Affix
  | "prefix" => some .pre
  | "postfix" => some .post
  | "infixL" => some .inL
  | "infixR" => some .inR
  | _ => none

/-- `PrattParser::op`: `self.prec += PREC_STEP`, then every operator of the call is inserted with that
precedence (`PrattParser::new` starts at `prec = PREC_STEP`). -/
def buildOps : List (List (String × String)) → Nat → List (String × String × Nat)
  | [], _ => []
  | lvl :: rest, prec =>
    let p := prec + Gen.precStep
    lvl.map (fun ra => (ra.1, ra.2, p)) ++ buildOps rest p

def opsTable : List (String × String × Nat) := buildOps Gen.prattChain Gen.precStep

/-- `BTreeMap::insert` overwrites: the LAST entry for a rule wins. -/
def findLast (rule : String) : List (String × String × Nat) → Option (String × Nat) → Option (String × Nat)
  | [], acc => acc
  | e :: es, acc => findLast rule es (if e.1 == rule then some e.2 else acc)

/-- `PrattParser::get` -/
def getOp (rule : String) : Option (Affix × Nat) :=
  match findLast rule opsTable none with
  | some (a, p) => (Affix.ofString a).map (·, p)
  | none => none

def binOpOfName : String → Option BinOp
  | "Add" => some .add | "Sub" => some .sub | "Mul" => some .mul | "Div" => some .div
  | "And" => some .and | "Or" => some .or | "Xor" => some .xor | "Implies" => some .implies
  | "Iff" => some .iff | _ => none
def unOpOfName : String → Option UnOp
  | "Neg" => some .neg | "Not" => some .not | _ => none

def assoc (rule : String) : List (String × String) → Option String
  | [] => none
  | e :: es => if e.1 == rule then some e.2 else assoc rule es

/-- the `match op.as_rule()` of `map_infix` (first matching arm) -/
def infixArm (rule : String) : Option BinOp := (assoc rule Gen.infixArms).bind binOpOfName
/-- the `match op.as_rule()` of `map_prefix` -/
def prefixArm (rule : String) : Option UnOp := (assoc rule Gen.prefixArms).bind unOpOfName

abbrev PRes (α : Type) := Except PErr α

/-- `lbp`: binding power of the next pair (`None => 0`; a pair that is not an operator panics). -/
def lbp : List Item → PRes Nat
  | [] => .ok 0
  | .op rule :: _ =>
    match getOp rule with
    | some (_, prec) => .ok prec
    | none => .error .panic
  | .leaf _ :: _ => .error .panic

mutual
/-- `expr(pairs, rbp)`: `lhs = nud(); while rbp < lbp() { lhs = led(lhs) }` -/
def expr : Nat → Nat → List Item → PRes (PExp × List Item)
  | 0, _, _ => .error .fuel
  | f+1, rbp, items =>
    match nud f items with
    | .error e => .error e
    | .ok (lhs, rest) => loop f rbp lhs rest
/-- `nud` -/
def nud : Nat → List Item → PRes (PExp × List Item)
  | 0, _ => .error .fuel
  | f+1, items =>
    match items with
    | [] => .error .panic                       -- "Pratt parsing expects non-empty Pairs"
    | .leaf t :: rest => .ok (t, rest)          -- `None => (self.primary)(pair)`
    | .op rule :: rest =>
      match getOp rule with
      | some (.pre, prec) =>
        match expr f (prec - 1) rest with
        | .error e => .error e
        | .ok (rhs, rest') =>
          match prefixArm rule with
          | some u => .ok (.un u rhs, rest')
          | none => .error .reject              -- `err_unexpected_token!("found {}, expected op")`
      | none => .error .reject                  -- primary on an operator pair: `parse_exp_leaf` rejects it
      | some _ => .error .panic                 -- "Expected prefix or primary expression"
/-- the `while` loop of `expr`, with `led` inlined -/
def loop : Nat → Nat → PExp → List Item → PRes (PExp × List Item)
  | 0, _, _, _ => .error .fuel
  | f+1, rbp, lhs, items =>
    match lbp items with
    | .error e => .error e
    | .ok p =>
      if rbp < p then
        match items with
        | .op rule :: rest =>
          match getOp rule with
          | some (.inL, prec) =>
            match expr f prec rest with
            | .error e => .error e
            | .ok (rhs, rest') =>
              match infixArm rule with
              | some o => loop f rbp (.bin o lhs rhs) rest'
              | none => .error .reject
          | some (.inR, prec) =>
            match expr f (prec - 1) rest with
            | .error e => .error e
            | .ok (rhs, rest') =>
              match infixArm rule with
              | some o => loop f rbp (.bin o lhs rhs) rest'
              | none => .error .reject
          | _ => .error .panic                  -- postfix without `map_postfix`, or "Expected postfix or infix expression"
        | _ => .error .panic
      else .ok (lhs, items)
end

/-- `PrattParserMap::parse`: `self.expr(&mut pairs.peekable(), 0)` -/
def prattParse (items : List Item) : PRes PExp :=
  match expr (2 * items.length + 2) 0 items with
  | .error e => .error e
  | .ok (t, _) => .ok t

end Rooc.Syntax
