/-
Token-level twin of the expression printer (`fmtExp`, `Rooc/Syntax/Format.lean`) on the printable
fragment: the same parenthesisation decisions, as tokens.  The driver checks on every generated
case that lexing the printed text gives exactly these tokens.  Import-free.
-/
import Rooc.Syntax.Format
import Rooc.Syntax.Doc
import Rooc.Syntax.Parse
namespace Rooc.Syntax
open Rooc

def binKwTok : BinOp → Tok
  | .add => .plus | .sub => .minus | .mul => .star | .div => .slash
  | .and => .word "and" | .or => .word "or" | .xor => .word "xor" | .implies => .word "implies" | .iff => .word "iff"
def unKwTok : UnOp → Tok
  | .neg => .minus | .not => .word "not"

/-- `Display for VariableKind` as tokens -/
def iterVarToks : IterVar → List Tok
  | .single n => [.word n]
  | .tuple ns => .lpar :: (ns.map Tok.word).intersperse .comma ++ [.rpar]

/-- is this the call the printer writes as `from..to` / `from..=to` where an iterator is expected? -/
def isRangeSugar (n : String) (args : List PExp) : Bool :=
  match n, args with
  | "range", [_, _, .bool _] => true
  | _, _ => false

/-- the entries of `a, b, c` -/
def splitItems : List Char → List Char → List (List Char)
  | [], cur => [cur.reverse]
  | ',' :: ' ' :: r, cur => cur.reverse :: splitItems r []
  | c :: r, cur => splitItems r (c :: cur)

/-- natural numbers of the display of an integer array (`[1, 2, 3]`), if it is one -/
def intArrayOf (d : String) : Option (List Nat) :=
  match d.toList with
  | '[' :: rest =>
    match rest.reverse with
    | ']' :: body =>
      let body := body.reverse
      if body.isEmpty then some []
      else
        let items := splitItems body []
        if items.all (fun it => !it.isEmpty && it.all isDigit) then some (items.map digitsToNat)
        else none
    | _ => none
  | _ => none

def intArrayToks (ns : List Nat) : List Tok :=
  .lbrack :: (ns.map (fun v => Tok.int (String.ofList (natDigits v)))).intersperse .comma ++ [.rbrack]

/-! ### graph literals as tokens (twin of `graphText`) -/

def costNumTok (s : String) : Tok := if s.toList.all isDigit then .int s else .float s
def edgeToks (e : GEdge) : List Tok :=
  .word e.to :: (match e.cost with
    | some (neg, s) => .colon :: ((if neg then [.minus] else []) ++ [costNumTok s])
    | none => [])
def edgesToks : List GEdge → List Tok
  | [] => []
  | [e] => edgeToks e
  | e :: e2 :: es => edgeToks e ++ .comma :: edgesToks (e2 :: es)
def nodeToks (n : GNode) : List Tok :=
  match n.edges with
  | [] => [.word n.name]
  | es => .word n.name :: .arrow :: .lbrack :: (edgesToks es ++ [.rbrack])
/-- the nodes behind the first: `,␤ node` each -/
def moreNodesToks : List GNode → List Tok
  | [] => []
  | n :: ns => .comma :: .nl :: (nodeToks n ++ moreNodesToks ns)
/-- the tokens behind `Graph {` -/
def graphBodyToks : List GNode → List Tok
  | [] => [.rbrace]
  | n :: ns => .nl :: (nodeToks n ++ (moreNodesToks ns ++ [.nl, .rbrace]))
def graphToks (ns : List GNode) : List Tok := .word "Graph" :: .lbrace :: graphBodyToks ns

/-- the graph a display text `Graph {␤    A -> [ B:2 ],␤    B␤}` stands for: the text through the lexer model and the
reader of graph literals -/
def graphOf (d : String) : Option (List GNode) :=
  match lex d.toList with
  | .ok (.word w :: .lbrace :: r) =>
    if w == "Graph" then
      match graphNodes r with
      | some (ns, []) => some ns
      | _ => none
    else none
  | _ => none

mutual
def fmtToks : PExp → List Tok
  | .int v => [.int (String.ofList (natDigits v))]
  | .num t => [.float t]
  | .bool b => [.word (if b then "true" else "false")]
  | .str s => [.str s]
  | .prim d =>
    match intArrayOf d with
    | some ns => intArrayToks ns
    | none =>
      match graphOf d with
      | some g => graphToks g
      | none => []
  | .var n => [.word n]
  | .cvar n idx => .word n :: fmtToksIdx idx
  | .access n idx => .word n :: fmtToksAcc idx
  | .call n args => .word n :: .lpar :: fmtToksArgs args ++ [.rpar]
  | .block k es => .word k :: .lbrace :: fmtToksArgs es ++ [.rbrace]
  | .scoped k vs its body => .word k :: .lpar :: fmtToksIters vs its ++ .rpar :: .lbrace :: fmtToks body ++ [.rbrace]
  | .un op e => unKwTok op :: (if e.isLeaf then fmtToks e else parenToks (fmtToks e))
  | .bin op l r =>
    (if printsParen op false l then parenToks (fmtToks l) else fmtToks l)
      ++ binKwTok op :: (if printsParen op true r then parenToks (fmtToks r) else fmtToks r)
def fmtToksArgs : List PExp → List Tok
  | [] => []
  | [a] => fmtToks a
  | a :: b :: rest => fmtToks a ++ .comma :: fmtToksArgs (b :: rest)
/-- indexes of a compound variable: a name, an integer, anything else in braces (a decimal literal of the fragment
has a fractional part, a string of the fragment is no name fragment: both in braces) -/
def fmtToksIdx : List PExp → List Tok
  | [] => []
  | .var i :: es =>
    if i.toList.contains '_' then .us :: .lbrace :: .word i :: .rbrace :: fmtToksIdx es
    else .us :: .word i :: fmtToksIdx es
  | .int v :: es => .us :: .int (String.ofList (natDigits v)) :: fmtToksIdx es
  | e :: es => .us :: .lbrace :: fmtToks e ++ .rbrace :: fmtToksIdx es
def fmtToksAcc : List PExp → List Tok
  | [] => []
  | e :: es => .lbrack :: fmtToks e ++ .rbrack :: fmtToksAcc es
/-- `Display for IterableSet` with the range sugar of `std_fn_to_string` -/
def fmtToksIters : List IterVar → List PExp → List Tok
  | [v], [e] => iterVarToks v ++ .word "in" :: fmtToksIter e
  | v :: vs, e :: es => iterVarToks v ++ .word "in" :: fmtToksIter e ++ .comma :: fmtToksIters vs es
  | _, _ => []
def fmtToksIter : PExp → List Tok
  | .call "range" [a, b, .bool incl] =>
    (if a.isLeaf then fmtToks a else parenToks (fmtToks a))
      ++ (if incl then .dotdoteq else .dotdot) :: (if b.isLeaf then fmtToks b else parenToks (fmtToks b))
  | e => fmtToks e
end

/-- `for …` behind a constraint / a domain declaration -/
def forToks (vs : List IterVar) (its : List PExp) : List Tok :=
  if its.isEmpty then [] else .word "for" :: fmtToksIters vs its

/-- float texts that are float literals -/
def isFloatText (s : String) : Bool :=
  let cs := s.toList
  let ip := cs.takeWhile isDigit
  match cs.dropWhile isDigit with
  | '.' :: fp => !ip.isEmpty && !fp.isEmpty && fp.all isDigit
  | _ => false

/-- the text of a cost: an integer or a decimal literal -/
def costOKb : Option (Bool × String) → Bool
  | none => true
  | some (_, s) => (!s.toList.isEmpty && s.toList.all isDigit) || isFloatText s

/-- the graphs of the printable fragment (decidable twin of `GraphOK`, plus the lexical condition on the costs) -/
def graphOKb (ns : List GNode) : Bool :=
  ns.all (fun n => isSimpleWord n.name && n.edges.all (fun e => isSimpleWord e.to && costOKb e.cost))
    && !(ns.any (fun n => hasDupEdge n.edges))
    && (match ns with
        | ⟨n, e :: _⟩ :: _ => !(isKeyword n) && e.to != "true" && e.to != "false"
        | _ => false)

/-- a display text that is a graph of the printable fragment -/
def graphCore (d : String) : Bool :=
  (intArrayOf d).isNone &&
    (match graphOf d with
     | some ns => graphText ns == d && graphOKb ns
     | none => false)

/-- the value of a `where` constant may also be a graph literal -/
def coreGraphValue : PExp → Bool
  | .prim d => graphCore d
  | _ => false

/-- a name the lexer reads as one word and the parser as a variable: `LETTER (LETTER | NUMBER)*`, no keyword -/
def plainVar (n : String) : Bool := isPlainRun n.toList && !(isKeyword n)

/-- a name the printer writes escaped (`\x_1`) and the lexer reads back as the one word `x_1`: base and segments
without `$` / leading underscores / braces -/
def escapedVar (n : String) : Bool := isEscapedRun n.toList && !(isKeyword n)

/-- a variable name of the printable fragment: plain, or escaped -/
def nameVar (n : String) : Bool := plainVar n || escapedVar n

def printableIterVar : IterVar → Bool
  | .single n => plainVar n
  | .tuple ns => !ns.isEmpty && ns.all plainVar

mutual
/-- THE PRINTABLE FRAGMENT of expressions: trees the printer writes in a form the lexer model cuts into `fmtToks`
and the parser model reads back as the same tree.  Outside: names with `$` or leading underscores and escaped names
with braces or name fragments (escaped names `\\x_1`, `\\total_a_2` are inside), float texts that are
no float literal (`inf`, `NaN`, exponent forms), calls whose name has an underscore, opaque primitives (graphs,
arrays other than integer arrays), strings with `"` or `\`, string indexes of compound variables that are name
fragments (`_2`, written bare), unknown block kinds.  Since the repairs 10f80da / 7352fcb a `range(a, b, true)` call
outside an iterator and a decimal or string index `x_{1.5}`, `x_{"a"}` are INSIDE. -/
def coreExp : PExp → Bool
  | .int v => decide (v ≤ i64Max)
  | .num t => isFloatText t
  | .bool _ => true
  | .str s => s.toList.all (fun c => c != '"' && c != '\\' && c != '\n' && c != '\r')
  | .prim d =>
    match intArrayOf d with
    | some ns => ns.all (fun v => decide (v ≤ i64Max)) && d == arrayText (ns.map (fun v => String.ofList (natDigits v)))
    | none => false
  | .var n => nameVar n
  | .cvar n idx => isPlainRun n.toList && !idx.isEmpty && coreIdx idx
  | .access n idx => isPlainRun n.toList && n != "not" && !idx.isEmpty && coreList idx
  | .call n args => n != "not" && isFunctionName n && coreList args
  | .block k es => Gen.blockKinds.any (fun e => e.2 == k) && (blockKindErr k es.length).isNone && !es.isEmpty && coreList es
  | .scoped k vs its b =>
    Gen.scopedKinds.any (fun e => e.2 == k) && !its.isEmpty && vs.length == its.length && vs.all printableIterVar
      && coreIters its && coreExp b
  | .un _ e => coreExp e
  | .bin _ l r => coreExp l && coreExp r
def coreList : List PExp → Bool
  | [] => true
  | e :: es => coreExp e && coreList es
def coreIdx : List PExp → Bool
  | [] => true
  | .num t :: es => !(numIndexBare t) && coreExp (.num t) && coreIdx es
  | .str s :: es => !(strIndexBare s) && coreExp (.str s) && coreIdx es
  | .var i :: es => (isPlainRun i.toList || escapedVar i) && coreIdx es
  | e :: es => coreExp e && coreIdx es
def coreIters : List PExp → Bool
  | [] => true
  | e :: es => coreIter e && coreIters es
def coreIter : PExp → Bool
  | .call "range" [a, b, .bool _] => coreExp a && coreExp b
  | e => coreExp e
end

end Rooc.Syntax
