/-
Token-level twin of the expression printer (`fmtExp`, `Rooc/Syntax/Format.lean`) on the expression
sub-language: the same parenthesisation decisions, as tokens.  The driver checks on every generated
case that lexing the printed text gives exactly these tokens.  `fmtToksFixed` is the printer after
`fixes/C11-parens.diff`.  Import-free.
-/
import Rooc.Syntax.Format
import Rooc.Syntax.Doc
namespace Rooc.Syntax
open Rooc

def binKwTok : BinOp → Tok
  | .add => .plus | .sub => .minus | .mul => .star | .div => .slash
  | .and => .word "and" | .or => .word "or" | .xor => .word "xor" | .implies => .word "implies" | .iff => .word "iff"
def unKwTok : UnOp → Tok
  | .neg => .minus | .not => .word "not"

/-- does `to_string_with_precedence` put parentheses around operand `e` of an operator of precedence `prev`? -/
def printsParen (prev : Nat) : PExp → Bool
  | .bin op _ _ => decide (Gen.binPrec op < prev)
  | _ => false

/-- the repaired rule: also a right operand of equal precedence under a left-associative parent and a
right-associative left operand of equal precedence -/
def printsParenFixed (parent : BinOp) (isRhs : Bool) : PExp → Bool
  | .bin op _ _ =>
    decide (Gen.binPrec op < Gen.binPrec parent) ||
      (decide (Gen.binPrec op = Gen.binPrec parent) && (if isRhs then Gen.binLeftAssoc parent else !(Gen.binLeftAssoc op)))
  | _ => false

mutual
def fmtToks : PExp → List Tok
  | .int v => [.int (String.ofList (natDigits v))]
  | .num t => [.float t]
  | .bool b => [.word (if b then "true" else "false")]
  | .var n => [.word n]
  | .call n args => .word n :: .lpar :: fmtToksArgs args ++ [.rpar]
  | .un op e => unKwTok op :: (if e.isLeaf then fmtToks e else parenToks (fmtToks e))
  | .bin op l r =>
    (if printsParen (Gen.binPrec op) l then parenToks (fmtToks l) else fmtToks l)
      ++ binKwTok op :: (if printsParen (Gen.binPrec op) r then parenToks (fmtToks r) else fmtToks r)
  | _ => []
def fmtToksArgs : List PExp → List Tok
  | [] => []
  | [a] => fmtToks a
  | a :: b :: rest => fmtToks a ++ .comma :: fmtToksArgs (b :: rest)
end

mutual
def fmtToksFixed : PExp → List Tok
  | .int v => [.int (String.ofList (natDigits v))]
  | .num t => [.float t]
  | .bool b => [.word (if b then "true" else "false")]
  | .var n => [.word n]
  | .call n args => .word n :: .lpar :: fmtToksFixedArgs args ++ [.rpar]
  | .un op e => unKwTok op :: (if e.isLeaf then fmtToksFixed e else parenToks (fmtToksFixed e))
  | .bin op l r =>
    (if printsParenFixed op false l then parenToks (fmtToksFixed l) else fmtToksFixed l)
      ++ binKwTok op :: (if printsParenFixed op true r then parenToks (fmtToksFixed r) else fmtToksFixed r)
  | _ => []
def fmtToksFixedArgs : List PExp → List Tok
  | [] => []
  | [a] => fmtToksFixed a
  | a :: b :: rest => fmtToksFixed a ++ .comma :: fmtToksFixedArgs (b :: rest)
end

/-- the expression sub-language as the printer sees it (no escaped names, no range sugar, float texts
that are float literals) -/
def isFloatText (s : String) : Bool :=
  let cs := s.toList
  let ip := cs.takeWhile isDigit
  match cs.dropWhile isDigit with
  | '.' :: fp => !ip.isEmpty && !fp.isEmpty && fp.all isDigit
  | _ => false

mutual
def coreExp : PExp → Bool
  | .int _ => true
  | .num t => isFloatText t
  | .bool _ => true
  | .var n => !(n.toList.contains '_')
  | .call n args => n != "range" && n.toList.all isLetter && coreList args
  | .un _ e => coreExp e
  | .bin _ l r => coreExp l && coreExp r
  | _ => false
def coreList : List PExp → Bool
  | [] => true
  | e :: es => coreExp e && coreList es
end

/-! hypothesis of `parse_format_partial`: wherever the grammar NEEDS parentheses around an operand, the
printer emits them (fails exactly at an operand of EQUAL precedence that the parser would regroup) -/
mutual
def roundTrips : PExp → Bool
  | .bin p l r =>
    (printsParen (Gen.binPrec p) l || !(Doc.needParenLeft p l)) && (printsParen (Gen.binPrec p) r || !(Doc.needParenRight p r))
      && roundTrips l && roundTrips r
  | .un _ e => roundTrips e
  | .call _ args => roundTripsList args
  | _ => true
def roundTripsList : List PExp → Bool
  | [] => true
  | e :: es => roundTrips e && roundTripsList es
end

end Rooc.Syntax
