/-
Token-level twin of the expression printer (`fmtExp`, `Rooc/Syntax/Format.lean`) on the expression
sub-language: the same parenthesisation decisions, as tokens.  The driver checks on every generated
case that lexing the printed text gives exactly these tokens.  Import-free.
-/
import Rooc.Syntax.Format
import Rooc.Syntax.Doc
namespace Rooc.Syntax
open Rooc

def binKwTok : BinOp → Tok
  | .add => .plus | .sub => .minus | .mul => .star | .div => .slash
  | .and => .word "and" | .or => .word "or" | .xor => .word "xor" | .implies => .word "implies" | .iff => .word "iff"
def unKwTok : UnOp → Tok
  | .neg => .minus | .not => .word "not"

mutual
def fmtToks : PExp → List Tok
  | .int v => [.int (String.ofList (natDigits v))]
  | .num t => [.float t]
  | .bool b => [.word (if b then "true" else "false")]
  | .var n => [.word n]
  | .call n args => .word n :: .lpar :: fmtToksArgs args ++ [.rpar]
  | .un op e => unKwTok op :: (if e.isLeaf then fmtToks e else parenToks (fmtToks e))
  | .bin op l r =>
    (if printsParen op false l then parenToks (fmtToks l) else fmtToks l)
      ++ binKwTok op :: (if printsParen op true r then parenToks (fmtToks r) else fmtToks r)
  | _ => []
def fmtToksArgs : List PExp → List Tok
  | [] => []
  | [a] => fmtToks a
  | a :: b :: rest => fmtToks a ++ .comma :: fmtToksArgs (b :: rest)
end

/-- the expression sub-language as the printer sees it (no escaped names, no range sugar, float texts
that are float literals) -/
def isFloatText (s : String) : Bool :=
  let cs := s.toList
  let ip := cs.takeWhile isDigit
  match cs.dropWhile isDigit with
  | '.' :: fp => !ip.isEmpty && !fp.isEmpty && fp.all isDigit
  | _ => false

mutual
def coreExp : PExp → Bool
  | .int _ => true
  | .num t => isFloatText t
  | .bool _ => true
  | .var n => !(needsEscape n)
  | .call n args => n != "range" && n.toList.all isLetter && coreList args
  | .un _ e => coreExp e
  | .bin _ l r => coreExp l && coreExp r
  | _ => false
def coreList : List PExp → Bool
  | [] => true
  | e :: es => coreExp e && coreList es
end

end Rooc.Syntax
