/-
M8 (part 6) — the program-level rules of grammar.pest read over tokens, for the fragment WITHOUT iterations
and with simple names: `problem`, `objective`, `constraint_list` / `constraint` (name, comparison or bare
logic assertion), `consts_declaration` (`let name = exp`), `domains_declaration` (`x, y as Type` /
`Type(exp, exp)`), and the builders of rules_parser/other_parser.rs (`parse_objective`, `parse_constraint`,
`parse_const_declaration`, `parse_domain_declaration`, `parse_as_assertion_type`).  PEG's possessive `?` /
`*` are kept: a failing repetition step backtracks to before its newlines.  Diffed against
`RoocParser::parse` on generated programs of the fragment; constructs outside it (`for`, blocks, compound
names, …) make the model reject or the lexer answer `unsupported` and are not generated.  Import-free.
-/
import Rooc.Syntax.Parse
import Rooc.Syntax.Format
namespace Rooc.Syntax

/-- `nl*` -/
def skipNl : List Tok → List Tok
  | .nl :: r => skipNl r
  | toks => toks

/-- `nl+` -/
def needNl : List Tok → Option (List Tok)
  | .nl :: r => some (skipNl r)
  | _ => none

def cmpOfTok : Tok → Option Cmp
  | .le => some .le | .ge => some .ge | .eq => some .eq | .lt => some .lt | .gt => some .gt
  | _ => none

def lowerAscii (c : Char) : Char := if decide ('A' ≤ c) && decide (c ≤ 'Z') then Char.ofNat (c.toNat + 32) else c
def lowerWord (w : String) : String := String.ofList (w.toList.map lowerAscii)

/-- one expression with the fuel of `parseToks` -/
def expAt (toks : List Tok) : PRes (PExp × List Tok) := parseExp (parseFuel toks) toks

/-- `objective = { (objective_type ~ tagged_exp) | solve }` and `parse_objective` (`"min"`/`"max"`/`"solve"`
must be spelled in lower case for `OptimizationType::from_str`) -/
def parseObjective : List Tok → PRes (ObjKind × PExp × List Tok)
  | .word w :: r =>
    if w == "min" then (match expAt r with | .ok (e, r') => .ok (.min, e, r') | .error e => .error e)
    else if w == "max" then (match expAt r with | .ok (e, r') => .ok (.max, e, r') | .error e => .error e)
    else if w == "solve" then .ok (.solve, .bool true, r)
    else .error .reject
  | _ => .error .reject

/-- `constraint_name = { variable ~ ":" ~ nl* }` (optional) -/
def constraintName : List Tok → Option CName × List Tok
  | .word w :: .colon :: r => if isKeyword w then (none, .word w :: .colon :: r) else (some (.plain w), skipNl r)
  | toks => (none, toks)

/-- `tagged_exp ~ (comparison ~ tagged_exp)?` and `parse_constraint` (a constraint without comparison is the
logic assertion `lhs = true`) -/
def constraintBody (name : Option CName) (toks : List Tok) : PRes (PConstraint × List Tok) :=
  match expAt toks with
  | .error e => .error e
  | .ok (lhs, r1) =>
    let assertion : PRes (PConstraint × List Tok) :=
      .ok ({ name := name, lhs := lhs, cmp := .eq, rhs := .bool true, logic := true, iterVars := [], iters := [] }, r1)
    match r1 with
    | tk :: r2 =>
      match cmpOfTok tk with
      | some c =>
        match expAt r2 with
        | .ok (rhs, r3) =>
          .ok ({ name := name, lhs := lhs, cmp := c, rhs := rhs, logic := false, iterVars := [], iters := [] }, r3)
        | .error .reject => assertion
        | .error e => .error e
      | none => assertion
    | [] => assertion

/-- `constraint` without iteration -/
def parseConstraint (toks : List Tok) : PRes (PConstraint × List Tok) :=
  constraintBody (constraintName toks).1 (constraintName toks).2

/-- `constraint_list = { (constraint ~ (nl* ~ constraint)*)? }` -/
def parseConstraints : Nat → List Tok → List PConstraint → PRes (List PConstraint × List Tok)
  | 0, _, _ => .error .fuel
  | f+1, toks, acc =>
    match parseConstraint (skipNl toks) with
    | .ok (c, rest) => parseConstraints f rest (acc ++ [c])
    | .error .reject => .ok (acc, toks)
    | .error e => .error e

/-- `consts_declaration = { (nl+ ~ const_declaration)* }`, `const_declaration = { "let" ~ name ~ "=" ~ tagged_exp }` -/
def parseConsts : Nat → List Tok → List (String × PExp) → PRes (List (String × PExp) × List Tok)
  | 0, _, _ => .error .fuel
  | f+1, toks, acc =>
    match needNl toks with
    | some (.word "let" :: .word n :: .eq :: r) =>
      match expAt r with
      | .ok (v, rest) => parseConsts f rest (acc ++ [(n, v)])
      | .error .reject => .ok (acc, toks)
      | .error e => .error e
    | _ => .ok (acc, toks)

/-- `domain_variables = { (variable ~ comma ~ nl*)* ~ variable }` on simple names -/
def parseDomainVars : Nat → List Tok → List CName → Option (List CName × List Tok)
  | 0, _, _ => none
  | f+1, toks, acc =>
    match toks with
    | .word w :: .comma :: r =>
      -- the repetition `(variable ~ comma ~ nl*)*` is possessive: once it has taken `w ,` a variable must follow
      if isKeyword w then none else parseDomainVars f (skipNl r) (acc ++ [.plain w])
    | .word w :: r => if isKeyword w then none else some (acc ++ [.plain w], r)
    | _ => none

/-- `as_value = { "(" ~ (tagged_exp ~ comma)* ~ tagged_exp ~ ")" }` after the `(` -/
def parseTypeArgs : Nat → List Tok → List PExp → PRes (List PExp × List Tok)
  | 0, _, _ => .error .fuel
  | f+1, toks, acc =>
    match expAt toks with
    | .ok (e, .comma :: r) => parseTypeArgs f (skipNl r) (acc ++ [e])
    | .ok (e, .rpar :: r) => .ok (acc ++ [e], r)
    | .ok _ => .error .reject
    | .error e => .error e

/-- `as_type = @{ LETTER ~ (LETTER | NUMBER)* }` -/
def isTypeName (w : String) : Bool :=
  match w.toList with
  | c :: rest => isLetter c && rest.all (fun d => isLetter d || isDigit d)
  | [] => false

/-- `parse_as_assertion_type` -/
def mkVarType (name : String) (args : Option (List PExp)) : Option PVarType :=
  match args with
  | some as =>
    let lo := as[0]?
    let hi := as[1]?
    if name == "IntegerRange" then
      match lo, hi with
      | some a, some b => some (.intRange a b)
      | _, _ => none
    else if name == "NonNegativeReal" then some (.nonNegReal lo hi)
    else if name == "Real" then some (.real lo hi)
    else none
  | none =>
    if name == "Boolean" then some .boolean
    else if name == "Real" then some (.real none none)
    else if name == "NonNegativeReal" then some (.nonNegReal none none)
    else none

/-- `domain_declaration` without iteration -/
def parseDomain (toks : List Tok) : PRes (PDomain × List Tok) :=
  match parseDomainVars (toks.length + 1) toks [] with
  | none => .error .reject
  | some (vars, r) =>
    match skipNl r with
    | .word a :: .word ty :: r2 =>
      if lowerWord a == "as" && isTypeName ty && !(isKeyword ty) then
        match r2 with
        | .lpar :: r3 =>
          match parseTypeArgs (r3.length + 1) r3 [] with
          | .ok (as, r4) =>
            match mkVarType ty (some as) with
            | some t => .ok ({ vars := vars, ty := t, iterVars := [], iters := [] }, r4)
            | none => .error .reject
          | .error .reject =>
            -- `as_value?` fails: the declaration ends after the type name
            match mkVarType ty none with
            | some t => .ok ({ vars := vars, ty := t, iterVars := [], iters := [] }, r2)
            | none => .error .reject
          | .error e => .error e
        | _ =>
          match mkVarType ty none with
          | some t => .ok ({ vars := vars, ty := t, iterVars := [], iters := [] }, r2)
          | none => .error .reject
      else .error .reject
    | _ => .error .reject

/-- `domains_declaration = { (nl+ ~ domain_declaration)* }` -/
def parseDomains : Nat → List Tok → List PDomain → PRes (List PDomain × List Tok)
  | 0, _, _ => .error .fuel
  | f+1, toks, acc =>
    match needNl toks with
    | some r =>
      match parseDomain r with
      | .ok (d, rest) => parseDomains f rest (acc ++ [d])
      | .error .reject => .ok (acc, toks)
      | .error e => .error e
    | none => .ok (acc, toks)

/-- `(nl+ ~ ^"define" ~ domains_declaration)? ~ nl* ~ EOI` -/
def parseDefineEnd (t6 : List Tok) (kind : ObjKind) (obj : PExp) (cs : List PConstraint) (consts : List (String × PExp)) :
    PRes PModel :=
  let df : PRes (List PDomain × List Tok) :=
    match needNl t6 with
    | some (.word w :: r) => if lowerWord w == "define" then parseDomains (r.length + 1) r [] else .ok ([], t6)
    | _ => .ok ([], t6)
  match df with
  | .error e => .error e
  | .ok (doms, t7) =>
    match skipNl t7 with
    | [] => .ok { objKind := kind, objective := obj, constraints := cs, constants := consts, domains := doms }
    | _ => .error .reject

/-- `(nl+ ~ ^"where" ~ consts_declaration)? ~ (nl+ ~ ^"define" ~ domains_declaration)? ~ nl* ~ EOI` -/
def parseDecls (t5 : List Tok) (kind : ObjKind) (obj : PExp) (cs : List PConstraint) : PRes PModel :=
  let wh : PRes (List (String × PExp) × List Tok) :=
    match needNl t5 with
    | some (.word w :: r) => if lowerWord w == "where" then parseConsts (r.length + 1) r [] else .ok ([], t5)
    | _ => .ok ([], t5)
  match wh with
  | .error e => .error e
  | .ok (consts, t6) => parseDefineEnd t6 kind obj cs consts

/-- `problem` and `parse_problem` -/
def parseProgram (toks : List Tok) : PRes PModel :=
  match parseObjective (skipNl toks) with
  | .error e => .error e
  | .ok (kind, obj, t1) =>
    match needNl t1 with
    | some (.st :: t3) =>
      match needNl t3 with
      | none => .error .reject
      | some t4 =>
        match parseConstraints (t4.length + 1) t4 [] with
        | .error e => .error e
        | .ok (cs, t5) => parseDecls t5 kind obj cs
    | _ => .error .reject

inductive ProgRes where
  | ok (m : PModel)
  | err (e : PErr)
  | unsupported
  deriving Inhabited

def parseProgramText (s : List Char) : ProgRes :=
  match lex s with
  | .unsupported => .unsupported
  | .ok toks =>
    match parseProgram toks with
    | .ok m => .ok m
    | .error e => .err e

end Rooc.Syntax
