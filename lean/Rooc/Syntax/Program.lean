/-
M8 (part 6) — the program-level rules of grammar.pest read over tokens: `problem`, `objective`,
`constraint_list` / `constraint` (name, comparison or bare logic assertion, `for` iteration),
`consts_declaration` (`let name = exp`), `domains_declaration` (`x, y_i as Type(exp, exp) for …`), and the
builders of rules_parser/other_parser.rs (`parse_objective`, `parse_constraint`, `parse_const_declaration`,
`parse_domain_declaration`, `parse_as_assertion_type`).  Two phases as in the Rust: the PEG reading
(`parseProgramRaw`) and the AST building with its errors in the order the Rust raises them (`buildProgram`).
PEG's possessive `?` / `*` are kept: a failing repetition step backtracks to before its newlines.  Diffed against
`RoocParser::parse` on generated programs; constructs outside the model make the lexer answer `unsupported`.
Import-free.
-/
import Rooc.Syntax.Parse
import Rooc.Syntax.Format
namespace Rooc.Syntax

/-- `nl+` -/
def needNl : List Tok → Option (List Tok)
  | .nl :: r => some (skipNl r)
  | _ => none

def cmpOfTok : Tok → Option Cmp
  | .le => some .le | .ge => some .ge | .eq => some .eq | .lt => some .lt | .gt => some .gt
  | _ => none

/-- one expression with the fuel of `parseToks` -/
def expAt (toks : List Tok) : PRes (PExp × List Tok) := parseExp (parseFuel toks) toks

/-- `(nl* ~ for_iteration)?` with `for_iteration = _{ ^"for" ~ iteration_declaration_list }` -/
def optFor (toks : List Tok) : PRes ((List IterVar × List PExp) × List Tok) :=
  match skipNl toks with
  | .word w :: r =>
    if lowerWord w == "for" then
      match iterList (parseFuel r) r [] [] with
      | .ok res => .ok res
      | .error .reject => .ok (([], []), toks)
      | .error e => .error e
    else .ok (([], []), toks)
  | _ => .ok (([], []), toks)

/-- what the PEG reads of the objective: the word of `objective_type` / `solve` as written, and the body -/
structure RawObjective where
  word : String
  body : Option PExp
  deriving Repr, Inhabited

/-- `objective = { (objective_type ~ tagged_exp) | solve }`, `objective_type = @{ ^"min" | ^"max" }`,
`solve = @{ ^"solve" }` -/
def parseObjective : List Tok → PRes (RawObjective × List Tok)
  | .word w :: r =>
    if lowerWord w == "min" || lowerWord w == "max" then
      match expAt r with
      | .ok (e, r') => .ok ({ word := w, body := some e }, r')
      | .error e => .error e
    else if lowerWord w == "solve" then .ok ({ word := w, body := none }, r)
    else .error .reject
  | _ => .error .reject

def CName.ofExp : PExp → Option CName
  | .var n => some (.plain n)
  | .cvar n idx => some (.compound n idx)
  | _ => none

/-- `variable` where a name is declared (constraint name, domain variable) -/
def nameAt (toks : List Tok) : PRes (Option CName × List Tok) :=
  match optVariable (parseFuel toks) toks with
  | .ok (some v, r) => .ok (CName.ofExp v, r)
  | .ok (none, r) => .ok (none, r)
  | .error e => .error e

/-- `constraint_name = { variable ~ ":" ~ nl* }` (optional) -/
def constraintName (toks : List Tok) : PRes (Option CName × List Tok) :=
  match nameAt toks with
  | .ok (some n, .colon :: r) => .ok (some n, skipNl r)
  | .ok _ => .ok (none, toks)
  | .error e => .error e

/-- `tagged_exp ~ (comparison ~ tagged_exp)? ~ (nl* ~ for_iteration)?` and `parse_constraint` (a constraint without
comparison is the logic assertion `lhs = true`) -/
def constraintBody (name : Option CName) (toks : List Tok) : PRes (PConstraint × List Tok) :=
  match expAt toks with
  | .error e => .error e
  | .ok (lhs, r1) =>
    let finish (cmp : Cmp) (rhs : PExp) (logic : Bool) (r : List Tok) : PRes (PConstraint × List Tok) :=
      match optFor r with
      | .ok ((vs, its), r') =>
        .ok ({ name := name, lhs := lhs, cmp := cmp, rhs := rhs, logic := logic, iterVars := vs, iters := its }, r')
      | .error e => .error e
    match r1 with
    | tk :: r2 =>
      match cmpOfTok tk with
      | some c =>
        match expAt r2 with
        | .ok (rhs, r3) => finish c rhs false r3
        | .error .reject => finish .eq (.bool true) true r1
        | .error e => .error e
      | none => finish .eq (.bool true) true r1
    | [] => finish .eq (.bool true) true r1

/-- `constraint` -/
def parseConstraint (toks : List Tok) : PRes (PConstraint × List Tok) :=
  match constraintName toks with
  | .ok (name, r) => constraintBody name r
  | .error e => .error e

/-- `constraint_list = { (constraint ~ (nl* ~ constraint)*)? }` -/
def parseConstraints : Nat → List Tok → List PConstraint → PRes (List PConstraint × List Tok)
  | 0, _, _ => .error .fuel
  | f+1, toks, acc =>
    match parseConstraint (skipNl toks) with
    | .ok (c, rest) => parseConstraints f rest (acc ++ [c])
    | .error .reject => .ok (acc, toks)
    | .error e => .error e

/-- `consts_declaration = { (nl+ ~ const_declaration)* }`, `const_declaration = { "let" ~ name ~ "=" ~ tagged_exp }` -/
def parseConsts : Nat → List Tok → List (String × PExp) → PRes (List (String × PExp) × List Tok)
  | 0, _, _ => .error .fuel
  | f+1, toks, acc =>
    match needNl toks with
    | some (.word "let" :: .word n :: .eq :: r) =>
      match expAt r with
      | .ok (v, rest) => parseConsts f rest (acc ++ [(n, v)])
      | .error .reject => .ok (acc, toks)
      | .error e => .error e
    | _ => .ok (acc, toks)

/-- `domain_variables = { (variable ~ comma ~ nl*)* ~ variable }` -/
def parseDomainVars : Nat → List Tok → List CName → PRes (List CName × List Tok)
  | 0, _, _ => .error .fuel
  | f+1, toks, acc =>
    match nameAt toks with
    | .error e => .error e
    -- the repetition `(variable ~ comma ~ nl*)*` is possessive: once it has taken `w ,` a variable must follow
    | .ok (some n, .comma :: r) => parseDomainVars f (skipNl r) (acc ++ [n])
    | .ok (some n, r) => .ok (acc ++ [n], r)
    | .ok (none, _) => .error .reject

/-- `as_value = { "(" ~ (tagged_exp ~ comma)* ~ tagged_exp ~ ")" }` after the `(` -/
def parseTypeArgs : Nat → List Tok → List PExp → PRes (List PExp × List Tok)
  | 0, _, _ => .error .fuel
  | f+1, toks, acc =>
    match expAt toks with
    | .ok (e, .comma :: r) => parseTypeArgs f (skipNl r) (acc ++ [e])
    | .ok (e, .rpar :: r) => .ok (acc ++ [e], r)
    | .ok _ => .error .reject
    | .error e => .error e

/-- `as_type = @{ LETTER ~ (LETTER | NUMBER)* }` -/
def isTypeName (w : String) : Bool :=
  match w.toList with
  | c :: rest => isLetter c && rest.all (fun d => isLetter d || isDigit d)
  | [] => false

/-- what the PEG reads of a domain declaration -/
structure RawDomain where
  vars : List CName
  tyName : String
  args : Option (List PExp)
  iterVars : List IterVar
  iters : List PExp
  deriving Repr, Inhabited

/-- `(nl* ~ for_iteration)?` behind the type of a declaration -/
def domainFinish (vars : List CName) (ty : String) (args : Option (List PExp)) (r : List Tok) : PRes (RawDomain × List Tok) :=
  match optFor r with
  | .ok ((vs, its), r') => .ok ({ vars := vars, tyName := ty, args := args, iterVars := vs, iters := its }, r')
  | .error e => .error e

/-- `as_value?` and the iteration behind the type name -/
def domainTail (vars : List CName) (ty : String) (r2 : List Tok) : PRes (RawDomain × List Tok) :=
  match r2 with
  | .lpar :: r3 =>
    match parseTypeArgs (r3.length + 1) r3 [] with
    | .ok (as, r4) => domainFinish vars ty (some as) r4
    | .error .reject => domainFinish vars ty none r2      -- `as_value?` fails: the declaration goes on after the type name
    | .error e => .error e
  | _ => domainFinish vars ty none r2

/-- `domain_declaration = { domain_variables ~ nl* ~ ^"as" ~ as_assertion ~ (nl* ~ for_iteration)? }`,
`as_assertion = { (!keyword ~ as_type) ~ as_value? }` -/
def parseDomain (toks : List Tok) : PRes (RawDomain × List Tok) :=
  match parseDomainVars (toks.length + 1) toks [] with
  | .error e => .error e
  | .ok (vars, r) =>
    match skipNl r with
    | .word a :: .word ty :: r2 =>
      if lowerWord a == "as" && isTypeName ty && !(isKeyword ty) then domainTail vars ty r2
      else .error .reject
    | _ => .error .reject

/-- `domains_declaration = { (nl+ ~ domain_declaration)* }` -/
def parseDomains : Nat → List Tok → List RawDomain → PRes (List RawDomain × List Tok)
  | 0, _, _ => .error .fuel
  | f+1, toks, acc =>
    match needNl toks with
    | some r =>
      match parseDomain r with
      | .ok (d, rest) => parseDomains f rest (acc ++ [d])
      | .error .reject => .ok (acc, toks)
      | .error e => .error e
    | none => .ok (acc, toks)

/-- what the PEG reads of a program -/
structure RawProgram where
  objective : RawObjective
  constraints : List PConstraint
  constants : List (String × PExp)
  domains : List RawDomain
  deriving Repr, Inhabited

/-- `(nl+ ~ ^"define" ~ domains_declaration)? ~ nl* ~ EOI` -/
def parseDefineEnd (t6 : List Tok) (obj : RawObjective) (cs : List PConstraint) (consts : List (String × PExp)) :
    PRes RawProgram :=
  let df : PRes (List RawDomain × List Tok) :=
    match needNl t6 with
    | some (.word w :: r) => if lowerWord w == "define" then parseDomains (r.length + 1) r [] else .ok ([], t6)
    | _ => .ok ([], t6)
  match df with
  | .error e => .error e
  | .ok (doms, t7) =>
    match skipNl t7 with
    | [] => .ok { objective := obj, constraints := cs, constants := consts, domains := doms }
    | _ => .error .reject

/-- `(nl+ ~ ^"where" ~ consts_declaration)? ~ (nl+ ~ ^"define" ~ domains_declaration)? ~ nl* ~ EOI` -/
def parseDecls (t5 : List Tok) (obj : RawObjective) (cs : List PConstraint) : PRes RawProgram :=
  let wh : PRes (List (String × PExp) × List Tok) :=
    match needNl t5 with
    | some (.word w :: r) => if lowerWord w == "where" then parseConsts (r.length + 1) r [] else .ok ([], t5)
    | _ => .ok ([], t5)
  match wh with
  | .error e => .error e
  | .ok (consts, t6) => parseDefineEnd t6 obj cs consts

/-- `problem`: the PEG phase -/
def parseProgramRaw (toks : List Tok) : PRes RawProgram :=
  match parseObjective (skipNl toks) with
  | .error e => .error e
  | .ok (obj, t1) =>
    match needNl t1 with
    | some (.st :: t3) =>
      match needNl t3 with
      | none => .error .reject
      | some t4 =>
        match parseConstraints (t4.length + 1) t4 [] with
        | .error e => .error e
        | .ok (cs, t5) => parseDecls t5 obj cs
    | _ => .error .reject

/-! ### the AST builders (`parse_problem` and below), with the first error in the order the Rust meets them -/

def firstErr : List (Option String) → Option String
  | [] => none
  | some e :: _ => some e
  | none :: rest => firstErr rest

/-- `parse_objective`: `as_str().parse::<OptimizationType>()` knows the lower-case spellings only -/
def buildObjective (o : RawObjective) : Except String (ObjKind × PExp) :=
  match o.body with
  | some body =>
    if o.word == "min" then (match buildErr body with | some e => .error e | none => .ok (.min, body))
    else if o.word == "max" then (match buildErr body with | some e => .error e | none => .ok (.max, body))
    else .error "objective-kind"
  | none => if o.word == "solve" then .ok (.solve, .bool true) else .error "objective-kind"

def CName.buildErr : CName → Option String
  | .plain _ => none
  | .compound _ idx => buildErrList idx

/-- `parse_constraint`: the name, the iteration, the left side, the right side -/
def PConstraint.buildErr (c : PConstraint) : Option String :=
  firstErr [(match c.name with | some n => n.buildErr | none => none), buildErrList c.iters, Syntax.buildErr c.lhs,
    Syntax.buildErr c.rhs]

/-- `parse_as_assertion_type`: only the first two values are read -/
def mkVarType (name : String) (args : Option (List PExp)) : Except String PVarType :=
  match args with
  | some as =>
    let lo := as[0]?
    let hi := as[1]?
    match firstErr [lo.bind Syntax.buildErr, hi.bind Syntax.buildErr] with
    | some e => .error e
    | none =>
      if name == "IntegerRange" then
        match lo, hi with
        | some a, some b => .ok (.intRange a b)
        | _, _ => .error "integer-range-arity"
      else if name == "NonNegativeReal" then .ok (.nonNegReal lo hi)
      else if name == "Real" then .ok (.real lo hi)
      else .error "unknown-type"
  | none =>
    if name == "IntegerRange" then .error "integer-range-arity"
    else if name == "Boolean" then .ok .boolean
    else if name == "Real" then .ok (.real none none)
    else if name == "NonNegativeReal" then .ok (.nonNegReal none none)
    else .error "unknown-type"

/-- `parse_domain_declaration`: `variables?, as_type?, iteration?` -/
def buildDomain (d : RawDomain) : Except String PDomain :=
  match firstErr (d.vars.map CName.buildErr) with
  | some e => .error e
  | none =>
    match mkVarType d.tyName d.args with
    | .error e => .error e
    | .ok ty =>
      match buildErrList d.iters with
      | some e => .error e
      | none => .ok { vars := d.vars, ty := ty, iterVars := d.iterVars, iters := d.iters }

def buildDomains : List RawDomain → Except String (List PDomain)
  | [] => .ok []
  | d :: ds =>
    match buildDomain d with
    | .error e => .error e
    | .ok x =>
      match buildDomains ds with
      | .error e => .error e
      | .ok xs => .ok (x :: xs)

/-- `parse_problem`: objective, constraints, constants, domains -/
def buildProgram (p : RawProgram) : Except String PModel :=
  match buildObjective p.objective with
  | .error e => .error e
  | .ok (kind, obj) =>
    match firstErr (p.constraints.map PConstraint.buildErr) with
    | some e => .error e
    | none =>
      match firstErr (p.constants.map (fun k => buildErr k.2)) with
      | some e => .error e
      | none =>
        match buildDomains p.domains with
        | .error e => .error e
        | .ok ds => .ok { objKind := kind, objective := obj, constraints := p.constraints, constants := p.constants, domains := ds }

/-- `problem` and `parse_problem` -/
def parseProgram (toks : List Tok) : PRes PModel :=
  match parseProgramRaw toks with
  | .error e => .error e
  | .ok raw =>
    match buildProgram raw with
    | .ok m => .ok m
    | .error _ => .error .reject

/-- why a program is rejected: `peg`, or the class of the first error of the AST builders -/
def programRejectClass (toks : List Tok) : String :=
  match parseProgramRaw toks with
  | .error _ => "peg"
  | .ok raw =>
    match buildProgram raw with
    | .ok _ => "none"
    | .error e => e

inductive ProgRes where
  | ok (m : PModel)
  | err (e : PErr)
  | unsupported
  deriving Inhabited

def parseProgramText (s : List Char) : ProgRes :=
  match lex s with
  | .unsupported => .unsupported
  | .ok toks =>
    match parseProgram toks with
    | .ok m => .ok m
    | .error e => .err e

end Rooc.Syntax
