/-
The minimal-parenthesis printer of the expression sub-language, defined FROM THE DOCUMENTED RULES ONLY
(`Rooc/Syntax/Doc.lean`): a left operand is parenthesised iff `needParenLeft`, a right operand iff
`needParenRight`, the operand of a prefix operator unless it is a leaf.  `alias = true` spells the
operators with their symbolic aliases.  Import-free.
-/
import Rooc.Syntax.Tok
import Rooc.Syntax.Doc
namespace Rooc.Syntax
open Rooc Rooc.Syntax.Doc

def digitChar (d : Nat) : Char := Char.ofNat (48 + d)

/-- decimal digits of a natural number -/
def natDigits (n : Nat) : List Char :=
  if _h : n < 10 then [digitChar n] else natDigits (n / 10) ++ [digitChar (n % 10)]
termination_by n
decreasing_by omega

def binTokS (alias : Bool) : BinOp → Tok
  | .add => .plus
  | .sub => .minus
  | .mul => .star
  | .div => .slash
  | .and => if alias then .ampamp else .word "and"
  | .or => if alias then .barbar else .word "or"
  | .xor => .word "xor"
  | .implies => if alias then .arrow else .word "implies"
  | .iff => if alias then .darrow else .word "iff"
def unTokS (alias : Bool) : UnOp → Tok
  | .neg => .minus
  | .not => if alias then .bang else .word "not"

def parenToks (ts : List Tok) : List Tok := .lpar :: ts ++ [.rpar]

mutual
def render (alias : Bool) : PExp → List Tok
  | .int v => [.int (String.ofList (natDigits v))]
  | .num s => [.float s]
  | .bool b => [.word (if b then "true" else "false")]
  | .var n => [.word n]
  | .call n args => .word n :: .lpar :: renderArgs alias args ++ [.rpar]
  | .un u e => unTokS alias u :: (if e.isLeaf then render alias e else parenToks (render alias e))
  | .bin o l r =>
    (if needParenLeft o l then parenToks (render alias l) else render alias l)
      ++ binTokS alias o
      :: (if needParenRight o r then parenToks (render alias r) else render alias r)
  | _ => []
def renderArgs (alias : Bool) : List PExp → List Tok
  | [] => []
  | [a] => render alias a
  | a :: b :: rest => render alias a ++ .comma :: renderArgs alias (b :: rest)
end

end Rooc.Syntax
