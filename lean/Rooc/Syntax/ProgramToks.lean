/-
Token-level twin of `PModel.text` (`Display for PreModel`, = `RoocParser::format`) on the program fragment
without iterations and with simple names: objective, named / compared / asserted constraints, `where`
constants, `define` declarations of the simple forms.  The driver checks on every generated program of the
fragment that lexing the printed text gives exactly these tokens.  Import-free.
-/
import Rooc.Syntax.FormatToks
namespace Rooc.Syntax
open Rooc

def cmpTok : Cmp → Tok
  | .le => .le | .ge => .ge | .eq => .eq | .lt => .lt | .gt => .gt

def cnameToks : CName → List Tok
  | .plain n => [.word n]
  | .compound _ _ => []

def constraintToks (c : PConstraint) : List Tok :=
  (match c.name with
   | some n => cnameToks n ++ [.colon]
   | none => [])
    ++ fmtToks c.lhs ++ (if c.logic then [] else cmpTok c.cmp :: fmtToks c.rhs)

def typeToks : PVarType → List Tok
  | .boolean => [.word "Boolean"]
  | .nonNegReal none none => [.word "NonNegativeReal"]
  | .nonNegReal (some a) (some b) => .word "NonNegativeReal" :: .lpar :: (fmtToks a ++ .comma :: (fmtToks b ++ [.rpar]))
  | .real none none => [.word "Real"]
  | .real (some a) (some b) => .word "Real" :: .lpar :: (fmtToks a ++ .comma :: (fmtToks b ++ [.rpar]))
  | .intRange a b => .word "IntegerRange" :: .lpar :: (fmtToks a ++ .comma :: (fmtToks b ++ [.rpar]))
  | _ => []        -- one-sided bounds are printed with a default (`0`, `Infinity`, `MinusInfinity`): outside the fragment

def varListToks : List CName → List Tok
  | [] => []
  | [v] => cnameToks v
  | v :: w :: rest => cnameToks v ++ .comma :: varListToks (w :: rest)

def domainToks (d : PDomain) : List Tok := varListToks d.vars ++ .word "as" :: typeToks d.ty

def constraintsToks : List PConstraint → List Tok
  | [] => []
  | c :: cs => constraintToks c ++ .nl :: constraintsToks cs

def constsToks : List (String × PExp) → List Tok
  | [] => []
  | (n, v) :: ks => .word "let" :: .word n :: .eq :: (fmtToks v ++ .nl :: constsToks ks)

def domainsToks : List PDomain → List Tok
  | [] => []
  | d :: ds => domainToks d ++ .nl :: domainsToks ds

def objectiveToks (m : PModel) : List Tok :=
  match m.objKind with
  | .solve => [.word "solve"]
  | .min => .word "min" :: fmtToks m.objective
  | .max => .word "max" :: fmtToks m.objective

def progToks (m : PModel) : List Tok :=
  objectiveToks m ++ .nl :: .st :: .nl :: (constraintsToks m.constraints
    ++ ((if m.constants.isEmpty then [] else .word "where" :: .nl :: constsToks m.constants)
    ++ (if m.domains.isEmpty then [] else .word "define" :: .nl :: domainsToks m.domains)))

/-- the program fragment as the printer sees it (checked by the driver before the printer/token link) -/
def coreProgram (m : PModel) : Bool :=
  coreExp m.objective
    && m.constraints.all (fun c =>
        (match c.name with | none => true | some (.plain n) => !(needsEscape n) | some (.compound _ _) => false)
        && coreExp c.lhs && coreExp c.rhs && c.iters.isEmpty && c.iterVars.isEmpty)
    && m.constants.all (fun k => coreExp k.2)
    && m.domains.all (fun d =>
        d.iters.isEmpty && d.iterVars.isEmpty && !d.vars.isEmpty
        && d.vars.all (fun | .plain n => !(needsEscape n) | .compound _ _ => false)
        && (match d.ty with
            | .boolean | .nonNegReal none none | .real none none => true
            | .nonNegReal (some a) (some b) | .real (some a) (some b) | .intRange a b => coreExp a && coreExp b
            | _ => false))

end Rooc.Syntax
