/-
Token-level twin of `PModel.text` (`Display for PreModel`, = `RoocParser::format`) on the printable fragment:
objective, named / compared / asserted constraints with `for` iterations, `where` constants, `define`
declarations with compound names, every variable type and `for` iterations.  The driver checks on every
generated program of the fragment that lexing the printed text gives exactly these tokens.  Import-free.
-/
import Rooc.Syntax.FormatToks
namespace Rooc.Syntax
open Rooc

def cmpTok : Cmp → Tok
  | .le => .le | .ge => .ge | .eq => .eq | .lt => .lt | .gt => .gt

def cnameToks : CName → List Tok
  | .plain n => [.word n]
  | .compound n idx => .word n :: fmtToksIdx idx

def constraintToks (c : PConstraint) : List Tok :=
  (match c.name with
   | some n => cnameToks n ++ [.colon]
   | none => [])
    ++ fmtToks c.lhs ++ (if c.logic then [] else cmpTok c.cmp :: fmtToks c.rhs) ++ forToks c.iterVars c.iters

def typeToks : PVarType → List Tok
  | .boolean => [.word "Boolean"]
  | .nonNegReal none none => [.word "NonNegativeReal"]
  | .nonNegReal (some a) (some b) => .word "NonNegativeReal" :: .lpar :: (fmtToks a ++ .comma :: (fmtToks b ++ [.rpar]))
  | .real none none => [.word "Real"]
  | .real (some a) (some b) => .word "Real" :: .lpar :: (fmtToks a ++ .comma :: (fmtToks b ++ [.rpar]))
  | .intRange a b => .word "IntegerRange" :: .lpar :: (fmtToks a ++ .comma :: (fmtToks b ++ [.rpar]))
  -- one-sided bounds are printed with a default (`0`, `Infinity`, `MinusInfinity`): the tokens of `ty.canon`
  | .nonNegReal lo hi => .word "NonNegativeReal" :: .lpar ::
      (fmtToks (lo.getD (.int 0)) ++ .comma :: (fmtToks (hi.getD (.var "Infinity")) ++ [.rpar]))
  | .real lo hi => .word "Real" :: .lpar ::
      (fmtToks (lo.getD (.var "MinusInfinity")) ++ .comma :: (fmtToks (hi.getD (.var "Infinity")) ++ [.rpar]))

def varListToks : List CName → List Tok
  | [] => []
  | [v] => cnameToks v
  | v :: w :: rest => cnameToks v ++ .comma :: varListToks (w :: rest)

def domainToks (d : PDomain) : List Tok :=
  varListToks d.vars ++ .word "as" :: typeToks d.ty ++ forToks d.iterVars d.iters

def constraintsToks : List PConstraint → List Tok
  | [] => []
  | c :: cs => constraintToks c ++ .nl :: constraintsToks cs

def constsToks : List (String × PExp) → List Tok
  | [] => []
  | (n, v) :: ks => .word "let" :: .word n :: .eq :: (fmtToks v ++ .nl :: constsToks ks)

def domainsToks : List PDomain → List Tok
  | [] => []
  | d :: ds => domainToks d ++ .nl :: domainsToks ds

def objectiveToks (m : PModel) : List Tok :=
  match m.objKind with
  | .solve => [.word "solve"]
  | .min => .word "min" :: fmtToks m.objective
  | .max => .word "max" :: fmtToks m.objective

def progToks (m : PModel) : List Tok :=
  objectiveToks m ++ .nl :: .st :: .nl :: (constraintsToks m.constraints
    ++ ((if m.constants.isEmpty then [] else .word "where" :: .nl :: constsToks m.constants)
    ++ (if m.domains.isEmpty then [] else .word "define" :: .nl :: domainsToks m.domains)))

/-- the text does not begin with a word that reads `for` in some letter case (`^"for"`: it would be taken for the
iteration of the constraint / declaration before it) -/
def notForHead : List Tok → Bool
  | .word w :: _ => lowerWord w != "for"
  | _ => true

def coreName : CName → Bool
  | .plain n => nameVar n
  | .compound n idx => isPlainRun n.toList && !idx.isEmpty && coreIdx idx

def coreFor (vs : List IterVar) (its : List PExp) : Bool :=
  (vs.isEmpty && its.isEmpty) || (vs.length == its.length && vs.all printableIterVar && coreIters its)

def coreType : PVarType → Bool
  | .boolean | .nonNegReal none none | .real none none => true
  | .nonNegReal (some a) (some b) | .real (some a) (some b) | .intRange a b => coreExp a && coreExp b
  | _ => false

/-- THE PRINTABLE FRAGMENT of programs (a decidable predicate; the generator is measured against it): every
expression slot is in the printable fragment of expressions, names are plain or compound with plain parts, a
domain type has both bounds or none, a satisfiability objective carries `true`, and a program with `where` /
`define` has at least one constraint (the grammar cannot express the other case). -/
def coreProgram (m : PModel) : Bool :=
  (match m.objKind with
   | .solve => (match m.objective with | .bool true => true | _ => false)
   | _ => coreExp m.objective)
    && m.constraints.all (fun c =>
        (match c.name with | none => true | some n => coreName n)
        && coreExp c.lhs
        && (if c.logic then (c.cmp == .eq && (match c.rhs with | .bool true => true | _ => false)) else coreExp c.rhs)
        && coreFor c.iterVars c.iters && notForHead (constraintToks c))
    && m.constants.all (fun k => (plainVar k.1 || k.1 == "_") && (coreExp k.2 || coreGraphValue k.2))
    && m.domains.all (fun d =>
        !d.vars.isEmpty && d.vars.all coreName && coreType d.ty && coreFor d.iterVars d.iters && notForHead (domainToks d))
    && (!m.constraints.isEmpty || (m.constants.isEmpty && m.domains.isEmpty))

abbrev printable := coreProgram

end Rooc.Syntax
