/-
M8 (part 2) — `PExp`: the fragment of `PreExp` (parser/il/il_exp.rs) reachable from the expression
sub-language: primitives (integer / float / boolean), variables, function calls, binary and unary
operations.  Spans are dropped; a float literal is carried as its lexeme (numbers cross the
protocol as the strings Rust read or printed, DESIGN.md §5.5).  Import-free.
-/
import Rooc.Exp
namespace Rooc.Syntax

inductive PExp where
  | int (v : Nat)                        -- `Primitive::Integer` (literals are unsigned)
  | num (lexeme : String)                -- `Primitive::Number`
  | bool (b : Bool)                      -- `Primitive::Boolean`
  | var (name : String)                  -- `PreExp::Variable`
  | call (name : String) (args : List PExp)   -- `PreExp::FunctionCall`
  | bin (op : BinOp) (l r : PExp)        -- `PreExp::BinaryOperation`
  | un (op : UnOp) (e : PExp)            -- `PreExp::UnaryOperation`
  deriving Repr, Inhabited

/-- `PreExp::is_leaf` -/
def PExp.isLeaf : PExp → Bool
  | .bin _ _ _ | .un _ _ => false
  | _ => true

end Rooc.Syntax
