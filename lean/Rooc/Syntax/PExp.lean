/-
M8 (part 2) — `PExp`: `PreExp` (parser/il/il_exp.rs) without spans.  The expression sub-language
of C09 produces the constructors `int num bool var call bin un` only; the others are carried for the
printers of C11.  A float literal is carried as a string (the lexeme in C09, Rust's `f64` Display in
C11 — numbers cross the protocol as the strings Rust read or printed, DESIGN.md §5.5).  Import-free.
-/
import Rooc.Exp
namespace Rooc.Syntax

/-- `VariableKind` of an iteration -/
inductive IterVar where
  | single (name : String)
  | tuple (names : List String)
  deriving Repr, Inhabited, DecidableEq

inductive PExp where
  | int (v : Nat)                        -- `Primitive::Integer` (parsed literals are unsigned)
  | num (text : String)                  -- `Primitive::Number`
  | bool (b : Bool)                      -- `Primitive::Boolean`
  | str (s : String)                     -- `Primitive::String`
  | prim (display : String)              -- any other primitive (array, graph, …) as Rust displays it
  | var (name : String)                  -- `PreExp::Variable`
  | cvar (name : String) (indexes : List PExp)      -- `PreExp::CompoundVariable`
  | access (name : String) (accesses : List PExp)   -- `PreExp::ArrayAccess`
  | call (name : String) (args : List PExp)         -- `PreExp::FunctionCall`
  | block (kind : String) (exps : List PExp)        -- `PreExp::BlockFunction`
  | scoped (kind : String) (vars : List IterVar) (iters : List PExp) (body : PExp)  -- `PreExp::BlockScopedFunction`
  | bin (op : BinOp) (l r : PExp)        -- `PreExp::BinaryOperation`
  | un (op : UnOp) (e : PExp)            -- `PreExp::UnaryOperation`
  deriving Repr, Inhabited

/-- `PreExp::is_leaf` -/
def PExp.isLeaf : PExp → Bool
  | .bin _ _ _ | .un _ _ => false
  | _ => true

end Rooc.Syntax
