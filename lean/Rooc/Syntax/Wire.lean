/- Protocol encoding of `PExp` and of the `PreModel` skeleton (C09, C11). Import-free. -/
import Rooc.Wire
import Rooc.Syntax.Format
namespace Rooc.Syntax
open Rooc Sexp

def IterVar.enc : IterVar → Sexp
  | .single n => app "single" [.str n]
  | .tuple ns => app "tuple" (ns.map .str)

def strOf : Sexp → Option String
  | .str s => some s
  | _ => none

def IterVar.dec : Sexp → Option IterVar
  | .list [.atom "single", .str n] => some (.single n)
  | .list (.atom "tuple" :: ns) => (optAll (ns.map strOf)).map .tuple
  | _ => none

partial def PExp.enc : PExp → Sexp
  | .int v => app "int" [.atom (toString v)]
  | .num s => app "num" [.str s]
  | .bool b => app "bool" [.atom (if b then "true" else "false")]
  | .str s => app "str" [.str s]
  | .prim d => app "prim" [.str d]
  | .var n => app "var" [.str n]
  | .cvar n idx => app "cvar" (.str n :: idx.map PExp.enc)
  | .access n idx => app "access" (.str n :: idx.map PExp.enc)
  | .call n as => app "call" (.str n :: as.map PExp.enc)
  | .block k es => app "block" (.str k :: es.map PExp.enc)
  | .scoped k vs its body =>
    app "scoped" [.str k, .list (.atom "its" :: (vs.zip its).map fun (v, e) => app "it" [v.enc, e.enc]), body.enc]
  | .bin o l r => app "bin" [.atom o.name, l.enc, r.enc]
  | .un o e => app "un" [.atom o.name, e.enc]

mutual
partial def PExp.dec : Sexp → Option PExp
  | .list [.atom "int", .atom v] => v.toNat?.map .int
  | .list [.atom "num", .str s] => some (.num s)
  | .list [.atom "bool", .atom "true"] => some (.bool true)
  | .list [.atom "bool", .atom "false"] => some (.bool false)
  | .list [.atom "str", .str s] => some (.str s)
  | .list [.atom "prim", .str s] => some (.prim s)
  | .list [.atom "var", .str n] => some (.var n)
  | .list (.atom "cvar" :: .str n :: as) => (optAll (as.map PExp.dec)).map (.cvar n)
  | .list (.atom "access" :: .str n :: as) => (optAll (as.map PExp.dec)).map (.access n)
  | .list (.atom "call" :: .str n :: as) => (optAll (as.map PExp.dec)).map (.call n)
  | .list (.atom "block" :: .str n :: as) => (optAll (as.map PExp.dec)).map (.block n)
  | .list [.atom "scoped", .str k, its, body] => do
    let (vs, es) ← decIters its
    pure (.scoped k vs es (← PExp.dec body))
  | .list [.atom "bin", .atom o, l, r] => do pure (.bin (← BinOp.ofName o) (← PExp.dec l) (← PExp.dec r))
  | .list [.atom "un", .atom o, e] => do pure (.un (← UnOp.ofName o) (← PExp.dec e))
  | _ => none
/-- `(its (it <var> <exp>) …)` -/
partial def decIters : Sexp → Option (List IterVar × List PExp)
  | .list (.atom "its" :: xs) => do
    let ps ← optAll (xs.map fun
      | .list [.atom "it", v, e] => do pure ((← IterVar.dec v), (← PExp.dec e))
      | _ => none)
    pure (ps.map (·.1), ps.map (·.2))
  | _ => none
end

def CName.dec : Sexp → Option CName
  | .list [.atom "v", .str n] => some (.plain n)
  | .list (.atom "cv" :: .str n :: idx) => (optAll (idx.map PExp.dec)).map (.compound n)
  | _ => none

def Cmp.dec : Sexp → Option Cmp
  | .atom "le" => some .le | .atom "ge" => some .ge | .atom "eq" => some .eq
  | .atom "lt" => some .lt | .atom "gt" => some .gt | _ => none

def optExpDec : Sexp → Option (Option PExp)
  | .atom "none" => some none
  | e => (PExp.dec e).map some

def PVarType.dec : Sexp → Option PVarType
  | .atom "bool" => some .boolean
  | .list [.atom "nnreal", a, b] => do pure (.nonNegReal (← optExpDec a) (← optExpDec b))
  | .list [.atom "real", a, b] => do pure (.real (← optExpDec a) (← optExpDec b))
  | .list [.atom "intrange", a, b] => do pure (.intRange (← PExp.dec a) (← PExp.dec b))
  | _ => none

def PConstraint.dec : Sexp → Option PConstraint
  | .list [.atom "c", name, lhs, cmp, rhs, .atom logic, its] => do
    let n ← (match name with
      | .atom "none" => some none
      | x => (CName.dec x).map some)
    let (vs, es) ← decIters its
    pure { name := n, lhs := (← PExp.dec lhs), cmp := (← Cmp.dec cmp), rhs := (← PExp.dec rhs),
           logic := logic == "true", iterVars := vs, iters := es }
  | _ => none

def PDomain.dec : Sexp → Option PDomain
  | .list [.atom "dom", .list (.atom "vars" :: vs), ty, its] => do
    let (ivs, es) ← decIters its
    pure { vars := (← optAll (vs.map CName.dec)), ty := (← PVarType.dec ty), iterVars := ivs, iters := es }
  | _ => none

def optExpEnc : Option PExp → Sexp
  | none => .atom "none"
  | some e => e.enc

def itersEnc (vs : List IterVar) (es : List PExp) : Sexp :=
  .list (.atom "its" :: (vs.zip es).map fun (v, e) => app "it" [v.enc, e.enc])

def CName.enc : CName → Sexp
  | .plain n => app "v" [.str n]
  | .compound n idx => app "cv" (.str n :: idx.map PExp.enc)

def Cmp.enc : Cmp → Sexp
  | .le => .atom "le" | .ge => .atom "ge" | .eq => .atom "eq" | .lt => .atom "lt" | .gt => .atom "gt"

def PVarType.enc : PVarType → Sexp
  | .boolean => .atom "bool"
  | .nonNegReal a b => app "nnreal" [optExpEnc a, optExpEnc b]
  | .real a b => app "real" [optExpEnc a, optExpEnc b]
  | .intRange a b => app "intrange" [a.enc, b.enc]

def PConstraint.enc (c : PConstraint) : Sexp :=
  app "c" [(match c.name with | none => .atom "none" | some n => n.enc), c.lhs.enc, c.cmp.enc, c.rhs.enc,
    .atom (if c.logic then "true" else "false"), itersEnc c.iterVars c.iters]

def PDomain.enc (d : PDomain) : Sexp :=
  app "dom" [.list (.atom "vars" :: d.vars.map CName.enc), d.ty.enc, itersEnc d.iterVars d.iters]

def PModel.enc (m : PModel) : Sexp :=
  app "premodel" [app "obj" [.atom m.objKind.text, m.objective.enc],
    .list (.atom "constraints" :: m.constraints.map PConstraint.enc),
    .list (.atom "consts" :: m.constants.map fun (n, v) => app "let" [.str n, v.enc]),
    .list (.atom "domains" :: m.domains.map PDomain.enc)]

def ObjKind.dec : Sexp → Option ObjKind
  | .atom "min" => some .min | .atom "max" => some .max | .atom "solve" => some .solve | _ => none

def PModel.dec : Sexp → Option PModel
  | .list [.atom "premodel", .list [.atom "obj", k, e], .list (.atom "constraints" :: cs),
           .list (.atom "consts" :: ks), .list (.atom "domains" :: ds)] => do
    let consts ← optAll (ks.map fun
      | .list [.atom "let", .str n, v] => do pure (n, (← PExp.dec v))
      | _ => none)
    pure { objKind := (← ObjKind.dec k), objective := (← PExp.dec e),
           constraints := (← optAll (cs.map PConstraint.dec)), constants := consts,
           domains := (← optAll (ds.map PDomain.dec)) }
  | _ => none

end Rooc.Syntax
