/- Protocol encoding of `PExp` (C09, C11). Import-free. -/
import Rooc.Wire
import Rooc.Syntax.PExp
namespace Rooc.Syntax
open Rooc Sexp

partial def PExp.enc : PExp → Sexp
  | .int v => app "int" [.atom (toString v)]
  | .num s => app "num" [.str s]
  | .bool b => app "bool" [.atom (if b then "true" else "false")]
  | .var n => app "var" [.str n]
  | .call n as => app "call" (.str n :: as.map PExp.enc)
  | .bin o l r => app "bin" [.atom o.name, l.enc, r.enc]
  | .un o e => app "un" [.atom o.name, e.enc]

partial def PExp.dec : Sexp → Option PExp
  | .list [.atom "int", .atom v] => v.toNat?.map .int
  | .list [.atom "num", .str s] => some (.num s)
  | .list [.atom "bool", .atom "true"] => some (.bool true)
  | .list [.atom "bool", .atom "false"] => some (.bool false)
  | .list [.atom "var", .str n] => some (.var n)
  | .list (.atom "call" :: .str n :: as) => (optAll (as.map PExp.dec)).map (.call n)
  | .list [.atom "bin", .atom o, l, r] => do pure (.bin (← BinOp.ofName o) (← PExp.dec l) (← PExp.dec r))
  | .list [.atom "un", .atom o, e] => do pure (.un (← UnOp.ofName o) (← PExp.dec e))
  | _ => none

end Rooc.Syntax
