/-
C09 oracle — an INDEPENDENT reading of the documented grammar (properties.jsonl C09): classical
precedence climbing with the documented levels (unary minus / not tightest, `* /`, `+ -`, `and`,
`xor`, `or`, then `implies` (right) and `iff` (left) sharing the lowest level), implicit
multiplication as a single factor, symbolic aliases, keyword-prefixed identifiers.  Nothing here
reads `Rooc/Gen` or `Rooc/Syntax/Pratt`.  Produces an `Exp (Ext Rat)` that `Sem.eval` evaluates.
Import-free.
-/
import Rooc.Sem
import Rooc.Syntax.Tok
import Rooc.Syntax.PExp
namespace Rooc.Syntax.Ref
open Rooc

abbrev E := Exp (Ext Rat)

def level : BinOp → Nat
  | .implies | .iff => 1
  | .or => 2
  | .xor => 3
  | .and => 4
  | .add | .sub => 5
  | .mul | .div => 6

def rightAssoc : BinOp → Bool
  | .implies => true
  | _ => false

def binOfTok : Tok → Option BinOp
  | .plus => some .add
  | .minus => some .sub
  | .star => some .mul
  | .slash => some .div
  | .ampamp => some .and
  | .barbar => some .or
  | .arrow => some .implies
  | .darrow => some .iff
  | .word "and" => some .and
  | .word "or" => some .or
  | .word "xor" => some .xor
  | .word "implies" => some .implies
  | .word "iff" => some .iff
  | _ => none

def unOfTok : Tok → Option UnOp
  | .minus => some .neg
  | .bang => some .not
  | .word "not" => some .not
  | _ => none

def reserved : List String :=
  ["for", "min", "max", "where", "true", "false", "in", "as", "define", "let", "solve",
   "and", "or", "not", "implies", "iff", "xor", "_"]

def ratOfDigits (cs : List Char) : Rat := (cs.foldl (fun n c => 10 * n + (c.toNat - 48)) 0 : Nat)

/-- value of `ddd` or `ddd.ddd` -/
def ratOfLexeme (s : String) : Rat :=
  let cs := s.toList
  let ip := cs.takeWhile (· != '.')
  let fp := (cs.dropWhile (· != '.')).drop 1
  ratOfDigits ip + ratOfDigits fp / ((10 : Rat) ^ fp.length)

def numE (q : Rat) : E := .num (.fin q)

partial def canon : E → String
  | .num (.fin q) => toString q
  | .num _ => "nonfinite"
  | .var s => s
  | .abs e => "abs(" ++ canon e ++ ")"
  | .min es => "min(" ++ ",".intercalate (es.map canon) ++ ")"
  | .max es => "max(" ++ ",".intercalate (es.map canon) ++ ")"
  | .and es => "and(" ++ ",".intercalate (es.map canon) ++ ")"
  | .or es => "or(" ++ ",".intercalate (es.map canon) ++ ")"
  | .not e => "not(" ++ canon e ++ ")"
  | .xor a b => "xor(" ++ canon a ++ "," ++ canon b ++ ")"
  | .implies a b => "implies(" ++ canon a ++ "," ++ canon b ++ ")"
  | .iff a b => "iff(" ++ canon a ++ "," ++ canon b ++ ")"
  | .bin op a b => "bin" ++ toString (level op) ++ (reprStr op) ++ "(" ++ canon a ++ "," ++ canon b ++ ")"
  | .un _ e => "neg(" ++ canon e ++ ")"

/-- an uninterpreted function application is a variable named by its canonical text -/
def callE (name : String) (args : List E) : E := .var (name ++ "(" ++ ",".intercalate (args.map canon) ++ ")")

def mkBin (o : BinOp) (a b : E) : E := .bin o a b
def mkUn : UnOp → E → E
  | .neg, e => .un .neg e
  | .not, e => .not e

def allLetters (w : String) : Bool := !w.toList.isEmpty && w.toList.all isLetter

/-! Leaves that are not numbers, names or calls (compound variables, array accesses, block functions, scoped
blocks, array literals, strings) are read as UNINTERPRETED leaves: a variable named by the canonical text of what
they contain.  Their inner expressions are read with the same documented precedence. -/

/-- documented block functions: (spelling, kind) -/
def blockNames : List (String × String) :=
  [("min", "min"), ("max", "max"), ("avg", "avg"), ("abs", "abs"), ("all", "all"), ("conjunction", "all"),
   ("any", "any"), ("disjunction", "any"), ("xor", "xor"), ("exclusive_disjunction", "xor")]
/-- documented scoped blocks: (spelling, kind) -/
def scopedNames : List (String × String) :=
  [("sum", "sum"), ("prod", "prod"), ("min", "min"), ("max", "max"), ("avg", "avg"), ("all", "all"),
   ("conjunction", "all"), ("any", "any"), ("disjunction", "any"), ("xor", "xor"), ("exclusive_disjunction", "xor")]

def cvarE (n : String) (idx : List E) : E := .var ("cv:" ++ n ++ "[" ++ ",".intercalate (idx.map canon) ++ "]")
def accessE (n : String) (idx : List E) : E := .var ("acc:" ++ n ++ "[" ++ ",".intercalate (idx.map canon) ++ "]")
def blockE (k : String) (es : List E) : E := .var ("block:" ++ k ++ "{" ++ ",".intercalate (es.map canon) ++ "}")
def iterVarText : IterVar → String
  | .single n => n
  | .tuple ns => "(" ++ ",".intercalate ns ++ ")"
def scopedE (k : String) (vs : List IterVar) (its : List E) (body : E) : E :=
  .var ("scoped:" ++ k ++ "(" ++ ",".intercalate ((vs.zip its).map fun (v, e) => iterVarText v ++ " in " ++ canon e) ++ "){"
    ++ canon body ++ "}")
def arrayE : E := .var "<array>"
def strE (s : String) : E := .var ("str:" ++ s)

def skipNls : List Tok → List Tok
  | .nl :: r => skipNls r
  | toks => toks

def lowerW (w : String) : String :=
  String.ofList (w.toList.map fun c => if decide ('A' ≤ c) && decide (c ≤ 'Z') then Char.ofNat (c.toNat + 32) else c)

/-- a name cut at its underscores by the lexer, followed by `(` or `{`: (name, rest from the bracket on) -/
partial def bracketName (w : String) (toks : List Tok) : Option (String × List Tok) :=
  match toks with
  | .lpar :: _ | .lbrace :: _ => some (w, toks)
  | .us :: .word s :: r => bracketName (w ++ "_" ++ s) r
  | .us :: .int s :: r => bracketName (w ++ "_" ++ s) r
  | _ => none

mutual
/-- an array literal after its `[`: numbers, booleans, strings, arrays, separated by commas (entries are not
interpreted); answers the text behind the closing bracket -/
partial def skipArray (toks : List Tok) : Option (List Tok) :=
  match skipNls toks with
  | .rbrack :: r => some r
  | r => skipItems r
partial def skipItems (toks : List Tok) : Option (List Tok) := do
  let r ←
    match toks with
    | .int _ :: r | .float _ :: r | .str _ :: r | .word "true" :: r | .word "false" :: r => some r
    | .lbrack :: r => skipArray r
    | _ => none
  match r with
  | .comma :: r' => skipItems (skipNls r')
  | _ =>
    match skipNls r with
    | .rbrack :: r' => some r'
    | _ => none
end

partial def tupleVars (toks : List Tok) (acc : List String) : Option (List String × List Tok) :=
  match toks with
  | .word w :: .rpar :: r => some (acc ++ [w], r)
  | .word w :: .comma :: r => tupleVars (skipNls r) (acc ++ [w])
  | _ => none

mutual
/-- `climb minLevel`: a factor, then every operator of level ≥ minLevel; a left-associative operator
takes a right operand of strictly higher level, a right-associative one of the same level. -/
partial def climb (minLevel : Nat) (toks : List Tok) : Option (E × List Tok) := do
  let (lhs, rest) ← factor toks
  climbLoop minLevel lhs rest
partial def climbLoop (minLevel : Nat) (lhs : E) (toks : List Tok) : Option (E × List Tok) :=
  match toks with
  | _ :: .us :: _ => some (lhs, toks)      -- `and_x` is a name, not an operator
  | t :: r =>
    match binOfTok t with
    | some o =>
      if level o ≥ minLevel then
        match climb (if rightAssoc o then level o else level o + 1) r with
        | some (rhs, r') => climbLoop minLevel (mkBin o lhs rhs) r'
        | none => none
      else some (lhs, toks)
    | none => some (lhs, toks)
  | [] => some (lhs, [])
/-- at most one prefix operator, applied to one (possibly implicit-product) factor -/
partial def factor (toks : List Tok) : Option (E × List Tok) :=
  match toks with
  | .word _ :: .us :: _ => product toks      -- `not_x` is a name
  | t :: r =>
    match unOfTok t with
    | some u => do
      let (e, r') ← product r
      pure (mkUn u e, r')
    | none => product toks
  | [] => none
/-- a name: compound variable `x_i_{e}`, else plain -/
partial def nameLeaf (w : String) (toks : List Tok) : Option (E × List Tok) :=
  match toks with
  | .us :: _ => do
    let (idx, r) ← indexes toks []
    pure (cvarE w idx, r)
  | _ => if reserved.contains w then none else some (.var w, toks)
partial def indexes (toks : List Tok) (acc : List E) : Option (List E × List Tok) :=
  match toks with
  | .us :: .word s :: r => indexes r (acc ++ [(.var s : E)])
  | .us :: .int s :: r => indexes r (acc ++ [numE (ratOfLexeme s)])
  | .us :: .lbrace :: r =>
    match climb 1 (skipNls r) with
    | some (e, r') =>
      match skipNls r' with
      | .rbrace :: r'' => indexes r'' (acc ++ [e])
      | _ => none
    | none => none
  | _ => if acc.isEmpty then none else some (acc, toks)
partial def accesses (toks : List Tok) (acc : List E) : Option (List E × List Tok) :=
  match toks with
  | .lbrack :: r =>
    match climb 1 r with
    | some (e, .rbrack :: r') => accesses r' (acc ++ [e])
    | _ => none
  | _ => if acc.isEmpty then none else some (acc, toks)
/-- `v in set`, `v in a..b`, `(u, v) in set`, separated by commas, up to the closing `)` -/
partial def iterDecls (toks : List Tok) (vs : List IterVar) (its : List E) : Option ((List IterVar × List E) × List Tok) := do
  let (v, r) ←
    match toks with
    | .word v :: .word i :: r => if lowerW i == "in" && v != "_" then some (IterVar.single v, r) else none
    | .lpar :: r =>
      match tupleVars r [] with
      | some (ns, .word i :: r') => if lowerW i == "in" then some (IterVar.tuple ns, r') else none
      | _ => none
    | _ => none
  let (a, r1) ← climb 1 r
  let (it, r2) ←
    match r1 with
    | .dotdot :: r' => do
      let (b, r'') ← climb 1 r'
      pure (callE "range" [a, b, numE 0], r'')
    | .dotdoteq :: r' => do
      let (b, r'') ← climb 1 r'
      pure (callE "range" [a, b, numE 1], r'')
    | _ => pure (a, r1)
  match r2 with
  | .comma :: r3 => iterDecls (skipNls r3) (vs ++ [v]) (its ++ [it])
  | _ => pure ((vs ++ [v], its ++ [it]), r2)
partial def expList (toks : List Tok) (acc : List E) : Option (List E × List Tok) := do
  let (a, r) ← climb 1 toks
  match r with
  | .comma :: r' => expList (skipNls r') (acc ++ [a])
  | _ => pure (acc ++ [a], r)
/-- numbers and parenthesised groups written next to each other, optionally closed by an identifier,
are ONE factor; otherwise a single primary -/
partial def product (toks : List Tok) : Option (E × List Tok) :=
  match toks with
  | .str s :: r => some (strE s, r)
  | .lbrack :: r => do
    let r' ← skipArray r
    pure (arrayE, r')
  | .word w :: .lbrack :: r => do
    if w == "_" then none
    let (idx, r') ← accesses (.lbrack :: r) []
    pure (accessE w idx, r')
  | .word w :: rest =>
    match (if allLetters w then bracketName w rest else none) with
    | some (name, .lbrace :: r) =>
      match blockNames.find? (·.1 == name) with
      | none => none
      | some (_, kind) => do
        let (es, r1) ← expList (skipNls r) []
        match skipNls r1 with
        | .rbrace :: r2 => if kind == "abs" && es.length != 1 then none else pure (blockE kind es, r2)
        | _ => none
    | some (name, .lpar :: r) =>
      -- a scoped block if its parenthesis is followed by `{`, else a call
      let scopedTry : Option (E × List Tok) := do
        let ((vs, its), r1) ← iterDecls (skipNls r) [] []
        match skipNls r1 with
        | .rpar :: .lbrace :: r2 =>
          let (body, r3) ← climb 1 (skipNls r2)
          match skipNls r3 with
          | .rbrace :: r4 =>
            match scopedNames.find? (·.1 == name) with
            | some (_, kind) => pure (scopedE kind vs its body, r4)
            | none => none
          | _ => none
        | _ => none
      match scopedTry with
      | some res => some res
      | none =>
        -- not of the scoped form: a call (a scoped form with an unknown name is ill-formed)
        match (do let ((_, _), r1) ← iterDecls (skipNls r) [] []; match skipNls r1 with | .rpar :: .lbrace :: _ => some () | _ => none) with
        | some () => none
        | none => do
          let (as, r') ← callArgs r
          pure (callE name as, r')
    | _ =>
      if w == "true" then (match rest with | .us :: _ => nameLeaf w rest | _ => some (numE 1, rest))
      else if w == "false" then (match rest with | .us :: _ => nameLeaf w rest | _ => some (numE 0, rest))
      else nameLeaf w rest
  | _ => do
    let (fs, r) ← juxt toks
    match fs with
    | [] => none
    | f :: more =>
      match r with
      | .word w :: r' =>
        match r' with
        | .us :: _ =>
          match nameLeaf w r' with
          | some (v, r'') => some ((more ++ [v]).foldl (mkBin .mul) f, r'')
          | none => some (more.foldl (mkBin .mul) f, r)
        | _ =>
          if reserved.contains w then some (more.foldl (mkBin .mul) f, r)
          else some ((more ++ [(Exp.var w : E)]).foldl (mkBin .mul) f, r')
      | _ => some (more.foldl (mkBin .mul) f, r)
partial def juxt (toks : List Tok) : Option (List E × List Tok) :=
  match toks with
  | .int s :: r => do
    let (fs, r') ← juxt r
    pure (numE (ratOfLexeme s) :: fs, r')
  | .float s :: r => do
    let (fs, r') ← juxt r
    pure (numE (ratOfLexeme s) :: fs, r')
  | .lpar :: r =>
    match climb 1 r with
    | some (e, .rpar :: r') => do
      let (fs, r'') ← juxt r'
      pure (e :: fs, r'')
    | _ => none
  | _ => some ([], toks)
partial def callArgs (toks : List Tok) : Option (List E × List Tok) :=
  match toks with
  | .rpar :: r => some ([], r)
  | _ => do
    let (a, r) ← climb 1 toks
    callArgsTail [a] r
partial def callArgsTail (acc : List E) (toks : List Tok) : Option (List E × List Tok) :=
  match toks with
  | .rpar :: r => some (acc, r)
  | .comma :: r => do
    let (a, r') ← climb 1 (skipNls r)
    callArgsTail (acc ++ [a]) r'
  | _ => none
end

/-- integer literals above i64 are not well-formed programs (documented as 64-bit integers) -/
def intsFit (toks : List Tok) : Bool :=
  toks.all fun
    | .int s => decide ((s.toList.foldl (fun n c => 10 * n + (c.toNat - 48)) 0 : Nat) ≤ 9223372036854775807)
    | _ => true

def parse (toks : List Tok) : Option E :=
  if !(intsFit toks) then none else
  match climb 1 toks with
  | some (e, []) => some e
  | _ => none

/-- `PreExp::into_exp` on the fragment; the other leaves uninterpreted, named as the reading above names them -/
partial def ofPExp : PExp → E
  | .int v => numE (v : Nat)
  | .num s => numE (ratOfLexeme s)
  | .bool b => numE (if b then 1 else 0)
  | .var n => .var n
  | .str s => strE s
  | .prim _ => arrayE
  | .cvar n idx => cvarE n (idx.map ofPExp)
  | .access n idx => accessE n (idx.map ofPExp)
  | .block k es => blockE k (es.map ofPExp)
  | .scoped k vs its b => scopedE k vs (its.map ofPExp) (ofPExp b)
  | .call n as => callE n (as.map ofPExp)
  | .bin o l r => .bin o (ofPExp l) (ofPExp r)
  | .un .neg e => .un .neg (ofPExp e)
  | .un .not e => .not (ofPExp e)

end Rooc.Syntax.Ref
