/-
C09 oracle — an INDEPENDENT reading of the documented grammar (properties.jsonl C09): classical
precedence climbing with the documented levels (unary minus / not tightest, `* /`, `+ -`, `and`,
`xor`, `or`, then `implies` (right) and `iff` (left) sharing the lowest level), implicit
multiplication as a single factor, symbolic aliases, keyword-prefixed identifiers.  Nothing here
reads `Rooc/Gen` or `Rooc/Syntax/Pratt`.  Produces an `Exp (Ext Rat)` that `Sem.eval` evaluates.
Import-free.
-/
import Rooc.Sem
import Rooc.Syntax.Tok
import Rooc.Syntax.PExp
namespace Rooc.Syntax.Ref
open Rooc

abbrev E := Exp (Ext Rat)

def level : BinOp → Nat
  | .implies | .iff => 1
  | .or => 2
  | .xor => 3
  | .and => 4
  | .add | .sub => 5
  | .mul | .div => 6

def rightAssoc : BinOp → Bool
  | .implies => true
  | _ => false

def binOfTok : Tok → Option BinOp
  | .plus => some .add
  | .minus => some .sub
  | .star => some .mul
  | .slash => some .div
  | .ampamp => some .and
  | .barbar => some .or
  | .arrow => some .implies
  | .darrow => some .iff
  | .word "and" => some .and
  | .word "or" => some .or
  | .word "xor" => some .xor
  | .word "implies" => some .implies
  | .word "iff" => some .iff
  | _ => none

def unOfTok : Tok → Option UnOp
  | .minus => some .neg
  | .bang => some .not
  | .word "not" => some .not
  | _ => none

def reserved : List String :=
  ["for", "min", "max", "where", "true", "false", "in", "as", "define", "let", "solve",
   "and", "or", "not", "implies", "iff", "xor"]

def ratOfDigits (cs : List Char) : Rat := (cs.foldl (fun n c => 10 * n + (c.toNat - 48)) 0 : Nat)

/-- value of `ddd` or `ddd.ddd` -/
def ratOfLexeme (s : String) : Rat :=
  let cs := s.toList
  let ip := cs.takeWhile (· != '.')
  let fp := (cs.dropWhile (· != '.')).drop 1
  ratOfDigits ip + ratOfDigits fp / ((10 : Rat) ^ fp.length)

def numE (q : Rat) : E := .num (.fin q)

partial def canon : E → String
  | .num (.fin q) => toString q
  | .num _ => "nonfinite"
  | .var s => s
  | .abs e => "abs(" ++ canon e ++ ")"
  | .min es => "min(" ++ ",".intercalate (es.map canon) ++ ")"
  | .max es => "max(" ++ ",".intercalate (es.map canon) ++ ")"
  | .and es => "and(" ++ ",".intercalate (es.map canon) ++ ")"
  | .or es => "or(" ++ ",".intercalate (es.map canon) ++ ")"
  | .not e => "not(" ++ canon e ++ ")"
  | .xor a b => "xor(" ++ canon a ++ "," ++ canon b ++ ")"
  | .implies a b => "implies(" ++ canon a ++ "," ++ canon b ++ ")"
  | .iff a b => "iff(" ++ canon a ++ "," ++ canon b ++ ")"
  | .bin op a b => "bin" ++ toString (level op) ++ (reprStr op) ++ "(" ++ canon a ++ "," ++ canon b ++ ")"
  | .un _ e => "neg(" ++ canon e ++ ")"

/-- an uninterpreted function application is a variable named by its canonical text -/
def callE (name : String) (args : List E) : E := .var (name ++ "(" ++ ",".intercalate (args.map canon) ++ ")")

def mkBin (o : BinOp) (a b : E) : E := .bin o a b
def mkUn : UnOp → E → E
  | .neg, e => .un .neg e
  | .not, e => .not e

def allLetters (w : String) : Bool := !w.toList.isEmpty && w.toList.all isLetter

mutual
/-- `climb minLevel`: a factor, then every operator of level ≥ minLevel; a left-associative operator
takes a right operand of strictly higher level, a right-associative one of the same level. -/
partial def climb (minLevel : Nat) (toks : List Tok) : Option (E × List Tok) := do
  let (lhs, rest) ← factor toks
  climbLoop minLevel lhs rest
partial def climbLoop (minLevel : Nat) (lhs : E) (toks : List Tok) : Option (E × List Tok) :=
  match toks with
  | t :: r =>
    match binOfTok t with
    | some o =>
      if level o ≥ minLevel then
        match climb (if rightAssoc o then level o else level o + 1) r with
        | some (rhs, r') => climbLoop minLevel (mkBin o lhs rhs) r'
        | none => none
      else some (lhs, toks)
    | none => some (lhs, toks)
  | [] => some (lhs, [])
/-- at most one prefix operator, applied to one (possibly implicit-product) factor -/
partial def factor (toks : List Tok) : Option (E × List Tok) :=
  match toks with
  | t :: r =>
    match unOfTok t with
    | some u => do
      let (e, r') ← product r
      pure (mkUn u e, r')
    | none => product toks
  | [] => none
/-- numbers and parenthesised groups written next to each other, optionally closed by an identifier,
are ONE factor; otherwise a single primary -/
partial def product (toks : List Tok) : Option (E × List Tok) :=
  match toks with
  | .word w :: .lpar :: r =>
    if allLetters w then do
      let (as, r') ← callArgs r
      pure (callE w as, r')
    else none
  | .word "true" :: r => some (numE 1, r)
  | .word "false" :: r => some (numE 0, r)
  | .word w :: r => if reserved.contains w then none else some (.var w, r)
  | _ => do
    let (fs, r) ← juxt toks
    match fs with
    | [] => none
    | f :: more =>
      match r with
      | .word w :: r' =>
        if reserved.contains w then some (more.foldl (mkBin .mul) f, r)
        else some ((more ++ [(Exp.var w : E)]).foldl (mkBin .mul) f, r')
      | _ => some (more.foldl (mkBin .mul) f, r)
partial def juxt (toks : List Tok) : Option (List E × List Tok) :=
  match toks with
  | .int s :: r => do
    let (fs, r') ← juxt r
    pure (numE (ratOfLexeme s) :: fs, r')
  | .float s :: r => do
    let (fs, r') ← juxt r
    pure (numE (ratOfLexeme s) :: fs, r')
  | .lpar :: r =>
    match climb 1 r with
    | some (e, .rpar :: r') => do
      let (fs, r'') ← juxt r'
      pure (e :: fs, r'')
    | _ => none
  | _ => some ([], toks)
partial def callArgs (toks : List Tok) : Option (List E × List Tok) :=
  match toks with
  | .rpar :: r => some ([], r)
  | _ => do
    let (a, r) ← climb 1 toks
    callArgsTail [a] r
partial def callArgsTail (acc : List E) (toks : List Tok) : Option (List E × List Tok) :=
  match toks with
  | .rpar :: r => some (acc, r)
  | .comma :: r => do
    let (a, r') ← climb 1 r
    callArgsTail (acc ++ [a]) r'
  | _ => none
end

/-- integer literals above i64 are not well-formed programs (documented as 64-bit integers) -/
def intsFit (toks : List Tok) : Bool :=
  toks.all fun
    | .int s => decide ((s.toList.foldl (fun n c => 10 * n + (c.toNat - 48)) 0 : Nat) ≤ 9223372036854775807)
    | _ => true

def parse (toks : List Tok) : Option E :=
  if !(intsFit toks) then none else
  match climb 1 toks with
  | some (e, []) => some e
  | _ => none

/-- `PreExp::into_exp` on the fragment -/
partial def ofPExp : PExp → E
  | .int v => numE (v : Nat)
  | .num s => numE (ratOfLexeme s)
  | .bool b => numE (if b then 1 else 0)
  | .var n => .var n
  | .call n as => callE n (as.map ofPExp)
  | .bin o l r => .bin o (ofPExp l) (ofPExp r)
  | .un .neg e => .un .neg (ofPExp e)
  | .un .not e => .not (ofPExp e)
  | e => .var (toString (repr e))     -- constructs outside the expression sub-language: opaque

end Rooc.Syntax.Ref
