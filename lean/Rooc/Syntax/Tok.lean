/-
M8 (part 1) — tokens of the expression sub-language of `grammar.pest` and a lexer for it.

pest is scannerless; this lexer is the part of the model that is *only diffed* against the real
parser (DESIGN.md §5.5): it cuts a text into the terminals that the rules reachable from `exp`
match atomically (`integer`, `float`, `simple_variable`/keywords, the operator rules and their
symbolic aliases, parentheses, comma) and skips `WHITESPACE`/`COMMENT` between them, exactly where
pest's implicit skipping applies.  Texts outside the modelled sub-language (compound variables
with a `$`/`_` prefix or a float index, escaped names, string escapes, …) are answered with `unsupported`, never
guessed.
Import-free.
-/
namespace Rooc.Syntax

inductive Tok where
  | int (s : String)        -- `integer`   = '0'..'9'+
  | float (s : String)      -- `float`     = '0'..'9'+ "." '0'..'9'+
  | word (s : String)       -- `"$"? "_"* LETTER (LETTER|NUMBER)*`  (identifier or keyword, decided by position)
  | lpar | rpar | comma
  | plus | minus | star | slash
  | ampamp | barbar | bang | arrow | darrow      -- `&&` `||` `!` `->` `<->`
  -- program level (C11): NEWLINE, `:`, the `comparison` rule, `s.t.`
  | nl | colon | le | ge | eq | lt | gt | st
  -- blocks, array accesses, ranges, compound variables, strings
  | lbrace | rbrace | lbrack | rbrack
  | dotdot | dotdoteq       -- `range_type = @{ "..=" | ".." }`
  | us                      -- the `"_"` of `compound_variable`, written directly behind a word / segment / `}`
  | str (s : String)        -- `string` without escapes: the text between the quotes
  deriving Repr, DecidableEq, Inhabited

inductive LexRes where
  | ok (ts : List Tok)
  | unsupported            -- text leaves the modelled sub-language
  deriving Repr, DecidableEq, Inhabited

def isDigit (c : Char) : Bool := decide ('0' ≤ c) && decide (c ≤ '9')
/-- the non-ASCII members of pest's `LETTER` (Unicode category L) that the model knows; any other
non-ASCII character is outside the modelled sub-language (`unsupported`) -/
def extraLetters : List Char := ['é', 'è', 'ê', 'í', 'ı', 'ñ', 'ü', 'ö', 'ß', 'λ', 'д']

def isLetter (c : Char) : Bool :=
  (decide ('a' ≤ c) && decide (c ≤ 'z')) || (decide ('A' ≤ c) && decide (c ≤ 'Z')) || extraLetters.contains c
def isWordChar (c : Char) : Bool := isLetter c || isDigit c || c == '_'

def spanWhile (p : Char → Bool) : List Char → List Char × List Char
  | [] => ([], [])
  | c :: cs => if p c then let (a, b) := spanWhile p cs; (c :: a, b) else ([], c :: cs)

/-- `"_"* LETTER (LETTER | NUMBER)*` -/
def isSimpleRun (r : List Char) : Bool :=
  match (spanWhile (· == '_') r).2 with
  | c :: cs => isLetter c && cs.all (fun d => isLetter d || isDigit d)
  | [] => false

def lowerAscii (c : Char) : Char := if decide ('A' ≤ c) && decide (c ≤ 'Z') then Char.ofNat (c.toNat + 32) else c
def lowerWord (w : String) : String := String.ofList (w.toList.map lowerAscii)

/-- `LETTER (LETTER | NUMBER)*` -/
def isPlainRun (r : List Char) : Bool :=
  match r with
  | c :: cs => isLetter c && cs.all (fun d => isLetter d || isDigit d)
  | [] => false

/-- a run of word characters cut at its underscores: `x_i_12` ↦ `x`, `i`, `12` -/
def splitRun : List Char → List (List Char)
  | [] => [[]]
  | c :: cs =>
    if c == '_' then [] :: splitRun cs
    else match splitRun cs with
      | s :: ss => (c :: s) :: ss
      | [] => [[c]]

/-- one `compound_variable_body` written without braces: `integer` or `simple_variable` (without `$`/`_`) -/
def segTok (s : List Char) : Option Tok :=
  if s.isEmpty then none
  else if s.all isDigit then some (.int (String.ofList s))
  else if isPlainRun s then some (.word (String.ofList s)) else none

/-- `("_" ~ body)*` inside one run of word characters.  `next` is the text behind the run: a run that ends
in `_` goes on with `{`; an integer segment followed by `.digit` would be a `float` body (an error of the AST
builder that is not modelled). -/
def compoundTail : List (List Char) → List Char → Option (List Tok)
  | [], _ => some []
  | [[]], next =>
    match next with
    | '{' :: _ => some [.us]
    | _ => none
  | [s], next =>
    match segTok s, next with
    | some (.int _), '.' :: d :: _ => if isDigit d then none else (segTok s).map (fun t => [.us, t])
    | some t, _ => some [.us, t]
    | none, _ => none
  | s :: ss, next =>
    match segTok s, compoundTail ss next with
    | some t, some ts => some (.us :: t :: ts)
    | _, _ => none

/-- the name behind the `\` of an `escaped_compound_variable` written without braces: `base_seg_seg…`, base a plain
run, at least one segment, every segment an integer or a plain run (`x_1`, `total_a_12`) -/
def isEscapedRun (run : List Char) : Bool :=
  match splitRun run with
  | base :: seg :: segs => isPlainRun base && (seg :: segs).all (fun x => !x.isEmpty && (x.all isDigit || isPlainRun x))
  | _ => false

/-- text behind an escaped name that the model declines: `[` (the real grammar has no array access on an escaped
name), `.digit` behind an integer segment (a `float` body) -/
def escapedFollowBad (run next : List Char) : Bool :=
  (match next.dropWhile (fun c => c == ' ' || c == '\t') with
   | '[' :: _ => true
   | _ => false) ||
  (match next with
   | '.' :: d :: _ => isDigit d && ((splitRun run).getLast?.map (fun x => x.all isDigit)).getD false
   | _ => false)

/-- after `/*`: the text behind the closing `*/` (none: unterminated, then `/*` is no comment). -/
def afterBlockComment : List Char → Option (List Char)
  | [] => none
  | '*' :: '/' :: rest => some rest
  | _ :: rest => afterBlockComment rest

def dropLine : List Char → List Char
  | [] => []
  | '\n' :: rest => '\n' :: rest
  | _ :: rest => dropLine rest

/-- the rest of `^"s.t."` after its first letter -/
def dotTDot : List Char → Bool
  | '.' :: t :: '.' :: _ => t == 't' || t == 'T'
  | _ => false

/-- `prevWord`: the previous token is a word (a following word starting with `_` would be glued to it
by `compound_variable`, which is outside the modelled sub-language). -/
def lexAux : Nat → List Char → Bool → List Tok → LexRes
  | 0, _, _, _ => .unsupported
  | fuel+1, cs, prevWord, acc =>
    match cs with
    | [] => .ok acc.reverse
    | c :: rest =>
      if c == ' ' || c == '\t' then lexAux fuel rest prevWord acc
      else if c == '\n' then lexAux fuel rest false (.nl :: acc)
      else if c == '\r' then
        match rest with
        | '\n' :: r => lexAux fuel r false (.nl :: acc)
        | _ => lexAux fuel rest false (.nl :: acc)
      else if c == ':' then lexAux fuel rest false (.colon :: acc)
      else if c == '=' then lexAux fuel rest false (.eq :: acc)
      else if c == '>' then
        match rest with
        | '=' :: r => lexAux fuel r false (.ge :: acc)
        | _ => lexAux fuel rest false (.gt :: acc)
      else if c == '/' then
        match rest with
        | '/' :: r => lexAux fuel (dropLine r) prevWord acc
        | '*' :: r =>
          match afterBlockComment r with
          | some r' => lexAux fuel r' prevWord acc
          | none => lexAux fuel rest false (.slash :: acc)
        | _ => lexAux fuel rest false (.slash :: acc)
      else if c == '(' then lexAux fuel rest false (.lpar :: acc)
      else if c == ')' then lexAux fuel rest false (.rpar :: acc)
      else if c == ',' then lexAux fuel rest false (.comma :: acc)
      else if c == '+' then lexAux fuel rest false (.plus :: acc)
      else if c == '*' then lexAux fuel rest false (.star :: acc)
      else if c == '!' then lexAux fuel rest false (.bang :: acc)
      else if c == '-' then
        match rest with
        | '>' :: r => lexAux fuel r false (.arrow :: acc)
        | _ => lexAux fuel rest false (.minus :: acc)
      else if c == '<' then
        match rest with
        | '-' :: '>' :: r => lexAux fuel r false (.darrow :: acc)
        | '=' :: r => lexAux fuel r false (.le :: acc)
        | _ => lexAux fuel rest false (.lt :: acc)
      else if c == '&' then
        match rest with
        | '&' :: r => lexAux fuel r false (.ampamp :: acc)
        | _ => .unsupported
      else if c == '|' then
        match rest with
        | '|' :: r => lexAux fuel r false (.barbar :: acc)
        | _ => .unsupported
      else if isDigit c then
        let (ds, r) := spanWhile isDigit (c :: rest)
        match r with
        | '.' :: d :: r' =>
          if isDigit d then
            let (fs, r'') := spanWhile isDigit (d :: r')
            lexAux fuel r'' false (.float (String.ofList (ds ++ '.' :: fs)) :: acc)
          else if d == '.' then lexAux fuel r false (.int (String.ofList ds) :: acc)    -- `1..n`
          else .unsupported
        | '.' :: [] => .unsupported
        | _ => lexAux fuel r false (.int (String.ofList ds) :: acc)
      else if c == '$' then
        let (run, r) := spanWhile isWordChar rest
        if isSimpleRun run then lexAux fuel r true (.word (String.ofList (c :: run)) :: acc) else .unsupported
      else if (c == 's' || c == 'S') && dotTDot rest then
        -- `^"s.t."`
        lexAux fuel (rest.drop 3) false (.st :: acc)
      else if isLetter c || c == '_' then
        let (run, r) := spanWhile isWordChar (c :: rest)
        if c == '_' && prevWord then .unsupported
        else if isSimpleRun run then lexAux fuel r true (.word (String.ofList run) :: acc)
        else if c == '_' then
          -- `no_par = @{ "_" }` (a tuple component / a constant that is not named); `_{…}` would be a compound
          -- variable without a base name
          match run, r with
          | ['_'], '{' :: _ => .unsupported
          | ['_'], _ => lexAux fuel r true (.word "_" :: acc)
          | _, _ => .unsupported
        else
          -- `compound_variable`: `base_seg_seg…`
          match splitRun run with
          | base :: segs =>
            match compoundTail segs r with
            | some ts => lexAux fuel r true (ts.reverse ++ .word (String.ofList base) :: acc)
            | none => .unsupported
          | [] => .unsupported
      else if c == '{' then lexAux fuel rest false (.lbrace :: acc)
      else if c == '}' then
        match rest with
        | '_' :: _ =>
          -- `x_{i}_j`: the compound variable goes on behind the brace
          let (run, r) := spanWhile isWordChar rest
          match splitRun run with
          | [] :: segs =>
            match compoundTail segs r with
            | some ts => lexAux fuel r true (ts.reverse ++ .rbrace :: acc)
            | none => .unsupported
          | _ => .unsupported
        | _ => lexAux fuel rest true (.rbrace :: acc)
      else if c == '[' then lexAux fuel rest false (.lbrack :: acc)
      else if c == ']' then lexAux fuel rest false (.rbrack :: acc)
      else if c == '.' then
        match rest with
        | '.' :: '=' :: r => lexAux fuel r false (.dotdoteq :: acc)
        | '.' :: r => lexAux fuel r false (.dotdot :: acc)
        | _ => .unsupported
      else if c == '"' then
        let (body, r) := spanWhile (fun d => d != '"' && d != '\\') rest
        match r with
        | '"' :: r' => lexAux fuel r' false (.str (String.ofList body) :: acc)
        | _ => .unsupported
      else if c == '\\' then
        -- `escaped_compound_variable = { "\\" ~ compound_variable }`: the variable whose NAME is the text behind the
        -- backslash; a word with an inner underscore stands for it (a compound run is never lexed as one word)
        let (run, r) := spanWhile isWordChar rest
        if isEscapedRun run && !(escapedFollowBad run r) then lexAux fuel r true (.word (String.ofList run) :: acc)
        else .unsupported
      else .unsupported

def lex (s : List Char) : LexRes := lexAux (s.length + 1) s false []

end Rooc.Syntax
