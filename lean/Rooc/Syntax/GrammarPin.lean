/-
The grammar rules the lexer model (`Tok.lean`) and the parser models (`Parse.lean`, `Program.lean`) were WRITTEN FOR:
a hand-kept copy of their shapes in grammar.pest.  `Gen.ruleShapes` is regenerated from grammar.pest by
tools/extract.py before every check; when a rule there no longer has the shape recorded here, the models do not
follow the grammar any more and the drivers of C09 / C11 answer `grammar-rule-changed <rule>` for every request, so
that the correspondence breaks loudly.  (Not generated: update together with the models.)  Import-free.
-/
import Rooc.Gen.Grammar
namespace Rooc.Syntax

/-- (rule, modifier, whitespace-normalised body) of every rule the models encode -/
def modelledRules : List (String × String × String) :=
  [("exp", "_", "unary_op? ~ exp_leaf ~ (binary_op ~ unary_op? ~ exp_leaf)*"),
   ("exp_leaf", "_", "block_scoped_function | block_function | function | implicit_mul | parenthesis | array_access | primitive | variable"),
   ("implicit_mul", "", "(number | parenthesis){2,} ~ variable? | (number | parenthesis) ~ variable"),
   ("parenthesis", "", "\"(\" ~ exp ~ \")\""),
   ("function", "", "#function_name = function_name ~ \"(\" ~ #function_pars = function_pars ~ \")\""),
   ("function_pars", "", "(tagged_exp ~(comma ~ tagged_exp)*)?"),
   ("binary_op", "_", "mul | add | iff_op | implies_op | sub | div | or_op | xor_op | and_op"),
   ("unary_op", "_", "neg | not_op"),
   ("variable", "_", "!(keyword) ~ (compound_variable | simple_variable | escaped_compound_variable)"),
   ("simple_variable", "@", "\"$\"? ~ \"_\"* ~ LETTER ~ (LETTER | NUMBER)*"),
   ("number", "_", "float | integer"),
   ("integer", "@", "'0'..'9'+"),
   ("float", "@", "'0'..'9'+ ~ \".\" ~ ('0'..'9')+"),
   ("boolean", "@", "(\"true\" | \"false\") ~ !(LETTER | NUMBER | \"_\")"),
   ("function_name", "@", "LETTER+ ~ (\"_\" ~ (LETTER | NUMBER)+)*"),
   ("WHITESPACE", "_", "\" \" | \"\\t\""),
   ("COMMENT", "_", "(\"/*\" ~ (!\"*/\" ~ ANY)* ~ \"*/\") | (\"//\" ~ (!nl ~ ANY)*)"),
   ("keyword", "@", "(\"for\" | \"min\" | \"max\" | \"where\" | \"true\" | \"false\" | \"in\" | \"as\" | \"define\" | \"let\" | \"solve\" | \"and\" | \"or\" | \"not\" | \"implies\" | \"iff\" | \"xor\") ~ !(LETTER | NUMBER | \"_\")"),
   ("mul", "", "\"*\""),
   ("add", "", "\"+\""),
   ("sub", "", "\"-\""),
   ("div", "", "\"/\""),
   ("neg", "", "\"-\""),
   ("and_op", "@", "(\"and\" ~ !(LETTER | NUMBER | \"_\")) | \"&&\""),
   ("or_op", "@", "(\"or\" ~ !(LETTER | NUMBER | \"_\")) | \"||\""),
   ("xor_op", "@", "\"xor\" ~ !(LETTER | NUMBER | \"_\")"),
   ("implies_op", "@", "(\"implies\" ~ !(LETTER | NUMBER | \"_\")) | \"->\""),
   ("iff_op", "@", "(\"iff\" ~ !(LETTER | NUMBER | \"_\")) | \"<->\""),
   ("not_op", "@", "(\"not\" ~ !(LETTER | NUMBER | \"_\")) | \"!\""),
   ("comma", "_", "\",\" ~ nl*"),
   ("tagged_exp", "", "exp"),
   ("problem", "", "SOI ~ nl* ~ #objective = objective ~ nl+ ~ (^\"s.t.\" | ^\"subject to\") ~ nl+ ~ #constraints = constraint_list ~ ( nl+ ~ ^\"where\" ~ #where = consts_declaration )? ~ ( nl+ ~ ^\"define\" ~ #define = domains_declaration )? ~ nl* ~ EOI"),
   ("objective", "", "( #objective_type = objective_type ~ #objective_body = tagged_exp ) | ( #objective_type = solve )"),
   ("solve", "@", "^\"solve\""),
   ("constraint_list", "", "(constraint ~ (nl* ~constraint)*)?"),
   ("constraint", "", "#constraint_name = (constraint_name)? ~ #constraint_lhs = (tagged_exp) ~ ( #constraint_relation = comparison ~ #constraint_rhs = tagged_exp )? ~ #constraint_iteration = (nl* ~ for_iteration)?"),
   ("constraint_name", "", "variable ~ \":\" ~ nl*"),
   ("consts_declaration", "", "(nl+ ~ const_declaration)*"),
   ("const_declaration", "", "\"let\" ~ #name = (simple_variable | no_par) ~ \"=\" ~ #value = tagged_exp"),
   ("domains_declaration", "", "(nl+ ~domain_declaration)*"),
   ("domain_declaration", "", "#vars = domain_variables ~ nl*~ ^\"as\" ~ #as_type = as_assertion ~ #iteration = (nl* ~ for_iteration)?"),
   ("domain_variables", "", "(variable ~ comma ~ nl*)* ~ variable"),
   ("as_assertion", "", "#type = (!keyword ~ as_type) ~ #values = (as_value?)"),
   ("as_value", "", "\"(\" ~ (tagged_exp ~ comma)* ~ tagged_exp ~ \")\""),
   ("as_type", "@", "LETTER ~ (LETTER | NUMBER)*"),
   ("for_iteration", "_", "^\"for\" ~ iteration_declaration_list"),
   ("iteration_declaration_list", "", "(iteration_declaration ~ comma)* ~ iteration_declaration"),
   ("iteration_declaration", "", "#tuple = (simple_variable | tuple) ~ ^\"in\" ~ #iterator = iterator"),
   ("tuple", "", "\"(\" ~ (simple_variable | no_par) ~ (comma ~ (simple_variable | no_par))* ~ \")\""),
   ("iterator", "", "range_iterator | tagged_exp"),
   ("range_iterator", "", "#from = (tagged_exp) ~ #range_type = range_type ~ #to = (tagged_exp)"),
   ("block_function", "", "#name = function_name ~ \"{\" ~ nl* ~ #body = comma_separated_exp ~ nl* ~\"}\""),
   ("block_scoped_function", "", "#name = function_name ~ \"(\" ~ nl* ~ #range = iteration_declaration_list ~ nl* ~\")\" ~ \"{\" ~ nl* ~ #body = tagged_exp ~ nl* ~ \"}\""),
   ("array_access", "", "#name = simple_variable ~ #accesses = pointer_access_list"),
   ("pointer_access_list", "", "(pointer_access)+"),
   ("pointer_access", "_", "^\"[\" ~ tagged_exp ~ ^\"]\""),
   ("array", "", "(\"[\" ~ nl* ~ ((_primitive ~ comma)* ~ _primitive) ~ nl* ~ \"]\") | (\"[\" ~ nl* ~ \"]\")"),
   ("comma_separated_exp", "", "(tagged_exp ~ comma)* ~ tagged_exp"),
   ("compound_variable", "", "simple_variable? ~ (\"_\" ~ compound_variable_body)+"),
   ("compound_variable_body", "_", "(underscore_literal | simple_variable | number) | \"{\" ~ nl* ~ (tagged_exp) ~ nl* ~ \"}\""),
   ("underscore_literal", "@", "\"_\"+ ~ (LETTER | NUMBER)+"),
   ("escaped_compound_variable", "", "\"\\\\\" ~ compound_variable"),
   ("objective_type", "@", "^\"min\" | ^\"max\""),
   ("comparison", "@", "\"<=\" | \">=\" | \"=\" | \"<\" | \">\""),
   ("range_type", "@", "\"..=\" | \"..\""),
   ("no_par", "@", "\"_\""),
   ("string", "$", "\"\\\"\" ~ inner_string ~ \"\\\"\""),
   ("nl", "_", "NEWLINE")]

/-- the tables the models read from `Rooc/Gen/Grammar.lean`, as they were when the models were written -/
def modelledTables : Bool :=
  Gen.keywords == ["for", "min", "max", "where", "true", "false", "in", "as", "define", "let", "solve", "and", "or", "not",
      "implies", "iff", "xor"]
  && Gen.opSpellings == [("mul", "sym", "*"), ("add", "sym", "+"), ("sub", "sym", "-"), ("div", "sym", "/"), ("neg", "sym", "-"),
      ("and_op", "word", "and"), ("and_op", "sym", "&&"), ("or_op", "word", "or"), ("or_op", "sym", "||"),
      ("xor_op", "word", "xor"), ("implies_op", "word", "implies"), ("implies_op", "sym", "->"),
      ("iff_op", "word", "iff"), ("iff_op", "sym", "<->"), ("not_op", "word", "not"), ("not_op", "sym", "!")]
  && Gen.binaryOpAlts == ["mul", "add", "iff_op", "implies_op", "sub", "div", "or_op", "xor_op", "and_op"]
  && Gen.unaryOpAlts == ["neg", "not_op"]
  && Gen.booleanWords == ["true", "false"]
  && Gen.expLeafAlts == ["block_scoped_function", "block_function", "function", "implicit_mul", "parenthesis", "array_access",
      "primitive", "variable"]
  && Gen.blockKinds == [("min", "min"), ("max", "max"), ("avg", "avg"), ("abs", "abs"), ("all", "all"), ("conjunction", "all"),
      ("any", "any"), ("disjunction", "any"), ("xor", "xor"), ("exclusive_disjunction", "xor")]
  && Gen.scopedKinds == [("sum", "sum"), ("prod", "prod"), ("min", "min"), ("max", "max"), ("avg", "avg"), ("all", "all"),
      ("conjunction", "all"), ("any", "any"), ("disjunction", "any"), ("xor", "xor"), ("exclusive_disjunction", "xor")]
  && Gen.blockArity == [("abs", 1)]
  && Gen.plainTypeNames == ["Boolean", "NonNegativeReal", "Real"]
  && Gen.argTypeNames == ["IntegerRange", "NonNegativeReal", "Real"]
  && Gen.objectiveKinds == [("min", "Min"), ("max", "Max"), ("solve", "Satisfy")]
  && Gen.comparisonKinds == [("<=", "LessOrEqual"), (">=", "GreaterOrEqual"), ("=", "Equal"), ("<", "Less"), (">", "Greater")]

/-- the first rule whose extracted shape is not the modelled one (`tables`: one of the extracted tables changed) -/
def grammarDrift : Option String :=
  match modelledRules.find? (fun r => !(Gen.ruleShapes.contains r)) with
  | some r => some r.1
  | none => if modelledTables then none else some "tables"

end Rooc.Syntax
