/-
M8 (part 4) — the PEG rules reachable from `exp` (grammar.pest), read over tokens, and
`parse_exp` / `parse_exp_leaf` (parser/rules_parser/exp_parser.rs) incl. the left fold of
`implicit_mul`.  Ordered choice and the possessive `?`/`*` of PEG are kept: a failing alternative
falls through to the next one, a failing repetition step backtracks to before its operator.
Two phases as in the Rust: the PEG reading (`parseExp`) and the errors raised while the AST is built, which
can only be `parse::<i64>` overflow of an integer literal in this fragment (`validInts`).  Import-free.
-/
import Rooc.Gen.Grammar
import Rooc.Syntax.Tok
import Rooc.Syntax.Pratt
import Rooc.Syntax.Render
namespace Rooc.Syntax

/-- how the atomic operator rules see a token: (kind, text) with kind `word` = spelled with the
boundary look-ahead, `sym` = symbolic. -/
def Tok.opSpelling : Tok → Option (String × String)
  | .plus => some ("sym", "+")
  | .minus => some ("sym", "-")
  | .star => some ("sym", "*")
  | .slash => some ("sym", "/")
  | .ampamp => some ("sym", "&&")
  | .barbar => some ("sym", "||")
  | .bang => some ("sym", "!")
  | .arrow => some ("sym", "->")
  | .darrow => some ("sym", "<->")
  | .word w => some ("word", w)
  | _ => none

def spells (rule kind text : String) : Bool :=
  Gen.opSpellings.any (fun e => e.1 == rule && e.2.1 == kind && e.2.2 == text)

/-- first alternative of an operator choice rule that matches the token -/
def ruleOfTok (alts : List String) (t : Tok) : Option String :=
  match t.opSpelling with
  | none => none
  | some (k, s) => alts.find? (fun r => spells r k s)

/-- `binary_op` -/
def binRule (t : Tok) : Option String := ruleOfTok Gen.binaryOpAlts t
/-- `unary_op` -/
def unRule (t : Tok) : Option String := ruleOfTok Gen.unaryOpAlts t

/-- `keyword` (the word is a maximal run, so the boundary look-ahead holds iff the whole word is listed); the lone
`_` (`no_par`) is no variable either: `simple_variable` needs a letter -/
def isKeyword (w : String) : Bool := Gen.keywords.contains w || w == "_"

/-- `function_name = @{ LETTER+ ~ ("_" ~ (LETTER | NUMBER)+)* }` directly followed by `(`, on a word
without inner underscore: all letters. -/
def isFunctionName (w : String) : Bool := !w.toList.isEmpty && w.toList.all isLetter

def digitsToNat (cs : List Char) : Nat := cs.foldl (fun n c => 10 * n + (c.toNat - '0'.toNat)) 0

def i64Max : Nat := 9223372036854775807

/-- `integer = @{ '0'..'9'+ }`: the PEG accepts every digit string; `as_str().parse::<i64>()` is part of the AST
building that runs after the whole text has matched (`validInts`) -/
def intLeaf (s : String) : PExp := .int (digitsToNat s.toList)

/-- `primitive` (boolean) then `variable`, on a word that is not a function call.
`boolean = @{ ("true" | "false") ~ !(LETTER | NUMBER | "_") }`: the word is a maximal run, so the boundary
look-ahead holds iff the whole word is one of the listed spellings. -/
def wordLeaf (w : String) (rest : List Tok) : PRes (PExp × List Tok) :=
  if Gen.booleanWords.contains w then
    -- parse_primitive: `"true" => Boolean(true)`, `"false" => Boolean(false)`, anything else is an error
    if w == "true" then .ok (.bool true, rest)
    else if w == "false" then .ok (.bool false, rest)
    else .error .reject
  else if isKeyword w then .error .reject else .ok (.var w, rest)

/-- `unary_op?` (the operator words carry the boundary look-ahead: `not_x` is a compound variable) -/
def optUnary : List Tok → List Item × List Tok
  | .word w :: .us :: r => ([], .word w :: .us :: r)
  | t :: r =>
    match unRule t with
    | some rule => ([.op rule], r)
    | none => ([], t :: r)
  | [] => ([], [])

/-- left fold of `Rule::implicit_mul` -/
def foldMul (first second : PExp) (more : List PExp) : PExp :=
  more.foldl (fun acc e => .bin .mul acc e) (.bin .mul first second)

/-- `nl*` -/
def skipNl : List Tok → List Tok
  | .nl :: r => skipNl r
  | toks => toks

/-- `function_name = @{ LETTER+ ~ ("_" ~ (LETTER | NUMBER)+)* }` put together again from the pieces the lexer cut
the run of word characters into -/
def fnNameTail : List Tok → String → String × List Tok
  | .us :: .word s :: r, acc => fnNameTail r (acc ++ "_" ++ s)
  | .us :: .int s :: r, acc => fnNameTail r (acc ++ "_" ++ s)
  | toks, acc => (acc, toks)

/-- `tuple = { "(" ~ (simple_variable | no_par) ~ (comma ~ (simple_variable | no_par))* ~ ")" }` after its `(`
(`afterComma`: the `nl*` of `comma` may be skipped; the lexer does not produce `no_par`) -/
def tupleNames : List Tok → Bool → List String → Option (List String × List Tok)
  | .nl :: r, true, acc => tupleNames r true acc
  | .word w :: .rpar :: r, _, acc => some (acc ++ [w], r)
  | .word w :: .comma :: r, _, acc => tupleNames r true (acc ++ [w])
  | _, _, _ => none

/-- display of a kind: `FromStr` then `Display` (`conjunction` is printed `all`); an unknown name is kept and
refused by the AST builder (`buildErr`) -/
def canonKind (table : List (String × String)) (name : String) : String :=
  match table.find? (fun e => e.1 == name) with
  | some e => e.2
  | none => name

/-- the display the model cannot compute for an array literal (floats, strings, nested or mixed entries):
the driver answers `unsupported` for a tree that carries it -/
def opaquePrim : String := "\u0000"

/-- entries of an `array` literal of the kinds whose `Display` the model knows -/
inductive ArrEntry where
  | int (s : String)
  | bool (b : Bool)
  | other

/-- `array = { ("[" ~ nl* ~ ((_primitive ~ comma)* ~ _primitive) ~ nl* ~ "]") | ("[" ~ nl* ~ "]") }` after its `[`;
`_primitive = _{ number | array | graph | boolean | string }` (the lexer declines `Graph {`) -/
def arrayEntries : Nat → List Tok → List ArrEntry → Option (List ArrEntry × List Tok)
  | 0, _, _ => none
  | f+1, toks, acc =>
    let entry : Option (ArrEntry × List Tok) :=
      match toks with
      | .int s :: r => some (.int s, r)
      | .float _ :: r => some (.other, r)
      | .str _ :: r => some (.other, r)
      | .word w :: r => if w == "true" then some (.bool true, r) else if w == "false" then some (.bool false, r) else none
      | .lbrack :: r =>
        match skipNl r with
        | .rbrack :: r' => some (.other, r')
        | r1 =>
          match arrayEntries f r1 [] with
          | some (_, r') => some (.other, r')
          | none => none
      | _ => none
    match entry with
    | none => none
    | some (e, r) =>
      match r with
      | .comma :: r' => arrayEntries f (skipNl r') (acc ++ [e])     -- `(_primitive ~ comma)*` is possessive
      | _ =>
        match skipNl r with
        | .rbrack :: r' => some (acc ++ [e], r')
        | _ => none

def ArrEntry.intVal : ArrEntry → Option Nat
  | .int s => some (digitsToNat s.toList)
  | _ => none
def ArrEntry.boolVal : ArrEntry → Option Bool
  | .bool b => some b
  | _ => none

/-- `Display for IterableKind::Integers / Booleans` (`{:?}` of the vector) -/
def joinCommaSpace : List (List Char) → List Char
  | [] => []
  | [x] => x
  | x :: y :: xs => x ++ ',' :: ' ' :: joinCommaSpace (y :: xs)
def arrayText (items : List String) : String := String.ofList ('[' :: joinCommaSpace (items.map String.toList) ++ [']'])

/-- `Rule::array` leaf, `flatten_primitive_array_values` and the display of the result.  An integer entry that
overflows `i64` is an error of the AST builder: the leaf is answered as that integer, which `validInts` refuses. -/
def arrayLeaf (toks : List Tok) : PRes (PExp × List Tok) :=
  match skipNl toks with
  | .rbrack :: r => .ok (.prim "[]", r)
  | r1 =>
    match arrayEntries (r1.length + 1) r1 [] with
    | none => .error .reject
    | some (es, r) =>
      let ints := es.filterMap ArrEntry.intVal
      let bools := es.filterMap ArrEntry.boolVal
      match ints.find? (fun v => decide (v > i64Max)) with
      | some v => .ok (.int v, r)
      | none =>
        if ints.length == es.length then .ok (.prim (arrayText (ints.map (fun v => String.ofList (natDigits v)))), r)
        else if bools.length == es.length then .ok (.prim (arrayText (bools.map (fun b => if b then "true" else "false"))), r)
        else .ok (.prim opaquePrim, r)

/-! ### graph literals: `Graph { A -> [B: 2, C], B -> [C: -1.5], C }` -/

/-- an edge of a graph literal: destination and its cost (`signed_number`: is there a `-`, the text of the number),
if it has one -/
structure GEdge where
  to : String
  cost : Option (Bool × String)
  deriving Repr, DecidableEq, Inhabited
/-- a node with its outgoing edges (`A -> []` and `A` are the same node) -/
structure GNode where
  name : String
  edges : List GEdge
  deriving Repr, DecidableEq, Inhabited

/-- `Display for GraphEdge`: `to:cost` / `to` -/
def edgeChars (e : GEdge) : List Char :=
  match e.cost with
  | some (neg, w) => e.to.toList ++ ':' :: ((if neg then ['-'] else []) ++ w.toList)
  | none => e.to.toList
/-- `Display for GraphNode`: `name -> [ e, e ]`, the bare name without edges -/
def nodeChars (n : GNode) : List Char :=
  match n.edges with
  | [] => n.name.toList
  | es => n.name.toList ++ " -> [ ".toList ++ joinCommaSpace (es.map edgeChars) ++ " ]".toList
def joinNodes : List (List Char) → List Char
  | [] => []
  | [x] => x
  | x :: y :: xs => x ++ ',' :: '\n' :: joinNodes (y :: xs)
/-- `Display for Graph`: `Graph { }`, else one node per line, indented by four blanks -/
def graphText (ns : List GNode) : String :=
  match ns with
  | [] => "Graph { }"
  | _ => String.ofList ("Graph {\n".toList ++ joinNodes (ns.map fun n => "    ".toList ++ nodeChars n) ++ "\n}".toList)

/-- `simple_variable = @{ "$"? ~ "_"* ~ LETTER ~ (LETTER | NUMBER)* }` on a word of the lexer (the lone `_` and a
word that stands for an escaped name are none) -/
def isSimpleWord (w : String) : Bool :=
  match w.toList with
  | '$' :: r => isSimpleRun r
  | r => isSimpleRun r

/-- the kind under which a graph with parallel edges is answered: the PEG accepts it, `parse_graph_node` refuses a
duplicate destination (`blockKindErr` gives the class) -/
def graphDupKind : String := "\u0001graph-parallel-edges"

/-- `edges_list = { (edge ~ comma)* ~ edge? }` behind `[`, up to and including `]`;
`edge = { simple_variable ~ (":" ~ signed_number)? }`, `signed_number = @{ "-"? ~ number }` -/
def graphEdges : Nat → List Tok → List GEdge → Option (List GEdge × List Tok)
  | 0, _, _ => none
  | f+1, toks, acc =>
    match toks with
    | .rbrack :: r => some (acc, r)
    | .word n :: r =>
      if !(isSimpleWord n) then none else
      let costed : Option (Bool × String) × List Tok :=
        match r with
        | .colon :: .minus :: .int s :: r' => (some (true, s), r')
        | .colon :: .minus :: .float s :: r' => (some (true, s), r')
        | .colon :: .int s :: r' => (some (false, s), r')
        | .colon :: .float s :: r' => (some (false, s), r')
        | _ => (none, r)
      match costed.2 with
      | .comma :: r2 => graphEdges f (skipNl r2) (acc ++ [⟨n, costed.1⟩])
      | .rbrack :: r2 => some (acc ++ [⟨n, costed.1⟩], r2)
      | _ => none
    | _ => none

/-- `graph_node = { simple_variable ~ ("->" ~ "[" ~ edges_list ~ "]")? }` -/
def graphNode (toks : List Tok) : Option (GNode × List Tok) :=
  match toks with
  | .word n :: r =>
    if !(isSimpleWord n) then none else
    match r with
    | .arrow :: .lbrack :: r1 =>
      match graphEdges (r1.length + 1) r1 [] with
      | some (es, r2) => some (⟨n, es⟩, r2)
      | none => some (⟨n, []⟩, r)            -- the optional group fails: the bare name (what follows is then refused)
    | _ => some (⟨n, []⟩, r)
  | _ => none

/-- `(comma ~ graph_node)* ~ nl* ~ "}"` -/
def graphTail : Nat → List Tok → List GNode → Option (List GNode × List Tok)
  | 0, _, _ => none
  | f+1, toks, acc =>
    match toks with
    | .comma :: r =>
      match graphNode (skipNl r) with
      | some (n, r') => graphTail f r' (acc ++ [n])
      | none => none
    | _ =>
      match skipNl toks with
      | .rbrace :: r => some (acc, r)
      | _ => none

def hasDupEdge (es : List GEdge) : Bool :=
  match es with
  | [] => false
  | e :: rest => rest.any (fun x => x.to == e.to) || hasDupEdge rest

/-- `nl* ~ graph_node_list ~ nl* ~ "}"` behind `Graph {`: the nodes -/
def graphNodes (toks : List Tok) : Option (List GNode × List Tok) :=
  let r0 := skipNl toks
  match graphNode r0 with
  | some (n, r1) => graphTail (r1.length + 1) r1 [n]
  | none => graphTail (r0.length + 1) r0 []

/-- `graph = { ^"Graph" ~ "{" ~ nl* ~ graph_node_list ~ nl* ~ "}" }` behind `Graph {`, and `parse_graph_node` -/
def graphLeaf (toks : List Tok) : Option (PExp × List Tok) :=
  match graphNodes toks with
  | some (ns, r) =>
    if ns.any (fun n => hasDupEdge n.edges) then some (.block graphDupKind [], r) else some (.prim (graphText ns), r)
  | none => none

mutual
/-- `tagged_exp`/`exp`, then `parse_exp` on its pairs -/
def parseExp : Nat → List Tok → PRes (PExp × List Tok)
  | 0, _ => .error .fuel
  | f+1, toks =>
    match collect f toks with
    | .error e => .error e
    | .ok (items, rest) =>
      match prattParse items with
      | .error e => .error e
      | .ok t => .ok (t, rest)
/-- `exp = _{ unary_op? ~ exp_leaf ~ (binary_op ~ unary_op? ~ exp_leaf)* }` -/
def collect : Nat → List Tok → PRes (List Item × List Tok)
  | 0, _ => .error .fuel
  | f+1, toks =>
    match leaf f (optUnary toks).2 with
    | .error e => .error e
    | .ok (t, rest) => collectLoop f rest ((optUnary toks).1 ++ [.leaf t])
def collectLoop : Nat → List Tok → List Item → PRes (List Item × List Tok)
  | 0, _, _ => .error .fuel
  | f+1, toks, acc =>
    match toks with
    | [] => .ok (acc, [])
    | t :: r =>
      -- the operator words carry the boundary look-ahead: `and_x` is no operator
      match (match r with | .us :: _ => none | _ => binRule t) with
      | none => .ok (acc, t :: r)
      | some rule =>
        match leaf f (optUnary r).2 with
        | .error .reject => .ok (acc, t :: r)     -- this step of the repetition fails: stop before the operator
        | .error e => .error e
        | .ok (x, rest) => collectLoop f rest (acc ++ .op rule :: (optUnary r).1 ++ [.leaf x])
/-- `exp_leaf = _{ block_scoped_function | block_function | function | implicit_mul | parenthesis | array_access |
primitive | variable }` -/
def leaf : Nat → List Tok → PRes (PExp × List Tok)
  | 0, _ => .error .fuel
  | f+1, toks =>
    match toks with
    | .word w :: rest =>
      if isFunctionName w then
        match fnNameTail rest w with
        | (name, .lpar :: r) =>
          match scopedFn f name (skipNl r) with
          | .ok res => .ok res
          | .error .reject =>
            match args f r with
            | .ok (as, rest') => .ok (.call name as, rest')
            | .error .reject => wordRest f w rest
            | .error e => .error e
          | .error e => .error e
        | (name, .lbrace :: r) =>
          match expList f (skipNl r) [] with
          | .ok (es, r') =>
            match skipNl r' with
            | .rbrace :: r'' => .ok (.block (canonKind Gen.blockKinds name) es, r'')
            | _ => wordRest f w rest
          | .error .reject => wordRest f w rest
          | .error e => .error e
        | _ => wordRest f w rest
      else wordRest f w rest
    | .int _ :: _ | .float _ :: _ | .lpar :: _ => imulOrSingle f toks
    | .lbrack :: r => arrayLeaf r
    | .str s :: r => .ok (.str s, r)
    | _ => .error .reject
/-- `array_access | primitive | variable` on a word -/
def wordRest : Nat → String → List Tok → PRes (PExp × List Tok)
  | 0, _, _ => .error .fuel
  | f+1, w, rest =>
    match rest with
    | .lbrack :: _ =>
      -- `array_access = { simple_variable ~ pointer_access_list }` (no keyword look-ahead; `_` is no `simple_variable`)
      if w == "_" then wordLeaf w rest else
      match accessLoop f rest [] with
      | .ok ([], _) => wordLeaf w rest
      | .ok (idx, r') => .ok (.access w idx, r')
      | .error e => .error e
    | .us :: _ =>
      -- a word followed by `_` is neither a keyword nor a boolean: `compound_variable`, else `simple_variable`
      match indexLoop f rest [] with
      | .ok ([], _) => .ok (.var w, rest)
      | .ok (idx, r') => .ok (.cvar w idx, r')
      | .error e => .error e
    | .lbrace :: r =>
      -- `primitive`: `graph = { ^"Graph" ~ "{" … }` (reached when the block-function reading of `Graph { … }` fails)
      if lowerWord w == "graph" then
        match graphLeaf r with
        | some res => .ok res
        | none => wordLeaf w rest
      else wordLeaf w rest
    | _ => wordLeaf w rest
/-- `block_scoped_function` after `name "(" nl*`: `iteration_declaration_list ~ nl* ~ ")" ~ "{" ~ nl* ~ tagged_exp ~
nl* ~ "}"` -/
def scopedFn : Nat → String → List Tok → PRes (PExp × List Tok)
  | 0, _, _ => .error .fuel
  | f+1, name, toks =>
    match iterList f toks [] [] with
    | .error e => .error e
    | .ok ((vs, its), r) =>
      match skipNl r with
      | .rpar :: .lbrace :: r1 =>
        match parseExp f (skipNl r1) with
        | .error e => .error e
        | .ok (body, r2) =>
          match skipNl r2 with
          | .rbrace :: r3 => .ok (.scoped (canonKind Gen.scopedKinds name) vs its body, r3)
          | _ => .error .reject
      | _ => .error .reject
/-- `iteration_declaration_list = { (iteration_declaration ~ comma)* ~ iteration_declaration }` -/
def iterList : Nat → List Tok → List IterVar → List PExp → PRes ((List IterVar × List PExp) × List Tok)
  | 0, _, _, _ => .error .fuel
  | f+1, toks, vs, its =>
    match iterDecl f toks with
    | .error e => .error e
    | .ok ((v, it), .comma :: r) => iterList f (skipNl r) (vs ++ [v]) (its ++ [it])
    | .ok ((v, it), r) => .ok ((vs ++ [v], its ++ [it]), r)
/-- `iteration_declaration = { (simple_variable | tuple) ~ ^"in" ~ iterator }` -/
def iterDecl : Nat → List Tok → PRes ((IterVar × PExp) × List Tok)
  | 0, _ => .error .fuel
  | f+1, toks =>
    match toks with
    | .word v :: .word i :: r =>
      if lowerWord i == "in" && v != "_" then
        match iterator f r with
        | .ok (it, r') => .ok ((.single v, it), r')
        | .error e => .error e
      else .error .reject
    | .lpar :: r =>
      match tupleNames r false [] with
      | some (ns, .word i :: r') =>
        if lowerWord i == "in" then
          match iterator f r' with
          | .ok (it, r'') => .ok ((.tuple ns, it), r'')
          | .error e => .error e
        else .error .reject
      | _ => .error .reject
    | _ => .error .reject
/-- `iterator = { range_iterator | tagged_exp }`, `range_iterator = { tagged_exp ~ range_type ~ tagged_exp }`
(`parse_iterator` builds `range(from, to, <inclusive>)`) -/
def iterator : Nat → List Tok → PRes (PExp × List Tok)
  | 0, _ => .error .fuel
  | f+1, toks =>
    match parseExp f toks with
    | .error e => .error e
    | .ok (a, .dotdot :: r) =>
      match parseExp f r with
      | .ok (b, r') => .ok (.call "range" [a, b, .bool false], r')
      | .error .reject => .ok (a, .dotdot :: r)
      | .error e => .error e
    | .ok (a, .dotdoteq :: r) =>
      match parseExp f r with
      | .ok (b, r') => .ok (.call "range" [a, b, .bool true], r')
      | .error .reject => .ok (a, .dotdoteq :: r)
      | .error e => .error e
    | .ok (a, r) => .ok (a, r)
/-- `comma_separated_exp = { (tagged_exp ~ comma)* ~ tagged_exp }` -/
def expList : Nat → List Tok → List PExp → PRes (List PExp × List Tok)
  | 0, _, _ => .error .fuel
  | f+1, toks, acc =>
    match parseExp f toks with
    | .error e => .error e
    | .ok (a, .comma :: r) => expList f (skipNl r) (acc ++ [a])
    | .ok (a, r) => .ok (acc ++ [a], r)
/-- `pointer_access_list = { (pointer_access)+ }`, `pointer_access = _{ ^"[" ~ tagged_exp ~ ^"]" }`: the accesses read
so far (a step that fails ends the repetition before its `[`) -/
def accessLoop : Nat → List Tok → List PExp → PRes (List PExp × List Tok)
  | 0, _, _ => .error .fuel
  | f+1, toks, acc =>
    match toks with
    | .lbrack :: r =>
      match parseExp f r with
      | .ok (e, .rbrack :: r') => accessLoop f r' (acc ++ [e])
      | .ok _ => .ok (acc, toks)
      | .error .reject => .ok (acc, toks)
      | .error e => .error e
    | _ => .ok (acc, toks)
/-- `("_" ~ compound_variable_body)+` with `compound_variable_body = _{ (underscore_literal | simple_variable | number)
| "{" ~ nl* ~ (tagged_exp) ~ nl* ~ "}" }` and `parse_compound_variable_index` -/
def indexLoop : Nat → List Tok → List PExp → PRes (List PExp × List Tok)
  | 0, _, _ => .error .fuel
  | f+1, toks, acc =>
    match toks with
    | .us :: .word s :: r => indexLoop f r (acc ++ [.var s])
    | .us :: .int s :: r => indexLoop f r (acc ++ [intLeaf s])
    | .us :: .lbrace :: r =>
      match parseExp f (skipNl r) with
      | .ok (e, r') =>
        match skipNl r' with
        | .rbrace :: r'' => indexLoop f r'' (acc ++ [e])
        | _ => .ok (acc, toks)
      | .error .reject => .ok (acc, toks)
      | .error e => .error e
    | _ => .ok (acc, toks)
/-- `function_pars ~ ")"` with `function_pars = { (tagged_exp ~ (comma ~ tagged_exp)*)? }` -/
def args : Nat → List Tok → PRes (List PExp × List Tok)
  | 0, _ => .error .fuel
  | f+1, toks =>
    match parseExp f toks with
    | .ok (a, r) => argsTail f r [a]
    | .error .reject =>
      match toks with
      | .rpar :: r => .ok ([], r)
      | _ => .error .reject
    | .error e => .error e
def argsTail : Nat → List Tok → List PExp → PRes (List PExp × List Tok)
  | 0, _, _ => .error .fuel
  | f+1, toks, acc =>
    match toks with
    | .rpar :: r => .ok (acc, r)
    | .comma :: r =>
      match parseExp f (skipNl r) with
      | .ok (a, r') => argsTail f r' (acc ++ [a])
      | .error e => .error e
    | _ => .error .reject
/-- `(number | parenthesis)*` — a `(` group that does not parse fails in every alternative that could
start there, so it fails the whole text. -/
def atoms : Nat → List Tok → List PExp → PRes (List PExp × List Tok)
  | 0, _, _ => .error .fuel
  | f+1, toks, acc =>
    match toks with
    | .int s :: r =>
      atoms f r (acc ++ [intLeaf s])
    | .float s :: r => atoms f r (acc ++ [.num s])
    | .lpar :: r =>
      match parseExp f r with
      | .ok (t, .rpar :: r') => atoms f r' (acc ++ [t])
      | .ok _ => .error .reject
      | .error e => .error e
    | _ => .ok (acc, toks)
/-- `variable?` at the end of `implicit_mul`: `!keyword ~ (compound_variable | simple_variable | …)` -/
def optVariable : Nat → List Tok → PRes (Option PExp × List Tok)
  | 0, _ => .error .fuel
  | f+1, toks =>
    match toks with
    | .word w :: .us :: r =>
      match indexLoop f (.us :: r) [] with
      | .ok ([], _) => .ok (some (.var w), .us :: r)
      | .ok (idx, r') => .ok (some (.cvar w idx), r')
      | .error e => .error e
    | .word w :: r => if isKeyword w then .ok (none, toks) else .ok (some (.var w), r)
    | _ => .ok (none, toks)
/-- `implicit_mul = { (number | parenthesis){2,} ~ variable? | (number | parenthesis) ~ variable }`, else
`parenthesis`, else `primitive` (number) -/
def imulOrSingle : Nat → List Tok → PRes (PExp × List Tok)
  | 0, _ => .error .fuel
  | f+1, toks =>
    match atoms f toks [] with
    | .error e => .error e
    | .ok ([], _) => .error .reject
    | .ok ([a], rest) =>
      match optVariable f rest with
      | .ok (some v, rest') => .ok (.bin .mul a v, rest')
      | .ok (none, _) => .ok (a, rest)
      | .error e => .error e
    | .ok (a :: b :: more, rest) =>
      match optVariable f rest with
      | .ok (some v, rest') => .ok (foldMul a b (more ++ [v]), rest')
      | .ok (none, _) => .ok (foldMul a b more, rest)
      | .error e => .error e
end

def parseFuel (toks : List Tok) : Nat := 6 * toks.length + 10

/-- `parse_block_function_type` / `exact_arity` -/
def blockKindErr (k : String) (n : Nat) : Option String :=
  if k == graphDupKind then some "graph-parallel-edges"
  else if !(Gen.blockKinds.any (fun e => e.2 == k)) then some "unknown-block"
  else match Gen.blockArity.find? (fun e => e.1 == k) with
    | some e => if n == e.2 then none else some "block-arity"
    | none => none

/-- `parse_scoped_block_function_type` -/
def scopedKindErr (k : String) : Option String :=
  if Gen.scopedKinds.any (fun e => e.2 == k) then none else some "unknown-scoped"

mutual
/-- the first error `parse_exp` raises while it builds the tree out of the pairs (the leaves are visited from
left to right): an integer literal beyond `i64` (`parse_number`, `parse_compound_variable_index`), an unknown
block function, a block with the wrong number of members -/
def buildErr : PExp → Option String
  | .int v => if v ≤ i64Max then none else some "int-overflow"
  | .cvar _ as | .access _ as | .call _ as => buildErrList as
  | .block k as =>
    match buildErrList as with
    | some e => some e
    | none => blockKindErr k as.length
  | .scoped k _ its b =>
    match buildErrList its with
    | some e => some e
    | none =>
      match scopedKindErr k with
      | some e => some e
      | none => buildErr b
  | .bin _ l r =>
    match buildErr l with
    | some e => some e
    | none => buildErr r
  | .un _ e => buildErr e
  | _ => none
def buildErrList : List PExp → Option String
  | [] => none
  | e :: es =>
    match buildErr e with
    | some x => some x
    | none => buildErrList es
end

/-- the PEG phase: a whole token sequence as one expression (what `min <exp>␤s.t.…` demands of the objective) -/
def parseToksRaw (toks : List Tok) : PRes PExp :=
  match parseExp (parseFuel toks) toks with
  | .ok (t, []) => .ok t
  | .ok (_, _ :: _) => .error .reject
  | .error e => .error e

/-- PEG phase, then the AST-building errors -/
def parseToks (toks : List Tok) : PRes PExp :=
  match parseToksRaw toks with
  | .ok t => if (buildErr t).isNone then .ok t else .error .reject
  | .error e => .error e

/-- why a text is rejected: the PEG does not match (`peg`), or it matches and building the AST fails -/
def rejectClass (toks : List Tok) : String :=
  match parseToksRaw toks with
  | .ok t => (buildErr t).getD "none"
  | .error _ => "peg"

inductive TextRes where
  | ok (t : PExp)
  | err (e : PErr)
  | unsupported
  deriving Repr, Inhabited

def parseText (s : List Char) : TextRes :=
  match lex s with
  | .unsupported => .unsupported
  | .ok toks =>
    match parseToks toks with
    | .ok t => .ok t
    | .error e => .err e

end Rooc.Syntax
