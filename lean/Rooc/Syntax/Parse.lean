/-
M8 (part 4) — the PEG rules reachable from `exp` (grammar.pest), read over tokens, and
`parse_exp` / `parse_exp_leaf` (parser/rules_parser/exp_parser.rs) incl. the left fold of
`implicit_mul`.  Ordered choice and the possessive `?`/`*` of PEG are kept: a failing alternative
falls through to the next one, a failing repetition step backtracks to before its operator.
Errors raised while the AST is built (`parse::<i64>` overflow) are merged with PEG failure:
both make `RoocParser::parse` return `Err`.  Import-free.
-/
import Rooc.Gen.Grammar
import Rooc.Syntax.Tok
import Rooc.Syntax.Pratt
namespace Rooc.Syntax

/-- how the atomic operator rules see a token: (kind, text) with kind `word` = spelled with the
boundary look-ahead, `sym` = symbolic. -/
def Tok.opSpelling : Tok → Option (String × String)
  | .plus => some ("sym", "+")
  | .minus => some ("sym", "-")
  | .star => some ("sym", "*")
  | .slash => some ("sym", "/")
  | .ampamp => some ("sym", "&&")
  | .barbar => some ("sym", "||")
  | .bang => some ("sym", "!")
  | .arrow => some ("sym", "->")
  | .darrow => some ("sym", "<->")
  | .word w => some ("word", w)
  | _ => none

def spells (rule kind text : String) : Bool :=
  Gen.opSpellings.any (fun e => e.1 == rule && e.2.1 == kind && e.2.2 == text)

/-- first alternative of an operator choice rule that matches the token -/
def ruleOfTok (alts : List String) (t : Tok) : Option String :=
  match t.opSpelling with
  | none => none
  | some (k, s) => alts.find? (fun r => spells r k s)

/-- `binary_op` -/
def binRule (t : Tok) : Option String := ruleOfTok Gen.binaryOpAlts t
/-- `unary_op` -/
def unRule (t : Tok) : Option String := ruleOfTok Gen.unaryOpAlts t

/-- `keyword` (the word is a maximal run, so the boundary look-ahead holds iff the whole word is listed) -/
def isKeyword (w : String) : Bool := Gen.keywords.contains w

/-- `function_name = @{ LETTER+ ~ ("_" ~ (LETTER | NUMBER)+)* }` directly followed by `(`, on a word
without inner underscore: all letters. -/
def isFunctionName (w : String) : Bool := !w.toList.isEmpty && w.toList.all isLetter

def digitsToNat (cs : List Char) : Nat := cs.foldl (fun n c => 10 * n + (c.toNat - '0'.toNat)) 0

def i64Max : Nat := 9223372036854775807

/-- `Rule::integer => as_str().parse::<i64>()` -/
def intLeaf (s : String) : Option PExp :=
  let n := digitsToNat s.toList
  if n ≤ i64Max then some (.int n) else none

/-- `primitive` (boolean) then `variable`, on a word that is not a function call.
`boolean = @{ ("true" | "false") ~ !(LETTER | NUMBER | "_") }`: the word is a maximal run, so the boundary
look-ahead holds iff the whole word is one of the listed spellings. -/
def wordLeaf (w : String) (rest : List Tok) : PRes (PExp × List Tok) :=
  if Gen.booleanWords.contains w then
    -- parse_primitive: `"true" => Boolean(true)`, `"false" => Boolean(false)`, anything else is an error
    if w == "true" then .ok (.bool true, rest)
    else if w == "false" then .ok (.bool false, rest)
    else .error .reject
  else if isKeyword w then .error .reject else .ok (.var w, rest)

/-- `variable?` at the end of `implicit_mul` -/
def optVariable : List Tok → Option PExp × List Tok
  | .word w :: r => if isKeyword w then (none, .word w :: r) else (some (.var w), r)
  | toks => (none, toks)

/-- `unary_op?` -/
def optUnary : List Tok → List Item × List Tok
  | t :: r =>
    match unRule t with
    | some rule => ([.op rule], r)
    | none => ([], t :: r)
  | [] => ([], [])

/-- left fold of `Rule::implicit_mul` -/
def foldMul (first second : PExp) (more : List PExp) : PExp :=
  more.foldl (fun acc e => .bin .mul acc e) (.bin .mul first second)

mutual
/-- `tagged_exp`/`exp`, then `parse_exp` on its pairs -/
def parseExp : Nat → List Tok → PRes (PExp × List Tok)
  | 0, _ => .error .fuel
  | f+1, toks =>
    match collect f toks with
    | .error e => .error e
    | .ok (items, rest) =>
      match prattParse items with
      | .error e => .error e
      | .ok t => .ok (t, rest)
/-- `exp = _{ unary_op? ~ exp_leaf ~ (binary_op ~ unary_op? ~ exp_leaf)* }` -/
def collect : Nat → List Tok → PRes (List Item × List Tok)
  | 0, _ => .error .fuel
  | f+1, toks =>
    match leaf f (optUnary toks).2 with
    | .error e => .error e
    | .ok (t, rest) => collectLoop f rest ((optUnary toks).1 ++ [.leaf t])
def collectLoop : Nat → List Tok → List Item → PRes (List Item × List Tok)
  | 0, _, _ => .error .fuel
  | f+1, toks, acc =>
    match toks with
    | [] => .ok (acc, [])
    | t :: r =>
      match binRule t with
      | none => .ok (acc, t :: r)
      | some rule =>
        match leaf f (optUnary r).2 with
        | .error .reject => .ok (acc, t :: r)     -- this step of the repetition fails: stop before the operator
        | .error e => .error e
        | .ok (x, rest) => collectLoop f rest (acc ++ .op rule :: (optUnary r).1 ++ [.leaf x])
/-- `exp_leaf`: function | implicit_mul | parenthesis | primitive | variable (the alternatives that need
`{`, `[`, `"`, `\` cannot start on a token of the sub-language) -/
def leaf : Nat → List Tok → PRes (PExp × List Tok)
  | 0, _ => .error .fuel
  | f+1, toks =>
    match toks with
    | .word w :: .lpar :: r =>
      if isFunctionName w then
        match args f r with
        | .ok (as, rest) => .ok (.call w as, rest)
        | .error .reject => wordLeaf w (.lpar :: r)
        | .error e => .error e
      else wordLeaf w (.lpar :: r)
    | .word w :: r => wordLeaf w r
    | .int _ :: _ | .float _ :: _ | .lpar :: _ => imulOrSingle f toks
    | _ => .error .reject
/-- `function_pars ~ ")"` with `function_pars = { (tagged_exp ~ (comma ~ tagged_exp)*)? }` -/
def args : Nat → List Tok → PRes (List PExp × List Tok)
  | 0, _ => .error .fuel
  | f+1, toks =>
    match parseExp f toks with
    | .ok (a, r) => argsTail f r [a]
    | .error .reject =>
      match toks with
      | .rpar :: r => .ok ([], r)
      | _ => .error .reject
    | .error e => .error e
def argsTail : Nat → List Tok → List PExp → PRes (List PExp × List Tok)
  | 0, _, _ => .error .fuel
  | f+1, toks, acc =>
    match toks with
    | .rpar :: r => .ok (acc, r)
    | .comma :: r =>
      match parseExp f r with
      | .ok (a, r') => argsTail f r' (acc ++ [a])
      | .error e => .error e
    | _ => .error .reject
/-- `(number | parenthesis)*` — a `(` group that does not parse fails in every alternative that could
start there, so it fails the whole text. -/
def atoms : Nat → List Tok → List PExp → PRes (List PExp × List Tok)
  | 0, _, _ => .error .fuel
  | f+1, toks, acc =>
    match toks with
    | .int s :: r =>
      match intLeaf s with
      | some t => atoms f r (acc ++ [t])
      | none => .error .reject
    | .float s :: r => atoms f r (acc ++ [.num s])
    | .lpar :: r =>
      match parseExp f r with
      | .ok (t, .rpar :: r') => atoms f r' (acc ++ [t])
      | .ok _ => .error .reject
      | .error e => .error e
    | _ => .ok (acc, toks)
/-- `implicit_mul = { (number | parenthesis){2,} ~ variable? | (number | parenthesis) ~ variable }`, else
`parenthesis`, else `primitive` (number) -/
def imulOrSingle : Nat → List Tok → PRes (PExp × List Tok)
  | 0, _ => .error .fuel
  | f+1, toks =>
    match atoms f toks [] with
    | .error e => .error e
    | .ok ([], _) => .error .reject
    | .ok ([a], rest) =>
      match optVariable rest with
      | (some v, rest') => .ok (.bin .mul a v, rest')
      | (none, _) => .ok (a, rest)
    | .ok (a :: b :: more, rest) =>
      match optVariable rest with
      | (some v, rest') => .ok (foldMul a b (more ++ [v]), rest')
      | (none, _) => .ok (foldMul a b more, rest)
end

def parseFuel (toks : List Tok) : Nat := 6 * toks.length + 10

/-- a whole token sequence as one expression (what `min <exp>␤s.t.…` demands of the objective) -/
def parseToks (toks : List Tok) : PRes PExp :=
  match parseExp (parseFuel toks) toks with
  | .ok (t, []) => .ok t
  | .ok (_, _ :: _) => .error .reject
  | .error e => .error e

inductive TextRes where
  | ok (t : PExp)
  | err (e : PErr)
  | unsupported
  deriving Repr, Inhabited

def parseText (s : List Char) : TextRes :=
  match lex s with
  | .unsupported => .unsupported
  | .ok toks =>
    match parseToks toks with
    | .ok t => .ok t
    | .error e => .err e

end Rooc.Syntax
