/-
The DOCUMENTED operator table of the expression language (properties.jsonl C09; rooc docs):
unary minus / not bind tightest, then `* /`, `+ -`, `and`, `xor`, `or`, then `implies` (right
associative) and `iff` (left associative) on one shared lowest level.  Written from the documentation,
independent of `Rooc/Gen`.  `Props.C09.table_documented` states that the regenerated table is this one.
Import-free.
-/
import Rooc.Syntax.PExp
namespace Rooc.Syntax.Doc
open Rooc

/-- precedence level, 1 = loosest -/
def docLevel : BinOp → Nat
  | .implies | .iff => 1
  | .or => 2
  | .xor => 3
  | .and => 4
  | .add | .sub => 5
  | .mul | .div => 6
def docRightAssoc : BinOp → Bool
  | .implies => true
  | _ => false
/-- the pest rule that carries each operator -/
def docRule : BinOp → String
  | .add => "add" | .sub => "sub" | .mul => "mul" | .div => "div" | .and => "and_op" | .or => "or_op"
  | .xor => "xor_op" | .implies => "implies_op" | .iff => "iff_op"
def docUnRule : UnOp → String
  | .neg => "neg" | .not => "not_op"

/-- binding powers in pest's scale: left `10 + 10·level`; right = left, minus one when right associative -/
def lbpD (o : BinOp) : Nat := 10 + 10 * docLevel o
def rbpD (o : BinOp) : Nat := if docRightAssoc o then lbpD o - 1 else lbpD o
def prefixD : Nat := 80

/-- the parentheses the grammar NEEDS: a left operand `o'` under `o` iff `o'` binds its right side weaker
than `o` binds its left (`rbp o' < lbp o`), a right operand iff `lbp o' ≤ rbp o` -/
def needParenLeft (o : BinOp) : PExp → Bool
  | .bin o' _ _ => decide (rbpD o' < lbpD o)
  | _ => false
def needParenRight (o : BinOp) : PExp → Bool
  | .bin o' _ _ => decide (lbpD o' ≤ rbpD o)
  | _ => false

end Rooc.Syntax.Doc
