/-
M8 (part 5) — the printers behind `RoocParser::format`: `Display for PreExp` with
`to_string_with_precedence` (parser/il/il_exp.rs), `CompoundVariable`, `AddressableAccess`,
`PreObjective`, `PreConstraint` (il_problem.rs), `FunctionCall` incl. the range sugar
(`std_fn_to_string`), block functions, `IterableSet`, `VariableKind`, `Variable`,
`VariablesDomainDeclaration`, `PreVariableType`, `Constant` and the layout of `PreModel`
(pre_model.rs).  Import-free.
-/
import Rooc.Gen.Prec
import Rooc.Syntax.PExp
import Rooc.Syntax.Render
namespace Rooc.Syntax

/-- `Display for BinOp` -/
def binOpText : BinOp → String
  | .add => "+" | .sub => "-" | .mul => "*" | .div => "/" | .and => "and" | .or => "or"
  | .xor => "xor" | .implies => "implies" | .iff => "iff"
/-- `Display for UnOp` (`not` carries its trailing space) -/
def unOpText : UnOp → String
  | .neg => "-" | .not => "not "

def joinWith (sep : String) : List String → String
  | [] => ""
  | [x] => x
  | x :: xs => x ++ sep ++ joinWith sep xs

/-- `Display for VariableKind` -/
def IterVar.text : IterVar → String
  | .single n => n
  | .tuple ns => "(" ++ joinWith ", " ns ++ ")"

/-- `name.trim_start_matches('$').trim_start_matches('_').contains('_')`: only an INNER underscore marks an
escaped compound variable; leading `$` / `_` belong to a simple variable -/
def needsEscape (name : String) : Bool :=
  ((name.toList.dropWhile (· == '$')).dropWhile (· == '_')).contains '_'

/-- `Display for Variable::Variable` / `PreExp::Variable` -/
def varText (name : String) : String := if needsEscape name then "\\" ++ name else name

/-- does `to_string_with_precedence(parent, is_rhs)` parenthesise the operand? A binary operation of lower
precedence, a right operand of equal precedence under a left-associative parent (`a - (b - c)`), or a
right-associative left operand of equal precedence (`(a implies b) iff c`). -/
def printsParen (parent : BinOp) (isRhs : Bool) : PExp → Bool
  | .bin op _ _ =>
    decide (Gen.binPrec op < Gen.binPrec parent) ||
      (decide (Gen.binPrec op = Gen.binPrec parent) && (if isRhs then Gen.binLeftAssoc parent else !(Gen.binLeftAssoc op)))
  | _ => false

/-- `to_string_with_precedence(parent, is_rhs)` given the operand's own `Display` text: a binary operation is
the same text as its `Display`, wrapped in parentheses iff `printsParen`; everything else is its `Display`. -/
def wrapOperand (parent : BinOp) (isRhs : Bool) (e : PExp) (s : String) : String :=
  if printsParen parent isRhs e then "(" ++ s ++ ")" else s

/-- operand of the range sugar / of a unary operator: parenthesised unless `is_leaf` -/
def wrapLeaf (e : PExp) (s : String) : String := if e.isLeaf then s else "(" ++ s ++ ")"

/-- `Display for FunctionCall` (after 10f80da): always `name(arg, …)`; the sugar of `std_fn_to_string` is only
written where an iterator is expected (`iterText`). -/
def callText (n : String) (ss : List String) : String := n ++ "(" ++ joinWith ", " ss ++ ")"

/-- `FunctionCall::to_iterator_string` behind `Display for IterableSet`: `std_fn_to_string` prints
`range(from, to, <boolean literal>)` as `from..to` / `from..=to`; everything else keeps its `Display`. -/
def iterText (e : PExp) (s : String) (ss : List String) : String :=
  match e, ss with
  | .call "range" [a, b, .bool incl], [sa, sb, _] => wrapLeaf a sa ++ (if incl then "..=" else "..") ++ wrapLeaf b sb
  | _, _ => s

/-- a decimal index that `Display for CompoundVariable` (after 7352fcb) writes bare: integral, `>= 0.0` and below
2^63 — on the display text: all digits with a value below 2^63, or `-0` (`-0.0 >= 0.0` holds) -/
def numIndexBare (t : String) : Bool :=
  t == "-0" || (!t.toList.isEmpty && t.toList.all isDigit && decide (t.toList.foldl (fun n c => 10 * n + (c.toNat - '0'.toNat)) 0 < 9223372036854775808))

/-- a string index that is written bare: a literal name fragment `_2`, `__ab` (leading underscores, then a
non-empty alphanumeric run) -/
def strIndexBare (t : String) : Bool :=
  let cs := t.toList
  let rest := cs.dropWhile (· == '_')
  cs.head? == some '_' && !rest.isEmpty && rest.all (fun c => isLetter c || isDigit c)

/-- one index of `Display for CompoundVariable` given the index's `Display` text: a non-negative integer, an
integral decimal, a name fragment and a variable whose name has no underscore are written bare, everything else in
braces (a variable `_i` written bare would be read as the name fragment `_i`, `a_b` as two indexes) -/
def indexText (e : PExp) (s : String) : String :=
  match e with
  | .int _ => s
  | .num t => if numIndexBare t then s else "{" ++ s ++ "}"
  | .str t => if strIndexBare t then t else "{" ++ s ++ "}"
  | .var n => if n.toList.contains '_' then "{" ++ s ++ "}" else n      -- 7719594: `x_{_i}`, not `x__i`
  | _ => "{" ++ s ++ "}"

mutual
/-- `impl Display for PreExp` -/
def fmtExp : PExp → String
  | .int v => String.ofList (natDigits v)      -- `i64::to_string`
  | .num t => t
  | .bool b => if b then "true" else "false"
  | .str s => "\"" ++ s ++ "\""
  | .prim d => d
  | .var n => varText n
  | .cvar n idx => n ++ "_" ++ joinWith "_" (fmtIndexes idx)
  | .access n acc => n ++ String.join (fmtAccesses acc)
  | .call n args => callText n (fmtList args)
  | .block k es => k ++ " { " ++ joinWith ", " (fmtList es) ++ " }"
  | .scoped k vs its body => k ++ "(" ++ joinWith ", " (fmtIters vs its) ++ ") { " ++ fmtExp body ++ " }"
  | .bin op l r =>
    wrapOperand op false l (fmtExp l) ++ " " ++ binOpText op ++ " " ++ wrapOperand op true r (fmtExp r)
  | .un op e => unOpText op ++ wrapLeaf e (fmtExp e)
def fmtList : List PExp → List String
  | [] => []
  | e :: es => fmtExp e :: fmtList es
/-- indexes of `Display for CompoundVariable` -/
def fmtIndexes : List PExp → List String
  | [] => []
  | e :: es => indexText e (fmtExp e) :: fmtIndexes es
def fmtAccesses : List PExp → List String
  | [] => []
  | e :: es => ("[" ++ fmtExp e ++ "]") :: fmtAccesses es
/-- `Display for IterableSet`: `{var} in {iterator}` -/
def fmtIters : List IterVar → List PExp → List String
  | v :: vs, e :: es => (v.text ++ " in " ++ fmtIter e) :: fmtIters vs es
  | _, _ => []
/-- the iterator of an iteration: a call is written by `to_iterator_string` -/
def fmtIter : PExp → String
  | .call n args => iterText (.call n args) (callText n (fmtList args)) (fmtList args)
  | e => fmtExp e
end

/-- `to_string_with_precedence` -/
def fmtOperand (parent : BinOp) (isRhs : Bool) (e : PExp) : String := wrapOperand parent isRhs e (fmtExp e)

/-- constraint name: `Variable` -/
inductive CName where
  | plain (name : String)
  | compound (name : String) (indexes : List PExp)
  deriving Repr, Inhabited

def CName.text : CName → String
  | .plain n => varText n
  | .compound n idx => fmtExp (.cvar n idx)

inductive Cmp where
  | le | ge | eq | lt | gt
  deriving Repr, Inhabited, DecidableEq
/-- `Display for Comparison` -/
def Cmp.text : Cmp → String
  | .le => "<=" | .ge => ">=" | .eq => "=" | .lt => "<" | .gt => ">"

structure PConstraint where
  name : Option CName
  lhs : PExp
  cmp : Cmp
  rhs : PExp
  logic : Bool                 -- `is_logic_assertion`
  iterVars : List IterVar
  iters : List PExp
  deriving Repr, Inhabited

def forClause (vs : List IterVar) (its : List PExp) : String :=
  if its.isEmpty then "" else " for " ++ joinWith ", " (fmtIters vs its)

/-- `Display for PreConstraint` -/
def PConstraint.text (c : PConstraint) : String :=
  let name := match c.name with
    | some n => n.text ++ ": "
    | none => ""
  (if c.logic then name ++ fmtExp c.lhs
   else name ++ fmtExp c.lhs ++ " " ++ c.cmp.text ++ " " ++ fmtExp c.rhs) ++ forClause c.iterVars c.iters

inductive ObjKind where
  | min | max | solve
  deriving Repr, Inhabited, DecidableEq
def ObjKind.text : ObjKind → String
  | .min => "min" | .max => "max" | .solve => "solve"

/-- `PreVariableType` -/
inductive PVarType where
  | boolean
  | nonNegReal (lo hi : Option PExp)
  | real (lo hi : Option PExp)
  | intRange (lo hi : PExp)
  deriving Repr, Inhabited

def optText (dflt : String) : Option PExp → String
  | some e => fmtExp e
  | none => dflt

/-- `Display for PreVariableType` -/
def PVarType.text : PVarType → String
  | .boolean => "Boolean"
  | .nonNegReal none none => "NonNegativeReal"
  | .nonNegReal lo hi => "NonNegativeReal(" ++ optText "0" lo ++ ", " ++ optText "Infinity" hi ++ ")"
  | .real none none => "Real"
  | .real lo hi => "Real(" ++ optText "MinusInfinity" lo ++ ", " ++ optText "Infinity" hi ++ ")"
  | .intRange lo hi => "IntegerRange(" ++ fmtExp lo ++ ", " ++ fmtExp hi ++ ")"

/-- the declaration the printed text stands for: a missing bound next to a given one is written as its default
(`0`, `MinusInfinity`, `Infinity`), so `x as Real(2)` is printed — and read back — as `x as Real(2, Infinity)`;
a type without bounds or with both is unchanged -/
def PVarType.canon : PVarType → PVarType
  | .nonNegReal none none => .nonNegReal none none
  | .nonNegReal lo hi => .nonNegReal (some (lo.getD (.int 0))) (some (hi.getD (.var "Infinity")))
  | .real none none => .real none none
  | .real lo hi => .real (some (lo.getD (.var "MinusInfinity"))) (some (hi.getD (.var "Infinity")))
  | t => t

structure PDomain where
  vars : List CName
  ty : PVarType
  iterVars : List IterVar
  iters : List PExp
  deriving Repr, Inhabited

/-- `Display for VariablesDomainDeclaration` -/
def PDomain.text (d : PDomain) : String :=
  joinWith ", " (d.vars.map CName.text) ++ " as " ++ d.ty.text ++ forClause d.iterVars d.iters

structure PModel where
  objKind : ObjKind
  objective : PExp
  constraints : List PConstraint
  constants : List (String × PExp)
  domains : List PDomain
  deriving Repr, Inhabited

def PDomain.canon (d : PDomain) : PDomain := { d with ty := d.ty.canon }
/-- the program with every one-sided domain bound completed by its default -/
def PModel.canon (m : PModel) : PModel := { m with domains := m.domains.map PDomain.canon }

/-- `s.split("\n").collect::<Vec<_>>().join("\n    ")` -/
def reindent (s : String) : String :=
  String.ofList (s.toList.flatMap fun c => if c == '\n' then '\n' :: [' ', ' ', ' ', ' '] else [c])

/-- `Display for PreModel` (= `RoocParser::format`) -/
def PModel.text (m : PModel) : String :=
  -- `Display for PreObjective`: a satisfiability objective has no body in the source form
  (match m.objKind with
   | .solve => m.objKind.text
   | _ => m.objKind.text ++ " " ++ fmtExp m.objective) ++ "\ns.t.\n"
    ++ String.join (m.constraints.map fun c => "    " ++ c.text ++ "\n")
    ++ (if m.constants.isEmpty then "" else
        "where\n" ++ String.join (m.constants.map fun (n, v) => "    " ++ reindent ("let " ++ n ++ " = " ++ fmtExp v) ++ "\n"))
    ++ (if m.domains.isEmpty then "" else
        "define\n" ++ String.join (m.domains.map fun d => "    " ++ reindent d.text ++ "\n"))

end Rooc.Syntax
