/-
C08 helpers — concrete models (over `Ext Rat`, the number type of the executable oracle) evaluated inside
Lean: a model that compiles (non-vacuity of the C08 theorems), the confirmed defect `Infinity * x >= 1`,
a missing-bounds failure, and a user variable named like an auxiliary.
-/
import Rooc.Proofs.WFEval
import Mathlib.Tactic.NormNum
import Mathlib.Data.Rat.Defs

set_option linter.unusedSimpArgs false

namespace Rooc
namespace Lin
namespace Examples
open Arith

abbrev R := Ext Rat

/-! ### A. `min x  s.t.  c1: x >= 1`, `x` a non-negative real: compiles -/

def exA : Model R :=
  { optType := .min, objective := .var "x",
    constraints := [{ name := "c1", lhs := .var "x", cmp := .ge, rhs := .num (.fin 1), isAssert := false }],
    domain := [{ name := "x", ty := .nnreal (.fin 0) .pinf, usage := 1 }] }
def exAb : BoundsMap R := [("x", ⟨.fin 0, .pinf⟩)]

theorem norm_var (n : String) : normalizeExp (.var n : Exp R) = some (.var n) := by
  simp [normalizeExp, Exp.simplify, Exp.flattenF, flattenFuel]
theorem norm_num (v : R) : normalizeExp (.num v : Exp R) = some (.num v) := by
  simp [normalizeExp, Exp.simplify, Exp.flattenF, flattenFuel]
theorem lin_var (n : String) (req : Req) (s : St R) :
    linExp (.var n : Exp R) req s = .ok (Ctx.fromVar n Arith.one, s) := by
  simp [linExp, run_pure]

theorem exA_sub : normalizeExp (.bin .sub (.var "x") (.num (.fin 1)) : Exp R) =
    some (.bin .sub (.var "x") (.num (.fin 1))) := by
  simp +decide [normalizeExp, Exp.simplify, Exp.subCore, Exp.flattenF, flattenFuel, Arith.eq, Ext.eq,
    Arith.zero, Arith.ofInt, ExactField.eq, ExactField.ofInt]

theorem exA_row (s : St R) : linExp (.bin .sub (.var "x") (.num (.fin 1)) : Exp R) .higher s =
    .ok (⟨[("x", .fin 1)], .fin (-1)⟩, s) := by
  simp +decide [linExp, bind_run, run_pure, Req.reversed, Ctx.fromVar, Ctx.fromRhs, Ctx.new, Ctx.addVar,
    Ctx.addRhs, Ctx.mergeSub, Arith.zero, Arith.one, Arith.ofInt, Arith.add, Arith.neg, Ext.add, Ext.neg,
    ExactField.ofInt, ExactField.add, ExactField.neg]

/-- the final state of the run on `exA`. -/
def exA_final : St R :=
  { queue := [], domain := exA.domain, bounds := exAb,
    rows := [{ name := "c1", lhs := [("x", .fin 1)], rhs := Arith.neg (.fin (-1)), cmp := .ge }] }

theorem exA_drain : drain drainFuel (initSt exA exAb exA.domain) = .ok ((), exA_final) := by
  have hd : drainFuel = 999998 + 1 + 1 := rfl
  rw [hd, drain_cons_plain (999998 + 1) (initSt exA exAb exA.domain) _ [] (.var "x") (.num (.fin 1)) rfl
    (norm_var _) (norm_num _) rfl (by simp +decide [tryNormalize, isLogicValue, isBoolVar, domainType, initSt, exA])]
  dsimp only
  rw [bind_run, emitConstraint_eval (cmp := .ge) exA_sub (exA_row _)]
  exact drain_nil _ _ rfl

theorem exA_compiles :
    linearizeWith exA exAb exA.domain = .ok (assemble exA (Ctx.fromVar "x" Arith.one) exA_final) :=
  linearizeWith_of_steps (norm_var _) (lin_var _ _ _) exA_drain

theorem exA_hyps : DomainNodup exA.domain = true ∧ UsedKept exA exA.domain = true ∧
    DeclaredIn exA exA.domain = true ∧ FiniteLits exA = true := by
  refine ⟨by decide, by decide, by decide, ?_⟩
  simp [FiniteLits, exA, allLits, Arith.isFinite, Ext.isFinite]

/-! ### B. the confirmed defect: `min x  s.t.  Infinity * x >= 1` compiles to a row with coefficient `+inf` -/

def infx : Exp R := .bin .mul (.num .pinf) (.var "x")

def exB : Model R :=
  { optType := .min, objective := .var "x",
    constraints := [{ name := "", lhs := infx, cmp := .ge, rhs := .num (.fin 1), isAssert := false }],
    domain := [{ name := "x", ty := .nnreal (.fin 0) .pinf, usage := 1 }] }

theorem exB_lhs : normalizeExp infx = some infx := by
  simp +decide [normalizeExp, infx, flattenFuel, Exp.flattenF, Exp.flattenF.flattenMulRest, Exp.simplify, Exp.mulCore,
    Exp.isNumEq, Arith.eq, Ext.eq, Arith.zero, Arith.one, Arith.ofInt, ExactField.eq, ExactField.ofInt]

theorem exB_sub : normalizeExp (.bin .sub infx (.num (.fin 1))) = some (.bin .sub infx (.num (.fin 1))) := by
  simp +decide [normalizeExp, infx, flattenFuel, Exp.flattenF, Exp.flattenF.flattenMulRest, Exp.simplify, Exp.mulCore,
    Exp.subCore, Exp.isNumEq, Arith.eq, Ext.eq, Arith.zero, Arith.one, Arith.ofInt, ExactField.eq, ExactField.ofInt]

theorem exB_row (s : St R) : linExp (.bin .sub infx (.num (.fin 1))) .higher s =
    .ok (⟨[("x", .pinf)], .nan⟩, s) := by
  simp +decide [infx, linExp, bind_run, run_pure, Req.reversed, Req.throughScale, Ctx.fromVar, Ctx.fromRhs, Ctx.new,
    Ctx.addVar, Ctx.addRhs, Ctx.mulBy, Ctx.mergeSub, Arith.eq, Ext.eq, Arith.zero, Arith.one, Arith.ofInt, Arith.mul,
    Arith.add, Arith.neg, Arith.lt, Ext.mul, Ext.add, Ext.neg, Ext.lt, Ext.ofSign, Ext.sign, Ext.sgn, ExactField.eq,
    ExactField.ofInt, ExactField.lt, ExactField.add, ExactField.neg]

def exB_final : St R :=
  { queue := [], domain := exB.domain, bounds := exAb,
    rows := [{ name := "", lhs := [("x", .pinf)], rhs := Arith.neg .nan, cmp := .ge }] }

theorem exB_drain : drain drainFuel (initSt exB exAb exB.domain) = .ok ((), exB_final) := by
  have hd : drainFuel = 999998 + 1 + 1 := rfl
  rw [hd, drain_cons_plain (999998 + 1) (initSt exB exAb exB.domain) _ [] infx (.num (.fin 1)) rfl
    exB_lhs (norm_num _) rfl (by simp +decide [tryNormalize, isLogicValue, infx])]
  dsimp only
  rw [bind_run, emitConstraint_eval (cmp := .ge) exB_sub (exB_row _)]
  exact drain_nil _ _ rfl

theorem exB_compiles :
    linearizeWith exB exAb exB.domain = .ok (assemble exB (Ctx.fromVar "x" Arith.one) exB_final) :=
  linearizeWith_of_steps (norm_var _) (lin_var _ _ _) exB_drain

theorem exB_not_finite : (WF.report exB (assemble exB (Ctx.fromVar "x" Arith.one) exB_final)).finite = false := by
  decide

/-! ### C. `|x| >= 1` with `x` unbounded: the exact lowering stops with `MissingFiniteBounds ["x"]` -/

def exC : Model R :=
  { optType := .min, objective := .var "x",
    constraints := [{ name := "", lhs := .abs (.var "x"), cmp := .ge, rhs := .num (.fin 1), isAssert := false }],
    domain := [{ name := "x", ty := .real .ninf .pinf, usage := 1 }] }
def exCb : BoundsMap R := [("x", ⟨.ninf, .pinf⟩)]

theorem norm_abs_var : normalizeExp (.abs (.var "x") : Exp R) = some (.abs (.var "x")) := by
  simp [normalizeExp, Exp.simplify, Exp.flattenF, flattenFuel]

theorem exC_sub : normalizeExp (.bin .sub (.abs (.var "x")) (.num (.fin 1)) : Exp R) =
    some (.bin .sub (.abs (.var "x")) (.num (.fin 1))) := by
  simp +decide [normalizeExp, Exp.simplify, Exp.subCore, Exp.flattenF, flattenFuel, Arith.eq, Ext.eq,
    Arith.zero, Arith.ofInt, ExactField.eq, ExactField.ofInt]

theorem exC_abs (s : St R) (hb : s.bounds = exCb) :
    linExp (.abs (.var "x") : Exp R) .higher s = .error (.missingFiniteBounds ["x"]) := by
  rw [abs_missing_bounds _ _ _ (by rw [hb]; decide) (by rw [hb]; decide) (by decide) (by rw [hb]; decide), hb]
  have : varsWithoutFiniteBounds (.var "x" : Exp R) exCb = ["x"] := by
    simp +decide [varsWithoutFiniteBounds, expVars, sortDedup, insertSorted, boundsOf, lookupB, exCb,
      Arith.isFinite, Ext.isFinite]
  rw [this]

theorem exC_row (s : St R) (hb : s.bounds = exCb) :
    linExp (.bin .sub (.abs (.var "x")) (.num (.fin 1)) : Exp R) .higher s =
      .error (.missingFiniteBounds ["x"]) := by
  rw [linExp, bind_run, exC_abs s hb]

theorem exC_fails : linearizeWith exC exCb exC.domain = .error (.missingFiniteBounds ["x"]) := by
  refine linearizeWith_of_drain_error (norm_var _) (lin_var _ _ _) ?_
  have hd : drainFuel = 999998 + 1 + 1 := rfl
  rw [hd, drain_cons_plain (999998 + 1) (initSt exC exCb exC.domain) _ [] (.abs (.var "x")) (.num (.fin 1)) rfl
    norm_abs_var (norm_num _) rfl (by simp +decide [tryNormalize, isLogicValue])]
  dsimp only
  rw [bind_run, emitConstraint_error (cmp := .ge) exC_sub (exC_row _ rfl)]

/-! ### D. a user variable literally named `$abs_0`: compilation fails instead of shadowing it -/

def exD : Model R :=
  { optType := .min, objective := .var "x",
    constraints := [{ name := "", lhs := .abs (.var "x"), cmp := .ge, rhs := .num (.fin 1), isAssert := false }],
    domain := [{ name := "x", ty := .real (.fin (-1)) (.fin 1), usage := 1 },
               { name := "$abs_0", ty := .real (.fin 0) (.fin 1), usage := 1 }] }
def exDb : BoundsMap R := [("x", ⟨.fin (-1), .fin 1⟩), ("$abs_0", ⟨.fin 0, .fin 1⟩)]

theorem exD_abs (s : St R) (hb : s.bounds = exDb) (hd : s.domain = exD.domain) (hc : s.absCount = 0) :
    linExp (.abs (.var "x") : Exp R) .higher s = .error (.varAlreadyDeclared "$abs_0") := by
  rw [linExp, run_get_bind]
  have h1 : Arith.ge (boundsOf s.bounds (.var "x" : Exp R)).lower Arith.zero = false := by rw [hb]; decide
  have h2 : Arith.le (boundsOf s.bounds (.var "x" : Exp R)).upper Arith.zero = false := by rw [hb]; decide
  have h3 : (!(Arith.isFinite (boundsOf s.bounds (.var "x" : Exp R)).lower) ||
      !(Arith.isFinite (boundsOf s.bounds (.var "x" : Exp R)).upper)) = false := by rw [hb]; decide
  simp only [h1, h2, h3, Bool.false_eq_true, if_false, Bool.and_false]
  rw [bind_run, lin_var]
  dsimp only
  rw [run_get_bind, bind_run, run_set]
  dsimp only
  rw [bind_run, hc]
  have hname : (toString "$abs_" ++ toString 0) = "$abs_0" := by decide
  rw [hname, declareVariable_existing]
  show "$abs_0" ∈ s.domain.map (·.name)
  rw [hd]; decide

theorem exD_row (s : St R) (hb : s.bounds = exDb) (hd : s.domain = exD.domain) (hc : s.absCount = 0) :
    linExp (.bin .sub (.abs (.var "x")) (.num (.fin 1)) : Exp R) .higher s =
      .error (.varAlreadyDeclared "$abs_0") := by
  rw [linExp, bind_run, exD_abs s hb hd hc]

theorem exD_fails : linearizeWith exD exDb exD.domain = .error (.varAlreadyDeclared "$abs_0") := by
  refine linearizeWith_of_drain_error (norm_var _) (lin_var _ _ _) ?_
  have hd : drainFuel = 999998 + 1 + 1 := rfl
  rw [hd, drain_cons_plain (999998 + 1) (initSt exD exDb exD.domain) _ [] (.abs (.var "x")) (.num (.fin 1)) rfl
    norm_abs_var (norm_num _) rfl (by simp +decide [tryNormalize, isLogicValue])]
  dsimp only
  rw [bind_run, emitConstraint_error (cmp := .ge) exC_sub (exD_row _ rfl rfl rfl)]

end Examples

end Lin
end Rooc
