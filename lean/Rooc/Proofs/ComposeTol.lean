/-
When does the REAL tolerance (`tol > 0`, `math_utils.rs`) decide as exact arithmetic would?

`SepT tol T` — every reduced cost and every matrix entry of the tableau is `0` or at least `tol` in magnitude (the first
two clauses of agent-std's `Bland.Sep`; the ratio clause is not needed since the ratio test is exact, fix 64d5c0e,
`Gen.ratioTestExact = true`).  On such a tableau one step of the tolerant code IS one step of the exact code
(`stepInner_tol_eq_exact`), so along a run whose visited tableaus are all separated (`SepAlong`, a decidable fact about
the run) the tolerant loop keeps feasibility and its verdicts `Finished` / `Unbounded` are verdicts of the exact step
(`solveLoop_tol_verdict`).  Tableaus with INTEGER entries are separated for every `tol ≤ 1` (`sepT_of_integral`).
-/
import Rooc.Proofs.ComposeSimplex

set_option linter.unusedSectionVars false
set_option linter.unusedSimpArgs false
set_option linter.unusedVariables false

namespace Rooc.ComposeTol
variable {K : Type} [Field K] [LinearOrder K] [IsStrictOrderedRing K]
attribute [local instance] exactArith
open Tableau TabSem StepLemmas FeasibleLemmas

/-- separation of a tableau by the tolerance (costs and entries). -/
structure SepT (tol : K) (T : Tab K) : Prop where
  cost : ∀ j, nth T.c j = 0 ∨ tol ≤ |nth T.c j|
  entry : ∀ i j, nth (row T.a i) j = 0 ∨ tol ≤ |nth (row T.a i) j|

theorem SepT.of_sep {tol : K} {T : Tab K} (h : Bland.Sep tol T) : SepT tol T := ⟨h.cost, h.entry⟩

theorem sep_mem {tol : K} {l : List K} (h : ∀ j, nth l j = 0 ∨ tol ≤ |nth l j|) : ∀ x ∈ l, x = 0 ∨ tol ≤ |x| := by
  intro x hx
  obtain ⟨j, _, rfl⟩ := Optimal.exists_nth_of_mem hx
  exact h j

theorem flt_eq {tol x : K} (ht : 0 < tol) (h : x = 0 ∨ tol ≤ |x|) : Tol.flt tol x 0 = Tol.flt (0:K) x 0 := by
  have h1 := Bland.flt_zero_iff ht h
  have h2 : Tol.flt (0:K) x 0 = true ↔ x < 0 := by
    rw [ExactK.flt_iff]; simp [not_lt.2 (abs_nonneg x)]
  rw [Bool.eq_iff_iff, h1, h2]

theorem fgt_eq {tol x : K} (ht : 0 < tol) (h : x = 0 ∨ tol ≤ |x|) : Tol.fgt tol x 0 = Tol.fgt (0:K) x 0 := by
  have h1 := Bland.fgt_zero_iff ht h
  have h2 : Tol.fgt (0:K) x 0 = true ↔ 0 < x := by
    rw [ExactK.fgt_iff]; simp [not_lt.2 (abs_nonneg x)]
  rw [Bool.eq_iff_iff, h1, h2]

theorem eligible_eq {tol : K} (ht : 0 < tol) {T : Tab K} (hS : SepT tol T) : eligible tol T = eligible (0:K) T := by
  unfold eligible
  apply List.filterMap_congr
  rintro ⟨x, i⟩ hx
  have hmem : x ∈ T.c := (List.mem_zipIdx hx).2.2 ▸ List.getElem_mem _
  simp only [ExactK.zero_eq, flt_eq ht (sep_mem hS.cost x hmem)]

theorem ratios_eq {tol : K} (ht : 0 < tol) {T : Tab K} (hS : SepT tol T) (h : Nat) :
    ratios tol T h = ratios (0:K) T h := by
  unfold ratios
  apply List.filterMap_congr
  rintro ⟨r, i⟩ hr
  have hi : i < T.a.length ∧ r = T.a[i]'(by have := List.mem_zipIdx hr; omega) := by
    have := List.mem_zipIdx hr
    exact ⟨by omega, by simpa using this.2.2⟩
  have hrow : r = row T.a i := by
    rw [hi.2]; simp [row, List.getD_eq_getElem?_getD, hi.1]
  have := hS.entry i h
  rw [← hrow] at this
  simp only [ExactK.zero_eq, fgt_eq ht this]

theorem findH_eq {tol : K} (ht : 0 < tol) {T : Tab K} (hS : SepT tol T) (bland : Bool) :
    findH tol T bland = findH (0:K) T bland := by
  unfold findH; rw [eligible_eq ht hS]

theorem findT_eq {tol : K} (ht : 0 < tol) (hex : Gen.ratioTestExact = true) {T : Tab K} (hS : SepT tol T) (h : Nat)
    (prefer : List Nat) : findT tol T h prefer = findT (0:K) T h prefer := by
  have hsel : selRatio tol T.basis prefer = selRatio (0:K) T.basis prefer := by
    funext mn ir; simp [selRatio, hex]
  unfold findT; rw [ratios_eq ht hS, hsel]

/-- under separation `is_optimal` says "every reduced cost is `≥ 0`". -/
theorem isOptimal_iff {tol : K} (ht : 0 < tol) {T : Tab K} (hS : SepT tol T) :
    isOptimal tol T = true ↔ ∀ x ∈ T.c, 0 ≤ x := by
  unfold isOptimal
  simp only [List.all_eq_true, ExactK.zero_eq]
  constructor
  · intro h x hx
    have := (ExactK.fge_iff tol x 0).1 (h x hx)
    rcases this with h1 | h1
    · exact h1.le
    · rcases sep_mem hS.cost x hx with h0 | h0
      · rw [h0]
      · simp only [sub_zero] at h1; exact absurd h1 (not_lt.2 h0)
  · intro h x hx
    rw [ExactK.fge_iff]
    rcases sep_mem hS.cost x hx with h0 | h0
    · right; rw [h0]; simpa using ht
    · left
      have hx0 := h x hx
      rcases lt_or_eq_of_le hx0 with h1 | h1
      · exact h1
      · rw [← h1] at h0; simp at h0; exact absurd ht (not_lt.2 h0)

theorem eligible_nil_of_nonneg {T : Tab K} (h : ∀ x ∈ T.c, 0 ≤ x) : eligible (0:K) T = [] := by
  unfold eligible
  rw [List.filterMap_eq_nil_iff]
  rintro ⟨x, i⟩ hx
  have hmem : x ∈ T.c := (List.mem_zipIdx hx).2.2 ▸ List.getElem_mem _
  have : Tol.flt (0:K) x 0 = false := by
    cases hf : Tol.flt (0:K) x 0 with
    | false => rfl
    | true => exact absurd ((ExactK.flt_iff 0 x 0).1 hf).1 (not_lt.2 (h x hmem))
  simp [this]

/-- **one step of the tolerant code = one step of the exact code** on a separated tableau. -/
theorem stepInner_tol_eq_exact {tol : K} (ht : 0 < tol) (hex : Gen.ratioTestExact = true) {T : Tab K}
    (hS : SepT tol T) (prefer : List Nat) (bland : Bool) :
    stepInner tol T prefer bland = stepInner (0:K) T prefer bland := by
  unfold stepInner
  by_cases ho : isOptimal tol T = true
  · -- all costs `≥ 0`: the exact code finds no eligible column
    have hnn := (isOptimal_iff ht hS).1 ho
    have hel := eligible_nil_of_nonneg hnn
    have hH : findH (0:K) T bland = none := by unfold findH; rw [hel]; cases bland <;> simp [minByFirst]
    rw [if_pos ho, hH]
    split <;> rfl
  · have ho0 : ¬ isOptimal (0:K) T = true := by
      intro h0
      apply ho
      rw [isOptimal_iff ht hS]
      intro x hx
      have := List.all_eq_true.1 h0 x hx
      simp only [ExactK.zero_eq] at this
      rcases (ExactK.fge_iff 0 x 0).1 this with h1 | h1
      · exact h1.le
      · exact absurd h1 (not_lt.2 (abs_nonneg _))
    rw [if_neg ho, if_neg ho0, findH_eq ht hS]
    cases findH (0:K) T bland with
    | none => rfl
    | some h => simp only [findT_eq ht hex hS]

/-! ### along the loop -/

/-- every tableau the tolerant loop visits is separated (decidable: a fact about the run). -/
def SepAlong (tol : K) (prefer : List Nat) (stallLimit : Nat) : Nat → Tab K → Nat → K → Prop
  | 0, _, _, _ => True
  | fuel+1, T, stalls, last =>
    SepT tol T ∧
    match stepInner tol T prefer (decide (stalls > stallLimit)) with
    | .ok (.pivot _ _ _, T') =>
      if Tol.feq tol T'.value last then SepAlong tol prefer stallLimit fuel T' (stalls+1) last
      else SepAlong tol prefer stallLimit fuel T' 0 T'.value
    | _ => True

/-- **along a separated run the tolerant loop behaves like the exact step**: feasibility is kept, and the verdicts
`Finished` / `Unbounded` at its final tableau are verdicts of the EXACT `step_inner`. -/
theorem solveLoop_tol_verdict {tol : K} (ht : 0 < tol) (hex : Gen.ratioTestExact = true) {prefer : List Nat}
    {stallLimit : Nat} {m n : Nat} :
    ∀ (fuel : Nat) (T : Tab K) (stalls : Nat) (last : K) (acc : List (Tab K × Nat × Nat × K)),
      Canon T m n → Feasible T → SepAlong tol prefer stallLimit fuel T stalls last →
      Feasible (solveLoop tol prefer stallLimit fuel T stalls last acc).final ∧
      ((solveLoop tol prefer stallLimit fuel T stalls last acc).result = .ok () →
        ∃ bland, stepInner (0:K) (solveLoop tol prefer stallLimit fuel T stalls last acc).final prefer bland =
          .ok (.finished, (solveLoop tol prefer stallLimit fuel T stalls last acc).final)) ∧
      ((solveLoop tol prefer stallLimit fuel T stalls last acc).result = .error .unbounded →
        ∃ bland, stepInner (0:K) (solveLoop tol prefer stallLimit fuel T stalls last acc).final prefer bland =
          .error .unbounded)
  | 0, T, stalls, last, acc, _, hF, _ => by simp [solveLoop, hF]
  | fuel+1, T, stalls, last, acc, hC, hF, hSA => by
    obtain ⟨hS, hrest⟩ := hSA
    have heq := stepInner_tol_eq_exact ht hex hS prefer (decide (stalls > stallLimit))
    simp only [solveLoop]
    split
    · rename_i e hs
      refine ⟨hF, fun h => by simp at h, fun h => ?_⟩
      have he : e = .unbounded := by simpa using h
      subst he
      exact ⟨_, by rw [← heq]; exact hs⟩
    · rename_i T' hs
      obtain ⟨rfl, -⟩ := stepInner_finished hs
      exact ⟨hF, fun _ => ⟨_, by rw [← heq]; exact hs⟩, fun h => by simp at h⟩
    · rename_i h t ratio T' hs
      have hs0 : stepInner (0:K) T prefer (decide (stalls > stallLimit)) = .ok (.pivot h t ratio, T') := by
        rw [← heq]; exact hs
      have hF' : Feasible T' := stepInner_feasible_exact hC.rect hF hs0
      obtain ⟨hC', -, -, -⟩ := stepInner_preserves hC hs
      simp only [hs] at hrest
      split
      · rename_i hfe
        simp only [hfe, if_true] at hrest
        exact solveLoop_tol_verdict ht hex fuel T' (stalls+1) last _ hC' hF' hrest
      · rename_i hfe
        simp only [hfe, if_false] at hrest
        exact solveLoop_tol_verdict ht hex fuel T' 0 T'.value _ hC' hF' hrest

/-! ### verdicts of a step on a canonical feasible tableau of the standard form -/

section Verdicts
variable [FloorRing K]
open StdSem StdMain Standardize ComposeSimplex
variable {lm : LinModel (Ext K)} {s : StdModel (Ext K)} {T : Tab K}

/-- the exact step answers `Finished` on a canonical feasible tableau OF the standard form: its basic solution maps back
to an optimum of `lm`, with `optimal_value` as objective. -/
theorem optimal_of_step (hW : WF lm) (hs : standardize lm = .ok s) (hT : CanonicalFor T (stdK s))
    {prefer : List Nat} {bland : Bool} (hstep : stepInner (0:K) T prefer bland = .ok (.finished, T)) :
    LinFeasible lm (preimage lm (basicSolution T)) ∧
    (∀ x, LinFeasible lm x →
      (lm.optType = .min → obj lm (preimage lm (basicSolution T)) ≤ obj lm x) ∧
      (lm.optType = .max → obj lm x ≤ obj lm (preimage lm (basicSolution T)))) ∧
    optimalValue T = obj lm (preimage lm (basicSolution T)) := by
  obtain ⟨m, hC⟩ := hT.canon
  obtain ⟨hSy, hny, hopt⟩ := Props.C14.finished_optimal_exact hC hT.feasible hT.objInv hstep
  have hyl : (basicSolution T).length = s.vars.length := by
    rw [BasicSol.basicSolution_length, hC.rect.costs]; rfl
  have hyF : StdFeasible s (basicSolution T) :=
    (stdFeasible_iff s _).mpr ⟨hyl, nonneg_of_nth hny, (hT.sol _).mp hSy⟩
  obtain ⟨hback, hobjy⟩ := Props.C13.bwd lm hW hs _ hyF
  obtain ⟨hflip, hoff⟩ := flip_iff_max lm hW hs
  refine ⟨hback, ?_, ?_⟩
  · intro x hx
    obtain ⟨hxF, hobjx⟩ := Props.C13.fwd lm hW hs x hx
    obtain ⟨hxl, hxn, hxS⟩ := (stdFeasible_iff s _).mp hxF
    have hle := hopt (image lm x) hxl ((hT.sol _).mpr hxS) ((nonNeg_iff _).mpr hxn)
    rw [← hobjy, ← hobjx, stdObj_eq, stdObj_eq, hflip]
    constructor
    · intro hmin
      simp only [hmin, reduceCtorEq, decide_false, Bool.false_eq_true, if_false]
      linarith
    · intro hmax
      simp only [hmax, decide_true, if_true]
      linarith
  · obtain ⟨_, hval⟩ := Props.C14.value_tracks_objective hC hT.objInv
    rw [← hobjy, stdObj_eq, hval]
    unfold optimalValue
    rw [hT.flip, hT.offset]
    by_cases hfl : s.flip = true
    · simp [hfl]
    · simp [hfl]

/-- the exact step answers `Unbounded` on a canonical feasible tableau OF the standard form: `lm` is unbounded. -/
theorem unbounded_of_step (hW : WF lm) (hs : standardize lm = .ok s) (hT : CanonicalFor T (stdK s))
    {prefer : List Nat} {bland : Bool} (hstep : stepInner (0:K) T prefer bland = .error .unbounded) (M : K) :
    ∃ x, LinFeasible lm x ∧ (lm.optType = .min → obj lm x < M) ∧ (lm.optType = .max → M < obj lm x) := by
  obtain ⟨m, hC⟩ := hT.canon
  obtain ⟨hflip, hoff⟩ := flip_iff_max lm hW hs
  obtain ⟨x, hxl, hxS, hxn, hlt⟩ := Props.C14.unbounded_genuine hC hT.feasible hT.objInv hstep
    (if s.flip then (stdK s).offset - M else M - (stdK s).offset)
  have hxF : StdFeasible s x := (stdFeasible_iff s _).mpr ⟨hxl, nonneg_of_nth hxn, (hT.sol _).mp hxS⟩
  obtain ⟨hback, hobjx⟩ := Props.C13.bwd lm hW hs x hxF
  refine ⟨preimage lm x, hback, ?_, ?_⟩
  · intro hmin
    rw [← hobjx, stdObj_eq]
    simp only [hflip, hmin, reduceCtorEq, decide_false, Bool.false_eq_true, if_false] at hlt ⊢
    linarith
  · intro hmax
    rw [← hobjx, stdObj_eq]
    simp only [hflip, hmax, decide_true, if_true] at hlt ⊢
    linarith

/-- the final tableau of ANY run of the loop (any tolerance) that is still feasible is again `CanonicalFor`. -/
theorem canonicalFor_final {tol : K} (hT : CanonicalFor T (stdK s)) (se limit : Nat) (prefer : List Nat)
    (hF : Feasible (solve tol se limit prefer T).final) : CanonicalFor (solve tol se limit prefer T).final (stdK s) := by
  obtain ⟨m, hC⟩ := hT.canon
  obtain ⟨hCf, hSf, hOf⟩ := Props.C14.steps_preserve (tol := tol) hC se limit prefer
  obtain ⟨hf1, ho1⟩ := solve_flip_offset tol se limit prefer T
  exact ⟨⟨m, hCf⟩, hOf _ hT.objInv, fun x => (hSf x).trans (hT.sol x), hF, hf1.trans hT.flip, ho1.trans hT.offset⟩

/-- **the verdicts of the loop run with the REAL tolerance are exact on a separated run**: for a canonical feasible
tableau of the standard form of a well-formed `lm`, tolerance `tol > 0`, every visited tableau separated (`SepAlong`):
`Finished` ⇒ the mapped-back point is feasible and optimal for `lm` with `optimal_value` as objective; `Unbounded` ⇒ `lm`
is unbounded. -/
theorem tol_loop_verdict {tol : K} (ht : 0 < tol) (hex : Gen.ratioTestExact = true) (hW : WF lm)
    (hs : standardize lm = .ok s) (hT : CanonicalFor T (stdK s)) (se limit : Nat) (prefer : List Nat)
    (hsep : SepAlong tol prefer (T.c.length + T.a.length + se) limit T 0 T.value) :
    ((solve tol se limit prefer T).result = .ok () →
      LinFeasible lm (preimage lm (basicSolution (solve tol se limit prefer T).final)) ∧
      (∀ x, LinFeasible lm x →
        (lm.optType = .min → obj lm (preimage lm (basicSolution (solve tol se limit prefer T).final)) ≤ obj lm x) ∧
        (lm.optType = .max → obj lm x ≤ obj lm (preimage lm (basicSolution (solve tol se limit prefer T).final)))) ∧
      optimalValue (solve tol se limit prefer T).final =
        obj lm (preimage lm (basicSolution (solve tol se limit prefer T).final))) ∧
    ((solve tol se limit prefer T).result = .error .unbounded →
      ∀ M : K, ∃ x, LinFeasible lm x ∧ (lm.optType = .min → obj lm x < M) ∧ (lm.optType = .max → M < obj lm x)) := by
  obtain ⟨m, hC⟩ := hT.canon
  obtain ⟨hFf, hok, hunb⟩ := solveLoop_tol_verdict ht hex (prefer := prefer)
    (stallLimit := T.c.length + T.a.length + se) limit T 0 T.value [] hC hT.feasible hsep
  have hcf := canonicalFor_final (tol := tol) hT se limit prefer hFf
  refine ⟨fun h => ?_, fun h M => ?_⟩
  · obtain ⟨bland, hstep⟩ := hok h
    exact optimal_of_step hW hs hcf hstep
  · obtain ⟨bland, hstep⟩ := hunb h
    exact unbounded_of_step hW hs hcf hstep M

end Verdicts

/-! ### integer data is separated -/

/-- every reduced cost and every entry is an integer. -/
def Integral (T : Tab K) : Prop :=
  (∀ j, ∃ z : ℤ, nth T.c j = z) ∧ ∀ i j, ∃ z : ℤ, nth (row T.a i) j = z

theorem int_sep {tol : K} (htol : tol ≤ 1) {x : K} (h : ∃ z : ℤ, x = z) : x = 0 ∨ tol ≤ |x| := by
  obtain ⟨z, rfl⟩ := h
  by_cases hz : z = 0
  · left; simp [hz]
  · right
    have : (1:K) ≤ |(z:K)| := by
      rw [← Int.cast_abs]
      exact_mod_cast Int.one_le_abs hz
    exact le_trans htol this

/-- **a tableau with integer costs and entries is separated for every `tol ≤ 1`.** -/
theorem sepT_of_integral {tol : K} (htol : tol ≤ 1) {T : Tab K} (h : Integral T) : SepT tol T :=
  ⟨fun j => int_sep htol (h.1 j), fun i j => int_sep htol (h.2 i j)⟩

end Rooc.ComposeTol
