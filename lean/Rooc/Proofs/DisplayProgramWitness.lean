/-
C12 witnesses for the non-vacuity examples of the whole-model theorems in `Props/C12.lean`.
-/
import Rooc.Proofs.DisplayProgram
import Rooc.Proofs.Field
namespace Rooc.Display.Witness
open Rooc Rooc.Display Arith Rooc.Syntax Rooc.Syntax.Proofs
variable {K : Type} [Field K] [LinearOrder K] [IsStrictOrderedRing K] [FloorRing K]

/-- witness of `parse_display_lin` / `read_display_lin`: `min 3x - y + 3  s.t.  cap: - x + 3y <= 3 ; 3y >= 0`
with `x as Real`, `y as IntegerRange(-2, 7)`, every printed magnitude being `3` -/
def exLin : LinModel (Ext K) :=
  { optType := .min, objective := [.fin 3, .fin (-1)], offset := .fin 3, vars := ["x", "y"],
    domain := [⟨"x", .real .ninf .pinf, 1⟩, ⟨"y", .int (-2) 7, 1⟩],
    rows := [⟨"cap", [.fin (-1), .fin 3], .le, .fin 3⟩, ⟨"", [.fin 0, .fin 3], .ge, .fin 0⟩] }


theorem intOk3 : IntOk "3" := fun _ => by decide

theorem exLin_frag : LinFrag (fun _ : Ext K => "3") (exLin : LinModel (Ext K)) := by
  have k1 : isKeyword "x" = false := by decide
  have k2 : isKeyword "y" = false := by decide
  have k3 : isKeyword "cap" = false := by decide
  have k4 : isKeyword "" = false := by decide
  refine ⟨?_, ?_, fun _ _ _ _ => intOk3, fun _ _ => ⟨intOk3, intOk3⟩, fun _ _ => intOk3, ⟨intOk3, intOk3⟩, ?_, ?_, ?_, ?_⟩
  rotate_left 3
  · intro v hv; simp [exLin] at hv; rcases hv with rfl | rfl <;> decide
  · intro r hr; simp [exLin] at hr
    rcases hr with rfl | rfl
    · show lowerWord "cap" ≠ "for"; decide
    · show lowerWord "" ≠ "for"; decide
  · intro d hd; simp [exLin] at hd
    rcases hd with rfl | rfl
    · show lowerWord "x" ≠ "for"; decide
    · show lowerWord "y" ≠ "for"; decide
  · intro v hv; simp [exLin] at hv; rcases hv with rfl | rfl <;> assumption
  · intro r hr; simp [exLin] at hr; rcases hr with rfl | rfl <;> assumption
  · intro d hd; simp [exLin] at hd
    rcases hd with rfl | rfl
    · exact ⟨k1, ⟨intOk3, intOk3⟩, ⟨intOk3, intOk3⟩⟩
    · exact ⟨k2, by show (2 : Nat) ≤ i64Max; decide, by show (7 : Nat) ≤ i64Max; decide⟩

theorem exLin_some : (linToks (fun _ : Ext K => "3") exLin).isSome = true := by
  simp [linToks, linParts, exLin, rowLineOf, allSome, termList, isZero, Arith.eq, Ext.eq, Arith.zero, Arith.ofInt]

theorem numBack3 (numOf : String → Ext K) : NumBack (fun _ : Ext K => "3") numOf (.fin 3) := by
  have : Syntax.digitsToNat ['3'] = 3 := by decide
  have hi : isIntText "3" = true := by decide
  simp [NumBack, numP, hi, leafVal, Arith.ofInt, this]

theorem back3 (numOf : String → Ext K) (c : Ext K) (hc : c = .fin 3 ∨ c = .fin (-1) ∨ c = .fin 0) :
    isZero c = false → ∀ x, (formatVarParts c).2 = some x → NumBack (fun _ : Ext K => "3") numOf x := by
  intro hz x hx
  rcases hc with rfl | rfl | rfl
  · have h31 : ¬ (3 : K) = 1 := by norm_num
    have h3m : ¬ (3 : K) = -1 := by norm_num
    have h30 : ¬ (3 : K) < 0 := by norm_num
    simp [formatVarParts, Arith.eq, Ext.eq, Arith.one, Arith.neg, Ext.neg, Arith.ofInt, Arith.abs, Ext.abs, h31, h3m, h30] at hx
    subst hx; exact numBack3 numOf
  · simp [formatVarParts, Arith.eq, Ext.eq, Arith.one, Arith.neg, Ext.neg, Arith.ofInt] at hx
  · simp [isZero, Arith.eq, Ext.eq, Arith.zero, Arith.ofInt] at hz

def exModel : Model (Ext K) :=
  { optType := .max, objective := .bin .add (.var "x") (.num (.fin 3)),
    constraints := [⟨"cap", .var "x", .le, .num (.fin 3), false⟩, ⟨"", .implies (.var "b") (.var "d"), .eq, .num (.fin 3), true⟩],
    domain := [⟨"x", .real .ninf .pinf, 1⟩, ⟨"b", .bool, 1⟩, ⟨"d", .bool, 1⟩] }

end Rooc.Display.Witness
