/-
Error direction for the affine fragment: if — after constant folding — every product has a literal factor and
every divisor is a non-zero literal (`L1 (simplify e)`, decidable), and the expressions fit the flatten fuel, then
`normalize` and `Exp::linearize` SUCCEED: no spurious `NonLinearExpression` / `DivisionByZero` / fuel error.
-/
import Rooc.Proofs.LinD10

set_option linter.unusedSectionVars false
set_option linter.unusedSimpArgs false
set_option linter.unusedVariables false

namespace Rooc.LinP
open Rooc Rooc.Lin Rooc.Sem Rooc.Exp

variable {K : Type} [Field K] [LinearOrder K] [IsStrictOrderedRing K] [FloorRing K]

/-- linear shape: arithmetic only, every product has a literal factor, every divisor is a non-zero literal. -/
def L1 : Exp (Ext K) → Prop
  | .num _ => True
  | .var _ => True
  | .bin .add a b => L1 a ∧ L1 b
  | .bin .sub a b => L1 a ∧ L1 b
  | .bin .mul a b => (isNum a = true ∧ L1 b) ∨ (L1 a ∧ isNum b = true)
  | .bin .div a b => L1 a ∧ isNonzeroLit b = true
  | .un .neg a => L1 a
  | _ => False

theorem isNum_iff {e : Exp (Ext K)} : isNum e = true ↔ ∃ c, e = .num c := by
  cases e <;> simp [isNum]

theorem L1_of_isNum {e : Exp (Ext K)} (h : isNum e = true) : L1 e := by
  obtain ⟨c, rfl⟩ := isNum_iff.mp h; simp [L1]

theorem isNonzeroLit_num {e : Exp (Ext K)} (h : isNonzeroLit e = true) : ∃ d, e = .num d ∧ Arith.ne d Arith.zero = true := by
  cases e <;> simp only [isNonzeroLit] at h <;> first | exact ⟨_, rfl, h⟩ | cases h

/-! ### `L1` is kept by `simplify` -/

theorem L1_addCore {l r : Exp (Ext K)} (hl : L1 l) (hr : L1 r) : L1 (addCore l r) := by
  unfold addCore
  split
  · simp [L1]
  · split
    · exact hr
    · exact ⟨hl, hr⟩
  · split
    · exact hl
    · exact ⟨hl, hr⟩
  · exact ⟨hl, hr⟩

theorem L1_subCore {l r : Exp (Ext K)} (hl : L1 l) (hr : L1 r) : L1 (subCore l r) := by
  unfold subCore
  split
  · simp [L1]
  · split
    · exact hl
    · exact ⟨hl, hr⟩
  · exact ⟨hl, hr⟩

theorem L1_mulCore {l r : Exp (Ext K)} (h : (isNum l = true ∧ L1 r) ∨ (L1 l ∧ isNum r = true)) :
    L1 (mulCore l r) := by
  have hl : L1 l := h.elim (fun h => L1_of_isNum h.1) (fun h => h.1)
  have hr : L1 r := h.elim (fun h => h.2) (fun h => L1_of_isNum h.2)
  unfold mulCore
  split
  · simp [L1]
  · split
    · simp [L1]
    · split
      · exact hr
      · split
        · exact hl
        · exact h

theorem L1_divCore {l r : Exp (Ext K)} (hl : L1 l) (hr : isNonzeroLit r = true) : L1 (divCore l r) := by
  unfold divCore
  split
  · split
    · exact ⟨hl, hr⟩
    · simp [L1]
  · split
    · exact hl
    · exact ⟨hl, hr⟩

theorem isNum_simplify {e : Exp (Ext K)} (h : isNum e = true) : isNum (simplify e) = true := by
  obtain ⟨c, rfl⟩ := isNum_iff.mp h; rw [simplify_num]; rfl

theorem isNonzeroLit_simplify {e : Exp (Ext K)} (h : isNonzeroLit e = true) : isNonzeroLit (simplify e) = true := by
  obtain ⟨d, rfl, _⟩ := isNonzeroLit_num h; rw [simplify_num]; exact h

theorem L1_simplify : ∀ e : Exp (Ext K), L1 e → L1 (simplify e) := by
  intro e
  induction e using Exp.indL with
  | num v => intro _; rw [simplify_num]; simp [L1]
  | var x => intro _; rw [simplify_var]; simp [L1]
  | bin op a b iha ihb =>
    intro h
    rw [simplify_bin]
    cases op with
    | add => simp only [L1] at h; exact L1_addCore (iha h.1) (ihb h.2)
    | sub => simp only [L1] at h; exact L1_subCore (iha h.1) (ihb h.2)
    | mul =>
      simp only [L1] at h
      refine L1_mulCore ?_
      rcases h with ⟨h1, h2⟩ | ⟨h1, h2⟩
      · exact Or.inl ⟨isNum_simplify h1, ihb h2⟩
      · exact Or.inr ⟨iha h1, isNum_simplify h2⟩
    | div => simp only [L1] at h; exact L1_divCore (iha h.1) (isNonzeroLit_simplify h.2)
    | _ => simp [L1] at h
  | un op e ih =>
    intro h
    cases op with
    | neg =>
      simp only [L1] at h
      rw [simplify_neg]
      unfold negCore
      split
      · simp [L1]
      · exact ih h
    | not => simp [L1] at h
  | _ => intro h; simp [L1] at h

/-! ### `L1` is kept by `flatten` -/

theorem flattenF_num (n : Nat) (c : Ext K) : flattenF (n + 1) (.num c : Exp (Ext K)) = some (.num c) := by
  simp [flattenF]

theorem flatten_isNum {n : Nat} {e e' : Exp (Ext K)} (h : isNum e = true) (hf : flattenF n e = some e') :
    e' = e := by
  obtain ⟨c, rfl⟩ := isNum_iff.mp h
  cases n with
  | zero => simp [flattenF] at hf
  | succ n => rw [flattenF_num] at hf; cases hf; rfl

theorem L1_mul_cases {a b : Exp (Ext K)} (h : L1 (.bin .mul a b)) :
    (isNum a = true ∧ L1 b) ∨ (L1 a ∧ isNum b = true) := by simpa only [L1] using h

theorem L1_flattenMulRest (n : Nat) (ih : ∀ e e' : Exp (Ext K), L1 e → flattenF n e = some e' → L1 e')
    (l r : Exp (Ext K)) : ∀ e', L1 (.bin .mul l r) → flattenF.flattenMulRest n l r = some e' → L1 e' := by
  intro e' hp h
  have hc := L1_mul_cases hp
  unfold flattenF.flattenMulRest at h
  split at h
  · -- `r` is a binary node `bin iop a b`
    rename_i iop a b
    have hlit : isNum l = true ∧ L1 (.bin iop a b) := by
      rcases hc with h1 | ⟨_, h2⟩
      · exact h1
      · simp [isNum] at h2
    split at h
    · rename_i hi
      have hab : L1 a ∧ L1 b := by
        cases iop <;> simp [isAddSub] at hi <;> simpa only [L1] using hlit.2
      refine ih _ _ ?_ h
      have h1 : L1 (.bin .mul l a) := by simp only [L1]; exact Or.inl ⟨hlit.1, hab.1⟩
      have h2 : L1 (.bin .mul l b) := by simp only [L1]; exact Or.inl ⟨hlit.1, hab.2⟩
      cases iop <;> simp [isAddSub] at hi <;> (simp only [L1]; exact ⟨h1, h2⟩)
    · split at h
      · simp [isNum] at hlit
      · obtain ⟨x, y, hx, hy, rfl⟩ := opt_bind2_some h
        have := flatten_isNum hlit.1 hx
        subst this
        simp only [L1]
        exact Or.inl ⟨hlit.1, ih _ _ hlit.2 hy⟩
  · -- `l` is a negation
    rename_i l' _
    simp only [Option.map_eq_some_iff] at h
    obtain ⟨x, hx, rfl⟩ := h
    have : L1 (.un .neg l') ∧ isNum r = true := by
      rcases hc with ⟨h1, _⟩ | h2
      · simp [isNum] at h1
      · exact h2
    simp only [L1]
    refine ih _ _ ?_ hx
    simp only [L1]; exact Or.inr ⟨by simpa only [L1] using this.1, this.2⟩
  · -- `r` is a negation
    rename_i r' _
    simp only [Option.map_eq_some_iff] at h
    obtain ⟨x, hx, rfl⟩ := h
    have : isNum l = true ∧ L1 (.un .neg r') := by
      rcases hc with h1 | ⟨_, h2⟩
      · exact h1
      · simp [isNum] at h2
    simp only [L1]
    refine ih _ _ ?_ hx
    simp only [L1]; exact Or.inl ⟨this.1, by simpa only [L1] using this.2⟩
  · obtain ⟨x, y, hx, hy, rfl⟩ := opt_bind2_some h
    simp only [L1]
    rcases hc with ⟨h1, h2⟩ | ⟨h1, h2⟩
    · have := flatten_isNum h1 hx; subst this
      exact Or.inl ⟨h1, ih _ _ h2 hy⟩
    · have := flatten_isNum h2 hy; subst this
      exact Or.inr ⟨ih _ _ h1 hx, h2⟩

theorem L1_flatten (n : Nat) : ∀ e e' : Exp (Ext K), L1 e → flattenF n e = some e' → L1 e' := by
  induction n with
  | zero => intro e e' _ h; simp [flattenF] at h
  | succ n ih =>
    intro e e' hp h
    unfold flattenF at h
    split at h
    all_goals try (have hn := Nat.succ.inj ‹n + 1 = _›; subst hn)
    · simp at h
    · rename_i iop l r c _
      have hc := L1_mul_cases hp
      have hlit : L1 (.bin iop l r) ∧ isNum c = true := by
        rcases hc with ⟨h1, _⟩ | h2
        · simp [isNum] at h1
        · exact h2
      split at h
      · rename_i hi
        have hlr : L1 l ∧ L1 r := by
          cases iop <;> simp [isAddSub] at hi <;> simpa only [L1] using hlit.1
        refine ih _ _ ?_ h
        have h1 : L1 (.bin .mul l c) := by simp only [L1]; exact Or.inr ⟨hlr.1, hlit.2⟩
        have h2 : L1 (.bin .mul r c) := by simp only [L1]; exact Or.inr ⟨hlr.2, hlit.2⟩
        cases iop <;> simp [isAddSub] at hi <;> (simp only [L1]; exact ⟨h1, h2⟩)
      · exact L1_flattenMulRest n ih _ _ _ hp h
    · exact L1_flattenMulRest n ih _ _ _ hp h
    · rename_i iop l r c _
      have hd : L1 (.bin iop l r) ∧ isNonzeroLit c = true := by simpa only [L1] using hp
      obtain ⟨d, rfl, _⟩ := isNonzeroLit_num hd.2
      split at h
      · rename_i hi
        have hlr : L1 l ∧ L1 r := by
          cases iop <;> simp [isAddSub] at hi <;> simpa only [L1] using hd.1
        obtain ⟨a, b, ha, hb, rfl⟩ := opt_bind2_some h
        have h1 : L1 (.bin .div l (.num d)) := by simp only [L1]; exact ⟨hlr.1, hd.2⟩
        have h2 : L1 (.bin .div r (.num d)) := by simp only [L1]; exact ⟨hlr.2, hd.2⟩
        cases iop <;> simp [isAddSub] at hi <;> (simp only [L1]; exact ⟨ih _ _ h1 ha, ih _ _ h2 hb⟩)
      · obtain ⟨a, b, ha, hb, rfl⟩ := opt_bind2_some h
        have := flatten_isNum (e := .num d) rfl hb
        subst this
        simp only [L1]; exact ⟨ih _ _ hd.1 ha, hd.2⟩
    · rename_i op l r hx1 hx2 hx3 _
      obtain ⟨a, b, ha, hb, rfl⟩ := opt_bind2_some h
      cases op with
      | add => simp only [L1] at hp ⊢; exact ⟨ih _ _ hp.1 ha, ih _ _ hp.2 hb⟩
      | sub => simp only [L1] at hp ⊢; exact ⟨ih _ _ hp.1 ha, ih _ _ hp.2 hb⟩
      | mul => exact absurd rfl hx2
      | div =>
        simp only [L1] at hp ⊢
        obtain ⟨d, rfl, _⟩ := isNonzeroLit_num hp.2
        have := flatten_isNum (e := .num d) rfl hb
        subst this
        exact ⟨ih _ _ hp.1 ha, hp.2⟩
      | _ => simp [L1] at hp
    · simp at h; subst h; exact hp

/-! ### the fuel measure does not grow -/

theorem fsize_addCore_le (l r : Exp (Ext K)) : fsize (addCore l r) ≤ fsize l + fsize r + 1 := by
  have hl := two_le_fsize l; have hr := two_le_fsize r
  unfold addCore
  split
  · simp [fsize]
  · split
    · omega
    · simp [fsize]
  · split
    · omega
    · simp [fsize]
  · simp [fsize]

theorem fsize_subCore_le (l r : Exp (Ext K)) : fsize (subCore l r) ≤ fsize l + fsize r + 1 := by
  have hl := two_le_fsize l; have hr := two_le_fsize r
  unfold subCore
  split
  · simp [fsize]
  · split
    · omega
    · simp [fsize]
  · simp [fsize]

theorem fsize_mulCore_le (l r : Exp (Ext K)) : fsize (mulCore l r) ≤ fsize l * fsize r := by
  have hl := two_le_fsize l; have hr := two_le_fsize r
  unfold mulCore
  split
  · simp only [fsize]; nlinarith
  · split
    · simp only [fsize]; nlinarith
    · split
      · nlinarith
      · split
        · nlinarith
        · simp [fsize]

theorem fsize_divCore_le (l r : Exp (Ext K)) : fsize (divCore l r) ≤ fsize l * fsize r := by
  have hl := two_le_fsize l; have hr := two_le_fsize r
  unfold divCore
  split
  · split
    · simp [fsize]
    · simp only [fsize]; nlinarith
  · split
    · nlinarith
    · simp [fsize]

theorem fsize_simplify_le : ∀ e : Exp (Ext K), L1 e → fsize (simplify e) ≤ fsize e := by
  intro e
  induction e using Exp.indL with
  | num v => intro _; rw [simplify_num]
  | var x => intro _; rw [simplify_var]
  | bin op a b iha ihb =>
    intro h
    rw [simplify_bin]
    have h2a := two_le_fsize (simplify a); have h2b := two_le_fsize (simplify b)
    cases op with
    | add =>
      simp only [L1] at h
      have := fsize_addCore_le (simplify a) (simplify b)
      have := iha h.1; have := ihb h.2
      simp only [binCore, fsize]; omega
    | sub =>
      simp only [L1] at h
      have := fsize_subCore_le (simplify a) (simplify b)
      have := iha h.1; have := ihb h.2
      simp only [binCore, fsize]; omega
    | mul =>
      have hab : L1 a ∧ L1 b := by
        simp only [L1] at h
        rcases h with ⟨h1, h2⟩ | ⟨h1, h2⟩
        · exact ⟨L1_of_isNum h1, h2⟩
        · exact ⟨h1, L1_of_isNum h2⟩
      have h1 := fsize_mulCore_le (simplify a) (simplify b)
      have h2 := Nat.mul_le_mul (iha hab.1) (ihb hab.2)
      simp only [binCore, fsize]; omega
    | div =>
      simp only [L1] at h
      obtain ⟨d, rfl, _⟩ := isNonzeroLit_num h.2
      have h1 := fsize_divCore_le (simplify a) (simplify (.num d))
      have h2 := Nat.mul_le_mul (iha h.1) (ihb (by simp [L1]))
      simp only [binCore, fsize] at *; omega
    | _ => simp [L1] at h
  | un op e ih =>
    intro h
    cases op with
    | neg =>
      simp only [L1] at h
      rw [simplify_neg]
      have := ih h
      have h2 := two_le_fsize (simplify e)
      unfold negCore
      split
      · simp only [fsize] at *; omega
      · simp only [fsize]; omega
    | not => simp [L1] at h
  | _ => intro h; simp [L1] at h

theorem fsize_flattenMulRest_le (n : Nat)
    (ih : ∀ e e' : Exp (Ext K), flattenF n e = some e' → fsize e' ≤ fsize e) (l r : Exp (Ext K)) :
    ∀ e', flattenF.flattenMulRest n l r = some e' → fsize e' ≤ fsize l * fsize r := by
  intro e' h
  have hl := two_le_fsize l; have hr := two_le_fsize r
  unfold flattenF.flattenMulRest at h
  split at h
  · rename_i iop a b
    have ha := two_le_fsize a; have hb := two_le_fsize b
    split at h
    · rename_i hi
      have := ih _ _ h
      rw [fsize_addsub _ hi] at this
      rw [fsize_addsub _ hi]
      simp only [fsize] at this
      nlinarith
    · split at h
      · rename_i l'
        simp only [Option.map_eq_some_iff] at h
        obtain ⟨x, hx, rfl⟩ := h
        have := ih _ _ hx
        have hl' := two_le_fsize l'
        simp only [fsize] at this ⊢
        nlinarith
      · obtain ⟨x, y, hx, hy, rfl⟩ := opt_bind2_some h
        have h1 := ih _ _ hx; have h2 := ih _ _ hy
        simp only [fsize]
        exact Nat.mul_le_mul h1 h2
  · rename_i l' _
    simp only [Option.map_eq_some_iff] at h
    obtain ⟨x, hx, rfl⟩ := h
    have := ih _ _ hx
    have hl' := two_le_fsize l'
    simp only [fsize] at this ⊢
    nlinarith
  · rename_i r' _
    simp only [Option.map_eq_some_iff] at h
    obtain ⟨x, hx, rfl⟩ := h
    have := ih _ _ hx
    have hr' := two_le_fsize r'
    simp only [fsize] at this ⊢
    nlinarith
  · obtain ⟨x, y, hx, hy, rfl⟩ := opt_bind2_some h
    have h1 := ih _ _ hx; have h2 := ih _ _ hy
    simp only [fsize]
    exact Nat.mul_le_mul h1 h2

/-- `flatten` does not increase the fuel measure. -/
theorem fsize_flatten_le (n : Nat) : ∀ e e' : Exp (Ext K), flattenF n e = some e' → fsize e' ≤ fsize e := by
  induction n with
  | zero => intro e e' h; simp [flattenF] at h
  | succ n ih =>
    intro e e' h
    unfold flattenF at h
    split at h
    all_goals try (have hn := Nat.succ.inj ‹n + 1 = _›; subst hn)
    · simp at h
    · rename_i iop l r c _
      have hc := two_le_fsize c; have hl := two_le_fsize l; have hr := two_le_fsize r
      split at h
      · rename_i hi
        have := ih _ _ h
        rw [fsize_addsub _ hi] at this
        simp only [fsize] at this ⊢
        rw [fsize_addsub _ hi]
        nlinarith
      · simpa only [fsize] using fsize_flattenMulRest_le n ih _ _ _ h
    · simpa only [fsize] using fsize_flattenMulRest_le n ih _ _ _ h
    · rename_i iop l r c _
      have hc := two_le_fsize c; have hl := two_le_fsize l; have hr := two_le_fsize r
      split at h
      · rename_i hi
        obtain ⟨a, b, ha, hb, rfl⟩ := opt_bind2_some h
        have h1 := ih _ _ ha; have h2 := ih _ _ hb
        simp only [fsize] at h1 h2 ⊢
        rw [fsize_addsub _ hi, fsize_addsub _ hi]
        nlinarith
      · obtain ⟨a, b, ha, hb, rfl⟩ := opt_bind2_some h
        have h1 := ih _ _ ha; have h2 := ih _ _ hb
        simp only [fsize]
        exact Nat.mul_le_mul h1 h2
    · rename_i op l r hx1 hx2 hx3 _
      obtain ⟨a, b, ha, hb, rfl⟩ := opt_bind2_some h
      have h1 := ih _ _ ha; have h2 := ih _ _ hb
      cases op <;> simp only [fsize] <;> first | omega | exact Nat.mul_le_mul h1 h2
    · simp at h; subst h; exact le_refl _

/-! ### success of `normalize`, `Exp::linearize`, `emit_constraint` -/

theorem normalize_L1 {e : Exp (Ext K)} (h : L1 (simplify e)) (hsz : fsize (simplify e) ≤ flattenFuel) :
    ∃ e', normalizeExp e = some e' ∧ L1 e' ∧ fsize e' ≤ fsize (simplify e) := by
  have hsome := flattenF_isSome_of_fsize_le flattenFuel (simplify e) hsz
  obtain ⟨fl, hfl⟩ := Option.isSome_iff_exists.mp hsome
  have hL := L1_flatten _ _ _ h hfl
  refine ⟨simplify fl, by simp [normalizeExp, hfl], L1_simplify _ hL, ?_⟩
  exact le_trans (fsize_simplify_le _ hL) (fsize_flatten_le _ _ _ hfl)

/-- `Exp::linearize` succeeds on linear shapes and leaves the state alone. -/
theorem linExp_L1 : ∀ (e : Exp (Ext K)), L1 e → ∀ (req : Req) (s : St (Ext K)), ∃ c, linExp e req s = .ok (c, s) := by
  intro e
  induction e using Exp.indL with
  | num v => intro _ req s; exact ⟨_, by rw [linExp]; rfl⟩
  | var x => intro _ req s; exact ⟨_, by rw [linExp]; rfl⟩
  | bin op a b iha ihb =>
    intro h req s
    cases op with
    | add =>
      simp only [L1] at h
      obtain ⟨x, hx⟩ := iha h.1 req s
      obtain ⟨y, hy⟩ := ihb h.2 req s
      exact ⟨_, by rw [linExp]; simp only [bind_ok, pure_ok]; exact ⟨x, s, hx, y, s, hy, rfl⟩⟩
    | sub =>
      simp only [L1] at h
      obtain ⟨x, hx⟩ := iha h.1 req s
      obtain ⟨y, hy⟩ := ihb h.2 req.reversed s
      exact ⟨_, by rw [linExp]; simp only [bind_ok, pure_ok]; exact ⟨x, s, hx, y, s, hy, rfl⟩⟩
    | mul =>
      simp only [L1] at h
      rcases num_or_not a with ⟨c, rfl⟩ | hna
      · have hb : L1 b := h.elim (fun h => h.2) (fun h => L1_of_isNum h.2)
        rw [linExp]
        by_cases hg : (Arith.eq c (Arith.zero : Ext K) && !(Exp.mayBeUndefined b)) = true
        · exact ⟨_, by rw [if_pos hg]; rfl⟩
        · obtain ⟨y, hy⟩ := ihb hb (req.throughScale c) s
          exact ⟨_, by rw [if_neg hg]; simp only [bind_ok, pure_ok]; exact ⟨y, s, hy, rfl⟩⟩
      · have hab : L1 a ∧ isNum b = true := by
          rcases h with ⟨h1, _⟩ | h2
          · obtain ⟨c, rfl⟩ := isNum_iff.mp h1; exact absurd rfl (hna c)
          · exact h2
        obtain ⟨c, rfl⟩ := isNum_iff.mp hab.2
        rw [linExp.eq_4 _ _ _ hna]
        by_cases hg : (Arith.eq c (Arith.zero : Ext K) && !(Exp.mayBeUndefined a)) = true
        · exact ⟨_, by rw [if_pos hg]; rfl⟩
        · obtain ⟨y, hy⟩ := iha hab.1 (req.throughScale c) s
          exact ⟨_, by rw [if_neg hg]; simp only [bind_ok, pure_ok]; exact ⟨y, s, hy, rfl⟩⟩
    | div =>
      simp only [L1] at h
      obtain ⟨d, rfl, hd⟩ := isNonzeroLit_num h.2
      rw [linExp]
      have hne : ¬ (Arith.eq d (Arith.zero : Ext K) = true) := by
        simpa [Arith.ne] using hd
      obtain ⟨y, hy⟩ := iha h.1 (req.throughScale (Arith.div Arith.one d)) s
      exact ⟨_, by rw [if_neg hne]; simp only [bind_ok, pure_ok]; exact ⟨y, s, hy, rfl⟩⟩
    | _ => simp [L1] at h
  | un op e ih =>
    intro h req s
    cases op with
    | neg =>
      simp only [L1] at h
      obtain ⟨x, hx⟩ := ih h req.reversed s
      exact ⟨_, by rw [linExp]; simp only [bind_ok, pure_ok]; exact ⟨x, s, hx, rfl⟩⟩
    | not => simp [L1] at h
  | _ => intro h; simp [L1] at h

/-- `emit_constraint` succeeds on linear sides that fit the fuel: exactly one more row. -/
theorem emit_L1 {l r : Exp (Ext K)} (hl : L1 l) (hr : L1 r) (hsz : fsize l + fsize r + 1 ≤ flattenFuel)
    (cmp : Cmp) (name : String) (s : St (Ext K)) :
    ∃ row, emitConstraint l cmp r name s = .ok ((), addRow s row) := by
  have hsub : L1 (.bin .sub l r : Exp (Ext K)) := by simp only [L1]; exact ⟨hl, hr⟩
  have hs1 : L1 (simplify (.bin .sub l r)) := L1_simplify _ hsub
  have hsz1 : fsize (simplify (.bin .sub l r)) ≤ flattenFuel := by
    have := fsize_simplify_le _ hsub
    simp only [fsize] at this; omega
  obtain ⟨e', hn, hL, _⟩ := normalize_L1 hs1 hsz1
  obtain ⟨c, hc⟩ := linExp_L1 e' hL (cmpForReq cmp) s
  exact ⟨_, (emitConstraint_ok _ _ _ _ _ _).mpr ⟨e', c, s, hn, hc, rfl⟩⟩

/-! ### success of the loop and of `linearizeWith` on affine models -/

/-- a supported affine comparison: not an assertion; after constant folding both sides are linear shapes; the
two sides fit the flatten fuel. (decidable) -/
structure SrcL (c : Constraint (Ext K)) : Prop where
  notAssert : c.isAssert = false
  lhs : L1 (simplify c.lhs)
  rhs : L1 (simplify c.rhs)
  size : fsize (simplify c.lhs) + fsize (simplify c.rhs) + 1 ≤ flattenFuel

theorem L1_logicValue {d : List (DomVar (Ext K))} {e : Exp (Ext K)} (h : L1 e) (hlv : isLogicValue d e = true) :
    (∃ v, e = .num v) ∨ ∃ n, e = .var n ∧ isBoolVar d n = true := by
  cases e with
  | num v => exact Or.inl ⟨v, rfl⟩
  | var n => exact Or.inr ⟨n, rfl, by simpa [isLogicValue] using hlv⟩
  | bin op a b => cases op <;> simp [L1] at h <;> simp [isLogicValue] at hlv
  | un op a => cases op <;> simp [L1] at h; simp [isLogicValue] at hlv
  | _ => simp [L1] at h

theorem flattenFuel_big : (20 : Nat) ≤ flattenFuel := by decide

theorem process_L1 {c : Constraint (Ext K)} (hc : SrcL c) (s : St (Ext K)) :
    ∃ rows : List (MidRow (Ext K)), processConstraint c s = .ok ((), { s with rows := s.rows ++ rows }) := by
  have h2l := two_le_fsize (simplify c.rhs)
  have h2r := two_le_fsize (simplify c.lhs)
  obtain ⟨l', hnl, hLl, hszl⟩ := normalize_L1 hc.lhs (by have := hc.size; omega)
  obtain ⟨r', hnr, hLr, hszr⟩ := normalize_L1 hc.rhs (by have := hc.size; omega)
  have hemit : ∀ (cmp : Cmp) (name : String), ∃ row, emitConstraint l' cmp r' name s = .ok ((), addRow s row) :=
    fun cmp name => emit_L1 hLl hLr (by have := hc.size; omega) cmp name s
  unfold processConstraint
  simp only [bind_ok, simplifyFlat_ok]
  have key : ∃ rows : List (MidRow (Ext K)), dispatch c.name l' c.cmp r' s = .ok ((), { s with rows := s.rows ++ rows }) := by
    unfold dispatch
    simp only [bind_ok, get_ok]
    cases hN : tryNormalize s.domain l' c.cmp r' with
    | none =>
      obtain ⟨row, hrow⟩ := hemit c.cmp c.name
      exact ⟨[row], s, s, rfl, by simpa [hN, addRow] using hrow⟩
    | some nz =>
      cases nz with
      | tautology => exact ⟨[], s, s, rfl, by simp [hN, pure_ok]⟩
      | contradiction =>
        obtain ⟨row, hrow⟩ := emit_L1 (l := .num (Arith.zero : Ext K)) (r := .num Arith.one) (by simp [L1]) (by simp [L1])
          (by simp only [fsize]; exact flattenFuel_big.trans' (by norm_num)) .eq c.name s
        exact ⟨[row], s, s, rfl, by simpa [hN, addRow] using hrow⟩
      | assertion e t =>
        -- the logic value is a Boolean variable
        have hwhich : (e = l' ∨ e = r') ∧ isLogicValue s.domain e = true := by
          rw [tryNormalize_eq] at hN
          cases hp : pickOf s.domain l' c.cmp r' with
          | none => simp [hp] at hN
          | some p =>
            obtain ⟨e', cmp', c'⟩ := p
            obtain ⟨h1, h2, _⟩ := pickOf_specD hp
            simp only [hp] at hN
            split at hN
            · split at hN <;> simp at hN
            · split at hN <;> simp at hN <;> (obtain ⟨rfl, _⟩ := hN; exact ⟨h1, h2⟩)
        have hLe : L1 e := by rcases hwhich.1 with rfl | rfl; exacts [hLl, hLr]
        rcases L1_logicValue hLe hwhich.2 with ⟨v, rfl⟩ | ⟨n, rfl, hb⟩
        · exfalso
          rw [tryNormalize_eq] at hN
          cases hp : pickOf s.domain l' c.cmp r' with
          | none => simp [hp] at hN
          | some p =>
            obtain ⟨e', cmp', c'⟩ := p
            simp only [hp] at hN
            split at hN
            · split at hN <;> simp at hN
            · rename_i hne
              split at hN <;> simp at hN <;> (obtain ⟨rfl, _⟩ := hN; exact hne v rfl)
        · have hctx : L1 (ctxToExp (Ctx.fromVar n (Arith.one : Ext K))) := by
            rw [fromVar_eq]; simp [ctxToExp, L1, isNum]
          have hsz : fsize (ctxToExp (Ctx.fromVar n (Arith.one : Ext K))) = 7 := by
            rw [fromVar_eq]; simp [ctxToExp, fsize]
          obtain ⟨row, hrow⟩ := emit_L1 hctx (r := .num (if t = true then (Arith.one : Ext K) else Arith.zero))
            (by simp [L1]) (by rw [hsz]; simp only [fsize]; exact flattenFuel_big.trans' (by norm_num)) .eq c.name s
          refine ⟨[row], s, s, rfl, ?_⟩
          simp only [hN]
          rw [lowerAssertion_var_ok n t c.name s _ hb]
          simpa [addRow] using hrow
  obtain ⟨rows, hrows⟩ := key
  exact ⟨rows, l', s, ⟨l', hnl, rfl⟩, r', s, ⟨r', hnr, rfl⟩, by simpa [hc.notAssert] using hrows⟩

/-- the loop succeeds when every queued constraint is a supported affine comparison and the fuel exceeds the
queue length. -/
theorem drain_L1 : ∀ (n : Nat) (s : St (Ext K)), (∀ c ∈ s.queue, SrcL c) → s.queue.length < n →
    ∃ s', drain n s = .ok ((), s') := by
  intro n
  induction n with
  | zero => intro s _ h; omega
  | succ n ih =>
    intro s hall hlen
    rw [drain_succ]
    simp only [bind_ok, get_ok]
    cases hq : s.queue with
    | nil => exact ⟨s, s, s, rfl, by simp [hq, pure_ok]⟩
    | cons c rest =>
      obtain ⟨rows, hp⟩ := process_L1 (hall c (by rw [hq]; simp)) { s with queue := rest }
      have hrest : ∀ c' ∈ ({ s with queue := rest, rows := s.rows ++ rows } : St (Ext K)).queue, SrcL c' :=
        fun c' hc' => hall c' (by rw [hq]; exact List.mem_cons_of_mem _ hc')
      obtain ⟨s', hs'⟩ := ih { s with queue := rest, rows := s.rows ++ rows } hrest
        (by rw [hq] at hlen; simp at hlen ⊢; omega)
      refine ⟨s', s, s, rfl, ?_⟩
      simp only [hq, bind_ok, set_ok]
      exact ⟨⟨⟩, _, rfl, ⟨⟩, _, hp, hs'⟩

theorem drainFuel_val : drainFuel = 1000000 := rfl

/-- **no spurious error on affine models**: if — after constant folding — the objective and both sides of
every constraint are linear shapes that fit the flatten fuel, and there are fewer constraints than loop fuel,
then `linearizeWith` succeeds, whatever the bounds map and the domain. -/
theorem linearizeWith_succeeds {m : Model (Ext K)} (b : BoundsMap (Ext K)) (d : List (DomVar (Ext K)))
    (hobj : L1 (simplify m.objective)) (hobjsz : fsize (simplify m.objective) ≤ flattenFuel)
    (hcons : ∀ c ∈ m.constraints, SrcL c) (hlen : m.constraints.length < drainFuel) :
    ∃ lm, linearizeWith m b d = .ok lm := by
  obtain ⟨o', hno, hLo, _⟩ := normalize_L1 hobj hobjsz
  let s0 : St (Ext K) := { queue := m.constraints, domain := d, bounds := b }
  obtain ⟨oc, hoc⟩ := linExp_L1 o' hLo (objReq m) s0
  obtain ⟨s3, hs3⟩ := drain_L1 drainFuel s0 hcons hlen
  exact ⟨_, (linearizeWith_ok_iff _ _ _ _).mpr ⟨o', s0, oc, s0, s3,
    (simplifyFlat_ok _ _ _).mpr ⟨o', hno, rfl⟩, hoc, hs3, rfl⟩⟩

end Rooc.LinP
