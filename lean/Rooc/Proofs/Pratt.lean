/-
Helper lemmas for C09/C11: the pest Pratt loop (`Rooc/Syntax/Pratt.lean`) on item lists.
`IR t items` — "items is a rendering of t whose parenthesised (leaf) operands are a SUPERSET of the
needed ones"; `pratt_roundtrip : IR t items → prattParse items = .ok t`.
-/
import Rooc.Syntax.Parse
import Rooc.Syntax.Doc
namespace Rooc.Syntax.Proofs
open Rooc Rooc.Syntax Rooc.Syntax.Doc

/-! ### the documented table (`Rooc/Syntax/Doc.lean`) against the regenerated one -/

theorem getOp_doc (o : BinOp) :
    getOp (docRule o) = some (if docRightAssoc o then .inR else .inL, lbpD o) := by
  cases o <;> decide
theorem infixArm_doc (o : BinOp) : infixArm (docRule o) = some o := by
  cases o <;> decide
theorem getOp_docUn (u : UnOp) : getOp (docUnRule u) = some (.pre, prefixD) := by
  cases u <;> decide
theorem prefixArm_doc (u : UnOp) : prefixArm (docUnRule u) = some u := by
  cases u <;> decide

theorem lbpD_le (o : BinOp) : lbpD o ≤ 70 := by cases o <;> decide
theorem lbpD_pos (o : BinOp) : 20 ≤ lbpD o := by cases o <;> decide
theorem rbpD_le (o : BinOp) : rbpD o ≤ lbpD o := by unfold rbpD; split <;> omega
theorem rbpD_ge (o : BinOp) : lbpD o - 1 ≤ rbpD o := by unfold rbpD; split <;> omega

/-! ### unfolding lemmas for the loop on documented operators -/

theorem lbp_nil : lbp [] = .ok 0 := rfl
theorem lbp_op (o : BinOp) (rest : List Item) : lbp (.op (docRule o) :: rest) = .ok (lbpD o) := by
  simp [lbp, getOp_doc]

theorem loop_nil (f r : Nat) (lhs : PExp) : loop (f+1) r lhs [] = .ok (lhs, []) := by
  simp [loop, lbp]

theorem loop_stop (f r : Nat) (lhs : PExp) (o : BinOp) (rest : List Item) (h : ¬ r < lbpD o) :
    loop (f+1) r lhs (.op (docRule o) :: rest) = .ok (lhs, .op (docRule o) :: rest) := by
  simp [loop, lbp_op, h]

theorem loop_step (f r : Nat) (lhs rhs : PExp) (o : BinOp) (rest rest' : List Item) (h : r < lbpD o)
    (he : expr f (rbpD o) rest = .ok (rhs, rest')) :
    loop (f+1) r lhs (.op (docRule o) :: rest) = loop f r (.bin o lhs rhs) rest' := by
  cases o <;> simp [rbpD, docRightAssoc, lbpD, docLevel] at he h <;>
    simp [loop, lbp, getOp_doc, infixArm_doc, lbpD, docLevel, docRightAssoc, h, he]

theorem nud_leaf (f : Nat) (t : PExp) (rest : List Item) : nud (f+1) (.leaf t :: rest) = .ok (t, rest) := by
  simp [nud]

theorem nud_pre (f : Nat) (u : UnOp) (rhs : PExp) (rest rest' : List Item)
    (he : expr f (prefixD - 1) rest = .ok (rhs, rest')) :
    nud (f+1) (.op (docUnRule u) :: rest) = .ok (.un u rhs, rest') := by
  cases u <;> simp [prefixD] at he <;> simp [nud, getOp_docUn, prefixArm_doc, prefixD, he]

theorem expr_of_nud (f r : Nat) (items rest : List Item) (lhs : PExp)
    (hn : nud f items = .ok (lhs, rest)) : expr (f+1) r items = loop f r lhs rest := by
  simp [expr, hn]

/-! ### renderings at item level and the round trip -/

/-- `IR t items`: `items` renders `t`; an operand is either a single (parenthesised / atomic) leaf pair
or is spliced in bare, which is allowed only where the parser does not need parentheses. The operand
of a prefix operator is always a single leaf pair. -/
inductive IR : PExp → List Item → Prop
  | leaf (t : PExp) : IR t [.leaf t]
  | un (u : UnOp) (e : PExp) : IR (.un u e) [.op (docUnRule u), .leaf e]
  | bin (o : BinOp) (l r : PExp) (il ir : List Item) : IR l il → IR r ir →
      (il = [.leaf l] ∨ needParenLeft o l = false) → (ir = [.leaf r] ∨ needParenRight o r = false) →
      IR (.bin o l r) (il ++ .op (docRule o) :: ir)

def topFits (r : Nat) : PExp → Prop
  | .bin o _ _ => r < lbpD o
  | _ => True

/-- the next pair lets every pending right-operand parse of `t` stop -/
def stopsAfter (t : PExp) : List Item → Prop
  | [] => True
  | .op rule :: _ => ∃ q, rule = docRule q ∧ (match t with | .bin o _ _ => lbpD q ≤ rbpD o | _ => True)
  | .leaf _ :: _ => False

theorem docRule_inj {a b : BinOp} (h : docRule a = docRule b) : a = b := by
  cases a <;> cases b <;> first | rfl | (exact absurd h (by decide))

/-- shape of what may follow an operand: nothing, or a documented infix operator pair -/
def opsNext (rest : List Item) : Prop := rest = [] ∨ ∃ q tl, rest = .op (docRule q) :: tl

theorem opsNext_of_stopsAfter {t : PExp} {rest : List Item} (h : stopsAfter t rest) : opsNext rest := by
  match rest, h with
  | [], _ => exact Or.inl rfl
  | .op rule :: tl, ⟨q, hq, _⟩ => subst hq; exact Or.inr ⟨q, tl, rfl⟩

theorem stopLoop {r : Nat} {t : PExp} {rest : List Item} (h : opsNext rest)
    (hr : ∀ q tl, rest = .op (docRule q) :: tl → ¬ r < lbpD q) (g : Nat) :
    loop (g+1) r t rest = .ok (t, rest) := by
  rcases h with h | ⟨q, tl, h⟩
  · subst h; exact loop_nil g r t
  · subst h; exact loop_stop g r t q tl (hr q tl rfl)

theorem stopsAfter_bound {o : BinOp} {l r' : PExp} {q : BinOp} {tl : List Item}
    (h : stopsAfter (.bin o l r') (.op (docRule q) :: tl)) : lbpD q ≤ rbpD o := by
  obtain ⟨q', hq', hle⟩ := h
  have : q = q' := docRule_inj hq'
  subst this; simpa using hle

theorem stopsAfter_right {o : BinOp} {l r' : PExp} {rest : List Item} (h : stopsAfter (.bin o l r') rest)
    (hp : needParenRight o r' = false) : stopsAfter r' rest := by
  match rest, h with
  | [], _ => trivial
  | .op rule :: tl, ⟨q, hq, hle⟩ =>
    refine ⟨q, hq, ?_⟩
    cases r' with
    | bin o' a b =>
      simp [needParenRight] at hp
      simp at hle ⊢
      have := rbpD_ge o'; omega
    | _ => trivial

theorem roundtrip_core {t : PExp} {items : List Item} (h : IR t items) :
    ∀ (r : Nat) (rest : List Item) (res : PExp × List Item) (g0 : Nat),
      topFits r t → stopsAfter t rest → (∀ g, g0 ≤ g → loop g r t rest = .ok res) →
      ∀ f, g0 + 2 * items.length ≤ f → expr f r (items ++ rest) = .ok res := by
  induction h with
  | leaf t =>
    intro r rest res g0 _ _ hl f hf
    obtain ⟨f', rfl⟩ : ∃ f', f = f' + 2 := ⟨f - 2, by simp at hf; omega⟩
    rw [List.singleton_append, expr_of_nud (f'+1) r _ rest t (nud_leaf f' t rest)]
    exact hl _ (by simp at hf; omega)
  | un u e =>
    intro r rest res g0 _ hs hl f hf
    obtain ⟨f', rfl⟩ : ∃ f', f = f' + 4 := ⟨f - 4, by simp at hf; omega⟩
    have hx : expr (f'+2) (prefixD - 1) (.leaf e :: rest) = .ok (e, rest) := by
      rw [expr_of_nud (f'+1) _ _ rest e (nud_leaf f' e rest)]
      apply stopLoop (opsNext_of_stopsAfter hs)
      intro q tl _; have := lbpD_le q; simp [prefixD]; omega
    have hn := nud_pre (f'+2) u e (.leaf e :: rest) rest hx
    show expr (f'+4) r (.op (docUnRule u) :: .leaf e :: rest) = .ok res
    rw [expr_of_nud (f'+3) r _ rest (.un u e) hn]
    exact hl _ (by simp at hf; omega)
  | bin o l r' il ir _ _ hpl hpr ihl ihr =>
    intro r rest res g0 hfit hs hl f hf
    simp only [topFits] at hfit
    -- the right operand parses at `rbp o` and stops at `rest`
    have hR : ∀ f', 1 + 2 * ir.length ≤ f' → expr f' (rbpD o) (ir ++ rest) = .ok (r', rest) := by
      intro f' hf'
      rcases hpr with hpr | hpr
      · subst hpr
        obtain ⟨f'', rfl⟩ : ∃ f'', f' = f'' + 2 := ⟨f' - 2, by simp at hf'; omega⟩
        rw [List.singleton_append, expr_of_nud (f''+1) _ _ rest r' (nud_leaf f'' r' rest)]
        apply stopLoop (opsNext_of_stopsAfter hs)
        intro q tl hq; subst hq
        have := stopsAfter_bound hs; omega
      · apply ihr (rbpD o) rest (r', rest) 1
        · cases r' with
          | bin o' a b => simp [needParenRight] at hpr; simpa [topFits] using hpr
          | _ => trivial
        · exact stopsAfter_right hs hpr
        · intro g hg
          obtain ⟨g', rfl⟩ : ∃ g', g = g' + 1 := ⟨g - 1, by omega⟩
          apply stopLoop (opsNext_of_stopsAfter hs)
          intro q tl hq; subst hq
          have := stopsAfter_bound hs; omega
        · omega
    -- after the left operand the loop takes the operator `o`
    have hstep : ∀ g, g0 + 2 * ir.length + 2 ≤ g →
        loop g r l (.op (docRule o) :: (ir ++ rest)) = .ok res := by
      intro g hg
      obtain ⟨g', rfl⟩ : ∃ g', g = g' + 1 := ⟨g - 1, by omega⟩
      rw [loop_step g' r l r' o (ir ++ rest) rest hfit (hR g' (by omega))]
      exact hl g' (by omega)
    have hlen : (il ++ .op (docRule o) :: ir).length = il.length + ir.length + 1 := by simp; omega
    rw [hlen] at hf
    rw [List.append_assoc, List.cons_append]
    rcases hpl with hpl | hpl
    · subst hpl
      obtain ⟨f', rfl⟩ : ∃ f', f = f' + 2 := ⟨f - 2, by simp at hf; omega⟩
      rw [List.singleton_append, expr_of_nud (f'+1) r _ _ l (nud_leaf f' l _)]
      exact hstep _ (by simp at hf; omega)
    · apply ihl r _ res (g0 + 2 * ir.length + 2)
      · cases l with
        | bin o1 a b =>
          simp [needParenLeft] at hpl
          have := rbpD_le o1
          simp [topFits]; omega
        | _ => trivial
      · refine ⟨o, rfl, ?_⟩
        cases l with
        | bin o1 a b => simp [needParenLeft] at hpl; simpa using hpl
        | _ => trivial
      · exact hstep
      · omega

/-- **Round trip of the Pratt loop**: every item rendering whose parenthesised operands are a superset
of the needed ones is folded back to the tree it renders. -/
theorem pratt_roundtrip {t : PExp} {items : List Item} (h : IR t items) : prattParse items = .ok t := by
  have h0 : topFits 0 t := by
    cases t <;> simp [topFits]
    rename_i o _ _; have := lbpD_pos o; omega
  have := roundtrip_core h 0 [] (t, []) 1 h0 trivial (fun g hg => by
    obtain ⟨g', rfl⟩ : ∃ g', g = g' + 1 := ⟨g - 1, by omega⟩
    exact loop_nil g' 0 t) (2 * items.length + 2) (by omega)
  simp [prattParse, List.append_nil] at this ⊢
  simp [this]

end Rooc.Syntax.Proofs
