/-
The exact-comparison theorems at a tolerance `tol > 0`, for tableaus whose relevant quantities are separated by the
tolerance (`Bland.Sep`): there every tolerant predicate decides as exact arithmetic would, so feasibility,
monotonicity, optimality of `Finished` and genuineness of `Unbounded` hold as for `tol = 0`.
-/
import Rooc.Proofs.TwoPhase5
namespace Rooc
namespace SepLoop
variable {K : Type} [Field K] [LinearOrder K] [IsStrictOrderedRing K]
attribute [local instance] exactArith
open Tableau TabSem PivotLemmas StepLemmas FeasibleLemmas BasicSol Bland

/-- the scan step of `find_t` on separated ratios returns the smaller ratio (any preference list, either shape). -/
theorem sel_min_sep {tol : K} (ht : 0 < tol) (basis prefer : List Nat) (x y : Nat × K) (h : y.2 = x.2 ∨ tol ≤ |y.2 - x.2|) :
    (sel tol basis prefer x y).2 ≤ x.2 ∧ (sel tol basis prefer x y).2 ≤ y.2 := by
  unfold sel selRatio
  cases Gen.ratioTestExact with
  | true =>
    simp only [if_true, ExactK.lt_eq, ExactK.eq_eq, decide_eq_true_eq]
    by_cases hl : y.2 < x.2
    · rw [if_pos hl]; exact ⟨hl.le, le_refl _⟩
    · rw [if_neg hl]
      by_cases e : y.2 = x.2
      · rw [if_pos e]; split <;> simp [e]
      · rw [if_neg e]; exact ⟨le_refl _, (lt_of_le_of_ne (not_lt.1 hl) (fun z => e z.symm)).le⟩
  | false =>
    simp only [Bool.false_eq_true, if_false]
    by_cases he : y.2 = x.2
    · rw [if_pos ((feq_iff_eq ht h).2 he)]; split <;> simp [he]
    · have hne : ¬ Tol.feq tol y.2 x.2 = true := fun hc => he ((feq_iff_eq ht h).1 hc)
      rw [if_neg hne]
      by_cases hl : y.2 < x.2
      · rw [if_pos ((flt_iff_lt ht h).2 hl)]; exact ⟨hl.le, le_refl _⟩
      · have : ¬ Tol.flt tol y.2 x.2 = true := fun hc => hl ((flt_iff_lt ht h).1 hc)
        rw [if_neg this]; exact ⟨le_refl _, not_lt.1 hl⟩

theorem foldl_sel_min_sep {tol : K} (ht : 0 < tol) (basis prefer : List Nat) :
    ∀ (l : List (Nat × K)) (x : Nat × K),
      (∀ y ∈ x :: l, ∀ z ∈ x :: l, y.2 = z.2 ∨ tol ≤ |y.2 - z.2|) →
      (l.foldl (sel tol basis prefer) x) ∈ x :: l ∧ ∀ y ∈ x :: l, (l.foldl (sel tol basis prefer) x).2 ≤ y.2
  | [], x, _ => by simp
  | y :: l, x, hsep => by
    simp only [List.foldl_cons]
    obtain ⟨h1, h2⟩ := sel_min_sep ht basis prefer x y (hsep y (by simp) x (by simp))
    have hmem : sel tol basis prefer x y ∈ x :: y :: l := by
      rcases selRatio_choice tol basis prefer x y with e | e
      · show selRatio tol basis prefer x y ∈ _; rw [e]; simp
      · show selRatio tol basis prefer x y ∈ _; rw [e]; simp
    obtain ⟨imem, iall⟩ := foldl_sel_min_sep ht basis prefer l (sel tol basis prefer x y) (by
      intro a ha b hb
      have ha' : a ∈ x :: y :: l := by
        rcases List.mem_cons.1 ha with rfl | ha
        · exact hmem
        · exact List.mem_cons_of_mem _ (List.mem_cons_of_mem _ ha)
      have hb' : b ∈ x :: y :: l := by
        rcases List.mem_cons.1 hb with rfl | hb
        · exact hmem
        · exact List.mem_cons_of_mem _ (List.mem_cons_of_mem _ hb)
      exact hsep a ha' b hb')
    refine ⟨?_, ?_⟩
    · rcases List.mem_cons.1 imem with e | e
      · rw [e]; exact hmem
      · exact List.mem_cons_of_mem _ (List.mem_cons_of_mem _ e)
    · intro z hz
      have hres := iall (sel tol basis prefer x y) (by simp)
      rcases List.mem_cons.1 hz with rfl | hz
      · exact le_trans hres h1
      · rcases List.mem_cons.1 hz with rfl | hz
        · exact le_trans hres h2
        · exact iall z (List.mem_cons_of_mem _ hz)

/-- on a separated tableau `find_t` returns a row of minimum ratio among the rows with a positive entry. -/
theorem findT_min_sep {tol : K} (ht : 0 < tol) {T : Tab K} (hS : Sep tol T) {h t : Nat} {prefer : List Nat} {ratio : K}
    (hf : findT tol T h prefer = some (t, ratio)) :
    ∀ i, i < T.a.length → 0 < nth (row T.a i) h → ratio ≤ nth T.b i / nth (row T.a i) h := by
  intro i hi hpos
  have hmem := mem_ratios_of (tol := tol) hi ((fgt_zero_iff ht (hS.entry i h)).2 hpos)
  rw [findT_eq_sel] at hf
  split at hf
  · rename_i hnil; rw [hnil] at hmem; cases hmem
  · rename_i first rest hr
    simp only [Option.some.injEq] at hf
    have hsep : ∀ y ∈ first :: rest, ∀ z ∈ first :: rest, y.2 = z.2 ∨ tol ≤ |y.2 - z.2| := by
      intro y hy z hz
      rw [← hr] at hy hz
      obtain ⟨-, -, ey⟩ := mem_ratios hy
      obtain ⟨-, -, ez⟩ := mem_ratios hz
      rw [ey, ez]; exact hS.ratio y.1 z.1 h
    obtain ⟨-, hall⟩ := foldl_sel_min_sep ht T.basis prefer rest first hsep
    rw [hf] at hall
    rw [hr] at hmem
    exact hall _ hmem

/-- **pivot_feasible at `tol > 0`** on a separated tableau. -/
theorem pivot_feasible_sep {tol : K} (ht : 0 < tol) {T : Tab K} {m n : Nat} (hR : Rect T m n) (hS : Sep tol T)
    (hF : Feasible T) {h : Nat} {prefer : List Nat} {t : Nat} {ratio : K} (hf : findT tol T h prefer = some (t, ratio)) :
    Feasible (pivot T t h) := by
  obtain ⟨htl, hg, hratio⟩ := findT_spec hf
  have hpos := ExactK.fgt_zero_pos hg
  have hbt : 0 ≤ nth T.b t := by simpa using hF t htl
  have hmin := findT_min_sep ht hS hf
  intro i hi
  have hi0 : i < T.a.length := by simpa using hi
  have hbi : 0 ≤ nth T.b i := by simpa using hF i hi0
  rw [pivot_b T t h (by rw [hR.rhs, ← hR.rows]; exact hi0)]
  simp only [ExactK.zero_eq, ExactK.le_eq, decide_eq_true_eq]
  by_cases hit : i = t
  · simp only [hit, if_true]; subst hit; exact div_nonneg hbt hpos.le
  · simp only [hit, if_false]
    by_cases ha : 0 < nth (row T.a i) h
    · have hm := hmin i hi0 ha
      rw [hratio] at hm
      have : nth (row T.a i) h / nth (row T.a t) h * nth T.b t = nth (row T.a i) h * (nth T.b t / nth (row T.a t) h) := by ring
      rw [this]
      have h2 : nth (row T.a i) h * (nth T.b t / nth (row T.a t) h) ≤ nth (row T.a i) h * (nth T.b i / nth (row T.a i) h) :=
        mul_le_mul_of_nonneg_left hm ha.le
      have h3 : nth (row T.a i) h * (nth T.b i / nth (row T.a i) h) = nth T.b i := by field_simp
      linarith
    · have ha' : nth (row T.a i) h ≤ 0 := not_lt.1 ha
      have : nth (row T.a i) h / nth (row T.a t) h * nth T.b t ≤ 0 :=
        mul_nonpos_of_nonpos_of_nonneg (div_nonpos_of_nonpos_of_nonneg ha' hpos.le) hbt
      linarith

/-- one step at `tol > 0` on a separated feasible tableau keeps the basic solution non-negative. -/
theorem stepInner_feasible_sep {tol : K} (ht : 0 < tol) {T T' : Tab K} {m n : Nat} (hR : Rect T m n) (hS : Sep tol T)
    (hF : Feasible T) {prefer : List Nat} {bland : Bool} {act : StepAction K}
    (hs : stepInner tol T prefer bland = .ok (act, T')) : Feasible T' := by
  cases act with
  | finished => obtain ⟨rfl, -⟩ := stepInner_finished hs; exact hF
  | pivot h t ratio =>
    obtain ⟨rfl, -, htt⟩ := stepInner_pivot hs
    exact pivot_feasible_sep ht hR hS hF htt

/-- after `Finished` on a separated tableau every reduced cost is `≥ 0`. -/
theorem costs_nonneg_of_finished_sep {tol : K} (ht : 0 < tol) {T T' : Tab K} {m n : Nat} (hC : Canon T m n)
    (hS : Sep tol T) {prefer : List Nat} {bland : Bool} (hs : stepInner tol T prefer bland = .ok (.finished, T')) :
    ∀ y ∈ T.c, 0 ≤ y := by
  intro y hy
  obtain ⟨j, hj, rfl⟩ := Optimal.exists_nth_of_mem hy
  obtain ⟨-, h | h⟩ := stepInner_finished hs
  · have := List.all_eq_true.1 h _ hy
    rcases (ExactK.fge_iff tol _ 0).1 (by simpa using this) with h1 | h1
    · exact h1.le
    · rcases hS.cost j with h0 | h0
      · rw [h0]
      · exact absurd (by simpa using h1) (not_lt.2 h0)
  · have hnil := Optimal.eligible_nil_of_findH_none h
    simp only [eligible, List.filterMap_eq_nil_iff] at hnil
    have hmem : (nth T.c j, j) ∈ T.c.zipIdx := by
      rw [List.mem_zipIdx_iff_getElem?]
      simp [nth, List.getD_eq_getElem?_getD, hj]
    have := hnil _ hmem
    simp only [ExactK.zero_eq, ite_eq_right_iff, reduceCtorEq, imp_false, Bool.and_eq_true,
      Bool.not_eq_true', not_and, Bool.not_eq_true] at this
    by_cases hb : T.basis.contains j = true
    · have hjb : j ∈ T.basis := by simpa using hb
      obtain ⟨k, hk, e⟩ := basis_mem hjb
      have := hC.costs k (by rw [hC.rect.rows, ← hC.rect.basis]; exact hk)
      rw [e] at this
      have h0 : nth T.c j = 0 := by simpa using this
      rw [h0]
    · have hf := this (by simpa using hb)
      by_contra hneg
      have := (flt_zero_iff ht (hS.cost j)).2 (not_le.1 hneg)
      rw [this] at hf; cases hf

/-- **`Finished` at `tol > 0` on a separated tableau ⇒ the basic solution is optimal** (exactly). -/
theorem finished_optimal_sep {tol : K} (ht : 0 < tol) {T T' : Tab K} {m n : Nat} (hC : Canon T m n) (hS : Sep tol T)
    {c0 : List K} (hO : ObjInv T c0) {prefer : List Nat} {bland : Bool}
    (hs : stepInner tol T prefer bland = .ok (.finished, T')) (x : List K) (hxl : x.length = n)
    (hSol : Sol T x) (hx : NonNeg x) : dot c0 (basicSolution T) ≤ dot c0 x := by
  rw [basicSolution_objective hC hO, hO x (by rw [hxl, hC.rect.costs]) hSol]
  have h := Optimal.dot_lower 0 (le_refl _) T.c x (by simpa using costs_nonneg_of_finished_sep ht hC hS hs) (Optimal.nonneg_mem hx)
  have hd : x.drop T.c.length = [] := by rw [List.drop_eq_nil_iff]; rw [hxl, hC.rect.costs]
  rw [hd] at h
  simp only [List.sum_nil, mul_zero, add_zero, ExactK.sub_eq, neg_zero, zero_mul] at h ⊢
  linarith

/-- **`Unbounded` at `tol > 0` on a separated feasible tableau is genuine.** -/
theorem unbounded_genuine_sep {tol : K} (ht : 0 < tol) {T : Tab K} {m n : Nat} (hC : Canon T m n) (hS : Sep tol T)
    (hF : Feasible T) {c0 : List K} (hO : ObjInv T c0) {prefer : List Nat} {bland : Bool} {e : SimplexErr}
    (hs : stepInner tol T prefer bland = .error e) (M : K) :
    ∃ x : List K, x.length = n ∧ Sol T x ∧ (∀ j, 0 ≤ nth x j) ∧ dot c0 x < M := by
  obtain ⟨-, h, hh, htn⟩ := stepInner_unbounded hs
  obtain ⟨hh1, hh2, hh3⟩ := findH_spec hh
  refine Unbounded.ray_unbounded hC hF hO hh1 (by simpa using hh3) ((flt_zero_iff ht (hS.cost h)).1 hh2) ?_ M
  intro i hi
  by_contra hc
  have hg := (fgt_zero_iff ht (hS.entry i h)).2 (not_le.1 hc)
  have := mem_ratios_of (tol := tol) hi hg
  rw [Unbounded.ratios_nil_of_findT_none htn] at this
  cases this

/-- tableaus the loop can visit from `T` (any entering rule at every step). -/
inductive Reach (tol : K) (prefer : List Nat) : Tab K → Tab K → Prop
  | refl (T : Tab K) : Reach tol prefer T T
  | head {T T' T'' : Tab K} {bland : Bool} {act : StepAction K} :
      stepInner tol T prefer bland = .ok (act, T') → Reach tol prefer T' T'' → Reach tol prefer T T''

/-- every tableau the loop can visit from `T` is separated by the tolerance ("the tolerance never decides"). -/
def SepAll (tol : K) (prefer : List Nat) (T : Tab K) : Prop := ∀ T', Reach tol prefer T T' → Sep tol T'

theorem SepAll.here {tol : K} {prefer : List Nat} {T : Tab K} (h : SepAll tol prefer T) : Sep tol T := h T (.refl T)

theorem SepAll.next {tol : K} {prefer : List Nat} {T T' : Tab K} {bland : Bool} {act : StepAction K}
    (h : SepAll tol prefer T) (hs : stepInner tol T prefer bland = .ok (act, T')) : SepAll tol prefer T' :=
  fun X hX => h X (.head hs hX)

/-- **along the whole loop at `tol > 0`**, when the tolerance never decides: feasibility is kept, `value` never
decreases, and everything `steps_preserve` says holds. -/
theorem solveLoop_feasible_sep {tol : K} (ht : 0 < tol) {prefer : List Nat} {stallLimit : Nat} {m n : Nat} :
    ∀ (fuel : Nat) (T : Tab K) (stalls : Nat) (last : K) (acc : List (Tab K × Nat × Nat × K)),
      Canon T m n → Feasible T → SepAll tol prefer T →
      Feasible (solveLoop tol prefer stallLimit fuel T stalls last acc).final ∧
      T.value ≤ (solveLoop tol prefer stallLimit fuel T stalls last acc).final.value ∧
      SepAll tol prefer (solveLoop tol prefer stallLimit fuel T stalls last acc).final
  | 0, T, stalls, last, acc, _, hF, hS => by simp [solveLoop, hF, hS]
  | fuel+1, T, stalls, last, acc, hC, hF, hS => by
    simp only [solveLoop]
    split
    · exact ⟨hF, le_refl _, hS⟩
    · exact ⟨hF, le_refl _, hS⟩
    · rename_i h t ratio T' hs
      obtain ⟨hC', -, -, hV⟩ := stepInner_preserves hC hs
      have hF' := stepInner_feasible_sep ht hC.rect hS.here hF hs
      have hS' := hS.next hs
      split
      · obtain ⟨f1, v1, s1⟩ := solveLoop_feasible_sep ht fuel T' (stalls+1) last ((T, h, t, ratio) :: acc) hC' hF' hS'
        exact ⟨f1, le_trans (hV hF) v1, s1⟩
      · obtain ⟨f1, v1, s1⟩ := solveLoop_feasible_sep ht fuel T' 0 T'.value ((T, h, t, ratio) :: acc) hC' hF' hS'
        exact ⟨f1, le_trans (hV hF) v1, s1⟩

end SepLoop
end Rooc
